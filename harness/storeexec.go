package main

import (
	"bufio"
	"context"
	"flag"
	"fmt"
	"math"
	"math/big"
	"os"
	"sort"
	"strconv"
	"strings"
	"time"

	"github.com/google/badwolf/bql/planner/filter"
	"github.com/google/badwolf/storage"
	"github.com/google/badwolf/storage/memory"
	"github.com/google/badwolf/triple"
	"github.com/google/badwolf/triple/literal"
	"github.com/google/badwolf/triple/node"
	"github.com/google/badwolf/triple/predicate"
)

// ---- decoding of protocol values back into real Go values (replay / shrinking) ----

func decNode(s string) (*node.Node, error) {
	f := strings.Split(s, ",")
	if len(f) != 3 || f[0] != "N" {
		return nil, fmt.Errorf("bad node %q", s)
	}
	ty, err := unhx(f[1])
	if err != nil {
		return nil, err
	}
	id, err := unhx(f[2])
	if err != nil {
		return nil, err
	}
	t, i := node.Type(ty), node.ID(id)
	return node.NewNode(&t, &i), nil
}

func decTime(nanos, off string) (time.Time, error) {
	v, ok := new(big.Int).SetString(nanos, 10)
	if !ok {
		return time.Time{}, fmt.Errorf("bad nanos %q", nanos)
	}
	sec, ns := new(big.Int), new(big.Int)
	sec.DivMod(v, big.NewInt(1000000000), ns) // Euclidean: 0 <= ns
	o, err := strconv.Atoi(off)
	if err != nil {
		return time.Time{}, err
	}
	loc := time.UTC
	if o != 0 {
		loc = time.FixedZone("", o)
	}
	return time.Unix(sec.Int64(), ns.Int64()).In(loc), nil
}

func decPred(s string) (*predicate.Predicate, error) {
	f := strings.Split(s, ",")
	switch {
	case len(f) == 2 && f[0] == "PI":
		id, err := unhx(f[1])
		if err != nil {
			return nil, err
		}
		return predicate.NewImmutable(id)
	case len(f) == 4 && f[0] == "PT":
		id, err := unhx(f[1])
		if err != nil {
			return nil, err
		}
		t, err := decTime(f[2], f[3])
		if err != nil {
			return nil, err
		}
		return predicate.NewTemporal(id, t)
	}
	return nil, fmt.Errorf("bad predicate %q", s)
}

func decObj(s string) (*triple.Object, error) {
	f := strings.Split(s, ",")
	b := literal.DefaultBuilder()
	switch f[0] {
	case "N":
		n, err := decNode(s)
		if err != nil {
			return nil, err
		}
		return triple.NewNodeObject(n), nil
	case "PI", "PT":
		p, err := decPred(s)
		if err != nil {
			return nil, err
		}
		return triple.NewPredicateObject(p), nil
	case "LB":
		l, err := b.Build(literal.Bool, f[1] == "1")
		return triple.NewLiteralObject(l), err
	case "LI":
		i, err := strconv.ParseInt(f[1], 10, 64)
		if err != nil {
			return nil, err
		}
		l, err := b.Build(literal.Int64, i)
		return triple.NewLiteralObject(l), err
	case "LF":
		u, err := strconv.ParseUint(f[1], 10, 64)
		if err != nil {
			return nil, err
		}
		l, err := b.Build(literal.Float64, math.Float64frombits(u))
		return triple.NewLiteralObject(l), err
	case "LT":
		t, err := unhx(f[1])
		if err != nil {
			return nil, err
		}
		l, err := b.Build(literal.Text, t)
		return triple.NewLiteralObject(l), err
	case "LX":
		t, err := unhx(f[1])
		if err != nil {
			return nil, err
		}
		l, err := b.Build(literal.Blob, []byte(t))
		return triple.NewLiteralObject(l), err
	}
	return nil, fmt.Errorf("bad object %q", s)
}

func decLo(s string) (*storage.LookupOptions, error) {
	f := strings.Split(s, ",")
	if len(f) != 7 {
		return nil, fmt.Errorf("bad options %q", s)
	}
	lo := &storage.LookupOptions{}
	var err error
	if lo.MaxElements, err = strconv.Atoi(f[0]); err != nil {
		return nil, err
	}
	if lo.Offset, err = strconv.Atoi(f[1]); err != nil {
		return nil, err
	}
	if f[2] != "-" {
		t, err := decTime(f[2], "0")
		if err != nil {
			return nil, err
		}
		lo.LowerAnchor = &t
	}
	if f[3] != "-" {
		t, err := decTime(f[3], "0")
		if err != nil {
			return nil, err
		}
		lo.UpperAnchor = &t
	}
	lo.LatestAnchor = f[4] == "1"
	fop, _ := strconv.Atoi(f[5])
	ff, _ := strconv.Atoi(f[6])
	if fop != 0 {
		op := filter.Operation(fop)
		if fop > 3 {
			op = filter.Operation(9)
		}
		lo.FilterOptions = &filter.StorageOptions{Operation: op, Field: filter.Field(ff)}
	}
	return lo, nil
}

// cmdStoreExec executes protocol lines (as written by `bwh store`) against the real store.
func cmdStoreExec(args []string) error {
	fs := flag.NewFlagSet("storeexec", flag.ContinueOnError)
	opsPath := fs.String("ops", "", "protocol lines in")
	implPath := fs.String("impl", "", "implementation answers out")
	if err := fs.Parse(args); err != nil {
		return err
	}
	in, err := os.Open(*opsPath)
	if err != nil {
		return err
	}
	defer in.Close()
	fo, w := mustCreate(*implPath)
	defer fo.Close()
	defer w.Flush()
	ctx := context.Background()
	store := memory.NewStore()
	uni := map[int]*triple.Triple{}
	sc := bufio.NewScanner(in)
	sc.Buffer(make([]byte, 1<<20), 1<<26)
	g := &storeGen{store: store, hist: map[string]int{}}
	for sc.Scan() {
		line := sc.Text()
		if strings.HasPrefix(line, "#") {
			fmt.Fprintln(w, line)
			continue
		}
		f := strings.Fields(line)
		if len(f) == 0 {
			fmt.Fprintln(w, "")
			continue
		}
		ans := "bad-op"
		func() {
			defer func() {
				if e := recover(); e != nil {
					ans = "panic"
				}
			}()
			switch f[0] {
			case "reset":
				store = memory.NewStore()
				uni = map[int]*triple.Triple{}
				ans = "ok"
			case "T":
				id, _ := strconv.Atoi(f[1])
				s, e1 := decNode(f[2])
				p, e2 := decPred(f[3])
				o, e3 := decObj(f[4])
				if e1 != nil || e2 != nil || e3 != nil {
					return
				}
				t, err := triple.New(s, p, o)
				if err != nil {
					return
				}
				uni[id] = t
				if safeUUID(t) {
					ans = "T ok"
				} else {
					ans = "T panic"
				}
			case "new":
				n, _ := unhx(f[1])
				_, err := store.NewGraph(ctx, n)
				ans = okErr(err)
			case "get":
				n, _ := unhx(f[1])
				_, err := store.Graph(ctx, n)
				ans = okErr(err)
			case "del":
				n, _ := unhx(f[1])
				ans = okErr(store.DeleteGraph(ctx, n))
			case "names":
				ch := make(chan string, 1024)
				if err := store.GraphNames(ctx, ch); err != nil {
					ans = "err"
					return
				}
				var ns []string
				for n := range ch {
					ns = append(ns, hx(n))
				}
				sort.Strings(ns)
				ans = "names " + strings.Join(ns, ",")
			case "add", "rem":
				n, _ := unhx(f[1])
				var ts []*triple.Triple
				if f[2] != "-" {
					for _, x := range strings.Split(f[2], ",") {
						id, _ := strconv.Atoi(x)
						ts = append(ts, uni[id])
					}
				}
				gr, err := store.Graph(ctx, n)
				if err != nil {
					ans = "err"
					return
				}
				if f[0] == "add" {
					ans = okErr(gr.AddTriples(ctx, ts))
				} else {
					ans = okErr(gr.RemoveTriples(ctx, ts))
				}
			case "exist":
				n, _ := unhx(f[1])
				id, _ := strconv.Atoi(f[2])
				gr, err := store.Graph(ctx, n)
				if err != nil {
					ans = "err"
					return
				}
				b, err := gr.Exist(ctx, uni[id])
				if err != nil {
					ans = "err"
				} else {
					ans = fmt.Sprint(b)
				}
			case "D":
				ans = dumpStore(store)
			case "X":
				text := ""
				cfg := runCfg{chanSize: 1, bulkSize: 1}
				for _, w := range f[1:] {
					if strings.HasPrefix(w, "text=") {
						text, _ = unhx(strings.TrimPrefix(w, "text="))
					}
					if strings.HasPrefix(w, "cfg=") {
						cfg = parseCfg(strings.TrimPrefix(w, "cfg="))
					}
				}
				res, _ := runWithCfg(store, text, cfg)
				ans = res.cls
			case "Q":
				text := ""
				cfg := runCfg{chanSize: 1, bulkSize: 1}
				for _, w := range f[1:] {
					if strings.HasPrefix(w, "text=") {
						text, _ = unhx(strings.TrimPrefix(w, "text="))
					}
					if strings.HasPrefix(w, "cfg=") {
						cfg = parseCfg(strings.TrimPrefix(w, "cfg="))
					}
				}
				res, _ := runWithCfg(store, text, cfg)
				ans = res.cls
				if res.cls == "ok" {
					ans = res.text
				}
			case "look":
				n, _ := unhx(f[1])
				var s *node.Node
				var p *predicate.Predicate
				var o *triple.Object
				var err error
				if f[3] != "-" {
					if s, err = decNode(f[3]); err != nil {
						return
					}
				}
				if f[4] != "-" {
					if p, err = decPred(f[4]); err != nil {
						return
					}
				}
				if f[6] != "-" {
					if o, err = decObj(f[6]); err != nil {
						return
					}
				}
				lo, err := decLo(f[7])
				if err != nil {
					return
				}
				gr, err := store.Graph(ctx, n)
				if err != nil {
					ans = "err"
					return
				}
				before := *lo
				ans = runLookup(gr, f[2], s, p, o, lo)
				if before != *lo {
					ans += " lo-mutated"
				}
			}
		}()
		fmt.Fprintln(w, ans)
	}
	_ = g
	return sc.Err()
}

func init() { register("storeexec", cmdStoreExec) }
