// Command bwh is the Go side of the badwolf verification harness: translators
// (source/grammar facts -> Lean data) and correspondence drivers that run the
// real implementation and print canonical observation lines.
package main

import (
	"fmt"
	"os"
)

type cmdFn func(args []string) error

var commands = map[string]cmdFn{}

func register(name string, f cmdFn) { commands[name] = f }

func main() {
	if len(os.Args) < 2 {
		fmt.Fprintln(os.Stderr, "usage: bwh <command> [args]")
		for k := range commands {
			fmt.Fprintln(os.Stderr, "  ", k)
		}
		os.Exit(2)
	}
	f, ok := commands[os.Args[1]]
	if !ok {
		fmt.Fprintf(os.Stderr, "unknown command %q\n", os.Args[1])
		os.Exit(2)
	}
	if err := f(os.Args[2:]); err != nil {
		fmt.Fprintf(os.Stderr, "bwh %s: %v\n", os.Args[1], err)
		os.Exit(3)
	}
}
