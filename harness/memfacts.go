package main

import (
	"fmt"
	"go/ast"
	"go/parser"
	"go/token"
	"os"
	"path/filepath"
	"sort"
	"strings"
)

// memfacts: go/ast extraction of structural facts about storage/memory/memory.go —
// which indexes AddTriples writes, RemoveTriples deletes from, each look-up reads (and under which
// key), whether the query predicate reaches the checker and the filters, and the lock / close
// discipline of every method. Output: BW/Generated/MemoryFacts.lean.

var repoRoot = func() string {
	if v := os.Getenv("VERIF_REPO"); v != "" {
		return v
	}
	return "/repo"
}()

var goToModelMethod = map[string]string{
	"Objects": "objects", "Subjects": "subjects", "PredicatesForSubjectAndObject": "predsForSO",
	"PredicatesForSubject": "predsForS", "PredicatesForObject": "predsForO", "TriplesForSubject": "triplesForS",
	"TriplesForPredicate": "triplesForP", "TriplesForObject": "triplesForO",
	"TriplesForSubjectAndPredicate": "triplesForSP", "TriplesForPredicateAndObject": "triplesForPO", "Triples": "triples",
}

var modelMethodOrder = []string{"objects", "subjects", "predsForSO", "predsForS", "predsForO", "triplesForS",
	"triplesForP", "triplesForO", "triplesForSP", "triplesForPO", "triples"}

var idxNames = map[string]string{"idxS": "S", "idxP": "P", "idxO": "O", "idxSP": "SP", "idxPO": "PO", "idxSO": "SO"}

type touch struct {
	idx   string
	parts []string
}

func (t touch) lean() string {
	var ps []string
	for _, p := range t.parts {
		ps = append(ps, "."+p)
	}
	return fmt.Sprintf("⟨.%s, [%s]⟩", t.idx, strings.Join(ps, ", "))
}

type methFacts struct {
	read       *touch // nil: master
	readMaster bool
	usesPred   bool
	filterPred bool
	// lock discipline (C07)
	locks       []string // sequence of lock-ish events in source order
	deferClose  int
	nilChanTest bool
	writesLo    bool
}

type memExtract struct {
	fset      *token.FileSet
	addT      []touch
	remT      []touch
	addMaster bool
	remMaster bool
	meth      map[string]*methFacts
	// per-function lock facts for every method of *memory and *memoryStore
	lockFacts map[string][]string
}

// selName returns "m.idxS" style dotted names for selector chains of identifiers.
func selName(e ast.Expr) string {
	switch x := e.(type) {
	case *ast.Ident:
		return x.Name
	case *ast.SelectorExpr:
		return selName(x.X) + "." + x.Sel.Name
	case *ast.ParenExpr:
		return selName(x.X)
	}
	return "?"
}

// partOfUUIDCall classifies `UUIDToByteString(<expr>)` arguments: which component's UUID it is.
func partOfUUIDExpr(e ast.Expr, paramTypes map[string]string) (string, error) {
	call, ok := e.(*ast.CallExpr)
	if !ok {
		return "", fmt.Errorf("not a call: %T", e)
	}
	sel, ok := call.Fun.(*ast.SelectorExpr)
	if !ok {
		return "", fmt.Errorf("unexpected UUID expression")
	}
	final := sel.Sel.Name // UUID or PartialUUID
	// walk the receiver chain
	recv := sel.X
	chain := []string{}
	for {
		if c, ok := recv.(*ast.CallExpr); ok {
			if s, ok := c.Fun.(*ast.SelectorExpr); ok {
				chain = append(chain, s.Sel.Name)
				recv = s.X
				continue
			}
		}
		break
	}
	base := selName(recv)
	kind := ""
	if len(chain) > 0 {
		switch chain[len(chain)-1] {
		case "Subject":
			kind = "node"
		case "Predicate":
			kind = "predicate"
		case "Object":
			kind = "object"
		default:
			return "", fmt.Errorf("unknown accessor %s", chain[len(chain)-1])
		}
	} else {
		kind = paramTypes[base]
	}
	switch {
	case kind == "node" && final == "UUID":
		return "s", nil
	case kind == "predicate" && final == "PartialUUID":
		return "p", nil
	case kind == "predicate" && final == "UUID":
		return "", fmt.Errorf("index keyed by the full predicate UUID: not a key shape the model knows")
	case kind == "object" && final == "UUID":
		return "o", nil
	case kind == "triple" && final == "UUID":
		return "T", nil
	}
	return "", fmt.Errorf("cannot classify %s.%s (kind %q)", base, final, kind)
}

func typeKind(e ast.Expr) string {
	s := selName(stripStar(e))
	switch s {
	case "node.Node":
		return "node"
	case "predicate.Predicate":
		return "predicate"
	case "triple.Object":
		return "object"
	case "triple.Triple":
		return "triple"
	}
	return ""
}

func stripStar(e ast.Expr) ast.Expr {
	if s, ok := e.(*ast.StarExpr); ok {
		return s.X
	}
	return e
}

type env map[string][]string

func (ev env) eval(e ast.Expr, paramTypes map[string]string) ([]string, error) {
	switch x := e.(type) {
	case *ast.Ident:
		v, ok := ev[x.Name]
		if !ok {
			return nil, fmt.Errorf("unknown key variable %s", x.Name)
		}
		return v, nil
	case *ast.BinaryExpr:
		if x.Op != token.ADD {
			return nil, fmt.Errorf("unexpected operator in key")
		}
		l, err := ev.eval(x.X, paramTypes)
		if err != nil {
			return nil, err
		}
		r, err := ev.eval(x.Y, paramTypes)
		if err != nil {
			return nil, err
		}
		return append(append([]string{}, l...), r...), nil
	case *ast.CallExpr:
		if selName(x.Fun) == "UUIDToByteString" && len(x.Args) == 1 {
			p, err := partOfUUIDExpr(x.Args[0], paramTypes)
			if err != nil {
				return nil, err
			}
			return []string{p}, nil
		}
	case *ast.ParenExpr:
		return ev.eval(x.X, paramTypes)
	}
	return nil, fmt.Errorf("cannot interpret key expression %T", e)
}

func paramKinds(fd *ast.FuncDecl, rangeVar map[string]string) map[string]string {
	pt := map[string]string{}
	for _, f := range fd.Type.Params.List {
		k := typeKind(f.Type)
		for _, n := range f.Names {
			if k != "" {
				pt[n.Name] = k
			}
		}
	}
	for k, v := range rangeVar {
		pt[k] = v
	}
	return pt
}

// walkAssign records `x := expr` / `x = expr` bindings of key variables in source order and calls
// visit on every statement so that index accesses are interpreted under the bindings in force.
func (m *memExtract) scanBody(fd *ast.FuncDecl, onStmt func(n ast.Node, ev env, pt map[string]string) error) error {
	ev := env{}
	pt := paramKinds(fd, nil)
	var err error
	ast.Inspect(fd.Body, func(n ast.Node) bool {
		if err != nil {
			return false
		}
		switch x := n.(type) {
		case *ast.RangeStmt:
			// `for _, t := range ts` over []*triple.Triple
			if id, ok := x.Value.(*ast.Ident); ok {
				pt[id.Name] = "triple"
			}
		case *ast.AssignStmt:
			if len(x.Lhs) == 1 && len(x.Rhs) == 1 {
				if id, ok := x.Lhs[0].(*ast.Ident); ok {
					if v, e := ev.eval(x.Rhs[0], pt); e == nil {
						ev[id.Name] = v
					}
				}
			}
		}
		if e := onStmt(n, ev, pt); e != nil {
			err = e
			return false
		}
		return true
	})
	return err
}

// indexAccess interprets `m.idxX[K]` (secondary) — returns the touch — or `m.idx` (master).
func indexTouch(e ast.Expr, ev env, pt map[string]string) (*touch, bool, error) {
	switch x := e.(type) {
	case *ast.IndexExpr:
		name := selName(x.X)
		if !strings.HasPrefix(name, "m.idx") {
			return nil, false, nil
		}
		f := strings.TrimPrefix(name, "m.")
		if f == "idx" {
			return nil, true, nil
		}
		idx, ok := idxNames[f]
		if !ok {
			return nil, false, fmt.Errorf("unknown index field %s", f)
		}
		parts, err := ev.eval(x.Index, pt)
		if err != nil {
			return nil, false, fmt.Errorf("index %s: %v", f, err)
		}
		return &touch{idx: idx, parts: parts}, false, nil
	case *ast.SelectorExpr:
		if selName(x) == "m.idx" {
			return nil, true, nil
		}
	}
	return nil, false, nil
}

func (m *memExtract) extractAdd(fd *ast.FuncDecl) error {
	return m.scanBody(fd, func(n ast.Node, ev env, pt map[string]string) error {
		as, ok := n.(*ast.AssignStmt)
		if !ok || len(as.Lhs) != 1 {
			return nil
		}
		// m.idxX[K][tuuid] = t   or   m.idx[tuuid] = t
		outer, ok := as.Lhs[0].(*ast.IndexExpr)
		if !ok {
			return nil
		}
		if selName(outer.X) == "m.idx" {
			k, err := ev.eval(outer.Index, pt)
			if err != nil || len(k) != 1 || k[0] != "T" {
				return fmt.Errorf("AddTriples: master index not keyed by the triple UUID")
			}
			m.addMaster = true
			return nil
		}
		inner, ok := outer.X.(*ast.IndexExpr)
		if !ok {
			return nil
		}
		tc, _, err := indexTouch(inner, ev, pt)
		if err != nil {
			return err
		}
		if tc == nil {
			return nil
		}
		k, err := ev.eval(outer.Index, pt)
		if err != nil || len(k) != 1 || k[0] != "T" {
			return fmt.Errorf("AddTriples: bucket of %s not keyed by the triple UUID", tc.idx)
		}
		m.addT = append(m.addT, *tc)
		return nil
	})
}

func (m *memExtract) extractRem(fd *ast.FuncDecl) error {
	return m.scanBody(fd, func(n ast.Node, ev env, pt map[string]string) error {
		call, ok := n.(*ast.CallExpr)
		if !ok || selName(call.Fun) != "delete" || len(call.Args) != 2 {
			return nil
		}
		k, kerr := ev.eval(call.Args[1], pt)
		if selName(call.Args[0]) == "m.idx" {
			if kerr != nil || len(k) != 1 || k[0] != "T" {
				return fmt.Errorf("RemoveTriples: master index not deleted by the triple UUID")
			}
			m.remMaster = true
			return nil
		}
		ie, ok := call.Args[0].(*ast.IndexExpr)
		if !ok {
			return nil // delete(m.idxSP, key): pruning of an empty bucket, not observable
		}
		tc, _, err := indexTouch(ie, ev, pt)
		if err != nil {
			return err
		}
		if tc == nil {
			return nil
		}
		if kerr != nil || len(k) != 1 || k[0] != "T" {
			return fmt.Errorf("RemoveTriples: bucket of %s not deleted by the triple UUID", tc.idx)
		}
		m.remT = append(m.remT, *tc)
		return nil
	})
}

func (m *memExtract) extractLookup(fd *ast.FuncDecl, name string) error {
	mf := &methFacts{}
	m.meth[name] = mf
	predParam := ""
	for _, f := range fd.Type.Params.List {
		if typeKind(f.Type) == "predicate" {
			for _, n := range f.Names {
				predParam = n.Name
			}
		}
	}
	found := false
	err := m.scanBody(fd, func(n ast.Node, ev env, pt map[string]string) error {
		call, ok := n.(*ast.CallExpr)
		if !ok {
			return nil
		}
		switch selName(call.Fun) {
		case "applyGlobalTimeBounds":
			if len(call.Args) != 2 {
				return fmt.Errorf("%s: unexpected applyGlobalTimeBounds arity", name)
			}
			tc, master, err := indexTouch(call.Args[0], ev, pt)
			if err != nil {
				return fmt.Errorf("%s: %v", name, err)
			}
			if tc == nil && !master {
				return fmt.Errorf("%s: look-up does not read an index the model knows", name)
			}
			if found {
				return fmt.Errorf("%s: reads more than one bucket", name)
			}
			found = true
			mf.read, mf.readMaster = tc, master
		case "newChecker":
			if len(call.Args) == 2 {
				a := selName(call.Args[1])
				mf.usesPred = predParam != "" && a == predParam
				if a != "nil" && a != predParam {
					return fmt.Errorf("%s: checker receives %s", name, a)
				}
			}
		case "executeFilter":
			if len(call.Args) == 3 {
				a := selName(call.Args[1])
				mf.filterPred = predParam != "" && a == predParam
				if a != "nil" && a != predParam {
					return fmt.Errorf("%s: filter receives %s", name, a)
				}
			}
		}
		return nil
	})
	if err != nil {
		return err
	}
	if !found {
		return fmt.Errorf("%s: no bucket selection (applyGlobalTimeBounds(m.idx…)) found", name)
	}
	return nil
}

func extractMemory() (*memExtract, error) {
	path := filepath.Join(repoRoot, "storage", "memory", "memory.go")
	fset := token.NewFileSet()
	f, err := parser.ParseFile(fset, path, nil, 0)
	if err != nil {
		return nil, err
	}
	m := &memExtract{fset: fset, meth: map[string]*methFacts{}, lockFacts: map[string][]string{}}
	seen := map[string]bool{}
	for _, d := range f.Decls {
		fd, ok := d.(*ast.FuncDecl)
		if !ok || fd.Recv == nil || len(fd.Recv.List) != 1 || fd.Body == nil {
			continue
		}
		recv := selName(stripStar(fd.Recv.List[0].Type))
		if recv != "memory" {
			continue
		}
		switch fd.Name.Name {
		case "AddTriples":
			if err := m.extractAdd(fd); err != nil {
				return nil, err
			}
			seen["AddTriples"] = true
		case "RemoveTriples":
			if err := m.extractRem(fd); err != nil {
				return nil, err
			}
			seen["RemoveTriples"] = true
		default:
			if mm, ok := goToModelMethod[fd.Name.Name]; ok {
				if err := m.extractLookup(fd, mm); err != nil {
					return nil, err
				}
				seen[mm] = true
			}
		}
	}
	for _, want := range append([]string{"AddTriples", "RemoveTriples"}, modelMethodOrder...) {
		if !seen[want] {
			return nil, fmt.Errorf("method %s of *memory not found", want)
		}
	}
	return m, nil
}

func cmdMemfacts(args []string) error {
	if len(args) != 1 {
		return fmt.Errorf("usage: memfacts <out.lean>")
	}
	m, err := extractMemory()
	if err != nil {
		return err
	}
	var b strings.Builder
	b.WriteString("-- GENERATED by `bwh memfacts` from /repo/storage/memory/memory.go (go/ast). Do not edit.\n")
	b.WriteString("import BW.Model.Store\n\nnamespace BW.Generated\nopen BW.Model\n\n")
	list := func(ts []touch) string {
		var xs []string
		for _, t := range ts {
			xs = append(xs, t.lean())
		}
		return "[" + strings.Join(xs, ", ") + "]"
	}
	b.WriteString("def memoryFacts : Facts where\n")
	fmt.Fprintf(&b, "  addT := %s\n", list(m.addT))
	fmt.Fprintf(&b, "  remT := %s\n", list(m.remT))
	b.WriteString("  read := fun\n")
	for _, mm := range modelMethodOrder {
		mf := m.meth[mm]
		if mf.readMaster {
			fmt.Fprintf(&b, "    | .%s => none\n", mm)
		} else {
			fmt.Fprintf(&b, "    | .%s => some %s\n", mm, mf.read.lean())
		}
	}
	boolFun := func(name string, get func(*methFacts) bool) {
		var yes []string
		for _, mm := range modelMethodOrder {
			if get(m.meth[mm]) {
				yes = append(yes, "."+mm)
			}
		}
		sort.Strings(yes)
		fmt.Fprintf(&b, "  %s := fun\n", name)
		if len(yes) > 0 {
			fmt.Fprintf(&b, "    | %s => true\n", strings.Join(yes, " | "))
		}
		if len(yes) < len(modelMethodOrder) {
			b.WriteString("    | _ => false\n")
		}
	}
	boolFun("usesPred", func(f *methFacts) bool { return f.usesPred })
	boolFun("filterPred", func(f *methFacts) bool { return f.filterPred })
	fmt.Fprintf(&b, "  addMaster := %v\n  remMaster := %v\n", m.addMaster, m.remMaster)
	b.WriteString("\nend BW.Generated\n")
	return os.WriteFile(args[0], []byte(b.String()), 0o644)
}

func init() { register("memfacts", cmdMemfacts) }
