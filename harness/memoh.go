package main

// C19: the memoizing store against the store it wraps.
//  S lines: histories of reads (every method, every option incl. paging) and writes through several
//           handles of one graph, in lockstep with the wrapped store; some wrapped reads are failed.
//  I lines: one writer and one or two readers interleaved at the memoizer's internal steps (the
//           verif yield points), every schedule enumerated; what each read saw (the state before or
//           after the update) is compared with the Lean small-step model.

import (
	"context"
	"flag"
	"fmt"
	"os"
	"sort"
	"strings"
	"time"

	"github.com/google/badwolf/storage"
	"github.com/google/badwolf/storage/memoization"
	"github.com/google/badwolf/storage/memory"
	"github.com/google/badwolf/triple"
	"github.com/google/badwolf/triple/node"
	"github.com/google/badwolf/triple/predicate"
)

func memoSequential(r *rng, g *storeGen, n int, hist map[string]int) {
	ctx := context.Background()
	for sc := 0; sc < n; sc++ {
		inner := memory.NewStore()
		ctl := &faultCtl{failAt: -1}
		memo := memoization.New(&faultStore{inner, ctl})
		g.comment(fmt.Sprintf("memo scenario %d", sc))
		g.reset()
		g.store = inner
		g.pickUniverse(8+r.intn(12), false)
		name := "?g"
		created, err := memo.NewGraph(ctx, name)
		if err != nil {
			continue
		}
		plain, _ := inner.Graph(ctx, name)
		// the handle NewGraph returned and handles obtained later are handles of one graph
		hs := []storage.Graph{created}
		for i := 0; i < 1+r.intn(3); i++ {
			h, err := memo.Graph(ctx, name)
			if err != nil {
				break
			}
			hs = append(hs, h)
		}
		nodes, preds, objs := uniNodes(), uniPreds(), uniObjects(false)
		var recent []recentRead
		for k := 0; k < 25+r.intn(25); k++ {
			h := hs[r.intn(len(hs))]
			switch x := r.intn(10); {
			case x < 3:
				ids := g.batch(4)
				ts := g.triples(ids)
				op := "add"
				w := h.AddTriples
				if !r.chance(2, 3) {
					op = "rem"
					w = h.RemoveTriples
				}
				hist[op]++
				g.guardedWrite(fmt.Sprintf("S %s %s", op, joinInts(ids)), func() error { return w(ctx, ts) })
			case x < 4 && r.chance(1, 3):
				// windows that end just before, at, and just after the anchor of a stored triple, one look-up after the
				// other with no write in between: options that differ by a nanosecond are different options
				var tmp []int
				for _, id := range g.okIDs() {
					if g.uni[id].Predicate().Type() == predicate.Temporal {
						tmp = append(tmp, id)
					}
				}
				if len(tmp) == 0 {
					continue
				}
				tid := tmp[r.intn(len(tmp))]
				t := g.uni[tid]
				hist["add"]++
				g.guardedWrite(fmt.Sprintf("S add %d", tid), func() error { return h.AddTriples(ctx, []*triple.Triple{t}) })
				a, _ := t.Predicate().TimeAnchor()
				m := []string{"triples", "triplesForS", "triplesForO", "objects", "predsForS"}[r.intn(5)]
				needS, needP, needO := methodNeeds(m)
				var s *node.Node
				var p *predicate.Predicate
				var o *triple.Object
				if needS {
					s = t.Subject()
				}
				if needP {
					p = t.Predicate()
				}
				if needO {
					o = t.Object()
				}
				// … and two instants whose clocks read alike in zones one and two seconds east of Greenwich (a zone offset
				// is printed to the minute: the bound is the instant, not its printed form)
				la := a.UTC().Add(1500 * time.Millisecond)
				east := func(sec int) time.Time {
					return time.Date(la.Year(), la.Month(), la.Day(), la.Hour(), la.Minute(), la.Second(), la.Nanosecond(), time.FixedZone("", sec))
				}
				bounds := []time.Time{a.Add(0), a.Add(1), a.Add(-1), a.Add(400 * time.Millisecond), a.Add(-400 * time.Millisecond), a.Add(0), east(2), east(1), east(2)}
				for _, b := range bounds {
					b := b
					lo := &storage.LookupOptions{}
					if r.chance(1, 2) {
						lo.LowerAnchor = &b
					} else {
						lo.UpperAnchor = &b
					}
					x, y := runLookup(h, m, s, p, o, lo), runLookup(plain, m, s, p, o, lo)
					hist["window-pair"]++
					ans := "same"
					if x != y {
						ans = fmt.Sprintf("differs memo=%s plain=%s", x, y)
					}
					g.emit(fmt.Sprintf("S look %s lo=%s", m, encLo(lo)), ans)
				}
			case x < 5 && r.chance(1, 3):
				// a wrapped look-up that fails after it delivered one of several results, then the same look-up again: for
				// every method, over triples that share subject, predicate and object pairwise (several results each)
				var dense []int
				for _, sn := range []string{"fa", "fb", "fc"} {
					for _, on := range []string{"fx", "fy"} {
						t, _ := triple.New(mustNode("/u", sn), mustImm("fp"), triple.NewNodeObject(mustNode("/u", on)))
						u, _ := triple.New(mustNode("/u", sn), mustImm("fq"), triple.NewNodeObject(mustNode("/u", on)))
						dense = append(dense, g.define(t), g.define(u))
					}
				}
				hist["add"]++
				g.guardedWrite(fmt.Sprintf("S add %s", joinInts(dense)), func() error { return h.AddTriples(ctx, g.triples(dense)) })
				t0d := g.uni[dense[0]]
				for _, m := range allMethods {
					needS, needP, needO := methodNeeds(m)
					var s *node.Node
					var p *predicate.Predicate
					var o *triple.Object
					if needS {
						s = t0d.Subject()
					}
					if needP {
						p = t0d.Predicate()
					}
					if needO {
						o = t0d.Object()
					}
					lo := &storage.LookupOptions{}
					ctl.mu.Lock()
					ctl.failAt, ctl.after = ctl.n, 1
					ctl.mu.Unlock()
					a1 := runLookup(h, m, s, p, o, lo)
					ctl.mu.Lock()
					fired := ctl.fired != ""
					ctl.failAt, ctl.fired = -1, ""
					ctl.mu.Unlock()
					ans := "same"
					if fired && !strings.HasPrefix(a1, "err") {
						ans = "differs: the wrapped lookup failed and the memoizer answered " + a1
					}
					g.emit(fmt.Sprintf("S look %s lo=%s", m, encLo(lo)), ans)
					a2, b2 := runLookup(h, m, s, p, o, lo), runLookup(plain, m, s, p, o, lo)
					hist["read-after-failed-read"]++
					ans2 := "same"
					if a2 != b2 {
						ans2 = fmt.Sprintf("differs memo=%s plain=%s", a2, b2)
					}
					g.emit(fmt.Sprintf("S look %s lo=%s", m, encLo(lo)), ans2)
				}
			case x < 4:
				id := g.okIDs()[r.intn(len(g.okIDs()))]
				a, e1 := h.Exist(ctx, g.uni[id])
				b, e2 := plain.Exist(ctx, g.uni[id])
				hist["exist"]++
				ans := "same"
				if a != b || (e1 == nil) != (e2 == nil) {
					ans = fmt.Sprintf("differs memo=%v plain=%v", a, b)
				}
				g.emit(fmt.Sprintf("S exist %d", id), ans)
			default:
				m := allMethods[r.intn(len(allMethods))]
				needS, needP, needO := methodNeeds(m)
				var s *node.Node
				var p *predicate.Predicate
				var o *triple.Object
				// arguments mostly from stored triples so that answers are non-empty
				if ids := g.okIDs(); len(ids) > 0 && r.chance(3, 4) {
					t := g.uni[ids[r.intn(len(ids))]]
					s, p, o = t.Subject(), t.Predicate(), t.Object()
				} else {
					s, p, o = nodes[r.intn(len(nodes))], preds[r.intn(len(preds))], objs[r.intn(len(objs))]
				}
				if !needS {
					s = nil
				}
				if !needP {
					p = nil
				}
				if !needO {
					o = nil
				}
				lo := storage.DefaultLookup
				if r.chance(2, 3) {
					lo = g.randLo()
					if lo.MaxElements < 0 || lo.Offset < 0 {
						lo.MaxElements, lo.Offset = 2, r.intn(3)
					}
				}
				// what memoization is about: the same lookup again (through whichever handle), or its next page
				if len(recent) > 0 && r.chance(2, 5) {
					rc := recent[r.intn(len(recent))]
					m, s, p, o = rc.m, rc.s, rc.p, rc.o
					cp := *rc.lo
					lo = &cp
					if r.chance(1, 2) {
						if lo.MaxElements <= 0 {
							lo.MaxElements = 1 + r.intn(2)
						}
						lo.Offset = r.intn(3)
					}
				}
				// … or another look-up over the same values (a node as subject and as object, same options):
				// two methods must never share a memoized answer
				if len(recent) > 0 && r.chance(1, 4) {
					rc := recent[r.intn(len(recent))]
					m = allMethods[r.intn(len(allMethods))]
					// the look-ups that keep their answers in the same table, over the same number of values
					twins := map[string]string{"predsForS": "predsForO", "predsForO": "predsForS", "triplesForS": "triplesForO", "triplesForO": "triplesForS",
						"triplesForSP": "triplesForPO", "triplesForPO": "triplesForSP", "triplesForP": "triplesForS"}
					if tw, ok := twins[rc.m]; ok && r.chance(2, 3) {
						m = tw
					}
					needS, needP, needO = methodNeeds(m)
					s, p, o = rc.s, rc.p, rc.o
					if s == nil && rc.o != nil {
						if n, err := rc.o.Node(); err == nil {
							s = n
						}
					}
					if o == nil && rc.s != nil {
						o = triple.NewNodeObject(rc.s)
					}
					if s == nil {
						s = nodes[r.intn(len(nodes))]
					}
					if o == nil {
						o = objs[r.intn(len(objs))]
					}
					if p == nil {
						p = preds[r.intn(len(preds))]
					}
					if !needS {
						s = nil
					}
					if !needP {
						p = nil
					}
					if !needO {
						o = nil
					}
					cp := *rc.lo
					lo = &cp
				}
				// … or the same look-up with a sibling argument: a predicate with the same identifier and another
				// anchor (or none): an answer must never be replayed for an argument that differs in any component
				if len(recent) > 0 && r.chance(1, 5) {
					rc := recent[r.intn(len(recent))]
					if rc.p != nil {
						var sib []*predicate.Predicate
						for _, q := range preds {
							if q.ID() == rc.p.ID() && q.String() != rc.p.String() {
								sib = append(sib, q)
							}
						}
						if len(sib) > 0 {
							m, s, o = rc.m, rc.s, rc.o
							p = sib[r.intn(len(sib))]
							cp := *rc.lo
							lo = &cp
							hist["sibling-predicate"]++
						}
					} else if rc.o != nil {
						if op, err := rc.o.Predicate(); err == nil {
							var sib []*predicate.Predicate
							for _, q := range preds {
								if q.ID() == op.ID() && q.String() != op.String() {
									sib = append(sib, q)
								}
							}
							if len(sib) > 0 {
								m, s, p = rc.m, rc.s, rc.p
								o = triple.NewPredicateObject(sib[r.intn(len(sib))])
								cp := *rc.lo
								lo = &cp
								hist["sibling-object"]++
							}
						}
					}
				}
				// … or the same look-up with sibling OPTIONS: one field moved a little (a bound by a nanosecond, by half a
				// second, to the anchor of a stored predicate; the page by one; LatestAnchor flipped): an answer must never be
				// replayed for options that differ in any field
				if len(recent) > 0 && r.chance(1, 4) {
					rc := recent[r.intn(len(recent))]
					for k := 0; k < 6 && !rc.nonEmpty; k++ {
						rc = recent[r.intn(len(recent))] // an answer that was memoized, if there is one
					}
					m, s, p, o = rc.m, rc.s, rc.p, rc.o
					cp := *rc.lo
					lo = &cp
					move := func(t *time.Time) *time.Time {
						var base time.Time
						if t != nil {
							base = *t
						} else {
							ps := []*predicate.Predicate{}
							for _, q := range preds {
								if q.Type() == predicate.Temporal {
									ps = append(ps, q)
								}
							}
							if len(ps) == 0 {
								return nil
							}
							ta, _ := ps[r.intn(len(ps))].TimeAnchor()
							base = *ta
						}
						d := []time.Duration{1, -1, 500 * time.Millisecond, -500 * time.Millisecond, 0, time.Second}[r.intn(6)]
						nt := base.Add(d)
						return &nt
					}
					switch r.intn(5) {
					case 0:
						lo.LowerAnchor = move(lo.LowerAnchor)
					case 1:
						lo.UpperAnchor = move(lo.UpperAnchor)
					case 2:
						lo.MaxElements += 1
					case 3:
						lo.Offset += 1
					default:
						if lo.FilterOptions == nil {
							lo.LatestAnchor = !lo.LatestAnchor
						}
					}
					hist["sibling-options"]++
				}
				recent = append(recent, recentRead{m, s, p, o, lo, false})
				if len(recent) > 6 {
					recent = recent[1:]
				}
				faulted := r.chance(1, 15)
				if faulted {
					ctl.mu.Lock()
					ctl.failAt, ctl.after = ctl.n, 1
					ctl.mu.Unlock()
				}
				a := runLookup(h, m, s, p, o, lo)
				ctl.mu.Lock()
				fired := ctl.fired != ""
				ctl.failAt, ctl.fired = -1, ""
				ctl.mu.Unlock()
				b := runLookup(plain, m, s, p, o, lo)
				hist["read"]++
				ans := "same"
				switch {
				case fired:
					hist["read-faulted"]++
					if !strings.HasPrefix(a, "err") {
						ans = "differs: the wrapped lookup failed and the memoizer answered " + a
					}
				case a != b:
					ans = fmt.Sprintf("differs memo=%s plain=%s", a, b)
				}
				if strings.HasPrefix(b, "ok ") && len(b) > 3 {
					hist["read-nonempty"]++
					recent[len(recent)-1].nonEmpty = true
				}
				g.emit(fmt.Sprintf("S look %s lo=%s", m, encLo(lo)), ans)
				if fired {
					// the same look-up again, right after the failed one: what the failed call had delivered before it
					// failed is not an answer
					a2, b2 := runLookup(h, m, s, p, o, lo), runLookup(plain, m, s, p, o, lo)
					hist["read-after-failed-read"]++
					ans2 := "same"
					if a2 != b2 {
						ans2 = fmt.Sprintf("differs memo=%s plain=%s", a2, b2)
					}
					g.emit(fmt.Sprintf("S look %s lo=%s", m, encLo(lo)), ans2)
				}
				if r.chance(1, 12) {
					// a listing abandoned half way (its context cancelled after the first triple), then the same listing
					// with a live context: what the abandoned call had seen is not the answer
					cctx, cancel := context.WithCancel(ctx)
					ch := make(chan *triple.Triple)
					errc := make(chan error, 1)
					go func() { errc <- h.Triples(cctx, lo, ch) }()
					select {
					case <-ch:
					case <-time.After(2 * time.Second):
					}
					cancel()
					go func() {
						for range ch {
						}
					}()
					select {
					case <-errc:
					case <-time.After(5 * time.Second):
					}
					a3, b3 := runLookup(h, "triples", nil, nil, nil, lo), runLookup(plain, "triples", nil, nil, nil, lo)
					hist["read-after-abandoned-listing"]++
					ans3 := "same"
					if a3 != b3 {
						ans3 = fmt.Sprintf("differs memo=%s plain=%s", a3, b3)
					}
					g.emit(fmt.Sprintf("S look triples lo=%s", encLo(lo)), ans3)
				}
			}
		}
	}
}

// guardedWrite runs an update of a sequential scenario under a watchdog: an update that does not return (a look-up
// abandoned earlier still holds the graph's read lock) is the failure, and it ends the run.
func (g *storeGen) guardedWrite(op string, f func() error) {
	done := make(chan error, 1)
	go func() { done <- f() }()
	select {
	case err := <-done:
		g.emit(op, "same "+okErr(err))
	case <-time.After(20 * time.Second):
		g.emit(op, "differs: the update does not return (a look-up abandoned earlier still holds the graph's read lock)")
		g.ops.Flush()
		g.impl.Flush()
		os.Exit(0)
	}
}

type recentRead struct {
	m        string
	s        *node.Node
	p        *predicate.Predicate
	o        *triple.Object
	lo       *storage.LookupOptions
	nonEmpty bool // the look-up returned something (only such answers are memoized)
}

// ---- interleavings ----

type memoThread struct {
	kind   byte // 'W' or 'R'
	goCh   chan struct{}
	done   bool
	result string
}

type memoEvt struct {
	id   int
	done bool
}

// runInterleaving executes one schedule on the real memoizer. Threads: index 0.. ; each entry of sched lets
// that thread run to its next yield point (or to its end).
func runInterleaving(kinds string, sameKey bool, warm bool, remove bool, m string, sched []int) (reads []string, final string, ok bool) {
	ctx := context.Background()
	inner := memory.NewStore()
	memo := memoization.New(inner)
	gr, _ := memo.NewGraph(ctx, "?g")
	s1, s2 := mustNode("/u", "a"), mustNode("/u", "b")
	p := mustImm("p")
	oOld, oNew := triple.NewNodeObject(mustNode("/u", "old")), triple.NewNodeObject(mustNode("/u", "new"))
	var base []*triple.Triple
	for _, s := range []*node.Node{s1, s2} {
		t, _ := triple.New(s, p, oOld)
		base = append(base, t)
	}
	// the update: whatever the look-up, its answer for (s, p, oOld) is non-empty before and after and changes — a
	// new object under (s, p), a new predicate between s and oOld, a new subject for (p, oOld)
	var delta []*triple.Triple
	p2 := mustImm("p2")
	for _, s := range []*node.Node{s1, s2} {
		t, _ := triple.New(s, p, oNew)
		u, _ := triple.New(s, p2, oOld)
		delta = append(delta, t, u)
	}
	{
		t, _ := triple.New(mustNode("/u", "c"), p, oOld)
		delta = append(delta, t)
	}
	if remove {
		gr.AddTriples(ctx, append(append([]*triple.Triple{}, base...), delta...))
	} else {
		gr.AddTriples(ctx, base)
	}
	subjOf := func(reader int) *node.Node {
		if sameKey || reader == 0 {
			return s1
		}
		return s2
	}
	// every look-up method, with arguments under which the update changes its answer: what the look-up answers on a
	// plain graph before and after the update tells which state a reader saw
	needS, needP, needO := methodNeeds(m)
	look := func(h storage.Graph, s *node.Node) string {
		var as *node.Node
		var ap *predicate.Predicate
		var ao *triple.Object
		if needS {
			as = s
		}
		if needP {
			ap = p
		}
		if needO {
			ao = oOld
		}
		return runLookup(h, m, as, ap, ao, storage.DefaultLookup)
	}
	plainOf := func(ts []*triple.Triple) storage.Graph {
		pg, _ := memory.NewStore().NewGraph(ctx, "?p")
		pg.AddTriples(ctx, ts)
		return pg
	}
	withDelta := plainOf(append(append([]*triple.Triple{}, base...), delta...))
	withoutDelta := plainOf(base)
	after, before := withDelta, withoutDelta
	if remove {
		after, before = withoutDelta, withDelta
	}
	versionFor := func(s *node.Node) func(string) string {
		a, b := look(after, s), look(before, s)
		return func(res string) string {
			switch {
			case !strings.HasPrefix(res, "ok"):
				return "E"
			case res == a:
				return "1" // sees the update
			case res == b:
				return "0"
			}
			return "?"
		}
	}
	if warm {
		look(gr, s1)
		if !sameKey {
			look(gr, s2)
		}
	}
	threads := make([]*memoThread, len(kinds))
	evts := make(chan memoEvt)
	current := -1
	memoization.YieldHook = func(point string) {
		i := current
		evts <- memoEvt{id: i}
		<-threads[i].goCh
	}
	defer func() { memoization.YieldHook = nil }()
	readerNo := 0
	for i := range kinds {
		th := &memoThread{kind: kinds[i], goCh: make(chan struct{})}
		threads[i] = th
		rn := readerNo
		if kinds[i] == 'R' {
			readerNo++
		}
		go func(i int, th *memoThread) {
			<-th.goCh
			if th.kind == 'W' {
				// a fresh handle of the same graph: handles share the memoizer
				h, _ := memo.Graph(ctx, "?g")
				if remove {
					h.RemoveTriples(ctx, delta)
				} else {
					h.AddTriples(ctx, delta)
				}
				th.result = "w"
			} else {
				h, _ := memo.Graph(ctx, "?g")
				th.result = versionFor(subjOf(rn))(look(h, subjOf(rn)))
			}
			evts <- memoEvt{id: i, done: true}
		}(i, th)
	}
	for _, i := range sched {
		if i < 0 || i >= len(threads) || threads[i].done {
			continue
		}
		current = i
		threads[i].goCh <- struct{}{}
		select {
		case e := <-evts:
			if e.done {
				threads[e.id].done = true
			}
		case <-time.After(5 * time.Second):
			return nil, "", false
		}
	}
	// let whatever is still running finish, one thread at a time, in index order
	for i, th := range threads {
		for !th.done {
			current = i
			th.goCh <- struct{}{}
			select {
			case e := <-evts:
				if e.done {
					threads[e.id].done = true
				}
			case <-time.After(5 * time.Second):
				return nil, "", false
			}
		}
	}
	for _, th := range threads {
		if th.kind == 'R' {
			reads = append(reads, th.result)
		}
	}
	memoization.YieldHook = nil
	h, _ := memo.Graph(ctx, "?g")
	f1 := versionFor(s1)(look(h, s1))
	f2 := versionFor(s2)(look(h, s2))
	return reads, f1 + f2, true
}

func interleavings(counts []int) [][]int {
	var out [][]int
	var rec func(rem []int, cur []int)
	rec = func(rem []int, cur []int) {
		doneAll := true
		for i, c := range rem {
			if c > 0 {
				doneAll = false
				rem[i]--
				rec(rem, append(cur, i))
				rem[i]++
			}
		}
		if doneAll {
			out = append(out, append([]int{}, cur...))
		}
	}
	rec(append([]int{}, counts...), nil)
	return out
}

func memoInterleaved(r *rng, g *storeGen, sample int, hist map[string]int) {
	for _, kinds := range []string{"WR", "WRR", "WWR"} {
		counts := make([]int, len(kinds))
		for i := range kinds {
			counts[i] = 3
		}
		scheds := interleavings(counts)
		for _, sameKey := range []bool{true, false} {
			for _, warm := range []bool{false, true} {
				for _, remove := range []bool{false, true} {
					if kinds == "WWR" && remove {
						continue
					}
					picked := scheds
					if sample > 0 && len(scheds) > sample {
						picked = nil
						for i := 0; i < sample; i++ {
							picked = append(picked, scheds[r.intn(len(scheds))])
						}
					}
					for si, sc := range picked {
						m := allMethods[(si+len(kinds))%len(allMethods)]
						if needS, _, _ := methodNeeds(m); !needS && !sameKey {
							m = []string{"objects", "predsForSO", "predsForS", "triplesForS", "triplesForSP"}[si%5] // two keys need the subject in the key
						}
						reads, final, ok := runInterleaving(kinds, sameKey, warm, remove, m, sc)
						ans := "hang"
						if ok {
							ans = "r=" + strings.Join(reads, ",") + " final=" + final
						}
						b := func(x bool) int {
							if x {
								return 1
							}
							return 0
						}
						g.emit(fmt.Sprintf("I threads=%s same=%d warm=%d remove=%d m=%s sched=%s", kinds, b(sameKey), b(warm), b(remove), m, joinInts(sc)), ans)
						hist["interleaving"]++
					}
				}
			}
		}
	}
}

func cmdMemo(args []string) error {
	fs := flag.NewFlagSet("memo", flag.ContinueOnError)
	n := fs.Int("n", 100, "sequential scenarios")
	sample := fs.Int("sample", 150, "schedules per interleaving configuration (0 = all)")
	opsPath := fs.String("ops", "", "")
	implPath := fs.String("impl", "", "")
	only := fs.String("only", "", "one `I ...` line: run just that schedule")
	if err := fs.Parse(args); err != nil {
		return err
	}
	fo, wo := mustCreate(*opsPath)
	fi, wi := mustCreate(*implPath)
	defer fo.Close()
	defer fi.Close()
	r := newRng(envSeed()*2654435761 + 1919)
	g := &storeGen{r: r, ops: wo, impl: wi, hist: map[string]int{}}
	hist := map[string]int{}
	if *only != "" {
		kvs := map[string]string{}
		for _, w := range strings.Fields(*only) {
			if i := strings.Index(w, "="); i > 0 {
				kvs[w[:i]] = w[i+1:]
			}
		}
		var sc []int
		for _, x := range strings.Split(kvs["sched"], ",") {
			v := 0
			fmt.Sscanf(x, "%d", &v)
			sc = append(sc, v)
		}
		mm := kvs["m"]
		if mm == "" {
			mm = "objects"
		}
		reads, final, ok := runInterleaving(kvs["threads"], kvs["same"] == "1", kvs["warm"] == "1", kvs["remove"] == "1", mm, sc)
		ans := "hang"
		if ok {
			ans = "r=" + strings.Join(reads, ",") + " final=" + final
		}
		g.emit(*only, ans)
		wo.Flush()
		wi.Flush()
		return nil
	}
	memoSequential(r, g, *n, hist)
	memoInterleaved(r, g, *sample, hist)
	wo.Flush()
	wi.Flush()
	keys := make([]string, 0)
	for k := range hist {
		keys = append(keys, k)
	}
	sort.Strings(keys)
	for _, k := range keys {
		fmt.Printf("hist %s %d\n", k, hist[k])
	}
	return nil
}

func init() { register("memo", cmdMemo) }
