package main

import (
	"regexp"
	"strings"
	"time"

	"github.com/google/badwolf/bql/lexer"
	"github.com/google/badwolf/triple"
	"github.com/google/badwolf/triple/literal"
	"github.com/google/badwolf/triple/node"
	"github.com/google/badwolf/triple/predicate"
)

// The two regular expressions of bql/semantic/hooks.go (processPredicate, processPredicateBound), copied:
// the payload of a partially specified predicate token is what they extract. (A change of the originals
// shows as a disagreement between the hooks model and the Statement the real hooks built.)
var (
	hookPredicateRegexp = regexp.MustCompile(`^"(.+)"@\["?([^\]"]*)"?\]$`)
	hookBoundRegexp     = regexp.MustCompile(`^"(.+)"@\["?([^\]"]*)"?,"?([^\]"]*)"?\]$`)
)

// hookTokens: the tokens of a statement with what Go's parsers make of each text.
func hookTokens(text string) string {
	var out []string
	for _, t := range lexAll(text, 0) {
		if t.Type == lexer.ItemEOF {
			break
		}
		payload := "-"
		switch t.Type {
		case lexer.ItemNode:
			payload = "bad"
			if n, err := node.Parse(t.Text); err == nil {
				payload = encNode(n)
			}
		case lexer.ItemLiteral:
			payload = "bad"
			if o, err := triple.ParseObject(t.Text, literal.DefaultBuilder()); err == nil {
				payload = encObj(o)
			}
		case lexer.ItemPredicate:
			payload = "bad"
			if p, err := predicate.Parse(t.Text); err == nil {
				payload = "F." + encPred(p)
			} else if m := hookPredicateRegexp.FindAllStringSubmatch(t.Text, 2); len(m) == 1 && len(m[0]) == 3 {
				payload = "R." + hx(m[0][1]) + "." + hx(m[0][2])
			}
		case lexer.ItemTime:
			// collectGlobalBounds (and the HAVING evaluator): time.Parse of the trimmed text
			payload = "bad"
			if ta, err := time.Parse(time.RFC3339Nano, strings.TrimSpace(t.Text)); err == nil {
				payload = encTimeP(&ta)
			}
		case lexer.ItemPredicateBound:
			payload = "bad"
			// the bound of a global BETWEEN: two times separated by a comma
			if bs := strings.Split(strings.TrimSpace(t.Text), ","); len(bs) == 2 && !strings.HasPrefix(t.Text, `"`) {
				lo, err1 := time.Parse(time.RFC3339Nano, strings.TrimSpace(bs[0]))
				hi, err2 := time.Parse(time.RFC3339Nano, strings.TrimSpace(bs[1]))
				if err1 == nil && err2 == nil {
					payload = "G." + encTimeP(&lo) + "." + encTimeP(&hi)
				}
			}
			if m := hookBoundRegexp.FindAllStringSubmatch(t.Text, 2); len(m) == 1 && len(m[0]) == 4 {
				id, tl, tu := m[0][1], m[0][2], m[0][3]
				ok := true
				side := func(s string) (alias string, tm *time.Time) {
					if strings.Contains(s, "?") {
						return s, nil
					}
					if st := strings.TrimSpace(s); st != "" {
						pt, err := time.Parse(time.RFC3339Nano, st)
						if err != nil {
							ok = false
							return "", nil
						}
						return "", &pt
					}
					return "", nil
				}
				la, lt := side(tl)
				ua, ut := side(tu)
				if ok && lt != nil && ut != nil && lt.After(*ut) {
					ok = false
				}
				if ok {
					payload = "B." + hx(id) + "." + hx(la) + "." + hx(ua) + "." + encTimeP(lt) + "." + encTimeP(ut)
				}
			}
		}
		if t.Type == lexer.ItemBlankNode {
			payload = "bad"
			if n, err := node.Parse(t.Text); err == nil {
				payload = encNode(n)
			}
		}
		tok := t.Type.String() + "~" + hx(t.Text) + "~" + payload
		if t.Type == lexer.ItemPredicate {
			// in object position of a data triple or a template: triple.ParseObject
			tok += "~bad"
			if o, err := triple.ParseObject(t.Text, literal.DefaultBuilder()); err == nil {
				tok = strings.TrimSuffix(tok, "bad") + encObj(o)
			}
		}
		out = append(out, tok)
	}
	if len(out) == 0 {
		return "-"
	}
	return strings.Join(out, ";")
}
