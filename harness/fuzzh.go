package main

// C08: any statement text yields a table or an error. Texts from four families (all short token
// sequences, grammar-generated and semantically valid statements, byte- and token-level mutations of
// those, random bytes) are run through lexing, parsing, planning and execution against an empty and a
// populated store. Recorded per text: what the plain grammar decides (for the Lean lexer+parser
// model), the outcome class per store, and whether goroutines started for the call are still there
// afterwards.

import (
	"context"
	"flag"
	"fmt"
	"os"
	"runtime"
	"sort"
	"strings"
	"time"

	"github.com/google/badwolf/bql/grammar"
	"github.com/google/badwolf/bql/lexer"
	"github.com/google/badwolf/bql/semantic"
	"github.com/google/badwolf/storage"
	"github.com/google/badwolf/storage/memory"
	"github.com/google/badwolf/triple"
)

// settle waits until the goroutine count is back to base (or gives up).
func settle(base int, patience time.Duration) int {
	deadline := time.Now().Add(patience)
	n := runtime.NumGoroutine()
	for n > base && time.Now().Before(deadline) {
		runtime.Gosched()
		time.Sleep(200 * time.Microsecond)
		n = runtime.NumGoroutine()
	}
	return n
}

func synParse(p *grammar.Parser, text string) string {
	// in a goroutine with a watchdog: a lexer that never delivers its next token blocks the parser for ever
	done := make(chan string, 1)
	go func() {
		cls := "accept"
		defer func() {
			if e := recover(); e != nil {
				cls = "panic"
			}
			done <- cls
		}()
		if err := p.Parse(grammar.NewLLk(text, 1), &semantic.Statement{}); err != nil {
			cls = "reject"
		}
	}()
	select {
	case cls := <-done:
		return cls
	case <-time.After(10 * time.Second):
		return "hang"
	}
}

func populated() storage.Store {
	ctx := context.Background()
	st := memory.NewStore()
	for gi, name := range []string{"?a", "?b", "?g"} {
		g, _ := st.NewGraph(ctx, name)
		var ts []*triple.Triple
		for i := 0; i < 7; i++ {
			t, _ := triple.New(qNodes[(i+gi)%len(qNodes)], qPreds[(i*3+gi)%len(qPreds)], qObjs[(i*5+gi)%len(qObjs)])
			ts = append(ts, t)
		}
		for i := 0; i < 4; i++ {
			t, _ := triple.New(qNodes[i%len(qNodes)], qPreds[i%2], qNums[(i+gi)%len(qNums)])
			ts = append(ts, t)
		}
		g.AddTriples(ctx, ts)
	}
	return st
}

type fuzzer struct {
	r      *rng
	g      *storeGen
	plain  *grammar.Parser
	empty  storage.Store
	full   storage.Store
	nfull  int
	hist   map[string]int
	fam    map[string]int
	cur    *os.File // the text being executed, for the post-mortem of a crash in another goroutine
	seenTx map[string]bool
}

func (f *fuzzer) one(family, text string) {
	if f.seenTx[text] {
		return
	}
	if f.hist["hang"] >= 4 {
		// every hang costs a watchdog period and leaves goroutines behind; a few are enough to report
		return
	}
	f.seenTx[text] = true
	if f.cur != nil {
		f.cur.Truncate(0)
		f.cur.Seek(0, 0)
		f.cur.WriteString(hx(text) + "\n")
		f.cur.Sync()
	}
	if f.nfull%40 == 0 {
		f.empty, f.full = memory.NewStore(), populated()
	}
	f.nfull++
	syn := synParse(f.plain, text)
	if syn == "hang" {
		// the parser of this fuzzer is stuck in that call: a fresh one for the texts to come
		f.hist["hang"]++
		f.plain, _ = grammar.NewParser(grammar.BQL())
		f.fam[family]++
		f.g.emit(fmt.Sprintf("F fam=%s text=%s %s", family, hx(text), runesLine(text)), "hang hang hang")
		return
	}
	var out []string
	for _, st := range []storage.Store{f.empty, f.full} {
		base := runtime.NumGoroutine()
		res, _ := runWithCfg(st, text, runCfg{chanSize: []int{0, 1, 16}[f.r.intn(3)], bulkSize: []int{1, 3, 100}[f.r.intn(3)]})
		cls := res.cls
		if cls != "hang" {
			if n := settle(base, 300*time.Millisecond); n > base {
				cls += "+leak"
			}
		}
		out = append(out, cls)
		f.hist[cls]++
	}
	f.fam[family]++
	f.g.emit(fmt.Sprintf("F fam=%s text=%s %s", family, hx(text), runesLine(text)), fmt.Sprintf("%s %s %s", syn, out[0], out[1]))
}

func hostileTimeBindings(r *rng) string {
	first := []string{`?s ?p ?o`, `?s "p"@[] ?o`, `?s ?p ?o . ?o ?q ?z`, `?s "q"@[?t] ?o`, `?s ?p ?o . optional { ?s "q"@[] ?z }`,
		`?s ?p ?o . optional { ?o "p"@[?t] ?z }`, `/u<a> ?p ?o`, `?s ?p "1"^^type:int64 . ?s ?q ?o`}[r.intn(8)]
	names := []string{"?s", "?p", "?o", "?z", "?t", "?q", "?nowhere"}
	pick := func() string {
		if r.chance(1, 4) {
			return ""
		}
		return names[r.intn(len(names))]
	}
	id := []string{"p", "q"}[r.intn(2)]
	var last string
	switch r.intn(5) {
	case 0:
		last = fmt.Sprintf(`?x "%s"@[%s] ?y`, id, names[r.intn(len(names))])
	case 1:
		last = fmt.Sprintf(`?x ?w "%s"@[%s]`, id, names[r.intn(len(names))])
	case 2:
		last = fmt.Sprintf(`?x ?w "%s"@[%s,%s]`, id, pick(), pick())
	default:
		last = fmt.Sprintf(`?x "%s"@[%s,%s] ?y`, id, pick(), pick())
	}
	if r.chance(1, 4) {
		last = "optional { " + last + " }"
	}
	tail := []string{"", "", " before " + fmtT(qt1), " after " + fmtT(qt1), " between " + fmtT(qt0) + ", " + fmtT(qt2),
		" before " + fmtT(qt0), " after " + fmtT(qt2)}[r.intn(7)]
	return fmt.Sprintf("select ?s, ?x from %s where { %s . %s }%s;", []string{"?a", "?g", "?a, ?b"}[r.intn(3)], first, last, tail)
}

func mutateBytes(r *rng, s string) string {
	if len(s) == 0 {
		return s
	}
	inj := []string{`"`, `@[`, `]`, `<`, `>`, `^^type:`, `{`, `}`, `;`, `.`, `,`, `(`, `)`, `?`, `/`, `_:`, ` `, "\x00", "é", "\xff", `"@[`, `"^^type:int64`, "limit", "having", "optional"}
	pos := r.intn(len(s))
	switch r.intn(6) {
	case 0:
		return s[:pos]
	case 1:
		end := pos + 1 + r.intn(4)
		if end > len(s) {
			end = len(s)
		}
		return s[:pos] + s[end:]
	case 2:
		end := pos + 1 + r.intn(8)
		if end > len(s) {
			end = len(s)
		}
		return s[:end] + s[pos:end] + s[end:]
	case 3:
		return s[:pos] + inj[r.intn(len(inj))] + s[pos:]
	case 4:
		return s[:pos] + inj[r.intn(len(inj))] + s[pos+1:]
	default:
		return s[pos:]
	}
}

func cmdFuzz(args []string) error {
	fs := flag.NewFlagSet("fuzz", flag.ContinueOnError)
	maxLen := fs.Int("maxlen", 2, "all token sequences up to this length")
	n := fs.Int("n", 2000, "generated statements; mutations and random texts are multiples of it")
	opsPath := fs.String("ops", "", "")
	implPath := fs.String("impl", "", "")
	curPath := fs.String("current", "", "file that always holds the text being executed")
	only := fs.String("only", "", "hex text: run just this one (post-mortem of a crash)")
	if err := fs.Parse(args); err != nil {
		return err
	}
	fo, wo := mustCreate(*opsPath)
	fi, wi := mustCreate(*implPath)
	defer fo.Close()
	defer fi.Close()
	r := newRng(envSeed()*2654435761 + 808)
	g := &storeGen{r: r, ops: wo, impl: wi, hist: map[string]int{}}
	p, err := grammar.NewParser(grammar.BQL())
	if err != nil {
		return err
	}
	f := &fuzzer{r: r, g: g, plain: p, hist: map[string]int{}, fam: map[string]int{}, seenTx: map[string]bool{}}
	if *curPath != "" {
		f.cur, _ = os.Create(*curPath)
		defer f.cur.Close()
	}
	flush := func() { wo.Flush(); wi.Flush() }
	defer flush()
	if *only != "" {
		t, _ := unhx(*only)
		f.one("only", t)
		return nil
	}
	texts := tokenTexts()
	var alphabet []lexer.TokenType
	for _, t := range tokenTypes() {
		if t != lexer.ItemError && t != lexer.ItemEOF {
			alphabet = append(alphabet, t)
		}
	}
	// A. every token sequence up to maxLen
	var rec func(prefix []lexer.TokenType, depth int)
	rec = func(prefix []lexer.TokenType, depth int) {
		if lexHangs >= 4 || f.hist["hang"] >= 4 {
			return // each costs a watchdog period; a few are enough to report
		}
		if text, err := renderTokens(prefix, texts); err == nil {
			f.one("tokens", text)
		}
		if depth == *maxLen {
			return
		}
		for _, a := range alphabet {
			rec(append(append([]lexer.TokenType{}, prefix...), a), depth+1)
		}
	}
	rec(nil, 0)
	flush()
	// B. statements: grammar witnesses and random sentences (syntactically valid), generated queries and
	// data statements (mostly semantically valid)
	var valid []string
	gr := loadGrammar(grammar.BQL())
	for _, w := range gr.witnesses() {
		if text, err := renderTokens(w.toks, texts); err == nil {
			valid = append(valid, text)
		}
	}
	min := gr.minSentences()
	var expand func(sym string, depth int) []lexer.TokenType
	expand = func(sym string, depth int) []lexer.TokenType {
		alts := gr.rules[sym]
		if depth > 12 {
			return min[sym]
		}
		a := alts[r.intn(len(alts))]
		var out []lexer.TokenType
		for _, e := range a.els {
			if e.isSym {
				out = append(out, expand(e.sym, depth+1)...)
			} else {
				out = append(out, e.tok)
			}
		}
		return out
	}
	for i := 0; i < *n/2; i++ {
		if s := expand("START", 0); len(s) <= 60 {
			if text, err := renderTokens(s, texts); err == nil {
				valid = append(valid, text)
			}
		}
	}
	g.store = populated()
	for i := 0; i < 20; i++ {
		t, _ := triple.New(qNodes[r.intn(len(qNodes))], qPreds[r.intn(len(qPreds))], qObjs[r.intn(len(qObjs))])
		g.uni = append(g.uni, t)
		g.uniOK = append(g.uniOK, true)
	}
	q := &qgen{r: r, g: g, hist: map[string]int{}}
	sg := &sgen{q: q, r: r, graphs: []string{"?a", "?b", "?c", "?g"}}
	modes := []string{"plain", "optional", "limit", "order", "group", "having"}
	for i := 0; i < *n; i++ {
		if r.chance(2, 3) {
			q.mode = modes[r.intn(len(modes))]
			valid = append(valid, q.queryText([]string{"?a", "?b", "?g"}[:1+r.intn(3)]))
		} else {
			valid = append(valid, sg.statement())
		}
	}
	// legal statements whose time positions ("id"@[?x], "id"@[?lo,?hi]) name bindings that earlier clauses
	// resolve to nodes, literals, predicates or (after an unmatched OPTIONAL) nothing, with and without
	// global bounds: the engine owes an error or a table, whatever the binding holds
	for i := 0; i < *n/2+8; i++ {
		valid = append(valid, hostileTimeBindings(r))
	}
	valid = append(valid, `show graphs;`, `select ?s from ?a where {?s "p"@[] ?o . filter latest(?o)};`,
		`select ?s from ?zz where {?s ?p ?o};`, `select sum(?o) as ?t from ?a where {?s "q"@[] ?o};`,
		`select ?s from ?a where {?s ?p ?o} limit "9223372036854775807"^^type:int64;`,
		`select ?s, ?lo from ?a where {?s "p"@[?lo,] ?o} order by ?lo;`,
		`insert data into ?a {/u<a> "p"@[] "9223372036854775807"^^type:int64};`,
		`insert data into ?a {/u<a> "p"@[] "-9223372036854775808"^^type:int64};`,
		// several graphs that do not exist: every per-graph failure is reported, none blocks another
		`insert data into ?nope1, ?nope2 {/u<a> "p"@[] /u<b>};`, `delete data from ?nope1, ?a, ?nope2 {/u<a> "p"@[] /u<b>};`,
		`construct {?s "n"@[] ?o} into ?nope1, ?nope2 from ?a where {?s ?p ?o};`, `drop graph ?nope1, ?nope2;`, `create graph ?a, ?a;`)
	for _, v := range valid {
		f.one("valid", v)
	}
	flush()
	// degenerate value tokens in every position a value can take: the delimiters in place, the parts between
	// them empty, a lone quote, half-quoted (what the text parsers of C15 are given, here through lexer + hooks)
	{
		tm := fmtT(qt1)
		var preds []string
		for _, id := range []string{"p", ""} {
			for _, a := range []string{`"`, `""`, `"` + tm, tm + `"`, `"` + tm + `"`, `"x"`, ",", `",`, `,"`, `"` + tm + `",`, `?t"`, `"?t`} {
				preds = append(preds, `"`+id+`"@[`+a+`]`)
			}
		}
		lits := []string{`""^^type:int64`, `" "^^type:bool`, `"["^^type:blob`, `"[]"^^type:blob`, `"1"^^type:`, `"^^type:text`, `"1e400"^^type:float64`, `""^^type:text`}
		for _, pr := range preds {
			f.one("skeleton", fmt.Sprintf(`select ?s from ?a where { ?s %s ?o };`, pr))
			f.one("skeleton", fmt.Sprintf(`select ?s from ?a where { ?s ?p %s };`, pr))
			f.one("skeleton", fmt.Sprintf(`insert data into ?a { /u<a> %s /u<b> };`, pr))
			f.one("skeleton", fmt.Sprintf(`insert data into ?a { /u<a> "p"@[] %s };`, pr))
			f.one("skeleton", fmt.Sprintf(`construct { ?s %s ?o } into ?b from ?a where { ?s ?p ?o };`, pr))
		}
		for _, l := range lits {
			f.one("skeleton", fmt.Sprintf(`select ?s from ?a where { ?s ?p %s };`, l))
			f.one("skeleton", fmt.Sprintf(`insert data into ?a { /u<a> "p"@[] %s };`, l))
			f.one("skeleton", fmt.Sprintf(`select ?s from ?a where { ?s ?p ?o } limit %s;`, l))
			f.one("skeleton", fmt.Sprintf(`select ?s from ?a where { ?s ?p ?o } having ?o < %s;`, l))
		}
		flush()
	}
	// every HAVING clause of up to four tokens over the tokens its grammar is made of: the expression builder sees
	// token lists no generator of meaningful expressions writes (a lone binding in parentheses, operators without
	// operands, ...)
	{
		toks := []string{"(", ")", "?s", "=", "not", "and", `"1"^^type:int64`, "<"}
		var rec func(prefix []string, depth int)
		rec = func(prefix []string, depth int) {
			if len(prefix) > 0 {
				f.one("having-tokens", "select ?s from ?a where {?s ?p ?o} having "+strings.Join(prefix, " ")+";")
			}
			if depth == 4 {
				return
			}
			for _, t := range toks {
				rec(append(append([]string{}, prefix...), t), depth+1)
			}
		}
		rec(nil, 0)
		for _, e := range []string{"((?s = ?o) and ?o)", "(?s = ?o) and (?o)", "not (not (?s))", "((?s))", "(?s = ?o) or not ?o", "construct"} {
			f.one("having-tokens", "select ?s from ?a where {?s ?p ?o} having "+e+";")
			f.one("having-tokens", "construct {?s \"n\"@[] ?o} into ?b from ?a where {?s ?p ?o} having "+e+";")
		}
		flush()
	}
	// C. mutations
	for i := 0; i < 3**n; i++ {
		s := valid[r.intn(len(valid))]
		for k := 0; k <= r.intn(3); k++ {
			s = mutateBytes(r, s)
		}
		f.one("mutated", s)
	}
	for i := 0; i < *n/2; i++ { // two statements in one text, statements cut at token boundaries
		a, b := valid[r.intn(len(valid))], valid[r.intn(len(valid))]
		w := strings.Fields(a)
		f.one("mutated", strings.Join(w[:r.intn(len(w)+1)], " ")+" "+b)
	}
	flush()
	// D. random texts
	alpha := []string{"a", "Z", "0", "9", " ", "\t", "\n", `"`, "@", "[", "]", "<", ">", "^", ":", "{", "}", ";", ".", ",", "(", ")", "?", "/", "_", "-", "+",
		"=", "é", " ", "\x00", "\xff", "\xc3", "select", "from", "where", "type", "T", "Z"}
	for i := 0; i < *n; i++ {
		var b strings.Builder
		for k := 0; k < 1+r.intn(24); k++ {
			b.WriteString(alpha[r.intn(len(alpha))])
		}
		f.one("random", b.String())
	}
	flush()
	keys := make([]string, 0)
	for k := range f.hist {
		keys = append(keys, k)
	}
	sort.Strings(keys)
	for _, k := range keys {
		fmt.Printf("hist %s %d\n", k, f.hist[k])
	}
	for k, v := range f.fam {
		fmt.Printf("family %s %d\n", k, v)
	}
	return nil
}

func init() { register("fuzz", cmdFuzz) }
