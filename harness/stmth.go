package main

// C04: sequences of CREATE / DROP / INSERT / DELETE / CONSTRUCT / DECONSTRUCT statements through the
// real lexer -> parser -> planner -> Execute against a memory store; after every statement the content
// of *every* graph is dumped. The Lean model executes the dumped semantic.Statement on a store of sets.

import (
	"context"
	"flag"
	"os"
	"fmt"
	"sort"
	"strings"

	"github.com/google/badwolf/bql/semantic"
	"github.com/google/badwolf/storage"
	"github.com/google/badwolf/triple"
	"github.com/google/badwolf/triple/predicate"
)

func encTripleV(t *triple.Triple) string {
	norm := func(enc string) string {
		f := strings.Split(enc, ",")
		if f[0] == "PT" {
			return strings.Join(f[:3], ",")
		}
		return enc
	}
	return encNode(t.Subject()) + "|" + norm(encPred(t.Predicate())) + "|" + norm(encObj(t.Object()))
}

// dumpStore lists every graph with its triples (values; anchors as instants), sorted.
func dumpStore(st storage.Store) string {
	ctx := context.Background()
	nc := make(chan string, 100)
	var names []string
	done := make(chan error, 1)
	go func() { done <- st.GraphNames(ctx, nc) }()
	for n := range nc {
		names = append(names, n)
	}
	if err := <-done; err != nil {
		return "dump-error"
	}
	sort.Strings(names)
	var parts []string
	for _, n := range names {
		g, err := st.Graph(ctx, n)
		if err != nil {
			return "dump-error"
		}
		tc := make(chan *triple.Triple, 100)
		go func() { done <- g.Triples(ctx, storage.DefaultLookup, tc) }()
		var ts []string
		for t := range tc {
			ts = append(ts, encTripleV(t))
		}
		if err := <-done; err != nil {
			return "dump-error"
		}
		sort.Strings(ts)
		parts = append(parts, "g="+hx(n)+":"+strings.Join(ts, ";"))
	}
	return "state " + strings.Join(parts, " ")
}

func encPOPair(p *semantic.ConstructPredicateObjectPair) string {
	b := func(x bool) string {
		if x {
			return "1"
		}
		return "0"
	}
	pp, oo := "-", "-"
	if p.P != nil {
		pp = encPred(p.P)
	}
	if p.O != nil {
		oo = encObj(p.O)
	}
	return strings.Join([]string{pp, hx(p.PID), hx(p.PBinding), hx(p.PAnchorBinding), b(p.PTemporal),
		oo, hx(p.OID), hx(p.OBinding), hx(p.OAnchorBinding), b(p.OTemporal)}, "~")
}

// encDataStatement: statement type, graph lists, literal data, construct template; then the WHERE part.
func encDataStatement(st *semantic.Statement) string {
	j := func(xs []string, sep string) string {
		if len(xs) == 0 {
			return "-"
		}
		return strings.Join(xs, sep)
	}
	hxs := func(xs []string) []string {
		var o []string
		for _, x := range xs {
			o = append(o, hx(x))
		}
		return o
	}
	var data, ccs, obs []string
	for _, t := range st.Data() {
		data = append(data, encNode(t.Subject())+"|"+encPred(t.Predicate())+"|"+encObj(t.Object()))
	}
	for _, cc := range st.ConstructClauses() {
		s := "-"
		if cc.S != nil {
			s = encNode(cc.S)
		}
		var ps []string
		for _, p := range cc.PredicateObjectPairs() {
			ps = append(ps, encPOPair(p))
		}
		ccs = append(ccs, s+"|"+hx(cc.SBinding)+"|"+strings.Join(ps, "^"))
	}
	obs = hxs(st.OutputBindings())
	return fmt.Sprintf("ty=%d gn=%s og=%s data=%s cc=%s outb=%s %s", int(st.Type()), j(hxs(st.GraphNames()), ","), j(hxs(st.OutputGraphNames()), ","),
		j(data, ";"), j(ccs, ";"), j(obs, ","), encStatement(st))
}

type sgen struct {
	q      *qgen
	r      *rng
	graphs []string
	// intent: what the last generated statement means, written down next to the text (never through the
	// BQL parser): kind, graph names, data triples
	intent string
	lastXcc string
	lastXc  string
}

func hxList(xs []string) string {
	if len(xs) == 0 {
		return "-"
	}
	var o []string
	for _, x := range xs {
		o = append(o, hx(x))
	}
	return strings.Join(o, ",")
}

func (s *sgen) someGraphs(max int) []string {
	n := 1 + s.r.intn(max)
	var out []string
	for i := 0; i < n; i++ {
		out = append(out, s.graphs[s.r.intn(len(s.graphs))])
	}
	return out
}

func (s *sgen) dataTriples() ([]string, string) {
	r := s.r
	var out, enc []string
	for i := 0; i < 1+r.intn(4); i++ {
		var t *triple.Triple
		if ids := s.q.g.okIDs(); len(ids) > 0 && r.chance(2, 3) {
			t = s.q.g.uni[ids[r.intn(len(ids))]]
		} else {
			t, _ = triple.New(qNodes[r.intn(len(qNodes))], qPreds[r.intn(len(qPreds))], qObjs[r.intn(len(qObjs))])
		}
		out = append(out, t.String())
		enc = append(enc, encNode(t.Subject())+"|"+encPred(t.Predicate())+"|"+encObj(t.Object()))
	}
	return out, strings.Join(enc, ";")
}

// template renders a CONSTRUCT / DECONSTRUCT template over the bindings of the WHERE pattern; kinds
// maps a binding to what it holds ('n' node, 'p' predicate, 'o' other object, 't' time, 's' string).
func (s *sgen) template(kinds map[string]byte, reify bool) string {
	r := s.r
	of := func(ks string) string {
		var c []string
		for b, k := range kinds {
			if strings.IndexByte(ks, k) >= 0 {
				c = append(c, b)
			}
		}
		sort.Strings(c)
		if r.chance(1, 25) {
			return "?unbound"
		}
		if len(c) == 0 && !r.chance(1, 10) {
			return ""
		}
		if len(c) == 0 || r.chance(1, 20) {
			// any binding, whatever it holds (may fail when the template is instantiated)
			for b := range kinds {
				c = append(c, b)
			}
			sort.Strings(c)
		}
		if len(c) == 0 {
			return ""
		}
		return c[r.intn(len(c))]
	}
	// each piece: its text and what it means (the fields of the construct clause / pair, in the order of encPOPair)
	constP := func(p *predicate.Predicate) (string, [5]string) {
		tmp := "0"
		if p.Type() == predicate.Temporal {
			tmp = "1"
		}
		return p.String(), [5]string{encPred(p), hx(""), hx(""), hx(""), tmp}
	}
	partP := func(id, b string) (string, [5]string) {
		return fmt.Sprintf(`"%s"@[%s]`, id, b), [5]string{"-", hx(id), hx(""), hx(b), "1"}
	}
	subj := func() (string, string, string) {
		constN := func() (string, string, string) {
			n := qNodes[r.intn(len(qNodes))]
			return n.String(), encNode(n), hx("")
		}
		switch x := r.intn(10); {
		case x < 3:
			return constN()
		case x < 4:
			id := "v" + fmt.Sprint(r.intn(2))
			return "_:" + id, encNode(mustNode("/_", id)), hx("")
		default:
			if b := of("n"); b != "" {
				return b, "-", hx(b)
			}
			return constN()
		}
	}
	pred := func() (string, [5]string) {
		switch x := r.intn(10); {
		case x < 5:
			return constP(qPreds[r.intn(len(qPreds))])
		case x < 7:
			if b := of("t"); b != "" {
				return partP([]string{"p", "n"}[r.intn(2)], b)
			}
			return constP(qPreds[r.intn(len(qPreds))])
		default:
			if b := of("p"); b != "" {
				return b, [5]string{"-", hx(""), hx(b), hx(""), "0"}
			}
			return constP(qPreds[r.intn(len(qPreds))])
		}
	}
	obj := func() (string, [5]string) {
		constO := func() (string, [5]string) {
			o := qObjs[r.intn(len(qObjs))]
			tmp := "0"
			if op, err := o.Predicate(); err == nil && op.Type() == predicate.Temporal {
				tmp = "1"
			}
			return o.String(), [5]string{encObj(o), hx(""), hx(""), hx(""), tmp}
		}
		switch x := r.intn(10); {
		case x < 3:
			return constO()
		case x < 4:
			if b := of("t"); b != "" {
				return partP([]string{"p", "n"}[r.intn(2)], b)
			}
			return constO()
		case x < 5:
			id := "v" + fmt.Sprint(r.intn(2))
			return "_:" + id, [5]string{encObj(triple.NewNodeObject(mustNode("/_", id))), hx(""), hx(""), hx(""), "0"}
		default:
			if b := of("npo"); b != "" {
				return b, [5]string{"-", hx(""), hx(b), hx(""), "0"}
			}
			return constO()
		}
	}
	pair := func() (string, string) {
		pt, pf := pred()
		ot, of_ := obj()
		return pt + " " + ot, strings.Join(append(pf[:], of_[:]...), "~")
	}
	var cls, xcc []string
	for i := 0; i < 1+r.intn(2); i++ {
		st, sn, sb := subj()
		pt, pe := pair()
		c := st + " " + pt
		pairs := []string{pe}
		if reify && r.chance(1, 2) {
			for k := 0; k < 1+r.intn(2); k++ {
				pt, pe := pair()
				c += " ; " + pt
				pairs = append(pairs, pe)
			}
		}
		cls = append(cls, c)
		xcc = append(xcc, sn+"|"+sb+"|"+strings.Join(pairs, "^"))
	}
	s.lastXcc = strings.Join(xcc, ";")
	return strings.Join(cls, " . ")
}

func (s *sgen) where() (string, map[string]byte) {
	r := s.r
	n := 1 + r.intn(2)
	var cls []string
	vm := map[string]string{}
	level := r.intn(2)
	ids := s.q.g.okIDs()
	var exps []string
	for i := 0; i < n; i++ {
		c := "?s ?p ?o"
		e := encClause(&semantic.GraphClause{SBinding: "?s", PBinding: "?p", OBinding: "?o"})
		if len(ids) > 0 {
			c = s.q.clauseFrom(s.q.g.uni[ids[r.intn(len(ids))]], vm, level)
			e = s.q.lastExp
		}
		if i > 0 && r.chance(1, 6) {
			c = "optional { " + c + " }"
			e = "1" + e[1:]
		}
		cls = append(cls, c)
		exps = append(exps, e)
	}
	kinds := map[string]byte{}
	// A pattern that binds nothing has one solution, the empty assignment, which a table cannot hold
	// (known finding D35, exercised by its own witness): the generated patterns bind something.
	if len(ids) > 0 && len(bindingsIn(strings.NewReplacer(`"p"`, "", `"q"`, "").Replace(cls[0]))) == 0 {
		cls[0] = "?s0 ?p0 ?o0"
		exps[0] = encClause(&semantic.GraphClause{SBinding: "?s0", PBinding: "?p0", OBinding: "?o0"})
		kinds["?s0"], kinds["?p0"], kinds["?o0"] = 'n', 'p', 'o'
	}
	s.lastXc = strings.Join(exps, ";")
	if len(ids) == 0 {
		kinds["?s"], kinds["?p"], kinds["?o"] = 'n', 'p', 'o'
	}
	for k, b := range vm {
		kinds[b] = k[0]
	}
	return strings.Join(cls, " . "), kinds
}

// someExisting prefers the graphs that exist.
func (s *sgen) someExisting(max int) []string {
	ctx := context.Background()
	n := 1 + s.r.intn(max)
	var out []string
	for i := 0; i < n; i++ {
		for tries := 0; tries < 6; tries++ {
			g := s.graphs[s.r.intn(len(s.graphs))]
			if _, err := s.q.g.store.Graph(ctx, g); err == nil || s.r.chance(1, 25) {
				out = append(out, g)
				break
			}
		}
	}
	if len(out) == 0 {
		out = []string{s.graphs[0]}
	}
	if !s.r.chance(1, 10) {
		seen := map[string]bool{}
		var u []string
		for _, g := range out {
			if !seen[g] {
				seen[g] = true
				u = append(u, g)
			}
		}
		out = u
	}
	return out
}

func (s *sgen) statement() string {
	r := s.r
	s.intent = ""
	switch x := r.intn(20); {
	case x < 2:
		gs := s.someGraphs(2)
		s.intent = " xty=3 xgn=" + hxList(gs)
		return "create graph " + strings.Join(gs, ", ") + ";"
	case x < 3:
		gs := s.someGraphs(2)
		s.intent = " xty=4 xgn=" + hxList(gs)
		return "drop graph " + strings.Join(gs, ", ") + ";"
	case x < 8:
		gs := s.someExisting(3)
		ts, enc := s.dataTriples()
		s.intent = " xty=1 xog=" + hxList(gs) + " xdata=" + enc
		return "insert data into " + strings.Join(gs, ", ") + " { " + strings.Join(ts, " . ") + " };"
	case x < 11:
		gs := s.someExisting(2)
		ts, enc := s.dataTriples()
		s.intent = " xty=2 xg=" + hxList(gs) + " xdata=" + enc
		return "delete data from " + strings.Join(gs, ", ") + " { " + strings.Join(ts, " . ") + " };"
	case x < 17:
		w, bs := s.where()
		og, ig := s.someExisting(2), s.someExisting(2)
		tpl := s.template(bs, true)
		s.intent = " xty=5 xog=" + hxList(og) + " xg=" + hxList(ig) + " xcc=" + s.lastXcc + " xc=" + s.lastXc
		return fmt.Sprintf("construct { %s } into %s from %s where { %s }%s;", tpl, strings.Join(og, ", "),
			strings.Join(ig, ", "), w, s.having(bs))
	default:
		w, bs := s.where()
		og, ig := s.someExisting(2), s.someExisting(2)
		tpl := s.template(bs, false)
		s.intent = " xty=6 xog=" + hxList(og) + " xg=" + hxList(ig) + " xcc=" + s.lastXcc + " xc=" + s.lastXc
		return fmt.Sprintf("deconstruct { %s } in %s from %s where { %s }%s;", tpl, strings.Join(og, ", "),
			strings.Join(ig, ", "), w, s.having(bs))
	}
}

// having: sometimes a HAVING clause over the bindings of the WHERE pattern (it sees the whole solution, not only the
// bindings the template uses).
func (s *sgen) having(kinds map[string]byte) string {
	if len(kinds) == 0 || !s.r.chance(1, 4) {
		return ""
	}
	var bs []string
	for b := range kinds {
		bs = append(bs, b)
	}
	sort.Strings(bs)
	s.q.eqOnly = true
	defer func() { s.q.eqOnly = false }()
	return " having " + s.q.havingExpr(bs, 1)
}

func cmdStmts(args []string) error {
	fs := flag.NewFlagSet("stmts", flag.ContinueOnError)
	n := fs.Int("n", 200, "scenarios")
	per := fs.Int("per", 10, "statements per scenario")
	opsPath := fs.String("ops", "", "")
	implPath := fs.String("impl", "", "")
	script := fs.String("script", "", "file with one statement per line: run these instead of generating")
	if err := fs.Parse(args); err != nil {
		return err
	}
	fo, wo := mustCreate(*opsPath)
	fi, wi := mustCreate(*implPath)
	defer fo.Close()
	defer fi.Close()
	r := newRng(envSeed()*2654435761 + 404)
	g := &storeGen{r: r, ops: wo, impl: wi, hist: map[string]int{}}
	if *script != "" {
		raw, err := os.ReadFile(*script)
		if err != nil {
			return err
		}
		g.reset()
		g.emit("D", dumpStore(g.store))
		for _, text := range strings.Split(string(raw), "\n") {
			if strings.TrimSpace(text) == "" {
				continue
			}
			cfg := runCfg{chanSize: 1, bulkSize: 1}
			res, st := runWithCfg(g.store, text, cfg)
			enc := "-"
			if st != nil {
				enc = encDataStatement(st)
			}
			g.emit(fmt.Sprintf("X cfg=%s text=%s %s tk=%s", cfg, hx(text), enc, hookTokens(text)), res.cls)
			g.emit("D", dumpStore(g.store))
		}
		wo.Flush()
		wi.Flush()
		return nil
	}
	q := &qgen{r: r, g: g, mode: "plain", hist: map[string]int{}, meta: true}
	s := &sgen{q: q, r: r, graphs: []string{"?a", "?b", "?c", "?d"}}
	hist := map[string]int{}
	for sc := 0; sc < *n; sc++ {
		g.comment(fmt.Sprintf("scenario %d", sc))
		g.reset()
		// initial content through the driver API (C01's ground): 2-3 graphs, distinct triples
		seen := map[string]bool{}
		for tries := 0; len(g.uni) < 3+r.intn(10) && tries < 100; tries++ {
			t, _ := triple.New(qNodes[r.intn(len(qNodes))], qPreds[r.intn(len(qPreds))], qObjs[r.intn(len(qObjs))])
			if k := valueIdentity(t); !seen[k] {
				seen[k] = true
				g.define(t)
			}
		}
		ng := 2 + r.intn(2)
		for gi := 0; gi < ng; gi++ {
			g.doNew(s.graphs[gi])
			var ids []int
			for id := range g.uni {
				if r.chance(1, 2) {
					ids = append(ids, id)
				}
			}
			g.doMut(true, s.graphs[gi], ids)
		}
		g.emit("D", dumpStore(g.store))
		for k := 0; k < *per; k++ {
			text := s.statement()
			cfg := runCfg{chanSize: []int{0, 1, 64}[r.intn(3)], bulkSize: []int{1, 2, 1000}[r.intn(3)]}
			res, st := runWithCfg(g.store, text, cfg)
			enc := "-"
			kind := "rejected"
			if st != nil {
				enc = encDataStatement(st)
				kind = st.Type().String()
			}
			g.emit(fmt.Sprintf("X cfg=%s text=%s %s%s tk=%s", cfg, hx(text), enc, s.intent, hookTokens(text)), res.cls)
			hist[kind+"/"+res.cls]++
			if os.Getenv("VERIF_DEBUG") != "" && res.cls != "ok" {
				fmt.Fprintf(os.Stderr, "%s | %s | %s\n", res.cls, res.text, text)
			}
			dump := dumpStore(g.store)
			g.emit("D", dump)
			if strings.Count(dump, ";") > 400 {
				// CONSTRUCT into a graph it reads from multiplies the graph; a few rounds later one statement
				// legitimately takes longer than the watchdog allows: the scenario ends here
				hist["scenario-ended-store-large"]++
				break
			}
			if res.cls != "ok" && res.cls != "reject" && st != nil && (st.Type() == semantic.Construct || st.Type() == semantic.Deconstruct) {
				// a template error in the middle of the rows leaves a state the property does not constrain
				break
			}
		}
	}
	wo.Flush()
	wi.Flush()
	keys := make([]string, 0, len(hist))
	for k := range hist {
		keys = append(keys, k)
	}
	sort.Strings(keys)
	for _, k := range keys {
		fmt.Printf("hist %s %d\n", k, hist[k])
	}
	_ = predicate.Immutable
	return nil
}

func init() { register("stmts", cmdStmts) }
