package main

import (
	"bufio"
	"context"
	"flag"
	"fmt"
	"math"
	"sort"
	"strings"
	"time"

	"github.com/google/badwolf/bql/planner/filter"
	"github.com/google/badwolf/storage"
	"github.com/google/badwolf/storage/memory"
	"github.com/google/badwolf/triple"
	"github.com/google/badwolf/triple/literal"
	"github.com/google/badwolf/triple/node"
	"github.com/google/badwolf/triple/predicate"
)

var allMethods = []string{"objects", "subjects", "predsForSO", "predsForS", "predsForO", "triplesForS",
	"triplesForP", "triplesForO", "triplesForSP", "triplesForPO", "triples"}

func methodNeeds(m string) (s, p, o bool) {
	switch m {
	case "objects", "triplesForSP":
		return true, true, false
	case "subjects", "triplesForPO":
		return false, true, true
	case "predsForSO":
		return true, false, true
	case "predsForS", "triplesForS":
		return true, false, false
	case "predsForO", "triplesForO":
		return false, false, true
	case "triplesForP":
		return false, true, false
	}
	return false, false, false
}

func encLo(lo *storage.LookupOptions) string {
	lower, upper := "-", "-"
	if lo.LowerAnchor != nil {
		lower = instantNanos(*lo.LowerAnchor)
	}
	if lo.UpperAnchor != nil {
		upper = instantNanos(*lo.UpperAnchor)
	}
	latest := 0
	if lo.LatestAnchor {
		latest = 1
	}
	fop, ff := 0, 0
	if lo.FilterOptions != nil {
		fop, ff = int(lo.FilterOptions.Operation), int(lo.FilterOptions.Field)
		if fop < 1 || fop > 3 {
			fop = 4
		}
	}
	return fmt.Sprintf("%d,%d,%s,%s,%d,%d,%d", lo.MaxElements, lo.Offset, lower, upper, latest, fop, ff)
}

// collect runs one look-up against the real graph and renders the emitted elements.
func runLookup(g storage.Graph, m string, s *node.Node, p *predicate.Predicate, o *triple.Object, lo *storage.LookupOptions) (res string) {
	ctx := context.Background()
	type out struct {
		items []string
		err   error
		pan   interface{}
	}
	done := make(chan out, 1)
	go func() {
		var r out
		defer func() {
			if e := recover(); e != nil {
				r.pan = e
			}
			done <- r
		}()
		var wgErr error
		switch m {
		case "objects":
			ch := make(chan *triple.Object)
			ec := make(chan error, 1)
			go func() { ec <- g.Objects(ctx, s, p, lo, ch) }()
			for x := range ch {
				r.items = append(r.items, hx(x.String()))
			}
			wgErr = <-ec
		case "subjects":
			ch := make(chan *node.Node)
			ec := make(chan error, 1)
			go func() { ec <- g.Subjects(ctx, p, o, lo, ch) }()
			for x := range ch {
				r.items = append(r.items, hx(x.String()))
			}
			wgErr = <-ec
		case "predsForSO", "predsForS", "predsForO":
			ch := make(chan *predicate.Predicate)
			ec := make(chan error, 1)
			go func() {
				switch m {
				case "predsForSO":
					ec <- g.PredicatesForSubjectAndObject(ctx, s, o, lo, ch)
				case "predsForS":
					ec <- g.PredicatesForSubject(ctx, s, lo, ch)
				default:
					ec <- g.PredicatesForObject(ctx, o, lo, ch)
				}
			}()
			for x := range ch {
				r.items = append(r.items, hx(x.String()))
			}
			wgErr = <-ec
		default:
			ch := make(chan *triple.Triple)
			ec := make(chan error, 1)
			go func() {
				switch m {
				case "triplesForS":
					ec <- g.TriplesForSubject(ctx, s, lo, ch)
				case "triplesForP":
					ec <- g.TriplesForPredicate(ctx, p, lo, ch)
				case "triplesForO":
					ec <- g.TriplesForObject(ctx, o, lo, ch)
				case "triplesForSP":
					ec <- g.TriplesForSubjectAndPredicate(ctx, s, p, lo, ch)
				case "triplesForPO":
					ec <- g.TriplesForPredicateAndObject(ctx, p, o, lo, ch)
				default:
					ec <- g.Triples(ctx, lo, ch)
				}
			}()
			for x := range ch {
				r.items = append(r.items, hx(x.String()))
			}
			wgErr = <-ec
		}
		r.err = wgErr
	}()
	select {
	case r := <-done:
		if r.pan != nil {
			return "panic"
		}
		if r.err != nil {
			if len(r.items) > 0 {
				return "err-after-elements"
			}
			return "err"
		}
		return "ok " + strings.Join(r.items, ",")
	case <-time.After(5 * time.Second):
		return "hang"
	}
}

// ---- history generation + execution ----

type storeGen struct {
	r      *rng
	ops    *bufio.Writer // protocol lines for the Lean driver
	impl   *bufio.Writer // what the implementation answered, line for line
	store  storage.Store
	uni    []*triple.Triple
	uniOK  []bool
	names  []string
	nlines int
	hist   map[string]int // distribution of operations
}

func (g *storeGen) emit(op, answer string) {
	fmt.Fprintln(g.ops, op)
	fmt.Fprintln(g.impl, answer)
	g.nlines++
}

func (g *storeGen) comment(c string) {
	fmt.Fprintln(g.ops, "# "+c)
	fmt.Fprintln(g.impl, "# "+c)
}

func (g *storeGen) reset() {
	g.store = memory.NewStore()
	g.uni, g.uniOK = nil, nil
	g.emit("reset", "ok")
}

func safeUUID(t *triple.Triple) (ok bool) {
	defer func() {
		if recover() != nil {
			ok = false
		}
	}()
	_ = t.UUID()
	return true
}

func (g *storeGen) define(t *triple.Triple) int {
	id := len(g.uni)
	g.uni = append(g.uni, t)
	ok := safeUUID(t)
	g.uniOK = append(g.uniOK, ok)
	ans := "T ok"
	if !ok {
		ans = "T panic"
	}
	g.emit(tripleLine(id, t), ans)
	return id
}

// pickUniverse defines n triples over small pools so that components are shared.
func (g *storeGen) pickUniverse(n int, big bool) {
	nodes, preds, objs := uniNodes(), uniPreds(), uniObjects(big)
	ns := []*node.Node{nodes[g.r.intn(len(nodes))], nodes[g.r.intn(len(nodes))], nodes[g.r.intn(len(nodes))]}
	// predicates: one identifier in several kinds/instants, plus a few random ones
	base := g.r.intn(len(uniPredIDs())) * (1 + len(uniInstants()))
	var ps []*predicate.Predicate
	for i := 0; i < 4; i++ {
		ps = append(ps, preds[base+g.r.intn(1+len(uniInstants()))])
	}
	ps = append(ps, preds[base], preds[g.r.intn(len(preds))], preds[g.r.intn(len(preds))])
	var os []*triple.Object
	for i := 0; i < 5; i++ {
		os = append(os, objs[g.r.intn(len(objs))])
	}
	os = append(os, triple.NewNodeObject(ns[0]))
	if big && g.r.chance(1, 5) {
		// two int64 values whose varints are longer than eight bytes and agree on the first eight
		bigs := []int64{1 << 55, 1 << 56, 1 << 57, math.MaxInt64, -(1 << 56)}
		i := g.r.intn(len(bigs))
		os = append(os, triple.NewLiteralObject(mustLit(literal.Int64, bigs[i])), triple.NewLiteralObject(mustLit(literal.Int64, bigs[(i+1+g.r.intn(len(bigs)-1))%len(bigs)])))
	}
	// no two different subjects, and no two different objects, of one universe share a UUID (D02:
	// look-ups by a colliding component are exercised by the listed witness histories only)
	{
		seenU := map[string]string{}
		firstN := map[string]*node.Node{}
		var keep []*node.Node
		for _, n := range ns {
			u := string(n.UUID())
			if prev, ok := seenU[u]; ok && prev != encNode(n) {
				// two different nodes under one UUID: the model has to predict it (a K line asks it, on two triples that
				// differ in that component only)
				g.emit(fmt.Sprintf("K %s %s %s %s %s %s", encNode(firstN[u]), encPred(ps[0]), encObj(os[len(os)-1]), encNode(n), encPred(ps[0]), encObj(os[len(os)-1])), "collide")
				continue
			}
			seenU[u] = encNode(n)
			firstN[u] = n
			keep = append(keep, n)
		}
		ns = keep
		seenO := map[string]string{}
		firstO := map[string]*triple.Object{}
		var keepO []*triple.Object
		for _, o := range os {
			u := string(o.UUID())
			if prev, ok := seenO[u]; ok && prev != encObj(o) {
				if _, isP := o.Predicate(); isP != nil || prev[:2] != "PT" {
					g.emit(fmt.Sprintf("K %s %s %s %s %s %s", encNode(ns[0]), encPred(ps[0]), encObj(firstO[u]), encNode(ns[0]), encPred(ps[0]), encObj(o)), "collide")
					continue
				}
			}
			seenO[u] = encObj(o)
			firstO[u] = o
			keepO = append(keepO, o)
		}
		os = keepO
	}
	seen := map[string]bool{}
	byUUID := map[string]string{}
	first := map[string]*triple.Triple{}
	for tries := 0; len(g.uni) < n && tries < 10*n; tries++ {
		t, err := triple.New(ns[g.r.intn(len(ns))], ps[g.r.intn(len(ps))], os[g.r.intn(len(os))])
		if err != nil {
			continue
		}
		// distinct Go values only (same String() and same encoding): identical values add nothing
		k := tripleLine(0, t)
		if seen[k] {
			continue
		}
		seen[k] = true
		// Generated universes are free of UUID collisions between different values (known findings
		// D02/D04 are exercised by their own listed witness histories, see known_findings.json);
		// the same instant in two zones is the same value and is kept.
		if safeUUID(t) {
			u := string(t.UUID())
			id := valueIdentity(t)
			if prev, ok := byUUID[u]; ok && prev != id {
				// the model has to predict the collision (one of the listed classes): a K line asks it
				a := first[u]
				g.emit(fmt.Sprintf("K %s %s %s %s %s %s", encNode(a.Subject()), encPred(a.Predicate()), encObj(a.Object()),
					encNode(t.Subject()), encPred(t.Predicate()), encObj(t.Object())), "collide")
				continue
			}
			byUUID[u] = id
			first[u] = t
		}
		g.define(t)
	}
}

// valueIdentity renders a triple so that two renderings are equal exactly when the triples are the
// same value (kinds and components; anchors as instants, whatever the zone).
func valueIdentity(t *triple.Triple) string {
	norm := func(enc string) string {
		f := strings.Split(enc, ",")
		if f[0] == "PT" {
			return strings.Join(f[:3], ",")
		}
		return enc
	}
	return encNode(t.Subject()) + " " + norm(encPred(t.Predicate())) + " " + norm(encObj(t.Object()))
}

func (g *storeGen) okIDs() []int {
	var ids []int
	for i, ok := range g.uniOK {
		if ok {
			ids = append(ids, i)
		}
	}
	return ids
}

func (g *storeGen) batch(max int) []int {
	ids := g.okIDs()
	n := g.r.intn(max + 1)
	var b []int
	for i := 0; i < n && len(ids) > 0; i++ {
		b = append(b, ids[g.r.intn(len(ids))])
	}
	if len(b) > 1 && g.r.chance(1, 3) {
		b = append(b, b[0]) // duplicate inside the batch
	}
	return b
}

func (g *storeGen) triples(ids []int) []*triple.Triple {
	var ts []*triple.Triple
	for _, i := range ids {
		ts = append(ts, g.uni[i])
	}
	return ts
}

func (g *storeGen) doNew(n string) {
	g.hist["new"]++
	_, err := g.store.NewGraph(context.Background(), n)
	g.emit("new "+hx(n), okErr(err))
}

func (g *storeGen) doGet(n string) {
	g.hist["get"]++
	_, err := g.store.Graph(context.Background(), n)
	g.emit("get "+hx(n), okErr(err))
}

func (g *storeGen) doDel(n string) {
	g.hist["del"]++
	g.emit("del "+hx(n), okErr(g.store.DeleteGraph(context.Background(), n)))
}

func (g *storeGen) doNames() {
	g.hist["names"]++
	ch := make(chan string, 64)
	err := g.store.GraphNames(context.Background(), ch)
	if err != nil {
		g.emit("names", "err")
		return
	}
	var ns []string
	for n := range ch {
		ns = append(ns, hx(n))
	}
	sort.Strings(ns)
	g.emit("names", "names "+strings.Join(ns, ","))
}

func okErr(err error) string {
	if err != nil {
		return "err"
	}
	return "ok"
}

func (g *storeGen) doMut(add bool, n string, ids []int) {
	op := "rem"
	if add {
		op = "add"
	}
	g.hist[op]++
	gr, err := g.store.Graph(context.Background(), n)
	if err != nil {
		g.emit(fmt.Sprintf("%s %s %s", op, hx(n), joinInts(ids)), "err")
		return
	}
	if add {
		err = gr.AddTriples(context.Background(), g.triples(ids))
	} else {
		err = gr.RemoveTriples(context.Background(), g.triples(ids))
	}
	g.emit(fmt.Sprintf("%s %s %s", op, hx(n), joinInts(ids)), okErr(err))
}

func (g *storeGen) doExist(n string, id int) {
	g.hist["exist"]++
	gr, err := g.store.Graph(context.Background(), n)
	if err != nil {
		g.emit(fmt.Sprintf("exist %s %d", hx(n), id), "err")
		return
	}
	b, err := gr.Exist(context.Background(), g.uni[id])
	ans := fmt.Sprint(b)
	if err != nil {
		ans = "err"
	}
	g.emit(fmt.Sprintf("exist %s %d", hx(n), id), ans)
}

func (g *storeGen) doLook(n, m string, s *node.Node, p *predicate.Predicate, o *triple.Object, lo *storage.LookupOptions) {
	g.hist["look:"+m]++
	ns, np, no := methodNeeds(m)
	fs, fp, fps, fo := "-", "-", "-", "-"
	if ns {
		fs = encNode(s)
	} else {
		s = nil
	}
	if np {
		fp, fps = encPred(p), hx(p.String())
	} else {
		p = nil
	}
	if no {
		fo = encObj(o)
	} else {
		o = nil
	}
	line := fmt.Sprintf("look %s %s %s %s %s %s %s", hx(n), m, fs, fp, fps, fo, encLo(lo))
	gr, err := g.store.Graph(context.Background(), n)
	if err != nil {
		g.emit(line, "err")
		return
	}
	before := *lo
	ans := runLookup(gr, m, s, p, o, lo)
	if before != *lo {
		ans += " lo-mutated"
	}
	g.emit(line, ans)
}

// observe: the whole visible state of the store (C01: "observed after every step").
func (g *storeGen) observe(existAll bool) {
	g.doNames()
	for _, n := range g.names {
		g.doGet(n)
		g.doLook(n, "triples", nil, nil, nil, &storage.LookupOptions{})
		if existAll {
			for _, id := range g.okIDs() {
				g.doExist(n, id)
			}
		}
	}
}

// lookupsAround: all ten methods with components drawn from stored and non-stored values.
func (g *storeGen) lookupsAround(n string, combos int, lo func() *storage.LookupOptions) {
	ids := g.okIDs()
	if len(ids) == 0 {
		return
	}
	for c := 0; c < combos; c++ {
		a, b, d := g.uni[ids[g.r.intn(len(ids))]], g.uni[ids[g.r.intn(len(ids))]], g.uni[ids[g.r.intn(len(ids))]]
		s, p, o := a.Subject(), a.Predicate(), a.Object()
		if g.r.chance(1, 2) { // mix components of several triples: mostly non-stored combinations
			p = b.Predicate()
		}
		if g.r.chance(1, 2) {
			o = d.Object()
		}
		if g.r.chance(1, 4) { // same identifier, other kind/instant/zone
			all := uniPreds()
			for tries := 0; tries < 20; tries++ {
				q := all[g.r.intn(len(all))]
				if q.ID() == p.ID() {
					p = q
					break
				}
			}
		}
		for _, m := range allMethods[:10] {
			g.doLook(n, m, s, p, o, lo())
		}
	}
}

func (g *storeGen) randLo() *storage.LookupOptions {
	lo := &storage.LookupOptions{}
	inst := uniInstants()
	pick := func() *time.Time { t := inst[g.r.intn(len(inst))]; return &t }
	if g.r.chance(1, 2) {
		lo.LowerAnchor = pick()
	}
	if g.r.chance(1, 2) {
		lo.UpperAnchor = pick()
	}
	switch g.r.intn(6) {
	case 0:
		lo.LatestAnchor = true
	case 1, 2, 3:
		ops := []filter.Operation{filter.Latest, filter.IsImmutable, filter.IsTemporal, filter.Operation(9)}
		fields := []filter.Field{filter.PredicateField, filter.ObjectField, filter.PredicateField, filter.ObjectField, filter.SubjectField, filter.Field(7)}
		lo.FilterOptions = &filter.StorageOptions{Operation: ops[g.r.intn(len(ops))], Field: fields[g.r.intn(len(fields))]}
		if g.r.chance(1, 10) {
			lo.LatestAnchor = true
		}
	}
	sizes := []int{-1, 0, 0, 1, 2, 3, 1000}
	offs := []int{-1, 0, 0, 1, 2, 3}
	lo.MaxElements = sizes[g.r.intn(len(sizes))]
	lo.Offset = offs[g.r.intn(len(offs))]
	return lo
}

func (g *storeGen) history(mode string, length int) {
	g.reset()
	g.pickUniverse(6+g.r.intn(14), true)
	defLo := func() *storage.LookupOptions { return &storage.LookupOptions{} }
	for i := 0; i < length; i++ {
		n := g.names[g.r.intn(len(g.names))]
		mutated := false
		switch x := g.r.intn(100); {
		case x < 12:
			g.doNew(n)
			mutated = true
		case x < 17:
			g.doDel(n)
			mutated = true
		case x < 20:
			g.doGet(n)
		case x < 60:
			g.doMut(true, n, g.batch(5))
			mutated = true
		case x < 85:
			g.doMut(false, n, g.batch(4))
			mutated = true
		default:
			ids := g.okIDs()
			if len(ids) > 0 {
				g.doExist(n, ids[g.r.intn(len(ids))])
			}
		}
		if !mutated {
			continue
		}
		switch mode {
		case "store":
			g.observe(true)
		case "lookups":
			g.lookupsAround(n, 3, defLo)
		case "opts":
			g.lookupsAround(n, 2, g.randLo)
			g.doLook(n, "triples", nil, nil, nil, g.randLo())
		}
	}
	if mode == "opts" {
		g.densePages()
	}
}

// densePages: every look-up over a graph in which every subject, predicate and object of a small pool meet — so that
// each method has several results — read page by page (sizes 2 and 3, three offsets) and whole: the pages are the
// consecutive blocks of the whole answer.
func (g *storeGen) densePages() {
	n := g.names[0]
	g.doNew(n)
	nodes := []*node.Node{mustNode("/u", "pa"), mustNode("/u", "pb"), mustNode("/u", "pc"), mustNode("/u", "pd")}
	preds := []*predicate.Predicate{mustImm("pg"), mustTmp("pg", t0)}
	var ids []int
	for _, s := range nodes {
		for _, p := range preds {
			for _, o := range nodes[:2] {
				t, _ := triple.New(s, p, triple.NewNodeObject(o))
				ids = append(ids, g.define(t))
			}
		}
	}
	g.doMut(true, n, ids)
	s, p, o := nodes[0], preds[0], triple.NewNodeObject(nodes[1])
	for _, m := range allMethods {
		for _, size := range []int{0, 2, 3} {
			for off := 0; off < 3; off++ {
				if size == 0 && off > 0 {
					continue
				}
				g.doLook(n, m, s, p, o, &storage.LookupOptions{MaxElements: size, Offset: off})
			}
		}
	}
}

// exhaustive: every subset of a 4-triple universe (reached by adds) x every single operation from it.
func (g *storeGen) exhaustive(mode string) int {
	count := 0
	const n = "?g"
	single := func(setup func(), op func()) {
		g.reset()
		nodes := uniNodes()
		p1, p2 := mustImm("p"), mustTmp("p", t0)
		ts := []*triple.Triple{}
		mk := func(s *node.Node, p *predicate.Predicate, o *triple.Object) {
			t, _ := triple.New(s, p, o)
			ts = append(ts, t)
			g.define(t)
		}
		mk(nodes[0], p1, triple.NewNodeObject(nodes[1]))
		mk(nodes[0], p2, triple.NewNodeObject(nodes[1]))
		mk(nodes[1], p1, triple.NewLiteralObject(uniLits(false)[17]))
		mk(nodes[0], mustTmp("p", t0.In(zoneE)), triple.NewPredicateObject(p2))
		g.names = []string{n, "?h"}
		setup()
		op()
		switch mode {
		case "store":
			g.observe(true)
		default:
			g.lookupsAround(n, 4, func() *storage.LookupOptions { return &storage.LookupOptions{} })
		}
		count++
	}
	for mask := 0; mask < 16; mask++ {
		var ids []int
		for b := 0; b < 4; b++ {
			if mask&(1<<b) != 0 {
				ids = append(ids, b)
			}
		}
		setup := func() { g.doNew(n); g.doMut(true, n, ids) }
		ops := []func(){
			func() {},
			func() { g.doNew(n) }, func() { g.doNew("?h") }, func() { g.doDel(n) }, func() { g.doDel("?h") },
			func() { g.doDel(n); g.doNew(n) },
			func() { g.doMut(true, n, []int{}) }, func() { g.doMut(false, n, []int{}) },
			func() { g.doMut(true, "?h", []int{0}) },
			func() { g.doMut(true, n, []int{0, 0, 1}) }, func() { g.doMut(false, n, []int{1, 2, 1}) },
		}
		for b := 0; b < 4; b++ {
			bb := b
			ops = append(ops, func() { g.doMut(true, n, []int{bb}) }, func() { g.doMut(false, n, []int{bb}) })
		}
		for _, op := range ops {
			single(setup, op)
		}
	}
	return count
}

func cmdStore(args []string) error {
	fs := flag.NewFlagSet("store", flag.ContinueOnError)
	mode := fs.String("mode", "store", "store | lookups | opts")
	n := fs.Int("n", 50, "number of random histories")
	length := fs.Int("len", 30, "operations per history")
	opsPath := fs.String("ops", "", "protocol lines out")
	implPath := fs.String("impl", "", "implementation answers out")
	exh := fs.Bool("exhaustive", true, "include the exhaustive small-scope part")
	if err := fs.Parse(args); err != nil {
		return err
	}
	fo, wo := mustCreate(*opsPath)
	fi, wi := mustCreate(*implPath)
	defer fo.Close()
	defer fi.Close()
	g := &storeGen{r: newRng(envSeed()*1000003 + uint64(len(*mode))), ops: wo, impl: wi, names: []string{"?a", "?b", "?c"}, hist: map[string]int{}}
	nex := 0
	if *exh {
		nex = g.exhaustive(*mode)
	}
	g.names = []string{"?a", "?b", "?c"}
	for i := 0; i < *n; i++ {
		g.comment(fmt.Sprintf("history %d", i))
		g.history(*mode, *length)
	}
	wo.Flush()
	wi.Flush()
	var keys []string
	for k := range g.hist {
		keys = append(keys, k)
	}
	sort.Strings(keys)
	fmt.Printf("lines=%d histories=%d exhaustive_cases=%d\n", g.nlines, *n, nex)
	for _, k := range keys {
		fmt.Printf("op %s %d\n", k, g.hist[k])
	}
	return nil
}

func init() { register("store", cmdStore) }
