package main

import (
	"bufio"
	"flag"
	"fmt"
	"strings"
	"time"

	"github.com/google/badwolf/bql/grammar"
	"github.com/google/badwolf/bql/lexer"
	"github.com/google/badwolf/bql/semantic"
)

func optTime(t *time.Time) string {
	if t == nil {
		return "-"
	}
	return instantNanos(*t)
}

// dumpClause renders every field of a graph clause deterministically.
func dumpClause(c *semantic.GraphClause) string {
	s, p, o := "-", "-", "-"
	if c.S != nil {
		s = encNode(c.S)
	}
	if c.P != nil {
		p = encPred(c.P)
	}
	if c.O != nil {
		o = encObj(c.O)
	}
	return fmt.Sprintf("{opt=%v S=%s sb=%s sa=%s sta=%s sia=%s P=%s pid=%s pb=%s pa=%s pia=%s pab=%s paa=%s plb=%s pub=%s plba=%s puba=%s pt=%v O=%s ob=%s oa=%s oid=%s ota=%s oia=%s oab=%s oaa=%s olb=%s oub=%s olba=%s ouba=%s ot=%v}",
		c.Optional, s, hx(c.SBinding), hx(c.SAlias), hx(c.STypeAlias), hx(c.SIDAlias),
		p, hx(c.PID), hx(c.PBinding), hx(c.PAlias), hx(c.PIDAlias), hx(c.PAnchorBinding), hx(c.PAnchorAlias),
		optTime(c.PLowerBound), optTime(c.PUpperBound), hx(c.PLowerBoundAlias), hx(c.PUpperBoundAlias), c.PTemporal,
		o, hx(c.OBinding), hx(c.OAlias), hx(c.OID), hx(c.OTypeAlias), hx(c.OIDAlias), hx(c.OAnchorBinding), hx(c.OAnchorAlias),
		optTime(c.OLowerBound), optTime(c.OUpperBound), hx(c.OLowerBoundAlias), hx(c.OUpperBoundAlias), c.OTemporal)
}

func dumpStatement(st *semantic.Statement) string {
	var b strings.Builder
	fmt.Fprintf(&b, "type=%s", st.Type())
	hs := func(xs []string) string {
		var ys []string
		for _, x := range xs {
			ys = append(ys, hx(x))
		}
		return strings.Join(ys, ",")
	}
	fmt.Fprintf(&b, " graphs=[%s] in=[%s] out=[%s]", hs(st.GraphNames()), hs(st.InputGraphNames()), hs(st.OutputGraphNames()))
	b.WriteString(" data=[")
	for i, t := range st.Data() {
		if i > 0 {
			b.WriteString(";")
		}
		b.WriteString(encNode(t.Subject()) + " " + encPred(t.Predicate()) + " " + encObj(t.Object()))
	}
	b.WriteString("] pattern=[")
	for _, c := range st.GraphPatternClauses() {
		b.WriteString(dumpClause(c))
	}
	b.WriteString("] filters=[")
	for _, f := range st.FilterClauses() {
		fmt.Fprintf(&b, "(%d,%s,%s)", int(f.Operation), hx(f.Binding), hx(f.Value))
	}
	b.WriteString("] proj=[")
	for _, p := range st.Projections() {
		fmt.Fprintf(&b, "(%s,%s,%s,%s)", hx(p.Binding), hx(p.Alias), p.OP, p.Modifier)
	}
	fmt.Fprintf(&b, "] groupby=[%s] orderby=[", hs(st.GroupBy()))
	for _, o := range st.OrderBy() {
		fmt.Fprintf(&b, "(%s,%v)", hx(o.Binding), o.Desc)
	}
	b.WriteString("] having=[")
	for _, h := range st.HavingExpression() {
		if h.IsSymbol() {
			fmt.Fprintf(&b, "S:%s ", h.Symbol())
		} else {
			fmt.Fprintf(&b, "%s:%s ", h.Token().Type, hx(h.Token().Text))
		}
	}
	lo := st.GlobalLookupOptions()
	fmt.Fprintf(&b, "] limit=%v/%d bounds=%s/%s construct=[", st.IsLimitSet(), st.Limit(), optTime(lo.LowerAnchor), optTime(lo.UpperAnchor))
	for _, cc := range st.ConstructClauses() {
		s := "-"
		if cc.S != nil {
			s = encNode(cc.S)
		}
		fmt.Fprintf(&b, "{S=%s sb=%s pops=", s, hx(cc.SBinding))
		for _, pop := range cc.PredicateObjectPairs() {
			p, o := "-", "-"
			if pop.P != nil {
				p = encPred(pop.P)
			}
			if pop.O != nil {
				o = encObj(pop.O)
			}
			fmt.Fprintf(&b, "(P=%s pb=%s pid=%s pab=%s pt=%v O=%s ob=%s oid=%s oab=%s ot=%v)", p, hx(pop.PBinding), hx(pop.PID), hx(pop.PAnchorBinding), pop.PTemporal,
				o, hx(pop.OBinding), hx(pop.OID), hx(pop.OAnchorBinding), pop.OTemporal)
		}
		b.WriteString("}")
	}
	b.WriteString("]")
	return b.String()
}

// semParse runs the real semantic parser; class + statement dump (when accepted).
func semParse(p *grammar.Parser, text string) (cls string, dump string) {
	defer func() {
		if e := recover(); e != nil {
			cls, dump = "panic", fmt.Sprint(e)
		}
	}()
	st := &semantic.Statement{}
	if err := p.Parse(grammar.NewLLk(text, 1), st); err != nil {
		return "reject", ""
	}
	return "accept", dumpStatement(st)
}

func tokNames(ts []lexer.TokenType) string {
	var xs []string
	for _, t := range ts {
		xs = append(xs, t.String())
	}
	return strings.Join(xs, " ")
}

type parseGen struct {
	ops, impl *bufio.Writer
	texts     map[lexer.TokenType]string
	plain     *grammar.Parser
	rec       []fired
	n, skip   int
	hist      map[string]int
}

func (g *parseGen) one(ts []lexer.TokenType) {
	text, err := renderTokens(ts, g.texts)
	if err != nil {
		g.skip++
		return
	}
	cls, fs := realParse(g.plain, &g.rec, text)
	sem, _ := grammar.NewParser(grammar.SemanticBQL())
	scls, _ := semParse(sem, text)
	fmt.Fprintf(g.ops, "P %s\n", tokNames(ts))
	fmt.Fprintf(g.impl, "%s [%s] sem=%s\n", cls, showFired(fs), scls)
	g.n++
	g.hist[cls+"/"+scls]++
}

func cmdParse(args []string) error {
	fs := flag.NewFlagSet("parse", flag.ContinueOnError)
	maxLen := fs.Int("maxlen", 3, "all token sequences up to this length")
	n := fs.Int("n", 3000, "generated sentences/mutations")
	opsPath := fs.String("ops", "", "")
	implPath := fs.String("impl", "", "")
	if err := fs.Parse(args); err != nil {
		return err
	}
	fo, wo := mustCreate(*opsPath)
	fi, wi := mustCreate(*implPath)
	defer fo.Close()
	defer fi.Close()
	g := &parseGen{ops: wo, impl: wi, texts: tokenTexts(), hist: map[string]int{}}
	p, err := grammar.NewParser(probedGrammar(&g.rec))
	if err != nil {
		return err
	}
	g.plain = p
	r := newRng(envSeed()*69621 + 3)
	var alphabet []lexer.TokenType
	for _, t := range tokenTypes() {
		if t != lexer.ItemError && t != lexer.ItemEOF {
			alphabet = append(alphabet, t)
		}
	}
	// 1. exhaustive short sequences
	var rec func(prefix []lexer.TokenType, depth int)
	rec = func(prefix []lexer.TokenType, depth int) {
		g.one(prefix)
		if depth == *maxLen {
			return
		}
		for _, a := range alphabet {
			rec(append(append([]lexer.TokenType{}, prefix...), a), depth+1)
		}
	}
	rec(nil, 0)
	nEx := g.n
	// 2. witnesses, random sentences, single-token mutations
	gr := loadGrammar(grammar.BQL())
	ws := gr.witnesses()
	var sentences [][]lexer.TokenType
	for _, w := range ws {
		sentences = append(sentences, w.toks)
		g.one(w.toks)
	}
	min := gr.minSentences()
	var expand func(sym string, depth int) []lexer.TokenType
	expand = func(sym string, depth int) []lexer.TokenType {
		alts := gr.rules[sym]
		if depth > 12 {
			return min[sym]
		}
		a := alts[r.intn(len(alts))]
		var out []lexer.TokenType
		for _, e := range a.els {
			if e.isSym {
				out = append(out, expand(e.sym, depth+1)...)
			} else {
				out = append(out, e.tok)
			}
		}
		return out
	}
	for i := 0; i < *n; i++ {
		s := expand("START", 0)
		if len(s) > 60 {
			continue
		}
		sentences = append(sentences, s)
		g.one(s)
	}
	for i := 0; i < *n; i++ {
		s := append([]lexer.TokenType{}, sentences[r.intn(len(sentences))]...)
		if len(s) == 0 {
			continue
		}
		pos := r.intn(len(s))
		switch r.intn(4) {
		case 0:
			s = append(s[:pos], s[pos+1:]...)
		case 1:
			s[pos] = alphabet[r.intn(len(alphabet))]
		case 2:
			s = append(s[:pos], append([]lexer.TokenType{alphabet[r.intn(len(alphabet))]}, s[pos:]...)...)
		default:
			s = append(s, sentences[r.intn(len(sentences))]...) // two statements in one input
		}
		g.one(s)
	}
	// 3. one parser instance fed several statements vs fresh instances (hook state)
	stmts := []string{
		`create graph ?a;`, `drop graph ?a;`, `show graphs;`,
		`insert data into ?a {/u<a> "p"@[] /u<b>};`,
		`insert data into ?a {/u<a> "p"@[] };`,                      // rejected after subject+predicate were seen
		`insert data into ?a {/u<c> "q"@[] "1"^^type:int64 . /u<a> };`, // rejected mid second triple
		`delete data from ?a {/u<x> "r"@[2006-01-02T15:04:05Z] /u<y>};`,
		`select ?s from ?a where {?s "p"@[] ?o};`,
		`select ?s as ?x, ?o from ?a where {?s "p"@[] ?o} order by ?x;`,
		// ORDER BY with a repeated key (the checker drops the repetition: whatever it remembers belongs to this statement)
		`select ?s, ?o from ?a where {?s "p"@[] ?o} order by ?s, ?s;`,
		`select ?s, ?o from ?a where {?s "p"@[] ?o} order by ?s desc, ?o, ?o;`,
		`select ?s, ?o from ?a where {?s "p"@[] ?o} order by ?o, ?s asc, ?o;`,
		`select ?s, ?o from ?a where {?s "p"@[] ?o} order by ?o, ?o desc;`, // rejected: one key in two directions
		`select ?s, count(?o) as ?n from ?a where {?s "p"@[] ?o} group by ?s, ?s order by ?n, ?s, ?n;`,
		`select ?s as from ?a where {?s "p"@[] ?o};`, // rejected inside VARS after AS
		`select ?s from ?a where {?s as ?t type ?u "p"@[] ?o as } ;`, // rejected after a modifier keyword
		`select ?s from ?a where {?s "p"@[?t] ?o at };`,
		`select ?s from ?a where {?s "p"@[] ?o} between 2006-01-02T15:04:05Z, 2007-01-02T15:04:05Z;`,
		`select ?s from ?a where {?s "p"@[] ?o} before 2006-01-02T15:04:05Z;`,
		`select ?s from ?a where {?s "p"@[] ?o} after 2006-01-02T15:04:05Z;`,
		`select ?s from ?a where {?s "p"@[] ?o} between 2006-01-02T15:04:05Z;`, // rejected: between with one time
		`select ?s from ?a where {?s "p"@[] ?o} limit "2"^^type:int64;`,
		`select count(?s) as ?n, ?o from ?a where {?s "p"@[] ?o} group by ?o having ?n > "1"^^type:int64;`,
		`construct {?s "q"@[] ?o} into ?b from ?a where {?s "p"@[] ?o};`,
		`construct {?s "q"@[] ?o ; "r"@[] /u<z>} into ?b from ?a where {?s "p"@[] ?o};`,
		`construct {?s "q"@[] } into ?b from ?a where {?s "p"@[] ?o};`,
		`deconstruct {?s "q"@[] ?o} in ?b from ?a where {?s "p"@[] ?o};`,
		`select ?s from ?a where {?s "p"@[] ?o . filter latest(?o)};`,
		`garbage;`, `select`, ``,
	}
	for i := 0; i < *n/10+len(stmts)*len(stmts); i++ {
		k := 2 + r.intn(3)
		var seq []string
		if i < len(stmts)*len(stmts) {
			seq = []string{stmts[i/len(stmts)], stmts[i%len(stmts)]}
		} else {
			for j := 0; j < k; j++ {
				seq = append(seq, stmts[r.intn(len(stmts))])
			}
		}
		shared, _ := grammar.NewParser(grammar.SemanticBQL())
		verdict := "ok"
		for j, s := range seq {
			c1, d1 := semParse(shared, s)
			fresh, _ := grammar.NewParser(grammar.SemanticBQL())
			c2, d2 := semParse(fresh, s)
			if c1 != c2 || d1 != d2 {
				verdict = fmt.Sprintf("differs at statement %d: reused parser %s %s | fresh parser %s %s", j, c1, d1, c2, d2)
				break
			}
		}
		var hs []string
		for _, s := range seq {
			hs = append(hs, hx(s))
		}
		fmt.Fprintf(g.ops, "S %s\n", strings.Join(hs, " "))
		fmt.Fprintln(g.impl, verdict)
		g.n++
		g.hist["state:"+strings.SplitN(verdict, " ", 2)[0]]++
	}
	wo.Flush()
	wi.Flush()
	fmt.Printf("inputs=%d exhaustive=%d unrenderable=%d\n", g.n, nEx, g.skip)
	for k, v := range g.hist {
		fmt.Printf("hist %s %d\n", k, v)
	}
	return nil
}

func init() { register("parse", cmdParse) }
