package main

import (
	"fmt"
	"strings"
	"time"

	"github.com/google/badwolf/bql/lexer"
)

// lexAll runs the real lexer over text and returns all tokens (including the final EOF/ERROR).
func lexAll(text string, capacity int) []lexer.Token {
	var out []lexer.Token
	ch := lexer.New(text, capacity)
	// a lexer that stops delivering (a seeded change made it spin at the end of a text) must not stop the harness:
	// what it delivered so far comes back followed by an error token saying so
	watchdog := time.NewTimer(15 * time.Second)
	defer watchdog.Stop()
	for {
		select {
		case t, ok := <-ch:
			if !ok {
				return out
			}
			out = append(out, t)
		case <-watchdog.C:
			lexHangs++
			return append(out, lexer.Token{Type: lexer.ItemError, Text: "", ErrorMessage: "harness: the lexer did not deliver its next token within 15s"})
		}
	}
}

// lexHangs counts the texts on which lexAll gave up.
var lexHangs int

var keywordCandidates = []string{"select", "insert", "delete", "create", "construct", "deconstruct", "drop",
	"graph", "data", "into", "from", "where", "optional", "filter", "as", "before", "after", "between",
	"count", "distinct", "sum", "group", "having", "by", "order", "asc", "desc", "limit", "not", "and", "or",
	"id", "type", "at", "in", "show", "graphs",
	"{", "}", "(", ")", ".", ";", ",", "<", ">", "=",
	"?x", "/u<a>", "_:b", `"1"^^type:int64`, `"p"@[]`, `"p"@[2006-01-02T15:04:05Z,2007-01-02T15:04:05Z]`}

// tokenTexts maps each token type to a representative text, found by running the real lexer on the
// candidates (so a changed keyword table changes the rendering, and an unrenderable token is an error).
func tokenTexts() map[lexer.TokenType]string {
	m := map[lexer.TokenType]string{}
	for _, c := range keywordCandidates {
		ts := lexAll(c, 4)
		if len(ts) == 2 && ts[1].Type == lexer.ItemEOF && ts[0].Type != lexer.ItemError {
			if _, ok := m[ts[0].Type]; !ok {
				m[ts[0].Type] = c
			}
		}
	}
	return m
}

const (
	repTime  = "2006-01-02T15:04:05Z"
	repTime2 = "2007-01-02T15:04:05Z"
)

// renderTokens produces a text whose lexing (by the real lexer) is exactly tts followed by EOF.
func renderTokens(tts []lexer.TokenType, texts map[lexer.TokenType]string) (string, error) {
	var parts []string
	for i, t := range tts {
		var prev lexer.TokenType = lexer.ItemError
		if i > 0 {
			prev = tts[i-1]
		}
		switch {
		case t == lexer.ItemTime:
			parts = append(parts, repTime)
		case t == lexer.ItemPredicateBound && (prev == lexer.ItemBetween || prev == lexer.ItemBefore || prev == lexer.ItemAfter):
			parts = append(parts, repTime+","+repTime2)
		case t == lexer.ItemFilterFunction:
			parts = append(parts, "latest")
		default:
			s, ok := texts[t]
			if !ok {
				return "", fmt.Errorf("no representative text for token %v", t)
			}
			parts = append(parts, s)
		}
	}
	var sb strings.Builder
	for i, p := range parts {
		// the filter-function lexer requires its "(" to follow immediately
		if i > 0 && tts[i-1] != lexer.ItemFilterFunction {
			sb.WriteString(" ")
		}
		sb.WriteString(p)
	}
	text := sb.String()
	got := lexAll(text, 8)
	if len(got) != len(tts)+1 || got[len(got)-1].Type != lexer.ItemEOF {
		return text, fmt.Errorf("rendering %q lexes to %d tokens ending in %v, want %d+EOF", text, len(got), got[len(got)-1].Type, len(tts))
	}
	for i, t := range tts {
		if got[i].Type != t {
			return text, fmt.Errorf("rendering %q: token %d lexes as %v, want %v", text, i, got[i].Type, t)
		}
	}
	return text, nil
}
