package main

import (
	"fmt"
	"go/ast"
	"go/parser"
	"go/token"
	"os"
	"path/filepath"
	"strconv"
	"strings"

	"github.com/google/badwolf/bql/lexer"
)

// lexfacts: go/ast extraction of the lexer's tables — keyword chain of lexKeyword, single-symbol
// tokens of lexToken, literal type names of lexLiteral. Output: BW/Generated/LexFacts.lean.

func itemByName() map[string]lexer.TokenType {
	// TokenType constant names cannot be enumerated by reflection; recover them from the source order
	// of the const block (iota) — cross-checked against the running code through String().
	m := map[string]lexer.TokenType{}
	path := filepath.Join(repoRoot, "bql", "lexer", "lexer.go")
	fset := token.NewFileSet()
	f, err := parser.ParseFile(fset, path, nil, 0)
	if err != nil {
		return m
	}
	for _, d := range f.Decls {
		gd, ok := d.(*ast.GenDecl)
		if !ok || gd.Tok != token.CONST {
			continue
		}
		first := true
		idx := 0
		isTokBlock := false
		for _, sp := range gd.Specs {
			vs := sp.(*ast.ValueSpec)
			if first {
				first = false
				if id, ok := vs.Type.(*ast.Ident); ok && id.Name == "TokenType" {
					isTokBlock = true
				}
			}
			if !isTokBlock {
				break
			}
			for _, n := range vs.Names {
				m[n.Name] = lexer.TokenType(idx)
				idx++
			}
		}
	}
	return m
}

func cmdLexfacts(args []string) error {
	if len(args) != 1 {
		return fmt.Errorf("usage: lexfacts <out.lean>")
	}
	path := filepath.Join(repoRoot, "bql", "lexer", "lexer.go")
	fset := token.NewFileSet()
	f, err := parser.ParseFile(fset, path, nil, 0)
	if err != nil {
		return err
	}
	items := itemByName()
	strConst := map[string]string{}
	runeConst := map[string]rune{}
	for _, d := range f.Decls {
		gd, ok := d.(*ast.GenDecl)
		if !ok || gd.Tok != token.CONST {
			continue
		}
		for _, sp := range gd.Specs {
			vs := sp.(*ast.ValueSpec)
			for i, n := range vs.Names {
				if i >= len(vs.Values) {
					continue
				}
				switch v := vs.Values[i].(type) {
				case *ast.BasicLit:
					if v.Kind == token.STRING {
						s, err := strconv.Unquote(v.Value)
						if err == nil {
							strConst[n.Name] = s
						}
					}
				case *ast.CallExpr: // rune('x')
					if selName(v.Fun) == "rune" && len(v.Args) == 1 {
						if bl, ok := v.Args[0].(*ast.BasicLit); ok && bl.Kind == token.CHAR {
							s, err := strconv.Unquote(bl.Value)
							if err == nil {
								runeConst[n.Name] = []rune(s)[0]
							}
						}
					}
				}
			}
		}
	}
	type kw struct {
		text string
		tok  lexer.TokenType
	}
	var kws []kw
	type single struct {
		r   rune
		tok lexer.TokenType
	}
	var singles []single
	var litTypes []string
	var ferr error
	for _, d := range f.Decls {
		fd, ok := d.(*ast.FuncDecl)
		if !ok || fd.Body == nil {
			continue
		}
		switch fd.Name.Name {
		case "lexKeyword":
			for _, st := range fd.Body.List {
				is, ok := st.(*ast.IfStmt)
				if !ok {
					continue
				}
				call, ok := is.Cond.(*ast.CallExpr)
				if !ok || selName(call.Fun) != "strings.EqualFold" || len(call.Args) != 2 {
					continue
				}
				text, ok := strConst[selName(call.Args[1])]
				if !ok {
					ferr = fmt.Errorf("lexKeyword: keyword constant %s not found", selName(call.Args[1]))
					continue
				}
				if len(is.Body.List) == 0 {
					ferr = fmt.Errorf("lexKeyword: empty branch for %q", text)
					continue
				}
				es, ok := is.Body.List[0].(*ast.ExprStmt)
				if !ok {
					ferr = fmt.Errorf("lexKeyword: unexpected branch for %q", text)
					continue
				}
				c2, ok := es.X.(*ast.CallExpr)
				if !ok || selName(c2.Fun) != "consumeKeyword" || len(c2.Args) != 2 {
					ferr = fmt.Errorf("lexKeyword: branch for %q does not consumeKeyword", text)
					continue
				}
				tok, ok := items[selName(c2.Args[1])]
				if !ok {
					ferr = fmt.Errorf("lexKeyword: unknown token %s", selName(c2.Args[1]))
					continue
				}
				kws = append(kws, kw{text, tok})
			}
		case "lexToken":
			ast.Inspect(fd.Body, func(n ast.Node) bool {
				call, ok := n.(*ast.CallExpr)
				if !ok || selName(call.Fun) != "isSingleSymbolToken" || len(call.Args) != 3 {
					return true
				}
				tok, ok1 := items[selName(call.Args[1])]
				r, ok2 := runeConst[selName(call.Args[2])]
				if !ok1 || !ok2 {
					ferr = fmt.Errorf("lexToken: cannot resolve single symbol %s/%s", selName(call.Args[1]), selName(call.Args[2]))
					return true
				}
				singles = append(singles, single{r, tok})
				return true
			})
		case "lexLiteral":
			ast.Inspect(fd.Body, func(n ast.Node) bool {
				sw, ok := n.(*ast.SwitchStmt)
				if !ok || selName(sw.Tag) != "literalT" {
					return true
				}
				for _, c := range sw.Body.List {
					cc := c.(*ast.CaseClause)
					for _, e := range cc.List {
						if v, ok := strConst[selName(e)]; ok {
							litTypes = append(litTypes, v)
						} else {
							ferr = fmt.Errorf("lexLiteral: cannot resolve literal type %s", selName(e))
						}
					}
				}
				return true
			})
		}
	}
	if ferr != nil {
		return ferr
	}
	if len(kws) == 0 || len(singles) == 0 || len(litTypes) == 0 {
		return fmt.Errorf("lexer tables not found (keywords=%d singles=%d literal types=%d)", len(kws), len(singles), len(litTypes))
	}
	cps := func(s string) string {
		var xs []string
		for _, r := range s {
			xs = append(xs, fmt.Sprint(int(r)))
		}
		return "[" + strings.Join(xs, ", ") + "]"
	}
	var b strings.Builder
	b.WriteString("-- GENERATED by `bwh lexfacts` from /repo/bql/lexer/lexer.go (go/ast). Do not edit.\n")
	b.WriteString("import BW.Generated.Grammar\n\nnamespace BW.Generated\n\n")
	b.WriteString("/-- The `strings.EqualFold` chain of lexKeyword, in source order (code points of the keyword). -/\n")
	b.WriteString("def lexKeywords : List (List Nat × Tok) := [\n")
	for i, k := range kws {
		sep := ","
		if i == len(kws)-1 {
			sep = ""
		}
		fmt.Fprintf(&b, "  (%s, .%s)%s  -- %s\n", cps(k.text), tokName(k.tok), sep, k.text)
	}
	b.WriteString("]\n\n/-- `isSingleSymbolToken` calls of lexToken, in source order. -/\ndef lexSingles : List (Nat × Tok) := [")
	for i, s := range singles {
		if i > 0 {
			b.WriteString(", ")
		}
		fmt.Fprintf(&b, "(%d, .%s)", int(s.r), tokName(s.tok))
	}
	b.WriteString("]\n\n/-- Literal type names accepted by lexLiteral (compared after lower-casing). -/\ndef lexLiteralTypes : List (List Nat) := [")
	for i, s := range litTypes {
		if i > 0 {
			b.WriteString(", ")
		}
		b.WriteString(cps(s))
	}
	b.WriteString("]\n\nend BW.Generated\n")
	return os.WriteFile(args[0], []byte(b.String()), 0o644)
}

func init() { register("lexfacts", cmdLexfacts) }
