package main

import (
	"bufio"
	"encoding/hex"
	"os"
	"strconv"
)

// rng is a splitmix64 stream; every random choice of the harness derives from
// one of these seeded by VERIF_SEED so that runs replay exactly.
type rng struct{ s uint64 }

func newRng(seed uint64) *rng { return &rng{s: seed} }

func (r *rng) next() uint64 {
	r.s += 0x9e3779b97f4a7c15
	z := r.s
	z = (z ^ (z >> 30)) * 0xbf58476d1ce4e5b9
	z = (z ^ (z >> 27)) * 0x94d049bb133111eb
	return z ^ (z >> 31)
}

func (r *rng) intn(n int) int {
	if n <= 0 {
		return 0
	}
	return int(r.next() % uint64(n))
}

func (r *rng) chance(num, den int) bool { return r.intn(den) < num }

func hx(s string) string {
	if s == "" {
		return "-"
	}
	return hex.EncodeToString([]byte(s))
}

func unhx(s string) (string, error) {
	if s == "-" {
		return "", nil
	}
	b, err := hex.DecodeString(s)
	return string(b), err
}

func envSeed() uint64 {
	if v := os.Getenv("VERIF_SEED"); v != "" {
		if n, err := strconv.ParseUint(v, 10, 64); err == nil {
			return n
		}
		if n, err := strconv.ParseInt(v, 10, 64); err == nil {
			return uint64(n)
		}
	}
	return 1
}

func mustCreate(path string) (*os.File, *bufio.Writer) {
	f, err := os.Create(path)
	if err != nil {
		panic(err)
	}
	return f, bufio.NewWriterSize(f, 1<<20)
}

// perm: a random permutation of 0..n-1 (Fisher-Yates).
func (r *rng) perm(n int) []int {
	p := make([]int, n)
	for i := range p {
		p[i] = i
	}
	for i := n - 1; i > 0; i-- {
		j := r.intn(i + 1)
		p[i], p[j] = p[j], p[i]
	}
	return p
}

func readFileString(path string) (string, error) {
	b, err := os.ReadFile(path)
	return string(b), err
}
