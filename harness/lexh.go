package main

import (
	"bufio"
	"encoding/hex"
	"flag"
	"fmt"
	"os"
	"strings"
	"sync/atomic"
	"time"
	"unicode"
	"unicode/utf8"

	"github.com/google/badwolf/bql/grammar"
	"github.com/google/badwolf/bql/lexer"
	"github.com/google/badwolf/triple/literal"
	"github.com/google/badwolf/triple/node"
	"github.com/google/badwolf/triple/predicate"
)

// runeField renders one rune with Go's own classification:
// cp:hexbytes:flags(letter|digit<<1|space<<2):lower:foldmin
func runeField(r rune, raw string) string {
	flags := 0
	if unicode.IsLetter(r) {
		flags |= 1
	}
	if unicode.IsDigit(r) {
		flags |= 2
	}
	if unicode.IsSpace(r) {
		flags |= 4
	}
	min := r
	for f := unicode.SimpleFold(r); f != r; f = unicode.SimpleFold(f) {
		if f < min {
			min = f
		}
	}
	return fmt.Sprintf("%d:%s:%d:%d:%d", r, hex.EncodeToString([]byte(raw)), flags, unicode.ToLower(r), min)
}

func runesLine(text string) string {
	var parts []string
	for i := 0; i < len(text); {
		r, w := utf8.DecodeRuneInString(text[i:])
		parts = append(parts, runeField(r, text[i:i+w]))
		i += w
	}
	if len(parts) == 0 {
		return "-"
	}
	return strings.Join(parts, " ")
}

func tokensString(ts []lexer.Token) string {
	var parts []string
	for _, t := range ts {
		parts = append(parts, t.Type.String()+":"+hx(t.Text))
	}
	return strings.Join(parts, ",")
}

// lexSpecCheck evaluates C16's own words on the implementation's output for one input.
func lexSpecCheck(input string, ts []lexer.Token) string {
	if len(ts) == 0 {
		return "no-tokens"
	}
	last := ts[len(ts)-1].Type
	if last != lexer.ItemEOF && last != lexer.ItemError {
		return "last-token-not-EOF-or-ERROR"
	}
	pos := 0
	for i, t := range ts {
		if i < len(ts)-1 && (t.Type == lexer.ItemEOF || t.Type == lexer.ItemError) {
			return "terminal-token-before-the-end"
		}
		idx := strings.Index(input[pos:], t.Text)
		if idx < 0 {
			return fmt.Sprintf("token-%d-text-not-an-ordered-substring", i)
		}
		pos += idx + len(t.Text)
	}
	return "ok"
}

type lexGen struct {
	ops, impl *bufio.Writer
	n         int
	progress  int64
	cur       atomic.Value
	hist      map[string]int
}

func (g *lexGen) one(text string, capacity int) {
	g.cur.Store(text)
	fmt.Fprintf(g.ops, "L %d %s\n", capacity, runesLine(text))
	ts := lexAll(text, capacity)
	atomic.AddInt64(&g.progress, 1)
	fmt.Fprintf(g.impl, "%s | %s\n", tokensString(ts), lexSpecCheck(text, ts))
	g.n++
	g.hist[ts[len(ts)-1].Type.String()]++
	for _, t := range ts {
		g.hist["tok:"+t.Type.String()]++
	}
}

// meta: metamorphic laws of C16 evaluated on the implementation (the model side answers "ok":
// they are theorems there).
func (g *lexGen) meta(kind, a, b string, same func(x, y []lexer.Token) string) {
	fmt.Fprintf(g.ops, "M %s %s %s\n", kind, hx(a), hx(b))
	g.cur.Store(a)
	ta := lexAll(a, 2)
	g.cur.Store(b)
	tb := lexAll(b, 2)
	fmt.Fprintf(g.impl, "%s\n", same(ta, tb))
	g.n++
	g.hist["meta:"+kind]++
}

func sameKindsTrimmedTexts(x, y []lexer.Token) string {
	if len(x) != len(y) {
		return fmt.Sprintf("fail: %d vs %d tokens", len(x), len(y))
	}
	for i := range x {
		if x[i].Type != y[i].Type {
			return fmt.Sprintf("fail: token %d kind %v vs %v", i, x[i].Type, y[i].Type)
		}
		if strings.TrimSpace(x[i].Text) != strings.TrimSpace(y[i].Text) {
			return fmt.Sprintf("fail: token %d text %q vs %q", i, x[i].Text, y[i].Text)
		}
	}
	return "ok"
}

func sameKinds(x, y []lexer.Token) string {
	if len(x) != len(y) {
		return fmt.Sprintf("fail: %d vs %d tokens", len(x), len(y))
	}
	for i := range x {
		if x[i].Type != y[i].Type {
			return fmt.Sprintf("fail: token %d kind %v vs %v", i, x[i].Type, y[i].Type)
		}
	}
	return "ok"
}

func randomCase(r *rng, s string) string {
	var b strings.Builder
	for _, c := range s {
		if r.chance(1, 2) {
			b.WriteRune(unicode.ToUpper(c))
		} else {
			b.WriteRune(unicode.ToLower(c))
		}
	}
	return b.String()
}

// sentenceTexts: token sequences derived from the grammar (translator witnesses) rendered as parts.
func sentenceParts(texts map[lexer.TokenType]string) [][]string {
	g := loadGrammar(grammar.BQL())
	var out [][]string
	for _, w := range g.witnesses() {
		var parts []string
		ok := true
		for i, t := range w.toks {
			var prev lexer.TokenType
			if i > 0 {
				prev = w.toks[i-1]
			}
			switch {
			case t == lexer.ItemTime:
				parts = append(parts, repTime)
			case t == lexer.ItemPredicateBound && (prev == lexer.ItemBetween || prev == lexer.ItemBefore || prev == lexer.ItemAfter):
				parts = append(parts, repTime+","+repTime2)
			case t == lexer.ItemFilterFunction:
				parts = append(parts, "latest")
			default:
				s, have := texts[t]
				if !have {
					ok = false
				}
				parts = append(parts, s)
			}
		}
		if ok {
			out = append(out, parts)
		}
	}
	return out
}

func joinParts(parts []string, sep func(i int) string) string {
	var b strings.Builder
	for i, p := range parts {
		if i > 0 && parts[i-1] != "latest" {
			b.WriteString(sep(i))
		}
		b.WriteString(p)
	}
	return b.String()
}

var printedForms = []string{`/u<a>`, `/t/u<a b>`, `/_<x>`, `_:b1`, `_:V1`, `_:Node_7`, `_:Ünode`, `_:名前`, `_:ǅx`, `_:é`, `?x`, `?long_name1`, `?X`, `?名`, `"p"@[]`, `"p q"@[2006-01-02T15:04:05.999999999Z]`,
	`"p"@[2006-01-02T15:04:05+01:00]`, `"p"@[,]`, `"p"@[2006-01-02T15:04:05Z,2007-01-02T15:04:05Z]`, `"é@"@[]`,
	`"true"^^type:bool`, `"-1"^^type:int64`, `"1.5e+07"^^type:float64`, `"a b"^^type:text`, `"[1 2 3]"^^type:blob`, `""^^type:text`,
	// the witnesses of known finding D36 (a text ending with a backslash) and of fix ed4a530 (a predicate ID ending with one)
	`"a\"^^type:text`, `"a\\"@[]`,
	// the witness of known finding D38 (a node type ending with a backslash), and a type with a backslash elsewhere
	`/a\<x>`, `/a\b<x>`,
}

func generatedPrintedForms(r *rng, n int) []string {
	pieces := []string{"a", "b", " ", "@", "[", "]", "^", ":", "<", ">", "/", "?", "_", ",", ";", "é", ".", "T", "1", "-", "type", "@[", "^^type:", "]/", "@[]", "as", "{", "}", "(", "=", "\\", "\n"}
	word := func(ps []string) string {
		var b strings.Builder
		for i := 0; i < r.intn(5); i++ {
			b.WriteString(ps[r.intn(len(ps))])
		}
		return b.String()
	}
	nodeSafe := []string{"a", "b", " ", "@", "[", "]", "^", ":", "/", "?", "_", ",", ";", "é", ".", "1", "-", "\"", "{", "=", "\\"}
	var out []string
	seen := map[string]bool{}
	for len(out) < n {
		var s string
		switch r.intn(6) {
		case 0:
			if l, err := literal.DefaultBuilder().Build(literal.Text, word(pieces)+[]string{"", "", "\\"}[r.intn(3)]); err == nil {
				s = l.String()
			}
		case 1:
			if p, err := predicate.NewImmutable(word(pieces) + []string{"p", "p", "\\", "p\\\\"}[r.intn(4)]); err == nil {
				s = p.String()
			}
		case 2:
			if p, err := predicate.NewTemporal(word(pieces)+"p", []time.Time{qt0, qt1, qt2, qt0.In(time.FixedZone("", -7*3600))}[r.intn(4)]); err == nil {
				s = p.String()
			}
		case 3:
			ty, e1 := node.NewType("/t" + strings.ReplaceAll(word([]string{"a", "b", "/u", "1", "_", "-", ".", "\\"}), "//", "/"))
			// any ID NewID accepts: also one that ends with a backslash (C:\tmp\)
			id, e2 := node.NewID(word(nodeSafe) + []string{"x", "", "\\", "x\\"}[r.intn(4)])
			if e1 == nil && e2 == nil {
				s = node.NewNode(ty, id).String()
			}
		case 4:
			if l, err := literal.DefaultBuilder().Build(literal.Blob, []byte(word(pieces))); err == nil {
				s = l.String()
			}
		default:
			s = fmt.Sprintf(`"%sp"@[%s,%s]`, word([]string{"a", " ", "@", "[", "]", "é", ","}), []string{"", fmtT(qt0)}[r.intn(2)], []string{"", fmtT(qt2)}[r.intn(2)])
		}
		if s == "" || seen[s] {
			if len(seen) > 50*n {
				break
			}
			seen[s+fmt.Sprint(len(seen))] = true
			continue
		}
		seen[s] = true
		out = append(out, s)
	}
	return out
}

func cmdLex(args []string) error {
	fs := flag.NewFlagSet("lex", flag.ContinueOnError)
	maxLen := fs.Int("maxlen", 4, "exhaustive strings up to this length over the lexer alphabet")
	n := fs.Int("n", 3000, "generated inputs")
	opsPath := fs.String("ops", "", "")
	implPath := fs.String("impl", "", "")
	if err := fs.Parse(args); err != nil {
		return err
	}
	fo, wo := mustCreate(*opsPath)
	fi, wi := mustCreate(*implPath)
	defer fo.Close()
	defer fi.Close()
	g := &lexGen{ops: wo, impl: wi, hist: map[string]int{}}
	g.cur.Store("")
	// watchdog: the lexer must terminate and close its channel on every input
	go func() {
		last := int64(-1)
		for {
			time.Sleep(20 * time.Second)
			p := atomic.LoadInt64(&g.progress)
			if p == last {
				wo.Flush()
				fmt.Fprintf(wi, "hang | lexer-did-not-terminate\n")
				wi.Flush()
				fmt.Fprintf(os.Stderr, "HANG on input %q\n", g.cur.Load())
				os.Exit(4)
			}
			last = p
		}
	}()
	r := newRng(envSeed()*48271 + 5)
	// 1. exhaustive over an alphabet chosen to reach every lexer state
	alphabet := []string{"?", "/", "_", ":", "\"", "@", "[", "]", "<", ">", "a", "1", " ", ",", ";", "\\"}
	var rec func(prefix string, depth int)
	rec = func(prefix string, depth int) {
		g.one(prefix, 0)
		if depth == *maxLen {
			return
		}
		for _, a := range alphabet {
			rec(prefix+a, depth+1)
		}
	}
	rec("", 0)
	nEx := g.n
	// 2. grammar-derived statements, whitespace / case variants, channel capacities
	texts := tokenTexts()
	parts := sentenceParts(texts)
	caps := []int{0, 1, 2, 7}
	for i, ps := range parts {
		base := joinParts(ps, func(int) string { return " " })
		g.one(base, caps[i%len(caps)])
		wide := joinParts(ps, func(int) string { return []string{" ", "  ", "\t", "\n", " \n\t "}[r.intn(5)] })
		g.meta("ws", base, wide, sameKindsTrimmedTexts)
		var cased []string
		for _, p := range ps {
			if len(p) > 0 && unicode.IsLetter(rune(p[0])) && p != "latest" {
				cased = append(cased, randomCase(r, p))
			} else {
				cased = append(cased, p)
			}
		}
		g.meta("case", base, joinParts(cased, func(int) string { return " " }), sameKinds)
	}
	// the time-reading states after BEFORE / AFTER / BETWEEN and after a HAVING comparison: every arrangement of a
	// few times, commas, blanks and terminators (the exhaustive part cannot spell the keywords)
	{
		tm := "2006-01-02T15:04:05Z"
		tails := []string{"", ";", " ;", " limit \"1\"^^type:int64;", ")", " )"}
		bodies := []string{"1", tm, "1,", "1,2", tm + "," + tm, tm + ", " + tm, "1,,", "1,2,3", tm + ", " + tm + ", " + tm, ",", ",1", "1 ,2", "1, ,2", "1,2,", "x", "1x,2y"}
		for _, kw := range []string{"before", "after", "between", "BETWEEN", "having ?x <", "having ?x = ", "(?x >"} {
			for _, b := range bodies {
				for _, tl := range tails {
					g.one("select ?s from ?g where {?s ?p ?o} "+kw+" "+b+tl, caps[r.intn(len(caps))])
				}
			}
		}
	}
	// ... and the white space that ends a time: any Unicode white space between two tokens, not only a blank
	{
		tm := "2006-01-02T15:04:05Z"
		seps := []string{"\t", "\r", "\f", "\v", "\u0085", "\u00a0", "\u2003", "\u3000", " \t ", "\r\n"}
		for _, ps := range [][]string{
			{"select", "?s", "from", "?g", "where", "{", "?s", "?p", "?o", "}", "having", "?x", "<", tm, "and", "?x", ">", tm, "limit", "\"1\"^^type:int64", ";"},
			{"select", "?s", "from", "?g", "where", "{", "?s", "?p", "?o", "}", "having", "(", "?x", "=", "1", ")", "or", "?x", "<", "2", ";"},
			{"select", "?s", "from", "?g", "where", "{", "?s", "?p", "?o", "}", "before", tm, ";"},
			{"select", "?s", "from", "?g", "where", "{", "?s", "?p", "?o", "}", "between", tm, ",", tm, "limit", "\"1\"^^type:int64", ";"},
		} {
			base := joinParts(ps, func(int) string { return " " })
			for _, sp := range seps {
				g.meta("ws", base, joinParts(ps, func(int) string { return sp }), sameKindsTrimmedTexts)
			}
			g.meta("ws", base, joinParts(ps, func(int) string { return seps[r.intn(len(seps))] }), sameKindsTrimmedTexts)
		}
	}
	// literal type names in any case
	for _, ty := range []string{"bool", "int64", "float64", "text", "blob"} {
		a := `"1"^^type:` + ty
		g.meta("case", a, `"1"^^type:`+randomCase(r, ty), sameKinds)
	}
	// 3. printed forms are one token carrying exactly that text: the fixed list and the printed forms of
	// values built through the constructors from pieces that matter to the lexer (no double quote inside)
	for _, pf := range append(append([]string{}, printedForms...), generatedPrintedForms(r, *n/6)...) {
		for _, ctx := range [][2]string{{"", ""}, {"select ", " ;"}, {"{ ", " }"}, {"  ", "\n"}} {
			in := ctx[0] + pf + ctx[1]
			fmt.Fprintf(g.ops, "M printed %s %s\n", hx(pf), hx(in))
			g.cur.Store(in)
			ts := lexAll(in, 1)
			found := "fail: printed form is not one token carrying exactly its text"
			for _, t := range ts {
				if t.Text == pf && t.Type != lexer.ItemError {
					found = "ok" // (an error token carrying the whole text is not the value's token)
				}
			}
			fmt.Fprintln(g.impl, found)
			g.n++
			g.hist["meta:printed"]++
		}
	}
	// 4. mutations of statements and random unicode (incl. invalid UTF-8)
	inject := []string{"?", "/", "_", ":", "\"", "@", "[", "]", "<", ">", "^", " ", ",", ";", "\\", "(", ")", "{", "}", ".", "=", "1", "a", "T",
		"é", "ſ", "K", "İ", "A", "Z", "Ü", "名", "ǅ", "_:", "_:A", " ", "\xff", "\xc3", "\"@[", "\"^^type:", "^^TYPE:Int64"}
	for i := 0; i < *n; i++ {
		ps := parts[r.intn(len(parts))]
		s := joinParts(ps, func(int) string { return " " })
		for k := r.intn(4); k >= 0; k-- {
			if len(s) == 0 {
				break
			}
			p := r.intn(len(s))
			switch r.intn(4) {
			case 0:
				s = s[:p] + s[p+1:]
			case 1:
				s = s[:p] + s[p:p+1] + s[p:]
			case 2:
				s = s[:p] + inject[r.intn(len(inject))] + s[p:]
			default:
				s = s[:p]
			}
		}
		g.one(s, caps[i%len(caps)])
	}
	for i := 0; i < *n/3; i++ {
		var b strings.Builder
		for k := r.intn(12); k >= 0; k-- {
			b.WriteString(inject[r.intn(len(inject))])
		}
		g.one(b.String(), caps[i%len(caps)])
	}
	wo.Flush()
	wi.Flush()
	fmt.Printf("inputs=%d exhaustive=%d\n", g.n, nEx)
	for k, v := range g.hist {
		fmt.Printf("hist %s %d\n", k, v)
	}
	return nil
}

func init() { register("lex", cmdLex) }
