package main

import (
	"fmt"
	"go/ast"
	"os"
	"sort"
	"strings"
)

// memofacts: go/ast extraction for C19 — what the memoizer's keys are made of and which protections
// its read and write paths have. Output: BW/Generated/MemoFacts.lean.

func cmdMemofacts(args []string) error {
	if len(args) != 1 {
		return fmt.Errorf("usage: memofacts <out.lean>")
	}
	st, err := loadSrc("storage", "storage.go")
	if err != nil {
		return err
	}
	mm, err := loadSrc("storage", "memoization", "memoization.go")
	if err != nil {
		return err
	}
	// fields of LookupOptions and the ones its printed form (hence its UUID, hence every key) mentions
	var fields, keyFields []string
	for _, d := range st.f.Decls {
		gd, ok := d.(*ast.GenDecl)
		if !ok {
			continue
		}
		for _, sp := range gd.Specs {
			ts, ok := sp.(*ast.TypeSpec)
			if !ok || ts.Name.Name != "LookupOptions" {
				continue
			}
			if stt, ok := ts.Type.(*ast.StructType); ok {
				for _, f := range stt.Fields.List {
					for _, n := range f.Names {
						fields = append(fields, n.Name)
					}
				}
			}
		}
	}
	if fd := st.fn("*LookupOptions", "String"); fd != nil {
		seen := map[string]bool{}
		ast.Inspect(fd.Body, func(n ast.Node) bool {
			if sel, ok := n.(*ast.SelectorExpr); ok {
				if id, ok := sel.X.(*ast.Ident); ok && id.Name == "l" && !seen[sel.Sel.Name] {
					seen[sel.Sel.Name] = true
					keyFields = append(keyFields, sel.Sel.Name)
				}
			}
			return true
		})
	}
	// the time bounds are printed as instants: every `.Format(` in String() is applied to `….UTC()` and asks for nanoseconds
	boundsAsInstants := false
	if fd := st.fn("*LookupOptions", "String"); fd != nil {
		body := st.str(fd.Body)
		boundsAsInstants = strings.Count(body, ".Format(") > 0 && strings.Count(body, ".Format(") == strings.Count(body, ".UTC().Format(time.RFC3339Nano)")
	}
	uuidFromString := false
	if fd := st.fn("*LookupOptions", "UUID"); fd != nil {
		uuidFromString = strings.Contains(st.str(fd.Body), "l.String()")
	}
	// read methods of graphMemoizer: parameters and the parts of the key
	type meth struct {
		name        string
		params, key []string
		guarded     bool // every store into a mem map happens under `gen == g.gen` and only without error
	}
	var meths []meth
	resetsAfter, sharedMemoizer := true, false
	nWrites := 0
	for _, d := range mm.f.Decls {
		fd, ok := d.(*ast.FuncDecl)
		if !ok || fd.Recv == nil || fd.Body == nil {
			continue
		}
		recv := mm.str(fd.Recv.List[0].Type)
		body := mm.str(fd.Body)
		if recv == "*graphMemoizer" && (fd.Name.Name == "AddTriples" || fd.Name.Name == "RemoveTriples") {
			nWrites++
			i1 := strings.Index(body, "g.reset()")
			i2 := strings.Index(body, "g.g."+fd.Name.Name+"(")
			i3 := strings.LastIndex(body, "g.reset()")
			if !(i1 >= 0 && i2 > i1 && i3 > i2) {
				resetsAfter = false
			}
		}
		if recv == "*storeMemoizer" && fd.Name.Name == "Graph" {
			sharedMemoizer = strings.Contains(body, "s.graphs[id]") && strings.Contains(body, "return m, nil")
		}
		if recv != "*graphMemoizer" || !strings.Contains(body, "combinedUUID(") {
			continue
		}
		m := meth{name: fd.Name.Name, guarded: true}
		for _, p := range fd.Type.Params.List {
			ty := mm.str(p.Type)
			if ty == "context.Context" || strings.HasPrefix(ty, "chan<-") {
				continue
			}
			for _, n := range p.Names {
				m.params = append(m.params, n.Name)
			}
		}
		ast.Inspect(fd.Body, func(n ast.Node) bool {
			c, ok := n.(*ast.CallExpr)
			if !ok || calleeName(c) != "combinedUUID" || len(m.key) > 0 {
				return true
			}
			for i, a := range c.Args {
				txt := mm.str(a)
				switch {
				case i == 0:
					m.key = append(m.key, "op:"+strings.Trim(txt, `"`))
				case txt == "storage.DefaultLookup":
					m.key = append(m.key, "lo:default")
				default:
					m.key = append(m.key, strings.TrimSuffix(txt, ".UUID()"))
				}
			}
			return true
		})
		// stores into the maps
		ast.Inspect(fd.Body, func(n ast.Node) bool {
			ifs, ok := n.(*ast.IfStmt)
			_ = ifs
			_ = ok
			return true
		})
		var walk func(n ast.Node, guards []string)
		walk = func(n ast.Node, guards []string) {
			switch x := n.(type) {
			case *ast.IfStmt:
				g2 := append(append([]string{}, guards...), mm.str(x.Cond))
				walk(x.Body, g2)
				if x.Else != nil {
					walk(x.Else, guards)
				}
				return
			case *ast.AssignStmt:
				if len(x.Lhs) == 1 {
					if ix, ok := x.Lhs[0].(*ast.IndexExpr); ok && strings.HasPrefix(mm.str(ix.X), "g.mem") {
						all := strings.Join(guards, " && ")
						if !(strings.Contains(all, "gen == g.gen") && strings.Contains(all, "err == nil")) {
							m.guarded = false
						}
					}
				}
			case *ast.BlockStmt:
				for _, st := range x.List {
					walk(st, guards)
				}
				return
			case *ast.FuncLit:
				return
			}
		}
		walk(fd.Body, nil)
		meths = append(meths, m)
	}
	sort.Slice(meths, func(i, j int) bool { return meths[i].name < meths[j].name })
	q := func(xs []string) string {
		var o []string
		for _, x := range xs {
			o = append(o, fmt.Sprintf("%q", x))
		}
		return "[" + strings.Join(o, ", ") + "]"
	}
	var b strings.Builder
	b.WriteString("/- GENERATED by `bwh memofacts` from storage/storage.go and storage/memoization/memoization.go — do not edit. -/\nnamespace BW.Generated\n\n")
	fmt.Fprintf(&b, "/-- Fields of storage.LookupOptions. -/\ndef lookupOptionFields : List String := %s\n\n", q(fields))
	fmt.Fprintf(&b, "/-- Fields that LookupOptions.String() prints (the UUID of the options is the hash of that text). -/\ndef cacheKeyFields : List String := %s\n\n", q(keyFields))
	fmt.Fprintf(&b, "def optionsUUIDFromString : Bool := %v\n\n", uuidFromString)
	fmt.Fprintf(&b, "/-- LookupOptions.String() prints its time bounds in UTC with nanoseconds: one text per instant. -/\ndef optionsBoundsAsInstants : Bool := %v\n\n", boundsAsInstants)
	b.WriteString("/-- Memoizing methods: name, parameters (without context and result channel), parts of the key. -/\ndef memoMethods : List (String × List String × List String) := [\n")
	for i, m := range meths {
		sep := ","
		if i == len(meths)-1 {
			sep = ""
		}
		fmt.Fprintf(&b, "  (%q, %s, %s)%s\n", m.name, q(m.params), q(m.key), sep)
	}
	b.WriteString("]\n\n")
	allGuarded := len(meths) > 0
	for _, m := range meths {
		allGuarded = allGuarded && m.guarded
	}
	fmt.Fprintf(&b, "/-- Every store into a memoization map is under `err == nil` and `gen == g.gen`. -/\ndef memoStoresGuarded : Bool := %v\n", allGuarded)
	fmt.Fprintf(&b, "/-- AddTriples and RemoveTriples reset the memoization before and after forwarding (%d update methods). -/\ndef memoResetsAfter : Bool := %v\n", nWrites, resetsAfter && nWrites == 2)
	fmt.Fprintf(&b, "/-- Store.Graph hands out the memoizer already kept for the graph name. -/\ndef memoSharedPerGraph : Bool := %v\n", sharedMemoizer)
	b.WriteString("\nend BW.Generated\n")
	return os.WriteFile(args[0], []byte(b.String()), 0o644)
}

func init() { register("memofacts", cmdMemofacts) }
