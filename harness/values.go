package main

import (
	"fmt"
	"math"
	"math/big"
	"strings"
	"time"

	"github.com/google/badwolf/triple"
	"github.com/google/badwolf/triple/literal"
	"github.com/google/badwolf/triple/node"
	"github.com/google/badwolf/triple/predicate"
)

// ---- protocol encodings of real values ----

func encNode(n *node.Node) string {
	return fmt.Sprintf("N,%s,%s", hx(n.Type().String()), hx(n.ID().String()))
}

func instantNanos(t time.Time) string {
	v := new(big.Int).Mul(big.NewInt(t.Unix()), big.NewInt(1000000000))
	v.Add(v, big.NewInt(int64(t.Nanosecond())))
	return v.String()
}

func encPred(p *predicate.Predicate) string {
	if p.Type() == predicate.Immutable {
		return fmt.Sprintf("PI,%s", hx(string(p.ID())))
	}
	ta, _ := p.TimeAnchor()
	_, off := ta.Zone()
	return fmt.Sprintf("PT,%s,%s,%d", hx(string(p.ID())), instantNanos(*ta), off)
}

func encLit(l *literal.Literal) string {
	switch l.Type() {
	case literal.Bool:
		b, _ := l.Bool()
		if b {
			return "LB,1"
		}
		return "LB,0"
	case literal.Int64:
		i, _ := l.Int64()
		return fmt.Sprintf("LI,%d", i)
	case literal.Float64:
		f, _ := l.Float64()
		return fmt.Sprintf("LF,%d", math.Float64bits(f))
	case literal.Text:
		s, _ := l.Text()
		return "LT," + hx(s)
	case literal.Blob:
		b, _ := l.Blob()
		return "LX," + hx(string(b))
	}
	return "L?"
}

func encObj(o *triple.Object) string {
	if n, err := o.Node(); err == nil {
		return encNode(n)
	}
	if p, err := o.Predicate(); err == nil {
		return encPred(p)
	}
	if l, err := o.Literal(); err == nil {
		return encLit(l)
	}
	return "O?"
}

// ---- the shared value universe (DESIGN.md appendix C) ----

func mustNode(t, id string) *node.Node {
	n, err := node.NewNodeFromStrings(t, id)
	if err != nil {
		panic(err)
	}
	return n
}

func mustImm(id string) *predicate.Predicate {
	p, err := predicate.NewImmutable(id)
	if err != nil {
		panic(err)
	}
	return p
}

func mustTmp(id string, t time.Time) *predicate.Predicate {
	p, err := predicate.NewTemporal(id, t)
	if err != nil {
		panic(err)
	}
	return p
}

func mustLit(t literal.Type, v interface{}) *literal.Literal {
	l, err := literal.DefaultBuilder().Build(t, v)
	if err != nil {
		panic(err)
	}
	return l
}

var (
	t0    = time.Date(2020, 1, 2, 3, 4, 5, 0, time.UTC)
	zoneE = time.FixedZone("", 3600)
	zoneW = time.FixedZone("", -5*3600-30*60)
)

func uniInstants() []time.Time {
	return []time.Time{
		t0,
		t0.In(zoneE), // same instant, other zone
		t0.Add(1),    // one nanosecond later
		t0.Add(-1),
		time.Date(2021, 6, 7, 8, 9, 10, 123456789, zoneW),
		time.Date(1, 1, 1, 0, 0, 0, 0, time.UTC),
		time.Date(9999, 12, 31, 23, 59, 59, 999999999, time.UTC),
		time.Date(1969, 12, 31, 23, 59, 59, 5, time.UTC), // negative unix time
		// a second instant on either side of the years UnixNano can represent (1678..2262)
		time.Date(1564, 4, 26, 0, 0, 0, 0, time.UTC),
		time.Date(2364, 1, 2, 3, 4, 5, 0, zoneE),
	}
}

func uniNodes() []*node.Node {
	return []*node.Node{
		mustNode("/u", "a"), mustNode("/u", "b"), mustNode("/t/u", "a"), mustNode("/tu", "a"),
		mustNode("/a", "bc"), mustNode("/ab", "c"), // UUID pre-images collide (D02)
		mustNode("/_", "x"), mustNode("/u", "a b"), mustNode("/u", "é"),
	}
}

func uniPredIDs() []string { return []string{"p", "q", "a\"b", "p q", "é@[", "immutable"} }

func uniPreds() []*predicate.Predicate {
	var ps []*predicate.Predicate
	for _, id := range uniPredIDs() {
		ps = append(ps, mustImm(id))
		for _, t := range uniInstants() {
			ps = append(ps, mustTmp(id, t))
		}
	}
	return ps
}

func uniLits(big bool) []*literal.Literal {
	ls := []*literal.Literal{
		mustLit(literal.Bool, true), mustLit(literal.Bool, false),
		mustLit(literal.Int64, int64(0)), mustLit(literal.Int64, int64(1)), mustLit(literal.Int64, int64(-1)),
		mustLit(literal.Int64, int64(-2)), mustLit(literal.Int64, int64(1)<<53), mustLit(literal.Int64, int64(1)<<55-1),
		mustLit(literal.Int64, -(int64(1) << 55)),
		mustLit(literal.Float64, 0.0), mustLit(literal.Float64, math.Copysign(0, -1)), mustLit(literal.Float64, 1.5),
		mustLit(literal.Float64, -1.5), mustLit(literal.Float64, 1e-7), mustLit(literal.Float64, math.Inf(1)),
		mustLit(literal.Float64, math.SmallestNonzeroFloat64),
		mustLit(literal.Text, ""), mustLit(literal.Text, "true"), mustLit(literal.Text, "1"), mustLit(literal.Text, "a\"b"),
		mustLit(literal.Text, "a b"), mustLit(literal.Text, "a!"), mustLit(literal.Text, "é"), mustLit(literal.Text, "/u<a>"),
		mustLit(literal.Blob, []byte{}), mustLit(literal.Blob, []byte{0}), mustLit(literal.Blob, []byte("true")),
	}
	if big {
		// (2^55, 2^56, 2^57: their varints are longer than eight bytes and agree on the first eight)
		ls = append(ls, mustLit(literal.Int64, int64(1)<<56), mustLit(literal.Int64, int64(1)<<57))
		ls = append(ls, mustLit(literal.Int64, int64(1)<<55), mustLit(literal.Int64, int64(math.MaxInt64)),
			mustLit(literal.Int64, int64(math.MinInt64)), mustLit(literal.Int64, -(int64(1)<<55)-1))
	}
	return ls
}

func uniObjects(big bool) []*triple.Object {
	var os []*triple.Object
	for _, n := range uniNodes() {
		os = append(os, triple.NewNodeObject(n))
	}
	for _, l := range uniLits(big) {
		os = append(os, triple.NewLiteralObject(l))
	}
	ps := uniPreds()
	for i, p := range ps {
		if i%3 == 0 || i < 10 {
			os = append(os, triple.NewPredicateObject(p))
		}
	}
	return os
}

// tripleLine renders a universe definition line for the Lean driver.
func tripleLine(id int, t *triple.Triple) string {
	return fmt.Sprintf("T %d %s %s %s %s %s %s %s", id, encNode(t.Subject()), encPred(t.Predicate()), encObj(t.Object()),
		hx(t.Predicate().String()), hx(t.String()), hx(t.Subject().String()), hx(t.Object().String()))
}

func joinInts(xs []int) string {
	if len(xs) == 0 {
		return "-"
	}
	var parts []string
	for _, x := range xs {
		parts = append(parts, fmt.Sprint(x))
	}
	return strings.Join(parts, ",")
}
