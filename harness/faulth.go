package main

// C20: every storage driver call a statement makes is failed in turn (before delivering anything,
// after j elements, on a write) by a wrapper around the memory driver; the statement then has to end
// with an error, in bounded time, leaving no goroutine behind.

import (
	"context"
	"errors"
	"flag"
	"fmt"
	"runtime"
	"sort"
	"strings"
	"sync"
	"time"

	"github.com/google/badwolf/storage"
	"github.com/google/badwolf/triple"
	"github.com/google/badwolf/triple/node"
	"github.com/google/badwolf/triple/predicate"
)

var errInjected = errors.New("injected driver failure")

type faultCtl struct {
	mu     sync.Mutex
	n      int      // driver calls so far
	failAt int      // index of the call to fail, -1 = none
	after  int      // elements a failing read delivers before it fails
	fired  string   // name of the call that was failed
	log    []string // names of the calls, in the order they were made
}

func (c *faultCtl) next(name string) bool {
	c.mu.Lock()
	defer c.mu.Unlock()
	idx := c.n
	c.n++
	c.log = append(c.log, name)
	if idx == c.failAt {
		c.fired = name
		return true
	}
	return false
}

type faultStore struct {
	inner storage.Store
	ctl   *faultCtl
}

func (s *faultStore) Name(ctx context.Context) string    { return s.inner.Name(ctx) }
func (s *faultStore) Version(ctx context.Context) string { return s.inner.Version(ctx) }
func (s *faultStore) NewGraph(ctx context.Context, id string) (storage.Graph, error) {
	if s.ctl.next("NewGraph") {
		return nil, errInjected
	}
	g, err := s.inner.NewGraph(ctx, id)
	if err != nil {
		return nil, err
	}
	return &faultGraph{g, s.ctl}, nil
}
func (s *faultStore) Graph(ctx context.Context, id string) (storage.Graph, error) {
	if s.ctl.next("Graph") {
		return nil, errInjected
	}
	g, err := s.inner.Graph(ctx, id)
	if err != nil {
		return nil, err
	}
	return &faultGraph{g, s.ctl}, nil
}
func (s *faultStore) DeleteGraph(ctx context.Context, id string) error {
	if s.ctl.next("DeleteGraph") {
		return errInjected
	}
	return s.inner.DeleteGraph(ctx, id)
}
func (s *faultStore) GraphNames(ctx context.Context, names chan<- string) error {
	if !s.ctl.next("GraphNames") {
		return s.inner.GraphNames(ctx, names)
	}
	tmp := make(chan string, 1024)
	s.inner.GraphNames(ctx, tmp)
	k := 0
	for n := range tmp {
		if k < s.ctl.after {
			names <- n
			k++
		}
	}
	close(names)
	return errInjected
}

type faultGraph struct {
	inner storage.Graph
	ctl   *faultCtl
}

func (g *faultGraph) ID(ctx context.Context) string { return g.inner.ID(ctx) }
func (g *faultGraph) AddTriples(ctx context.Context, ts []*triple.Triple) error {
	if g.ctl.next("AddTriples") {
		return errInjected
	}
	return g.inner.AddTriples(ctx, ts)
}
func (g *faultGraph) RemoveTriples(ctx context.Context, ts []*triple.Triple) error {
	if g.ctl.next("RemoveTriples") {
		return errInjected
	}
	return g.inner.RemoveTriples(ctx, ts)
}
func (g *faultGraph) Exist(ctx context.Context, t *triple.Triple) (bool, error) {
	if g.ctl.next("Exist") {
		return false, errInjected
	}
	return g.inner.Exist(ctx, t)
}

// relay fails a read: the wrapped driver runs to completion into a private channel, `after` elements
// are passed on, the caller's channel is closed (the contract of every lookup) and the error returned.
func relay[T any](ctl *faultCtl, name string, out chan<- T, call func(chan<- T) error) error {
	if !ctl.next(name) {
		return call(out)
	}
	tmp := make(chan T, 1<<16)
	call(tmp)
	k := 0
	for x := range tmp {
		if k < ctl.after {
			out <- x
			k++
		}
	}
	close(out)
	return errInjected
}

func (g *faultGraph) Objects(ctx context.Context, s *node.Node, p *predicate.Predicate, lo *storage.LookupOptions, c chan<- *triple.Object) error {
	return relay(g.ctl, "Objects", c, func(o chan<- *triple.Object) error { return g.inner.Objects(ctx, s, p, lo, o) })
}
func (g *faultGraph) Subjects(ctx context.Context, p *predicate.Predicate, o *triple.Object, lo *storage.LookupOptions, c chan<- *node.Node) error {
	return relay(g.ctl, "Subjects", c, func(x chan<- *node.Node) error { return g.inner.Subjects(ctx, p, o, lo, x) })
}
func (g *faultGraph) PredicatesForSubject(ctx context.Context, s *node.Node, lo *storage.LookupOptions, c chan<- *predicate.Predicate) error {
	return relay(g.ctl, "PredicatesForSubject", c, func(x chan<- *predicate.Predicate) error { return g.inner.PredicatesForSubject(ctx, s, lo, x) })
}
func (g *faultGraph) PredicatesForObject(ctx context.Context, o *triple.Object, lo *storage.LookupOptions, c chan<- *predicate.Predicate) error {
	return relay(g.ctl, "PredicatesForObject", c, func(x chan<- *predicate.Predicate) error { return g.inner.PredicatesForObject(ctx, o, lo, x) })
}
func (g *faultGraph) PredicatesForSubjectAndObject(ctx context.Context, s *node.Node, o *triple.Object, lo *storage.LookupOptions, c chan<- *predicate.Predicate) error {
	return relay(g.ctl, "PredicatesForSubjectAndObject", c, func(x chan<- *predicate.Predicate) error {
		return g.inner.PredicatesForSubjectAndObject(ctx, s, o, lo, x)
	})
}
func (g *faultGraph) TriplesForSubject(ctx context.Context, s *node.Node, lo *storage.LookupOptions, c chan<- *triple.Triple) error {
	return relay(g.ctl, "TriplesForSubject", c, func(x chan<- *triple.Triple) error { return g.inner.TriplesForSubject(ctx, s, lo, x) })
}
func (g *faultGraph) TriplesForPredicate(ctx context.Context, p *predicate.Predicate, lo *storage.LookupOptions, c chan<- *triple.Triple) error {
	return relay(g.ctl, "TriplesForPredicate", c, func(x chan<- *triple.Triple) error { return g.inner.TriplesForPredicate(ctx, p, lo, x) })
}
func (g *faultGraph) TriplesForObject(ctx context.Context, o *triple.Object, lo *storage.LookupOptions, c chan<- *triple.Triple) error {
	return relay(g.ctl, "TriplesForObject", c, func(x chan<- *triple.Triple) error { return g.inner.TriplesForObject(ctx, o, lo, x) })
}
func (g *faultGraph) TriplesForSubjectAndPredicate(ctx context.Context, s *node.Node, p *predicate.Predicate, lo *storage.LookupOptions, c chan<- *triple.Triple) error {
	return relay(g.ctl, "TriplesForSubjectAndPredicate", c, func(x chan<- *triple.Triple) error {
		return g.inner.TriplesForSubjectAndPredicate(ctx, s, p, lo, x)
	})
}
func (g *faultGraph) TriplesForPredicateAndObject(ctx context.Context, p *predicate.Predicate, o *triple.Object, lo *storage.LookupOptions, c chan<- *triple.Triple) error {
	return relay(g.ctl, "TriplesForPredicateAndObject", c, func(x chan<- *triple.Triple) error {
		return g.inner.TriplesForPredicateAndObject(ctx, p, o, lo, x)
	})
}
func (g *faultGraph) Triples(ctx context.Context, lo *storage.LookupOptions, c chan<- *triple.Triple) error {
	return relay(g.ctl, "Triples", c, func(x chan<- *triple.Triple) error { return g.inner.Triples(ctx, lo, x) })
}

func cmdFaults(args []string) error {
	fs := flag.NewFlagSet("faults", flag.ContinueOnError)
	n := fs.Int("n", 150, "statements in the corpus")
	opsPath := fs.String("ops", "", "")
	implPath := fs.String("impl", "", "")
	script := fs.String("script", "", "file: one statement per line instead of the generated corpus")
	if err := fs.Parse(args); err != nil {
		return err
	}
	fo, wo := mustCreate(*opsPath)
	fi, wi := mustCreate(*implPath)
	defer fo.Close()
	defer fi.Close()
	r := newRng(envSeed()*2654435761 + 2020)
	g := &storeGen{r: r, ops: wo, impl: wi, hist: map[string]int{}}
	g.store = populated()
	for i := 0; i < 20; i++ {
		t, _ := triple.New(qNodes[r.intn(len(qNodes))], qPreds[r.intn(len(qPreds))], qObjs[r.intn(len(qObjs))])
		g.uni = append(g.uni, t)
		g.uniOK = append(g.uniOK, true)
	}
	q := &qgen{r: r, g: g, hist: map[string]int{}}
	sg := &sgen{q: q, r: r, graphs: []string{"?a", "?b", "?g"}}
	modes := []string{"plain", "optional", "limit", "order", "group", "having"}
	var corpus []string
	if *script != "" {
		raw, err := readFileString(*script)
		if err != nil {
			return err
		}
		for _, l := range strings.Split(raw, "\n") {
			if strings.TrimSpace(l) != "" {
				corpus = append(corpus, l)
			}
		}
	} else {
		corpus = append(corpus, `show graphs;`, `create graph ?new1, ?new2;`, `drop graph ?a;`, `drop graph ?a, ?b;`,
			`insert data into ?a, ?b {/u<a> "p"@[] /u<b> . /u<a> "q"@[] "1"^^type:int64};`, `delete data from ?a, ?g {/u<a> "p"@[] /u<b>};`,
			`construct {?s "new"@[] ?o} into ?a, ?b from ?g where {?s ?p ?o};`,
			`construct {?s "new"@[] ?o ; "x"@[] ?p} into ?b from ?g, ?a where {?s ?p ?o};`,
			`deconstruct {?s ?p ?o} in ?a from ?a where {?s ?p ?o};`,
			`select ?s from ?a where {/u<a> "p"@[] /u<b> . ?s ?p ?o};`,
			`select ?s, ?o from ?a, ?b, ?g where {?s "p"@[] ?o . ?o ?q ?x};`,
			// LIMIT pushed down into the driver (one clause, three plain bindings): a read that fails after it
			// has delivered as many rows as the limit asks for has still failed
			`select ?s, ?p, ?o from ?a where {?s ?p ?o} limit "1"^^type:int64;`,
			`select ?s, ?p, ?o from ?a, ?b where {?s ?p ?o} limit "2"^^type:int64;`,
			`select ?s, ?p, ?o from ?g, ?a, ?b where {?s ?p ?o} limit "3"^^type:int64;`,
			`select ?o, ?s, ?p from ?b, ?g where {?s ?p ?o} limit "4"^^type:int64;`,
			// writes to several graphs of which more than one fails (here: do not exist): every failure is an error of
			// the statement, none may block another
			`insert data into ?nope1, ?nope2 {/u<a> "p"@[] /u<b>};`,
			`insert data into ?a, ?nope1, ?nope2 {/u<a> "p"@[] /u<b>};`,
			`delete data from ?nope1, ?nope2, ?nope3 {/u<a> "p"@[] /u<b>};`,
			`insert data into ?a, ?b, ?nope1 {/u<a> "p"@[] /u<b> . /u<c> "q"@[] "1"^^type:int64};`,
			`create graph ?a, ?b;`, `drop graph ?nope1, ?nope2;`)
		for i := 0; i < *n; i++ {
			if r.chance(3, 5) {
				q.mode = modes[r.intn(len(modes))]
				corpus = append(corpus, q.queryText([]string{"?a", "?b", "?g"}[:1+r.intn(3)]))
			} else {
				corpus = append(corpus, sg.statement())
			}
		}
	}
	hist := map[string]int{}
	calls := map[string]int{}
	for _, text := range corpus {
		if hist["fault-hang"]+hist["baseline-hang"] >= 4 {
			// every hang costs a watchdog period and leaves goroutines behind; a few are enough to report
			break
		}
		// fault-free run on a fresh copy of the populated store: which driver calls does the statement make?
		ctl := &faultCtl{failAt: -1}
		res, _ := runWithCfg(&faultStore{populated(), ctl}, text, runCfg{chanSize: 1, bulkSize: 2})
		total := ctl.n
		g.emit(fmt.Sprintf("C text=%s calls=%d", hx(text), total), res.cls+" "+strings.Join(ctl.log, ","))
		if res.cls != "ok" {
			hist["baseline-"+res.cls]++
			if res.cls == "ok" || strings.HasPrefix(res.cls, "err") {
				// the statement fails without any injected fault (say, a graph that does not exist): with one driver
				// call failing on top it still has to fail, in bounded time
				for k := 0; k < total; k++ {
					ctl := &faultCtl{failAt: k, after: 0}
					base := runtime.NumGoroutine()
					res, _ := runWithCfg(&faultStore{populated(), ctl}, text, runCfg{chanSize: 1, bulkSize: 2})
					cls := res.cls
					if cls != "hang" {
						if n := settle(base, 300*time.Millisecond); n > base {
							cls += "+leak"
						}
					}
					if ctl.fired == "" {
						continue
					}
					calls[ctl.fired]++
					hist["fault-"+cls]++
					g.emit(fmt.Sprintf("X text=%s cfg=%s at=%d after=0 call=%s", hx(text), runCfg{chanSize: 1, bulkSize: 2}, k, ctl.fired), cls)
				}
			}
			continue
		}
		hist["baseline-ok"]++
		for k := 0; k < total; k++ {
			for _, after := range []int{0, 1, 3} {
				ctl := &faultCtl{failAt: k, after: after}
				base := runtime.NumGoroutine()
				cfg := runCfg{chanSize: []int{0, 1, 16}[r.intn(3)], bulkSize: []int{1, 2, 100}[r.intn(3)]}
				res, _ := runWithCfg(&faultStore{populated(), ctl}, text, cfg)
				cls := res.cls
				if cls != "hang" {
					if n := settle(base, 300*time.Millisecond); n > base {
						cls += "+leak"
					}
				}
				if ctl.fired == "" {
					// the schedule of this run made fewer calls: nothing was failed
					hist["not-fired"]++
					continue
				}
				calls[ctl.fired]++
				hist["fault-"+cls]++
				g.emit(fmt.Sprintf("X text=%s cfg=%s at=%d after=%d call=%s", hx(text), cfg, k, after, ctl.fired), cls)
				if after > 0 && !isRead(ctl.fired) {
					break // writes and store calls have one failure mode
				}
			}
		}
	}
	wo.Flush()
	wi.Flush()
	keys := make([]string, 0)
	for k := range hist {
		keys = append(keys, k)
	}
	sort.Strings(keys)
	for _, k := range keys {
		fmt.Printf("hist %s %d\n", k, hist[k])
	}
	for k, v := range calls {
		fmt.Printf("call %s %d\n", k, v)
	}
	return nil
}

func isRead(name string) bool {
	switch name {
	case "AddTriples", "RemoveTriples", "Exist", "Graph", "NewGraph", "DeleteGraph":
		return false
	}
	return true
}

func init() { register("faults", cmdFaults) }
