package main

import (
	"fmt"
	"go/ast"
	"go/parser"
	"go/printer"
	"go/token"
	"os"
	"path/filepath"
	"strings"
)

// concfacts: go/ast extraction of the goroutine life-cycle facts the Lean model of C08/C20 is
// parameterised by (BW/Model/Conc.lean): who closes, who drains, who waits. Output:
// BW/Generated/ConcFacts.lean. Each fact is a syntactic sufficient condition; a rewrite that keeps the
// behaviour but changes the shape turns a fact false (a broken obligation, not a violation by itself).

type srcFile struct {
	fset *token.FileSet
	f    *ast.File
}

func loadSrc(rel ...string) (*srcFile, error) {
	fset := token.NewFileSet()
	f, err := parser.ParseFile(fset, filepath.Join(append([]string{repoRoot}, rel...)...), nil, 0)
	if err != nil {
		return nil, err
	}
	return &srcFile{fset, f}, nil
}

func (s *srcFile) str(n ast.Node) string {
	var b strings.Builder
	printer.Fprint(&b, s.fset, n)
	return b.String()
}

// fn finds a function or method by name (recv "" = plain function).
func (s *srcFile) fn(recv, name string) *ast.FuncDecl {
	for _, d := range s.f.Decls {
		fd, ok := d.(*ast.FuncDecl)
		if !ok || fd.Name.Name != name {
			continue
		}
		r := ""
		if fd.Recv != nil && len(fd.Recv.List) == 1 {
			r = s.str(fd.Recv.List[0].Type)
		}
		if r == recv {
			return fd
		}
	}
	return nil
}

// returnsOutsideLits lists the return statements of a body that are not inside function literals.
func returnsOutsideLits(body *ast.BlockStmt) []*ast.ReturnStmt {
	var out []*ast.ReturnStmt
	ast.Inspect(body, func(n ast.Node) bool {
		switch x := n.(type) {
		case *ast.FuncLit:
			return false
		case *ast.ReturnStmt:
			out = append(out, x)
		}
		return true
	})
	return out
}

func hasStmtText(s *srcFile, stmts []ast.Stmt, text string) int {
	for i, st := range stmts {
		if strings.TrimSpace(s.str(st)) == text {
			return i
		}
	}
	return -1
}

func containsBranchOut(body *ast.BlockStmt) bool {
	found := false
	ast.Inspect(body, func(n ast.Node) bool {
		switch x := n.(type) {
		case *ast.FuncLit:
			return false
		case *ast.ReturnStmt:
			found = true
		case *ast.BranchStmt:
			if x.Tok == token.BREAK || x.Tok == token.GOTO {
				found = true
			}
		}
		return true
	})
	return found
}

func cmdConcfacts(args []string) error {
	if len(args) != 1 {
		return fmt.Errorf("usage: concfacts <out.lean>")
	}
	facts := map[string]bool{}
	notes := map[string]string{}
	set := func(k string, v bool, note string) { facts[k] = v; notes[k] = note }

	// 1. Parser.Parse drains the LLk on every return path; LLk.drain ranges over the token channel.
	if ps, err := loadSrc("bql", "grammar", "parser.go"); err == nil {
		ok := false
		if fd := ps.fn("*Parser", "Parse"); fd != nil && len(fd.Body.List) > 0 {
			ok = strings.TrimSpace(ps.str(fd.Body.List[0])) == "defer llk.drain()"
		}
		if ls, err := loadSrc("bql", "grammar", "llk.go"); err == nil {
			d := ls.fn("*LLk", "drain")
			ok = ok && d != nil && len(d.Body.List) == 1 && strings.HasPrefix(strings.TrimSpace(ls.str(d.Body.List[0])), "for range l.c {")
		} else {
			ok = false
		}
		set("parserDrains", ok, "Parser.Parse starts with `defer llk.drain()`; LLk.drain is `for range l.c {}`")
	}
	// 2. the lexer goroutine closes its channel when the state machine ends, and only ends that way
	if ls, err := loadSrc("bql", "lexer", "lexer.go"); err == nil {
		ok := false
		if fd := ls.fn("*lexer", "run"); fd != nil && len(fd.Body.List) >= 2 {
			last := strings.TrimSpace(ls.str(fd.Body.List[len(fd.Body.List)-1]))
			ok = last == "close(l.tokens)" && len(returnsOutsideLits(fd.Body)) == 0
		}
		set("lexerCloses", ok, "lexer.run ends with close(l.tokens) and has no return statement")
	}
	// 3. addTriples drains its input on every return path
	ds, derr := loadSrc("bql", "planner", "data_access.go")
	if derr == nil {
		ok := false
		if fd := ds.fn("", "addTriples"); fd != nil {
			ok = hasStmtText(ds, fd.Body.List, "defer drainChannel(ts)") >= 0
		}
		set("addTriplesDrains", ok, "addTriples defers drainChannel(ts)")
		// 4. simpleFetch: every channel it makes for addTriples is either handed to the driver (which closes it,
		// fact memoryCloses / the Graph contract) or fed by a relay loop that runs to the end of the driver's
		// channel and is followed by close(ts)
		ok = false
		if fd := ds.fn("", "simpleFetch"); fd != nil {
			makes, good, badLoops := 0, 0, 0
			ast.Inspect(fd.Body, func(n ast.Node) bool {
				blk, isBlk := n.(*ast.BlockStmt)
				if !isBlk {
					return true
				}
				for i, st := range blk.List {
					as, isAs := st.(*ast.AssignStmt)
					if !isAs || len(as.Lhs) != 1 || ds.str(as.Lhs[0]) != "ts" || !strings.HasPrefix(ds.str(as.Rhs[0]), "make(chan *triple.Triple") {
						continue
					}
					makes++
					closed, handed := false, false
					for _, later := range blk.List[i+1:] {
						txt := ds.str(later)
						if strings.TrimSpace(txt) == "close(ts)" {
							closed = true
						}
						if strings.Contains(txt, ", ts)") && strings.Contains(txt, "= g.") {
							handed = true
						}
						if rs, isRange := later.(*ast.RangeStmt); isRange && containsBranchOut(rs.Body) {
							badLoops++
						}
					}
					if closed != handed { // exactly one of the two
						good++
					}
				}
				return true
			})
			ok = makes > 0 && makes == good && badLoops == 0
			notes["relayCloses"] = fmt.Sprintf("simpleFetch: %d channels made for addTriples, %d closed by a complete relay loop or handed to the driver, %d relay loops with return/break", makes, good, badLoops)
		}
		facts["relayCloses"] = ok
	}
	// 5. constructPlan.Execute: after the writer is started every return goes through finish, which
	// closes the channel and waits for the writer
	pl, perr := loadSrc("bql", "planner", "planner.go")
	if perr == nil {
		ok := false
		if fd := pl.fn("*constructPlan", "Execute"); fd != nil {
			goIdx := -1
			for i, st := range fd.Body.List {
				if _, isGo := st.(*ast.GoStmt); isGo {
					goIdx = i
					break
				}
			}
			finishOK := false
			allThrough := goIdx >= 0
			for i, st := range fd.Body.List {
				if i <= goIdx {
					continue
				}
				if as, isAs := st.(*ast.AssignStmt); isAs && len(as.Lhs) == 1 && pl.str(as.Lhs[0]) == "finish" {
					txt := pl.str(as.Rhs[0])
					finishOK = strings.Contains(txt, "close(tripChan)") && strings.Contains(txt, "<-done")
					continue
				}
				blk := &ast.BlockStmt{List: []ast.Stmt{st}}
				for _, r := range returnsOutsideLits(blk) {
					if len(r.Results) != 1 || !strings.HasPrefix(pl.str(r.Results[0]), "finish(") {
						allThrough = false
					}
				}
			}
			ok = finishOK && allThrough
		}
		set("constructFinishes", ok, "constructPlan.Execute: every return after `go func()` is `return finish(...)`; finish closes tripChan and receives from done")
		// 7. update(): one goroutine per target, each with a deferred Done, all awaited
		ok = false
		if fd := pl.fn("", "update"); fd != nil {
			txt := pl.str(fd.Body)
			ok = strings.Contains(txt, "wg.Add(1)") && strings.Contains(txt, "defer wg.Done()") && strings.Contains(txt, "wg.Wait()") &&
				strings.Index(txt, "wg.Wait()") > strings.Index(txt, "go func")
		}
		set("updateWaits", ok, "update(): wg.Add(1) per goroutine, deferred wg.Done(), wg.Wait() after the loop")
	}
	// 6. the memory driver closes the channel it is handed on every path
	if ms, err := loadSrc("storage", "memory", "memory.go"); err == nil {
		n, good := 0, 0
		for _, d := range ms.f.Decls {
			fd, isFn := d.(*ast.FuncDecl)
			if !isFn || fd.Recv == nil {
				continue
			}
			chanParam := ""
			for _, p := range fd.Type.Params.List {
				if ct, isCh := p.Type.(*ast.ChanType); isCh && ct.Dir == ast.SEND && len(p.Names) == 1 {
					chanParam = p.Names[0].Name
				}
			}
			if chanParam == "" {
				continue
			}
			n++
			if hasStmtText(ms, fd.Body.List, "defer close("+chanParam+")") >= 0 {
				good++
				continue
			}
			// GraphNames: closes right before its final return; the only other return refuses a nil channel
			if len(fd.Body.List) >= 2 && strings.TrimSpace(ms.str(fd.Body.List[len(fd.Body.List)-2])) == "close("+chanParam+")" {
				others := 0
				for _, st := range fd.Body.List[:len(fd.Body.List)-1] {
					if ifs, isIf := st.(*ast.IfStmt); isIf && ms.str(ifs.Cond) == chanParam+" == nil" {
						continue
					}
					others += len(returnsOutsideLits(&ast.BlockStmt{List: []ast.Stmt{st}}))
				}
				if others == 0 {
					good++
				}
			}
		}
		facts["memoryCloses"] = n > 0 && n == good
		notes["memoryCloses"] = fmt.Sprintf("memory driver: %d of %d methods taking a send-only channel close it on every path", good, n)
	}
	keys := []string{"parserDrains", "lexerCloses", "addTriplesDrains", "relayCloses", "constructFinishes", "memoryCloses", "updateWaits"}
	var b strings.Builder
	b.WriteString("/- GENERATED by `bwh concfacts` from bql/grammar/{parser,llk}.go, bql/lexer/lexer.go, bql/planner/{planner,data_access}.go,\n   storage/memory/memory.go — do not edit. -/\nnamespace BW.Generated\n\n")
	b.WriteString("structure ConcFacts where\n")
	for _, k := range keys {
		fmt.Fprintf(&b, "  %s : Bool\n", k)
	}
	b.WriteString("  deriving DecidableEq, Repr\n\ndef concFacts : ConcFacts where\n")
	for _, k := range keys {
		fmt.Fprintf(&b, "  %s := %v   -- %s\n", k, facts[k], notes[k])
	}
	b.WriteString("\nend BW.Generated\n")
	return os.WriteFile(args[0], []byte(b.String()), 0o644)
}

func init() { register("concfacts", cmdConcfacts) }
