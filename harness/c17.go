package main

import (
	"bufio"
	"fmt"
	"os"
	"strings"

	"github.com/google/badwolf/bql/grammar"
	"github.com/google/badwolf/bql/lexer"
	"github.com/google/badwolf/bql/semantic"
)

type fired struct {
	sym string
	alt int
}

// probedGrammar returns a private copy of grammar.BQL() whose ProcessStart hooks record which
// (rule, alternative) the real parser takes.
func probedGrammar(rec *[]fired) *grammar.Grammar {
	g := grammar.BQL()
	for sym, clauses := range *g {
		for i, c := range clauses {
			s, idx := string(sym), i
			var hook semantic.ClauseHook
			hook = func(st *semantic.Statement, _ semantic.Symbol) (semantic.ClauseHook, error) {
				*rec = append(*rec, fired{s, idx})
				return hook, nil
			}
			c.ProcessStart = hook
		}
	}
	return g
}

// realParse runs the real parser; returns the class and the alternatives fired.
func realParse(p *grammar.Parser, rec *[]fired, text string) (string, []fired) {
	*rec = (*rec)[:0]
	llk := grammar.NewLLk(text, 1)
	st := &semantic.Statement{}
	err := p.Parse(llk, st)
	cls := "accept"
	if err != nil {
		cls = "reject"
	} else if llk.Current().Type != lexer.ItemEOF {
		cls = "accept-partial"
	}
	out := append([]fired{}, (*rec)...)
	return cls, out
}

func showFired(fs []fired) string {
	var parts []string
	for _, f := range fs {
		parts = append(parts, fmt.Sprintf("%s:%d", f.sym, f.alt))
	}
	return strings.Join(parts, ",")
}

// cmdC17 prints, for every translator witness, what the REAL parser does with its rendering.
func cmdC17(args []string) error {
	w := bufio.NewWriter(os.Stdout)
	defer w.Flush()
	var rec []fired
	p, err := grammar.NewParser(probedGrammar(&rec))
	if err != nil {
		return err
	}
	texts := tokenTexts()
	g := loadGrammar(grammar.BQL())
	for _, wt := range g.witnesses() {
		var names []string
		for _, t := range wt.toks {
			names = append(names, t.String())
		}
		text, err := renderTokens(wt.toks, texts)
		if err != nil {
			fmt.Fprintf(w, "W %s %d render-error [%v] %s\n", wt.sym, wt.alt, err, strings.Join(names, " "))
			continue
		}
		cls, fs := realParse(p, &rec, text)
		fmt.Fprintf(w, "W %s %d %s [%s] %s\n", wt.sym, wt.alt, cls, showFired(fs), strings.Join(names, " "))
		if len(args) > 0 && args[0] == "-texts" {
			fmt.Fprintf(w, "# %s\n", text)
		}
	}
	return nil
}

func init() { register("c17", cmdC17) }
