package main

// C14: metamorphic variants of one SELECT. Every variant is an ordinary `Q` line (so the Lean model
// and the Lean specification answer it too); an `M` line states the relation that the property demands
// between two of them. The relation is evaluated by the check on all three output streams.

import (
	"os"
	"flag"
	"fmt"
	"runtime"
	"strconv"
	"strings"

	"github.com/google/badwolf/bql/semantic"
	"github.com/google/badwolf/storage"
	"github.com/google/badwolf/triple"
)

type runCfg struct{ chanSize, bulkSize, procs int }

func (c runCfg) String() string { return fmt.Sprintf("%d,%d,%d", c.chanSize, c.bulkSize, c.procs) }

func parseCfg(s string) runCfg {
	f := strings.Split(s, ",")
	c := runCfg{chanSize: 1, bulkSize: 1}
	if len(f) == 3 {
		c.chanSize, _ = strconv.Atoi(f[0])
		c.bulkSize, _ = strconv.Atoi(f[1])
		c.procs, _ = strconv.Atoi(f[2])
	}
	return c
}

// curFile (VERIF_CURFILE): the statement being executed, for the post-mortem of a crash in a goroutine the engine
// spawned (which no recover of the harness can catch).
var curFile = func() *os.File {
	if p := os.Getenv("VERIF_CURFILE"); p != "" {
		f, _ := os.Create(p)
		return f
	}
	return nil
}()

func runWithCfg(store storage.Store, text string, c runCfg) (execResult, *semantic.Statement) {
	if curFile != nil {
		curFile.Truncate(0)
		curFile.Seek(0, 0)
		curFile.WriteString(hx(text) + "\n")
		curFile.Sync()
	}
	if c.procs > 0 {
		old := runtime.GOMAXPROCS(c.procs)
		defer runtime.GOMAXPROCS(old)
	}
	res, st := runStatement(store, text, c.chanSize, c.bulkSize)
	return res, st
}

// renameBindings applies a consistent renaming to every binding of the SELECT list and the WHERE
// pattern (graph names in FROM also start with '?', they are not bindings and stay).
func renameBindings(s string, m map[string]string) string {
	var b strings.Builder
	i := 0
	inQuote := false
	for i < len(s) {
		c := s[i]
		if c == '"' {
			inQuote = !inQuote
		}
		if c == '?' && !inQuote {
			j := i + 1
			for j < len(s) && (s[j] == '_' || (s[j] >= 'a' && s[j] <= 'z') || (s[j] >= '0' && s[j] <= '9')) {
				j++
			}
			name := s[i:j]
			if n, ok := m[name]; ok {
				b.WriteString(n)
			} else {
				b.WriteString(name)
			}
			i = j
			continue
		}
		b.WriteByte(c)
		i++
	}
	return b.String()
}

func cmdMeta(args []string) error {
	fs := flag.NewFlagSet("meta", flag.ContinueOnError)
	n := fs.Int("n", 200, "scenarios")
	per := fs.Int("per", 6, "base queries per scenario")
	opsPath := fs.String("ops", "", "")
	implPath := fs.String("impl", "", "")
	if err := fs.Parse(args); err != nil {
		return err
	}
	fo, wo := mustCreate(*opsPath)
	fi, wi := mustCreate(*implPath)
	defer fo.Close()
	defer fi.Close()
	r := newRng(envSeed()*2654435761 + 1414)
	g := &storeGen{r: r, ops: wo, impl: wi, hist: map[string]int{}}
	q := &qgen{r: r, g: g, mode: "plain", hist: map[string]int{}, meta: true}
	qid := 0
	kinds := map[string]int{}
	cfgs := []runCfg{{0, 1, 1}, {1, 1, 2}, {64, 7, 16}, {3, 0, 4}, {0, 100, 16}, {1000, 1, 1}}
	base := []string{"?g"}
	parts2 := []string{"?h0", "?h1"}
	parts3 := []string{"?k0", "?k1", "?k2"}
	super := []string{"?s"}
	for sc := 0; sc < *n; sc++ {
		g.comment(fmt.Sprintf("scenario %d", sc))
		g.reset()
		nt := 3 + r.intn(18)
		seen := map[string]bool{}
		mk := func() int {
			for tries := 0; tries < 200; tries++ {
				objs := qObjs
				if r.chance(1, 3) {
					objs = qNums
				}
				t, _ := triple.New(qNodes[r.intn(len(qNodes))], qPreds[r.intn(len(qPreds))], objs[r.intn(len(objs))])
				if k := valueIdentity(t); !seen[k] {
					seen[k] = true
					return g.define(t)
				}
			}
			return -1
		}
		var data, extra []int
		for i := 0; i < nt; i++ {
			if id := mk(); id >= 0 {
				data = append(data, id)
			}
		}
		// layouts of the same data: one graph, two and three disjoint parts (each triple in exactly one)
		fill := func(names []string, ids []int) {
			buckets := make([][]int, len(names))
			for _, id := range ids {
				k := r.intn(len(names))
				buckets[k] = append(buckets[k], id)
			}
			for i, nm := range names {
				g.doNew(nm)
				g.doMut(true, nm, buckets[i])
			}
		}
		fill(base, data)
		fill(parts2, data)
		fill(parts3, data)
		// the query generator draws its clauses from the data, not from the extra triples
		g.names = base
		var queries []struct {
			proj, cls []string
			tail      string
			optional  bool
		}
		for k := 0; k < *per; k++ {
			q.mode = "plain"
			if r.chance(1, 3) {
				q.mode = "optional"
			}
			q.queryText(base)
			queries = append(queries, struct {
				proj, cls []string
				tail      string
				optional  bool
			}{append([]string{}, q.lastProj...), append([]string{}, q.lastCls...), q.lastTail, strings.Contains(strings.Join(q.lastCls, " "), "optional")})
		}
		for i := 0; i < 1+r.intn(6); i++ {
			if id := mk(); id >= 0 {
				extra = append(extra, id)
			}
		}
		g.doNew(super[0])
		g.doMut(true, super[0], append(append([]int{}, data...), extra...))

		emitQ := func(text string, c runCfg) int {
			res, st := runWithCfg(g.store, text, c)
			stEnc := "-"
			if st != nil {
				stEnc = encStatement(st)
			}
			qid++
			ans := res.cls
			if res.cls == "ok" {
				ans = res.text
			}
			g.emit(fmt.Sprintf("Q qid=%d cfg=%s overlap=0 text=%s %s", qid, c, hx(text), stEnc), ans)
			q.hist[res.cls]++
			return qid
		}
		rel := func(kind, relation string, a, b int) {
			g.emit(fmt.Sprintf("M rel=%s a=%d b=%d kind=%s", relation, a, b, kind), "-")
			kinds[kind]++
		}
		build := func(proj, cls []string, graphs []string, tail string) string {
			return fmt.Sprintf("select %s from %s where { %s }%s;", strings.Join(proj, ", "), strings.Join(graphs, ", "), strings.Join(cls, " . "), tail)
		}
		for _, bq := range queries {
			c0 := cfgs[r.intn(len(cfgs))]
			text := build(bq.proj, bq.cls, base, bq.tail)
			b := emitQ(text, c0)
			// repeated execution under other channel / bulk sizes and processor counts
			for _, c := range []runCfg{cfgs[r.intn(len(cfgs))], cfgs[r.intn(len(cfgs))]} {
				rel("config", "same", b, emitQ(text, c))
			}
			// consistent renaming of the bindings (a bijection; sometimes onto the same names permuted)
			names := bindingsIn(strings.NewReplacer(`"p"`, "", `"q"`, "").Replace(strings.Join(bq.proj, " ") + " " + strings.Join(bq.cls, " ")))
			m := map[string]string{}
			if r.chance(1, 2) {
				perm := r.perm(len(names))
				for i, nm := range names {
					m[nm] = names[perm[i]]
				}
			} else {
				perm := r.perm(len(names))
				for i, nm := range names {
					m[nm] = fmt.Sprintf("?%c%d", "zmab"[r.intn(4)], perm[i])
				}
			}
			ren := func(xs []string) []string {
				var out []string
				for _, x := range xs {
					out = append(out, renameBindings(x, m))
				}
				return out
			}
			rel("rename", "samerows", b, emitQ(build(ren(bq.proj), ren(bq.cls), base, bq.tail), cfgs[r.intn(len(cfgs))]))
			// the SELECT list written in another order: the same rows, each value under the same column name
			if len(bq.proj) > 1 {
				perm := r.perm(len(bq.proj))
				var pj []string
				for _, i := range perm {
					pj = append(pj, bq.proj[i])
				}
				rel("projection-order", "permcols", b, emitQ(build(pj, bq.cls, base, bq.tail), cfgs[r.intn(len(cfgs))]))
			}
			// the same data partitioned over two and three graphs
			rel("partition2", "same", b, emitQ(build(bq.proj, bq.cls, parts2, bq.tail), cfgs[r.intn(len(cfgs))]))
			rel("partition3", "same", b, emitQ(build(bq.proj, bq.cls, parts3, bq.tail), cfgs[r.intn(len(cfgs))]))
			// a predicate bounded by bindings ("id"@[?lo,?hi]) reads what earlier clauses bound: clause order is part of its meaning
			boundAlias := false
			for _, c := range bq.cls {
				if i := strings.Index(c, "@[?"); i >= 0 && strings.Contains(c[i:], ",") {
					boundAlias = true
				}
				if strings.Contains(c, "@[,?") {
					boundAlias = true
				}
			}
			if !bq.optional {
				if len(bq.cls) > 1 && !boundAlias {
					perm := r.perm(len(bq.cls))
					var cls []string
					for _, i := range perm {
						cls = append(cls, bq.cls[i])
					}
					rel("clause-order", "same", b, emitQ(build(bq.proj, cls, base, bq.tail), cfgs[r.intn(len(cfgs))]))
				}
				rel("superset", "sub", b, emitQ(build(bq.proj, bq.cls, super, bq.tail), cfgs[r.intn(len(cfgs))]))
			}
			// ORDER BY over every output column determines the sequence up to identical rows
			var outs []string
			for _, p := range bq.proj {
				f := strings.Fields(p)
				outs = append(outs, f[len(f)-1]+[]string{"", " asc", " desc"}[r.intn(3)])
			}
			ot := fmt.Sprintf("select %s from %s where { %s } order by %s%s;", strings.Join(bq.proj, ", "), strings.Join(base, ", "),
				strings.Join(bq.cls, " . "), strings.Join(outs, ", "), bq.tail)
			o1 := emitQ(ot, cfgs[r.intn(len(cfgs))])
			rel("total-order", "sameseq", o1, emitQ(ot, cfgs[r.intn(len(cfgs))]))
			ot3 := fmt.Sprintf("select %s from %s where { %s } order by %s%s;", strings.Join(bq.proj, ", "), strings.Join(parts3, ", "),
				strings.Join(bq.cls, " . "), strings.Join(outs, ", "), bq.tail)
			rel("total-order-partitioned", "sameseq", o1, emitQ(ot3, cfgs[r.intn(len(cfgs))]))
		}
	}
	wo.Flush()
	wi.Flush()
	fmt.Printf("queries=%d\n", qid)
	for k, v := range q.hist {
		fmt.Printf("hist %s %d\n", k, v)
	}
	for k, v := range kinds {
		fmt.Printf("kind %s %d\n", k, v)
	}
	return nil
}

func init() { register("meta", cmdMeta) }
