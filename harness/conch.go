package main

// C07: concurrent use of one store.
//  H lines: small concurrent histories (2-3 goroutines, a handful of operations on one or two graphs)
//           with call/return stamps and results, for the linearizability checker of the Lean driver;
//  L lines: every lookup closes its channel exactly once (also on its error paths) and leaves the
//           options it was handed as they were;
//  S lines: a caller half way through a look-up uses the store while another goroutine does too;
//  N lines: the consumer of a look-up reads the same graph between results, with and without a writer
//           arriving (model: Model/Chan.lean);
//  R line : a randomized stress run (meant for the -race build) ending without panic or deadlock.

import (
	"context"
	"flag"
	"fmt"
	"reflect"
	"sort"
	"strings"
	"sync"
	"sync/atomic"
	"time"

	"github.com/google/badwolf/bql/planner/filter"
	"github.com/google/badwolf/storage"
	"github.com/google/badwolf/storage/memory"
	"github.com/google/badwolf/triple"
	"github.com/google/badwolf/triple/literal"
	"github.com/google/badwolf/triple/node"
	"github.com/google/badwolf/triple/predicate"
)

type hop struct {
	thread    int
	call, ret int64
	kind      string // add rem exist triples new get del names
	graph     string
	ids       []int
	result    string
}

func concUniverse() []*triple.Triple {
	var ts []*triple.Triple
	for _, s := range []string{"a", "b"} {
		for _, o := range []string{"x", "y", "z"} {
			t, _ := triple.New(mustNode("/u", s), mustImm("p"), triple.NewNodeObject(mustNode("/u", o)))
			ts = append(ts, t)
		}
	}
	return ts
}

func listIDs(g storage.Graph, uni []*triple.Triple) string {
	ctx := context.Background()
	ch := make(chan *triple.Triple, 64)
	ec := make(chan error, 1)
	go func() { ec <- g.Triples(ctx, storage.DefaultLookup, ch) }()
	var ids []int
	for t := range ch {
		for i, u := range uni {
			if u.String() == t.String() {
				ids = append(ids, i)
			}
		}
	}
	if err := <-ec; err != nil {
		return "err"
	}
	sort.Ints(ids)
	return "[" + joinInts(ids) + "]"
}

func oneHistory(r *rng, uni []*triple.Triple) []hop {
	ctx := context.Background()
	st := memory.NewStore()
	graphs := []string{"?g", "?h"}
	g0, _ := st.NewGraph(ctx, graphs[0])
	if r.chance(1, 2) {
		var init []*triple.Triple
		for _, t := range uni {
			if r.chance(1, 3) {
				init = append(init, t)
			}
		}
		g0.AddTriples(ctx, init)
	}
	var clock int64
	var mu sync.Mutex
	var hist []hop
	// the initial content as an operation that precedes everything
	hist = append(hist, hop{thread: -1, call: 0, ret: 0, kind: "init", graph: graphs[0], result: listIDs(g0, uni)})
	nth := 2 + r.intn(2)
	plans := make([][]hop, nth)
	for th := 0; th < nth; th++ {
		for k := 0; k < 1+r.intn(3); k++ {
			h := hop{thread: th, graph: graphs[0]}
			switch x := r.intn(12); {
			case x < 3:
				h.kind = "add"
				for i := range uni {
					if r.chance(1, 2) {
						h.ids = append(h.ids, i)
					}
				}
			case x < 5:
				h.kind = "rem"
				for i := range uni {
					if r.chance(1, 3) {
						h.ids = append(h.ids, i)
					}
				}
			case x < 7:
				h.kind = "exist"
				h.ids = []int{r.intn(len(uni))}
			case x < 10:
				h.kind = "triples"
			case x < 11:
				h.kind = []string{"new", "get", "del"}[r.intn(3)]
				h.graph = graphs[1]
			default:
				h.kind = "names"
			}
			plans[th] = append(plans[th], h)
		}
	}
	start := make(chan struct{})
	var wg sync.WaitGroup
	for th := 0; th < nth; th++ {
		wg.Add(1)
		go func(th int) {
			defer wg.Done()
			<-start
			for _, h := range plans[th] {
				h.call = atomic.AddInt64(&clock, 1)
				func() {
					defer func() {
						if e := recover(); e != nil {
							h.result = "panic"
						}
					}()
					var ts []*triple.Triple
					for _, i := range h.ids {
						ts = append(ts, uni[i])
					}
					switch h.kind {
					case "add":
						g, err := st.Graph(ctx, h.graph)
						if err == nil {
							err = g.AddTriples(ctx, ts)
						}
						h.result = okErr(err)
					case "rem":
						g, err := st.Graph(ctx, h.graph)
						if err == nil {
							err = g.RemoveTriples(ctx, ts)
						}
						h.result = okErr(err)
					case "exist":
						g, err := st.Graph(ctx, h.graph)
						if err != nil {
							h.result = "err"
							return
						}
						b, err := g.Exist(ctx, ts[0])
						if err != nil {
							h.result = "err"
						} else {
							h.result = fmt.Sprint(b)
						}
					case "triples":
						g, err := st.Graph(ctx, h.graph)
						if err != nil {
							h.result = "err"
							return
						}
						h.result = listIDs(g, uni)
					case "new":
						_, err := st.NewGraph(ctx, h.graph)
						h.result = okErr(err)
					case "get":
						_, err := st.Graph(ctx, h.graph)
						h.result = okErr(err)
					case "del":
						h.result = okErr(st.DeleteGraph(ctx, h.graph))
					case "names":
						ch := make(chan string, 8)
						if err := st.GraphNames(ctx, ch); err != nil {
							h.result = "err"
							return
						}
						var ns []string
						for n := range ch {
							ns = append(ns, hx(n))
						}
						sort.Strings(ns)
						h.result = "{" + strings.Join(ns, ",") + "}"
					}
				}()
				h.ret = atomic.AddInt64(&clock, 1)
				mu.Lock()
				hist = append(hist, h)
				mu.Unlock()
			}
		}(th)
	}
	close(start)
	done := make(chan struct{})
	go func() { wg.Wait(); close(done) }()
	select {
	case <-done:
	case <-time.After(10 * time.Second):
		return []hop{{kind: "deadlock"}}
	}
	return hist
}

func encHistory(h []hop) string {
	var parts []string
	for _, o := range h {
		ids := "-"
		if len(o.ids) > 0 {
			ids = joinInts(o.ids)
		}
		parts = append(parts, fmt.Sprintf("%d,%d,%d,%s,%s,%s,%s", o.thread, o.call, o.ret, o.kind, hx(o.graph), strings.ReplaceAll(ids, ",", "."), strings.ReplaceAll(o.result, ",", ".")))
	}
	return strings.Join(parts, " ")
}

// closesOnce runs one lookup and reports whether its channel ended up closed and the options untouched.
func closesOnce(g storage.Graph, m string, s *node.Node, p *predicate.Predicate, o *triple.Object, lo *storage.LookupOptions) string {
	saved := *lo
	var savedFO *filter.StorageOptions
	if lo.FilterOptions != nil {
		c := *lo.FilterOptions
		savedFO = &c
	}
	res := runLookup(g, m, s, p, o, lo) // drains to the close (a channel never closed shows as "hang")
	cls := strings.Fields(res + " x")[0]
	if cls == "hang" || cls == "panic" {
		return cls
	}
	same := saved.MaxElements == lo.MaxElements && saved.Offset == lo.Offset && saved.LatestAnchor == lo.LatestAnchor &&
		saved.LowerAnchor == lo.LowerAnchor && saved.UpperAnchor == lo.UpperAnchor &&
		((savedFO == nil) == (lo.FilterOptions == nil)) && (savedFO == nil || reflect.DeepEqual(*savedFO, *lo.FilterOptions))
	if !same {
		return "options-modified"
	}
	return "closed " + cls
}

func stress(r *rng, seconds float64, goroutines int) string {
	ctx := context.Background()
	st := memory.NewStore()
	uni := concUniverse()
	// (literal objects too: their UUIDs go through a shared buffer pool)
	for i, l := range []*literal.Literal{mustLit(literal.Text, strings.Repeat("long text ", 400)), mustLit(literal.Blob, []byte(strings.Repeat("b", 3000))), mustLit(literal.Int64, int64(1)<<60)} {
		t, _ := triple.New(mustNode("/u", []string{"a", "b", "a"}[i]), mustImm("p"), triple.NewLiteralObject(l))
		uni = append(uni, t)
	}
	names := []string{"?g", "?h", "?i"}
	g0, _ := st.NewGraph(ctx, names[0])
	// temporal triples for the statements whose predicate is bounded by bindings (one window per row, rows in parallel)
	{
		var tt []*triple.Triple
		for i, s := range []string{"a", "b", "c", "d"} {
			at := time.Date(2016+i, 1, 1, 0, 0, 0, 0, time.UTC)
			t, _ := triple.New(mustNode("/u", s), mustTmp("q", at), triple.NewNodeObject(mustNode("/u", "x")))
			u, _ := triple.New(mustNode("/u", s), mustTmp("r", at.Add(time.Hour)), triple.NewNodeObject(mustNode("/u", "y")))
			tt = append(tt, t, u)
		}
		g0.AddTriples(ctx, tt)
	}
	shared := &storage.LookupOptions{LatestAnchor: true}
	sharedPage := &storage.LookupOptions{MaxElements: 2, Offset: 1}
	deadline := time.Now().Add(time.Duration(seconds * float64(time.Second)))
	var wg sync.WaitGroup
	var ops, panics int64
	var firstPanic atomic.Value
	for gi := 0; gi < goroutines; gi++ {
		wg.Add(1)
		seed := r.next()
		go func(seed uint64) {
			defer wg.Done()
			rr := newRng(seed)
			for time.Now().Before(deadline) {
				func() {
					defer func() {
						if e := recover(); e != nil {
							atomic.AddInt64(&panics, 1)
							firstPanic.CompareAndSwap(nil, fmt.Sprint(e))
						}
					}()
					atomic.AddInt64(&ops, 1)
					name := names[rr.intn(len(names))]
					switch x := rr.intn(20); {
					case x < 1:
						st.NewGraph(ctx, name)
					case x < 2:
						st.DeleteGraph(ctx, names[1+rr.intn(2)])
					case x < 3:
						ch := make(chan string, 8)
						st.GraphNames(ctx, ch)
						for range ch {
						}
					default:
						g, err := st.Graph(ctx, name)
						if err != nil {
							return
						}
						var ts []*triple.Triple
						for _, t := range uni {
							if rr.chance(1, 2) {
								ts = append(ts, t)
							}
						}
						switch y := rr.intn(10); {
						case y < 2:
							g.AddTriples(ctx, ts)
						case y < 4:
							g.RemoveTriples(ctx, ts)
						case y < 5:
							g.Exist(ctx, uni[rr.intn(len(uni))])
						default:
							lo := []*storage.LookupOptions{storage.DefaultLookup, shared, sharedPage}[rr.intn(3)]
							t := uni[rr.intn(len(uni))]
							m := allMethods[rr.intn(len(allMethods))]
							runLookup(g, m, t.Subject(), t.Predicate(), t.Object(), lo)
						}
					}
				}()
			}
		}(seed)
	}
	// concurrent BQL statements on the same store
	stmts := []string{
		`select ?s, ?o from ?g where {?s "p"@[] ?o};`,
		`select ?s, ?p, ?o from ?g, ?h where {?s ?p ?o . ?s "p"@[] ?x};`,
		`select ?o from ?g where {/u<a> "p"@[] ?o . optional {?o ?q ?z}};`,
		`select ?s, count(?o) as ?n from ?g where {?s ?p ?o} group by ?s order by ?n desc;`,
		`insert data into ?g {/u<a> "p"@[] /u<x> . /u<b> "p"@[] /u<y>};`,
		`delete data from ?g {/u<a> "p"@[] /u<x>};`,
		`construct {?s "q"@[] ?o} into ?h from ?g where {?s "p"@[] ?o};`,
		`show graphs;`,
		`insert data into ?g, ?h, ?i {/u<a> "p"@[] /u<m> . /u<b> "p"@[] "7"^^type:int64};`,
		`delete data from ?h, ?g {/u<a> "p"@[] /u<m>};`,
		`select ?s, ?t, ?o from ?g where {?s "q"@[?t] ?x . ?s "r"@[?t,] ?o};`,
		`select ?s, ?u from ?g where {?s "q"@[?t] ?x . ?s "r"@[?u] ?y . ?z "q"@[?t,?u] ?w};`,
	}
	for gi := 0; gi < 4; gi++ {
		wg.Add(1)
		seed := r.next()
		go func(seed uint64) {
			defer wg.Done()
			rr := newRng(seed)
			for time.Now().Before(deadline) {
				atomic.AddInt64(&ops, 1)
				res, _ := runStatement(st, stmts[rr.intn(len(stmts))], []int{0, 1, 8}[rr.intn(3)], 1+rr.intn(3))
				if res.cls == "panic" || res.cls == "hang" {
					atomic.AddInt64(&panics, 1)
					firstPanic.CompareAndSwap(nil, "statement: "+res.cls+" "+res.text)
				}
			}
		}(seed)
	}
	done := make(chan struct{})
	go func() { wg.Wait(); close(done) }()
	select {
	case <-done:
	case <-time.After(time.Duration(seconds*float64(time.Second)) + 20*time.Second):
		return "deadlock"
	}
	if panics > 0 {
		return fmt.Sprintf("panic x%d: %v", panics, firstPanic.Load())
	}
	return fmt.Sprintf("ok ops=%d", ops)
}

// slowConsumer: a caller that is half way through reading a look-up's results (the look-up goroutine is
// blocked sending, holding the graph's read lock) must still be able to use the STORE while another
// goroutine runs `second` — the store's operations hold only the store's own lock, so no cycle can form.
// The consumer never touches the graph it is reading from. "ok" or "deadlock".
func slowConsumer(second, consumer string) string {
	ctx := context.Background()
	st := memory.NewStore()
	uni := concUniverse()
	gr, _ := st.NewGraph(ctx, "?g")
	st.NewGraph(ctx, "?h")
	gr.AddTriples(ctx, uni)
	ch := make(chan *triple.Triple)
	go gr.Triples(ctx, storage.DefaultLookup, ch)
	<-ch // the producer is now blocked on its second send
	secondDone := make(chan struct{})
	go func() {
		defer close(secondDone)
		switch second {
		case "del-same":
			st.DeleteGraph(ctx, "?g")
		case "del-other":
			st.DeleteGraph(ctx, "?h")
		case "new":
			st.NewGraph(ctx, "?i")
		case "names":
			c := make(chan string, 8)
			st.GraphNames(ctx, c)
		}
	}()
	time.Sleep(2 * time.Millisecond) // let `second` reach whatever it waits for
	consDone := make(chan struct{})
	go func() {
		defer close(consDone)
		switch consumer {
		case "get":
			st.Graph(ctx, "?h")
		case "names":
			c := make(chan string, 8)
			st.GraphNames(ctx, c)
		case "new":
			st.NewGraph(ctx, "?j")
		case "del":
			st.DeleteGraph(ctx, "?k")
		}
		for range ch {
		}
	}()
	for _, c := range []chan struct{}{consDone, secondDone} {
		select {
		case <-c:
		case <-time.After(3 * time.Second):
			return "deadlock"
		}
	}
	return "ok"
}

// nestedConsumer: the consumer of a look-up of n results does b Exist calls on the SAME graph for each result
// it receives; with `writer`, a RemoveTriples arrives after the first result. "ok" or "deadlock".
func nestedConsumer(n, b int, writer bool) string {
	ctx := context.Background()
	st := memory.NewStore()
	uni := concUniverse()[:n]
	gr, _ := st.NewGraph(ctx, "?g")
	gr.AddTriples(ctx, uni)
	ch := make(chan *triple.Triple)
	go gr.Triples(ctx, storage.DefaultLookup, ch)
	done := make(chan struct{})
	wdone := make(chan struct{})
	go func() {
		defer close(done)
		first := true
		for x := range ch {
			if first {
				first = false
				go func() {
					defer close(wdone)
					if writer {
						gr.RemoveTriples(ctx, uni[:1])
					}
				}()
				time.Sleep(2 * time.Millisecond) // the writer has reached its Lock
			}
			for i := 0; i < b; i++ {
				gr.Exist(ctx, x)
			}
		}
	}()
	for _, c := range []chan struct{}{done, wdone} {
		select {
		case <-c:
		case <-time.After(2 * time.Second):
			return "deadlock"
		}
	}
	return "ok"
}

func cmdConc(args []string) error {
	fs := flag.NewFlagSet("conc", flag.ContinueOnError)
	n := fs.Int("n", 1000, "recorded histories")
	secs := fs.Float64("stress", 2, "seconds of randomized stress")
	scen := fs.Bool("scen", true, "consumer scenarios (N and S lines)")
	opsPath := fs.String("ops", "", "")
	implPath := fs.String("impl", "", "")
	if err := fs.Parse(args); err != nil {
		return err
	}
	fo, wo := mustCreate(*opsPath)
	fi, wi := mustCreate(*implPath)
	defer fo.Close()
	defer fi.Close()
	r := newRng(envSeed()*2654435761 + 707)
	g := &storeGen{r: r, ops: wo, impl: wi, hist: map[string]int{}}
	uni := concUniverse()
	overl := 0
	deadlocks := 0
	for i := 0; i < *n && deadlocks < 3; i++ { // (each history that does not finish costs its watchdog's ten seconds)
		h := oneHistory(r, uni)
		if len(h) == 1 && h[0].kind == "deadlock" {
			g.emit("H deadlock", "deadlock")
			deadlocks++
			continue
		}
		// does any pair of operations of different threads overlap in time?
		for a := range h {
			for b := range h {
				if h[a].thread >= 0 && h[b].thread > h[a].thread && h[a].call < h[b].ret && h[b].call < h[a].ret {
					overl++
					goto counted
				}
			}
		}
	counted:
		g.emit("H "+encHistory(h), "recorded")
	}
	// lookups: close exactly once, options untouched — on success and on every error path
	ctx := context.Background()
	st := memory.NewStore()
	gr, _ := st.NewGraph(ctx, "?g")
	gr.AddTriples(ctx, uni)
	los := []*storage.LookupOptions{
		{}, {MaxElements: 1}, {MaxElements: 2, Offset: 1}, {LatestAnchor: true},
		{LatestAnchor: true, FilterOptions: &filter.StorageOptions{Operation: filter.Latest, Field: filter.PredicateField}}, // error path
		{FilterOptions: &filter.StorageOptions{Operation: filter.Operation(9), Field: filter.PredicateField}},              // error path
		{FilterOptions: &filter.StorageOptions{Operation: filter.Latest, Field: filter.Field(7)}},                           // error path
		{FilterOptions: &filter.StorageOptions{Operation: filter.IsTemporal, Field: filter.ObjectField}},
	}
	nl := 0
	for _, m := range allMethods {
		for li, lo := range los {
			t := uni[(nl)%len(uni)]
			g.emit(fmt.Sprintf("L %s lo=%d", m, li), closesOnce(gr, m, t.Subject(), t.Predicate(), t.Object(), lo))
			nl++
		}
	}
	for _, second := range []string{"del-same", "del-other", "new", "names"} {
		for _, cons := range []string{"get", "names", "new", "del"} {
			if !*scen {
				break
			}
			g.emit("S "+second+" "+cons, slowConsumer(second, cons))
		}
	}
	for _, n := range []int{1, 2, 6} {
		if !*scen {
			break
		}
		for _, b := range []int{0, 1, 2} {
			for w := 0; w < 2; w++ {
				g.emit(fmt.Sprintf("N %d %d %d", n, b, w), nestedConsumer(n, b, w == 1))
			}
		}
	}
	g.emit(fmt.Sprintf("R stress seconds=%v goroutines=12", *secs), strings.Fields(stress(r, *secs, 12) + " x")[0])
	wo.Flush()
	wi.Flush()
	fmt.Printf("hist histories %d\nhist overlapping %d\nhist lookups %d\n", *n, overl, nl)
	return nil
}

func init() { register("conc", cmdConc) }
