package main

import (
	"fmt"
	"os"
	"sort"
	"strings"

	"github.com/google/badwolf/bql/grammar"
	"github.com/google/badwolf/bql/lexer"
	"github.com/google/badwolf/bql/semantic"
)

// ---- grammar extraction (runs the code: grammar.BQL() / grammar.SemanticBQL()) ----

type gEl struct {
	isSym bool
	sym   string
	tok   lexer.TokenType
}

type gAlt struct {
	els                        []gEl
	hasStart, hasEnd, hasElem bool
}

type gram struct {
	syms  []string // START first, then sorted; includes referenced-but-undefined symbols
	rules map[string][]gAlt
}

func loadGrammar(g *grammar.Grammar) *gram {
	out := &gram{rules: map[string][]gAlt{}}
	seen := map[string]bool{}
	for sym, clauses := range *g {
		seen[string(sym)] = true
		var alts []gAlt
		for _, c := range clauses {
			a := gAlt{hasStart: c.ProcessStart != nil, hasEnd: c.ProcessEnd != nil, hasElem: c.ProcessedElement != nil}
			for _, e := range c.Elements {
				if e.Symbol() != "" {
					a.els = append(a.els, gEl{isSym: true, sym: string(e.Symbol())})
					seen[string(e.Symbol())] = true
				} else {
					a.els = append(a.els, gEl{tok: e.Token()})
				}
			}
			alts = append(alts, a)
		}
		out.rules[string(sym)] = alts
	}
	seen["START"] = true
	for s := range seen {
		if s != "START" {
			out.syms = append(out.syms, s)
		}
	}
	sort.Strings(out.syms)
	out.syms = append([]string{"START"}, out.syms...)
	return out
}

func tokenTypes() []lexer.TokenType {
	var res []lexer.TokenType
	for i := 0; i < 4096; i++ {
		if lexer.TokenType(i).String() == "UNKNOWN" {
			break
		}
		res = append(res, lexer.TokenType(i))
	}
	return res
}

func leanIdent(s string) string {
	var b strings.Builder
	for _, r := range s {
		switch {
		case r >= 'a' && r <= 'z':
			b.WriteRune(r - 32)
		case (r >= 'A' && r <= 'Z') || (r >= '0' && r <= '9') || r == '_':
			b.WriteRune(r)
		default:
			b.WriteRune('_')
		}
	}
	res := b.String()
	if res == "" || (res[0] >= '0' && res[0] <= '9') {
		res = "X" + res
	}
	return res
}

func tokName(t lexer.TokenType) string { return leanIdent(t.String()) }

// ---- shortest sentences and contexts (witness generation; untrusted: Lean re-checks them) ----

type witness struct {
	sym  string
	alt  int
	toks []lexer.TokenType
}

func (g *gram) minSentences() map[string][]lexer.TokenType {
	min := map[string][]lexer.TokenType{}
	has := map[string]bool{}
	for changed := true; changed; {
		changed = false
		for _, s := range g.syms {
			for _, a := range g.rules[s] {
				ok := true
				var cand []lexer.TokenType
				for _, e := range a.els {
					if e.isSym {
						if !has[e.sym] {
							ok = false
							break
						}
						cand = append(cand, min[e.sym]...)
					} else {
						cand = append(cand, e.tok)
					}
				}
				if ok && (!has[s] || len(cand) < len(min[s])) {
					has[s], changed = true, true
					min[s] = cand
				}
			}
		}
	}
	for _, s := range g.syms {
		if !has[s] {
			delete(min, s)
		}
	}
	return min
}

func (g *gram) expandEls(els []gEl, min map[string][]lexer.TokenType) ([]lexer.TokenType, bool) {
	var out []lexer.TokenType
	for _, e := range els {
		if e.isSym {
			m, ok := min[e.sym]
			if !ok {
				return nil, false
			}
			out = append(out, m...)
		} else {
			out = append(out, e.tok)
		}
	}
	return out, true
}

type gctx struct{ pre, suf []lexer.TokenType }

const maxCtx = 8

func tokKey(ts []lexer.TokenType) string {
	var b strings.Builder
	for _, t := range ts {
		fmt.Fprintf(&b, "%d,", int(t))
	}
	return b.String()
}

// contexts returns, per symbol, up to maxCtx shortest (prefix, suffix) token contexts in which the
// symbol occurs in a sentential form derived from START.
func (g *gram) contexts(min map[string][]lexer.TokenType) map[string][]gctx {
	ctx := map[string][]gctx{"START": {{}}}
	keyOf := func(c gctx) string { return tokKey(c.pre) + "|" + tokKey(c.suf) }
	size := func(c gctx) int { return len(c.pre) + len(c.suf) }
	for pass := 0; pass < 64; pass++ {
		changed := false
		for _, a := range g.syms {
			for _, ca := range append([]gctx{}, ctx[a]...) {
				for _, alt := range g.rules[a] {
					for k, e := range alt.els {
						if !e.isSym {
							continue
						}
						l, ok1 := g.expandEls(alt.els[:k], min)
						r, ok2 := g.expandEls(alt.els[k+1:], min)
						if !ok1 || !ok2 {
							continue
						}
						cand := gctx{pre: append(append([]lexer.TokenType{}, ca.pre...), l...), suf: append(append([]lexer.TokenType{}, r...), ca.suf...)}
						lst := ctx[e.sym]
						dup := false
						for _, o := range lst {
							if keyOf(o) == keyOf(cand) {
								dup = true
								break
							}
						}
						if dup {
							continue
						}
						if len(lst) >= maxCtx && size(cand) >= size(lst[len(lst)-1]) {
							continue
						}
						lst = append(lst, cand)
						sort.SliceStable(lst, func(i, j int) bool { return size(lst[i]) < size(lst[j]) })
						if len(lst) > maxCtx {
							lst = lst[:maxCtx]
						}
						ctx[e.sym] = lst
						changed = true
					}
				}
			}
		}
		if !changed {
			break
		}
	}
	return ctx
}

// witnesses proposes, for every alternative, a token sequence through it; among the candidate
// contexts the first whose rendering the real lexer tokenizes back to the same sequence is taken
// (so the witness can be replayed on the real parser); if none is lexable the shortest is kept and
// the replay reports the rendering error.
func (g *gram) witnesses() []witness {
	min := g.minSentences()
	ctx := g.contexts(min)
	texts := tokenTexts()
	var ws []witness
	for _, s := range g.syms {
		cs := ctx[s]
		if len(cs) == 0 {
			continue
		}
		for i, a := range g.rules[s] {
			body, ok := g.expandEls(a.els, min)
			if !ok {
				continue
			}
			var first []lexer.TokenType
			var chosen []lexer.TokenType
			for ci, c := range cs {
				var toks []lexer.TokenType
				toks = append(toks, c.pre...)
				toks = append(toks, body...)
				toks = append(toks, c.suf...)
				if ci == 0 {
					first = toks
				}
				if _, err := renderTokens(toks, texts); err == nil {
					chosen = toks
					break
				}
			}
			if chosen == nil {
				chosen = first
			}
			ws = append(ws, witness{sym: s, alt: i, toks: chosen})
		}
	}
	return ws
}

func (g *gram) reachOrder() []string {
	order := []string{"START"}
	seen := map[string]bool{"START": true}
	for i := 0; i < len(order); i++ {
		for _, a := range g.rules[order[i]] {
			for _, e := range a.els {
				if e.isSym && !seen[e.sym] {
					seen[e.sym] = true
					order = append(order, e.sym)
				}
			}
		}
	}
	return order
}

func (g *gram) prodOrder() []string {
	var order []string
	seen := map[string]bool{}
	for changed := true; changed; {
		changed = false
		for _, s := range g.syms {
			if seen[s] {
				continue
			}
			for _, a := range g.rules[s] {
				ok := true
				for _, e := range a.els {
					if e.isSym && !seen[e.sym] {
						ok = false
					}
				}
				if ok {
					seen[s], changed = true, true
					order = append(order, s)
					break
				}
			}
		}
	}
	return order
}

// ---- Lean emission ----

func (g *gram) leanRules(name string, b *strings.Builder) {
	fmt.Fprintf(b, "def %s : Sym → List (List (El Tok Sym))\n", name)
	for _, s := range g.syms {
		fmt.Fprintf(b, "  | .%s => [", leanIdent(s))
		for i, a := range g.rules[s] {
			if i > 0 {
				b.WriteString(", ")
			}
			b.WriteString("[")
			for j, e := range a.els {
				if j > 0 {
					b.WriteString(", ")
				}
				if e.isSym {
					fmt.Fprintf(b, ".s .%s", leanIdent(e.sym))
				} else {
					fmt.Fprintf(b, ".t .%s", tokName(e.tok))
				}
			}
			b.WriteString("]")
		}
		b.WriteString("]\n")
	}
	b.WriteString("\n")
}

func cmdGramdump(args []string) error {
	if len(args) != 1 {
		return fmt.Errorf("usage: gramdump <out.lean>")
	}
	plain := loadGrammar(grammar.BQL())
	sem := loadGrammar(grammar.SemanticBQL())
	// One symbol universe for both tables so that shapes can be compared.
	symset := map[string]bool{}
	for _, s := range plain.syms {
		symset[s] = true
	}
	for _, s := range sem.syms {
		symset[s] = true
	}
	var syms []string
	for s := range symset {
		if s != "START" {
			syms = append(syms, s)
		}
	}
	sort.Strings(syms)
	syms = append([]string{"START"}, syms...)
	plain.syms, sem.syms = syms, syms

	idents := map[string]string{}
	for _, s := range syms {
		id := leanIdent(s)
		if o, dup := idents[id]; dup {
			return fmt.Errorf("symbols %q and %q map to the same Lean identifier", o, s)
		}
		idents[id] = s
	}

	var b strings.Builder
	b.WriteString("-- GENERATED by `bwh gramdump` from /repo (grammar.BQL(), grammar.SemanticBQL(), lexer.TokenType).\n")
	b.WriteString("-- Do not edit: regenerated and re-checked on every run.\n")
	b.WriteString("import BW.Model.Grammar\n\nnamespace BW.Generated\nopen BW.Model\n\n")
	b.WriteString("inductive Tok\n")
	tts := tokenTypes()
	tokIdents := map[string]bool{}
	for _, t := range tts {
		if tokIdents[tokName(t)] {
			return fmt.Errorf("token %v maps to a duplicate Lean identifier", t)
		}
		tokIdents[tokName(t)] = true
		fmt.Fprintf(&b, "  | %s\n", tokName(t))
	}
	b.WriteString("  deriving DecidableEq, Repr\n\n")
	b.WriteString("def allToks : List Tok := [")
	for i, t := range tts {
		if i > 0 {
			b.WriteString(", ")
		}
		b.WriteString("." + tokName(t))
	}
	b.WriteString("]\n\n")
	b.WriteString("inductive Sym\n")
	for _, s := range syms {
		fmt.Fprintf(&b, "  | %s\n", leanIdent(s))
	}
	b.WriteString("  deriving DecidableEq, Repr\n\n")
	b.WriteString("def allSyms : List Sym := [")
	for i, s := range syms {
		if i > 0 {
			b.WriteString(", ")
		}
		b.WriteString("." + leanIdent(s))
	}
	b.WriteString("]\n\n")
	b.WriteString("def symName : Sym → String\n")
	for _, s := range syms {
		fmt.Fprintf(&b, "  | .%s => %q\n", leanIdent(s), s)
	}
	b.WriteString("\ndef tokName : Tok → String\n")
	for _, t := range tts {
		fmt.Fprintf(&b, "  | .%s => %q\n", tokName(t), t.String())
	}
	b.WriteString("\n")
	plain.leanRules("bqlRules", &b)
	sem.leanRules("semRules", &b)
	b.WriteString("def bql : Grammar Tok Sym := { rules := bqlRules, start := .START, eof := .EOF }\n")
	b.WriteString("def semanticBql : Grammar Tok Sym := { rules := semRules, start := .START, eof := .EOF }\n\n")
	writeSymList := func(name string, l []string) {
		fmt.Fprintf(&b, "def %s : List Sym := [", name)
		for i, s := range l {
			if i > 0 {
				b.WriteString(", ")
			}
			b.WriteString("." + leanIdent(s))
		}
		b.WriteString("]\n\n")
	}
	b.WriteString("/-- Certificates proposed by the translator (BFS order from START; bottom-up productivity order);\n    untrusted, checked by `reachCertOK` / `prodCertOK` in `BW.Props.C17`. -/\n")
	writeSymList("reachOrder", plain.reachOrder())
	writeSymList("prodOrder", plain.prodOrder())
	b.WriteString("/-- Witness statements (token sequences) proposed by the translator; nothing about them is\n    trusted: `BW.Props.C17` checks each with the model parser inside the kernel. -/\n")
	b.WriteString("def witnesses : List (Sym × Nat × List Tok) := [\n")
	ws := plain.witnesses()
	for i, w := range ws {
		fmt.Fprintf(&b, "  (.%s, %d, [", leanIdent(w.sym), w.alt)
		for j, t := range w.toks {
			if j > 0 {
				b.WriteString(", ")
			}
			b.WriteString("." + tokName(t))
		}
		b.WriteString("])")
		if i+1 < len(ws) {
			b.WriteString(",")
		}
		b.WriteString("\n")
	}
	b.WriteString("]\n\nend BW.Generated\n")
	return os.WriteFile(args[0], []byte(b.String()), 0o644)
}

func init() { register("gramdump", cmdGramdump) }

var _ = semantic.Symbol("")
