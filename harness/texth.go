package main

// C05 / C15: the text forms of nodes, predicates, literals, objects, triples and graphs.
//  W lines: a value is printed by the Go code and by the Lean model;
//  X lines: a text is parsed by the Go code and by the Lean model (kind=graph: ReadIntoGraph).
// The leaf codecs of the standard library (%q / Unquote, RFC3339Nano, %v of float64 / ParseFloat) are
// not modelled: their results for every substring the parsers could hand them are sent along (or=).

import (
	"bytes"
	"context"
	"flag"
	"fmt"
	"math"
	"sort"
	"strconv"
	"strings"
	"time"

	bwio "github.com/google/badwolf/io"
	"github.com/google/badwolf/storage"
	"github.com/google/badwolf/storage/memory"
	"github.com/google/badwolf/triple"
	"github.com/google/badwolf/triple/literal"
	"github.com/google/badwolf/triple/node"
	"github.com/google/badwolf/triple/predicate"
)

func timeEnc(t time.Time) string {
	_, off := t.Zone()
	return instantNanos(t) + "~" + strconv.Itoa(off)
}

// oraclesFor: results of the leaf parsers for every substring of s a parser of the triple layer could cut out.
func oraclesFor(s string) []string {
	var out []string
	seen := map[string]bool{}
	add := func(e string) {
		if !seen[e] && len(out) < 400 {
			seen[e] = true
			out = append(out, e)
		}
	}
	var quotes []int
	for i := 0; i < len(s); i++ {
		if s[i] == '"' {
			quotes = append(quotes, i)
		}
	}
	if len(quotes) <= 14 {
		for a := 0; a < len(quotes); a++ {
			for b := a + 1; b < len(quotes); b++ {
				sub := s[quotes[a] : quotes[b]+1]
				if u, err := strconv.Unquote(sub); err == nil {
					add("U~" + hx(sub) + "~" + hx(u))
				} else {
					add("U~" + hx(sub) + "~!")
				}
			}
		}
	}
	timeOracle := func(inner string) {
		if t, err := time.Parse(time.RFC3339Nano, inner); err == nil {
			add("T~" + hx(inner) + "~" + timeEnc(t))
		} else {
			add("T~" + hx(inner) + "~!~!")
		}
	}
	for i := 0; i+1 < len(s); i++ {
		if s[i] == '@' && s[i+1] == '[' {
			for j := i + 2; j < len(s); j++ {
				if s[j] == ']' {
					inner := s[i+2 : j]
					timeOracle(inner)
					if len(inner) >= 2 && inner[0] == '"' && inner[len(inner)-1] == '"' {
						timeOracle(inner[1 : len(inner)-1])
					}
				}
			}
		}
	}
	const fsep = `"^^type:float64`
	for j := 0; j+len(fsep) <= len(s); j++ {
		if s[j:j+len(fsep)] == fsep {
			for _, i := range quotes {
				if i < j {
					sub := s[i+1 : j]
					if f, err := strconv.ParseFloat(sub, 64); err == nil {
						add("F~" + hx(sub) + "~" + strconv.FormatUint(math.Float64bits(f), 10))
					} else {
						add("F~" + hx(sub) + "~!")
					}
				}
			}
		}
	}
	return out
}

// printOracles: what the leaf printers give for the parts of a value.
func printOraclesPred(p *predicate.Predicate) []string {
	out := []string{"Q~" + hx(string(p.ID())) + "~" + hx(strconv.Quote(string(p.ID())))}
	if ta, err := p.TimeAnchor(); err == nil {
		out = append(out, "M~"+timeEnc(*ta)+"~"+hx(ta.Format(time.RFC3339Nano)))
	}
	return out
}

func printOraclesLit(l *literal.Literal) []string {
	if f, err := l.Float64(); err == nil {
		return []string{"G~" + strconv.FormatUint(math.Float64bits(f), 10) + "~" + hx(fmt.Sprintf("%v", f))}
	}
	return nil
}

func printOraclesObj(o *triple.Object) []string {
	if p, err := o.Predicate(); err == nil {
		return printOraclesPred(p)
	}
	if l, err := o.Literal(); err == nil {
		return printOraclesLit(l)
	}
	return nil
}

func orField(xs []string) string {
	if len(xs) == 0 {
		return "-"
	}
	return strings.Join(xs, ",")
}

type textGen struct {
	r    *rng
	g    *storeGen
	hist map[string]int
}

func guard(f func() string) (res string) {
	defer func() {
		if e := recover(); e != nil {
			res = "panic"
		}
	}()
	return f()
}

// parseWith runs the real parser of the kind on text: class + value encoding (+ whether print/parse of the
// accepted value is stable).
func parseWith(kind, text string) string {
	return guard(func() string {
		b := literal.DefaultBuilder()
		if strings.HasSuffix(kind, "b") && kind != "obj" {
			// the bounded builder (what `bw load` uses): texts and blobs of more than 3 bytes are refused
			b = literal.NewBoundedBuilder(3)
			kind = strings.TrimSuffix(kind, "b")
		}
		switch kind {
		case "node":
			v, err := node.Parse(text)
			if err != nil {
				return "err"
			}
			if v == nil {
				return "nilval"
			}
			v2, err2 := node.Parse(v.String())
			if err2 != nil || v2 == nil || encNode(v2) != encNode(v) {
				return "unstable " + encNode(v)
			}
			return "ok " + encNode(v)
		case "pred":
			v, err := predicate.Parse(text)
			if err != nil {
				return "err"
			}
			if v == nil {
				return "nilval"
			}
			v2, err2 := predicate.Parse(v.String())
			if err2 != nil || v2 == nil || encPred(v2) != encPred(v) {
				return "unstable " + encPred(v)
			}
			return "ok " + encPred(v)
		case "lit":
			v, err := b.Parse(text)
			if err != nil {
				return "err"
			}
			if v == nil {
				return "nilval"
			}
			v2, err2 := b.Parse(v.String())
			if err2 != nil || v2 == nil || encLit(v2) != encLit(v) {
				return "unstable " + encLit(v)
			}
			return "ok " + encLit(v)
		case "obj":
			v, err := triple.ParseObject(text, b)
			if err != nil {
				return "err"
			}
			if v == nil || encObjSafe(v) == "" {
				return "nilval"
			}
			v2, err2 := triple.ParseObject(v.String(), b)
			if err2 != nil || v2 == nil || encObjSafe(v2) != encObjSafe(v) {
				return "unstable " + encObjSafe(v)
			}
			return "ok " + encObjSafe(v)
		default:
			v, err := triple.Parse(text, b)
			if err != nil {
				return "err"
			}
			if v == nil {
				return "nilval"
			}
			enc := encNode(v.Subject()) + "|" + encPred(v.Predicate()) + "|" + encObjSafe(v.Object())
			v2, err2 := triple.Parse(v.String(), b)
			if err2 != nil || v2 == nil || encNode(v2.Subject())+"|"+encPred(v2.Predicate())+"|"+encObjSafe(v2.Object()) != enc {
				return "unstable " + enc
			}
			return "ok " + enc
		}
	})
}

func encObjSafe(o *triple.Object) (s string) {
	defer func() {
		if recover() != nil {
			s = ""
		}
	}()
	if n, err := o.Node(); err == nil && n != nil {
		return encNode(n)
	}
	if p, err := o.Predicate(); err == nil && p != nil {
		return encPred(p)
	}
	if l, err := o.Literal(); err == nil && l != nil {
		return encLit(l)
	}
	return ""
}

func (t *textGen) parseLine(kind, text, family string) {
	ans := parseWith(kind, text)
	t.hist[kind+"/"+strings.Fields(ans)[0]]++
	t.g.emit(fmt.Sprintf("X kind=%s fam=%s text=%s or=%s", kind, family, hx(text), orField(oraclesFor(text))), ans)
}

func (t *textGen) printLine(kind, enc, printed string, ors []string) {
	t.g.emit(fmt.Sprintf("W kind=%s value=%s or=%s", kind, enc, orField(ors)), "ok "+hx(printed))
}

var idAlphabet = []string{"%", "%d", "%s", "%%", "%!", "%v", "a", "b", "Z", "0", "9", "_", "-", ".", ":", "/", "@", "[", "]", `"`, `\`, "^", "é", "ü", "日", "'", "{", "}", "(", ")", "?", "#", "~", "|", `"@[`, `"^^type:`, "@[]", "]]", `\"`, "type:text"}

func (t *textGen) randID(noAngle bool) string {
	var b strings.Builder
	for k := 0; k < 1+t.r.intn(6); k++ {
		b.WriteString(idAlphabet[t.r.intn(len(idAlphabet))])
	}
	s := b.String()
	if noAngle {
		s = strings.NewReplacer("<", "", ">", "").Replace(s)
		if s == "" {
			s = "x"
		}
	}
	return s
}

func (t *textGen) randTime() time.Time {
	// (two zones whose offsets have seconds — local mean times: RFC 3339 cannot write them, NewTemporal keeps such
	// anchors in UTC since 222a7ff)
	zones := []*time.Location{time.UTC, time.FixedZone("", 3600), time.FixedZone("", -19800), time.FixedZone("", 14*3600), time.FixedZone("", -12*3600+1800),
		time.FixedZone("", 1172), time.FixedZone("", -59)}
	years := []int{1, 999, 1969, 1970, 2006, 2038, 9999}
	ns := []int{0, 1, 100, 123456789, 999999999, 120000000}
	if t.r.chance(1, 6) {
		// the instants code likes to take for "unset": Go's zero time and the Unix epoch, in any zone, and their neighbours
		special := []time.Time{{}, time.Unix(0, 0).UTC(), time.Time{}.Add(1), time.Unix(0, 1).UTC(), time.Unix(0, -1).UTC()}
		z := zones[t.r.intn(len(zones))]
		if t.r.chance(1, 6) {
			// the last instant the format can write, in the zone itself (seen from a zone further east it is in the year
			// 10000, which RFC 3339 cannot write: outside the domain, Model/TimeFmt.lean `timeOK`)
			// (a whole-minute zone: an anchor in a zone with seconds is kept in UTC, which may lie in the year 10000)
			return time.Date(9999, 12, 31, 23, 59, 59, 999999999, zones[t.r.intn(5)])
		}
		return special[t.r.intn(len(special))].In(z)
	}
	return time.Date(years[t.r.intn(len(years))], time.Month(1+t.r.intn(12)), 1+t.r.intn(28), t.r.intn(24), t.r.intn(60), t.r.intn(60), ns[t.r.intn(len(ns))], zones[t.r.intn(len(zones))])
}

func (t *textGen) randNode() *node.Node {
	// (two types with the delimiters of the printed form: NewType refuses them since d18ea1b)
	types := []string{"/u", "/a/b", "/_", "/t.x-y", "/é", "/a", "/some/long/type", "/a<b", "/a>b"}
	n, err := node.NewNodeFromStrings(types[t.r.intn(len(types))], t.randID(true))
	if err != nil {
		return mustNode("/u", "a")
	}
	return n
}

func (t *textGen) randPred() *predicate.Predicate {
	id := t.randID(false)
	if t.r.chance(1, 8) {
		// IDs with white space in them — %q leaves a space as it is — and with what ends a predicate in a triple's text
		id = []string{"x] /y", "p q", "a ] \"b", "] /", "knows well", "a]  /b] \"c", "tab\there"}[t.r.intn(7)]
	}
	if t.r.chance(1, 2) {
		p, _ := predicate.NewImmutable(id)
		return p
	}
	p, _ := predicate.NewTemporal(id, t.randTime())
	return p
}

func (t *textGen) randLit(line bool) *literal.Literal {
	r := t.r
	switch r.intn(6) {
	case 0:
		return mustLit(literal.Bool, r.chance(1, 2))
	case 1:
		vs := []int64{0, 1, -1, math.MaxInt64, math.MinInt64, 1 << 55, -(1 << 55), 42, -9007199254740993}
		if r.chance(1, 2) {
			return mustLit(literal.Int64, vs[r.intn(len(vs))])
		}
		return mustLit(literal.Int64, int64(r.next()))
	case 2:
		// (NaNs included: Go's own, the one 0/0 gives, a signalling one — every NaN prints as "NaN")
		vs := []float64{0, math.Copysign(0, -1), math.Inf(1), math.Inf(-1), math.SmallestNonzeroFloat64, math.MaxFloat64, 1.5, -2.25, 1e21, 1e-7, 0.1, 5e-324 * 3,
			math.NaN(), math.Float64frombits(0xfff8000000000000), math.Float64frombits(0x7ff0000000000001)}
		if r.chance(1, 2) {
			return mustLit(literal.Float64, vs[r.intn(len(vs))])
		}
		return mustLit(literal.Float64, math.Float64frombits(r.next()))
	case 3, 4:
		alpha := append([]string{" ", "  ", "\t", `" `, `] /`, `] "`, `> "`}, idAlphabet...)
		if !line {
			alpha = append(alpha, "\n", "\r\n")
		}
		var b strings.Builder
		for k := 0; k < r.intn(7); k++ {
			b.WriteString(alpha[r.intn(len(alpha))])
		}
		return mustLit(literal.Text, b.String())
	default:
		bs := make([]byte, r.intn(5))
		for i := range bs {
			bs[i] = byte(r.next())
		}
		return mustLit(literal.Blob, bs)
	}
}

func (t *textGen) randObj(line bool) *triple.Object {
	switch t.r.intn(4) {
	case 0:
		return triple.NewNodeObject(t.randNode())
	case 1:
		return triple.NewPredicateObject(t.randPred())
	default:
		return triple.NewLiteralObject(t.randLit(line))
	}
}

func encTriple(tr *triple.Triple) string {
	return encNode(tr.Subject()) + "|" + encPred(tr.Predicate()) + "|" + encObj(tr.Object())
}

func (t *textGen) values(n int) {
	for i := 0; i < n; i++ {
		nd := t.randNode()
		t.printLine("node", encNode(nd), nd.String(), nil)
		t.parseLine("node", nd.String(), "printed")
		p := t.randPred()
		t.printLine("pred", encPred(p), p.String(), printOraclesPred(p))
		t.parseLine("pred", p.String(), "printed")
		l := t.randLit(false)
		t.printLine("lit", encLit(l), l.String(), printOraclesLit(l))
		t.parseLine("lit", l.String(), "printed")
		t.parseLine("litb", l.String(), "mutated")
		t.parseLine("objb", l.String(), "mutated")
		o := t.randObj(false)
		t.printLine("obj", encObj(o), o.String(), printOraclesObj(o))
		t.parseLine("obj", o.String(), "printed")
		tr, _ := triple.New(t.randNode(), t.randPred(), t.randObj(true))
		ors := append(printOraclesPred(tr.Predicate()), printOraclesObj(tr.Object())...)
		t.printLine("triple", encTriple(tr), tr.String(), ors)
		t.parseLine("triple", tr.String(), "printed")
		t.parseLine("tripleb", tr.String(), "mutated")
		// the same texts indented and followed by white space: parsers trim, and everything they cut is cut from
		// what they trimmed
		pad := func() string {
			return strings.Repeat([]string{" ", "\t", " \t", "  "}[t.r.intn(4)], 1+t.r.intn(9))
		}
		for _, kt := range [][2]string{{"node", nd.String()}, {"pred", p.String()}, {"lit", l.String()}, {"obj", o.String()}, {"triple", tr.String()}, {"tripleb", tr.String()}} {
			t.parseLine(kt[0], pad()+kt[1], "mutated")
			t.parseLine(kt[0], pad()+kt[1]+pad(), "mutated")
		}
	}
}

// boundedReader: the graph reader is handed a literal builder; the lines it loads are those `triple.Parse` accepts
// with THAT builder — a text or blob literal longer than the bound makes its line malformed for a bounded builder.
// B lines: a graph text of well-formed lines (no blanks, no comments) read with a bounded builder; the reader's count
// and verdict against the index of the first line the same builder's `triple.Parse` refuses.
func (t *textGen) boundedReader(n int) {
	ctx := context.Background()
	for i := 0; i < n; i++ {
		bound := []int{1, 4, 8, 16}[t.r.intn(4)]
		b := literal.NewBoundedBuilder(bound)
		var lines []string
		for k := 1 + t.r.intn(6); k > 0; k-- {
			txt := strings.Repeat("x", t.r.intn(2*bound+2))
			var o *triple.Object
			switch t.r.intn(3) {
			case 0:
				o = triple.NewLiteralObject(mustLit(literal.Text, txt))
			case 1:
				o = triple.NewLiteralObject(mustLit(literal.Blob, []byte(txt)))
			default:
				o = triple.NewNodeObject(mustNode("/u", "o"+txt))
			}
			tr, err := triple.New(mustNode("/u", fmt.Sprintf("s%d", k)), mustImm("p"), o)
			if err != nil {
				continue
			}
			lines = append(lines, tr.String())
		}
		want, wantErr := len(lines), false
		for j, l := range lines {
			if _, err := triple.Parse(l, b); err != nil {
				want, wantErr = j, true
				break
			}
		}
		text := strings.Join(lines, "\n") + "\n"
		st := memory.NewStore()
		g, _ := st.NewGraph(ctx, "?b")
		rn, rerr := bwio.ReadIntoGraph(ctx, g, strings.NewReader(text), b)
		ans := "same"
		if rn != want || (rerr != nil) != wantErr {
			ans = fmt.Sprintf("differs: the reader loaded %d lines (error: %v), triple.Parse with the same builder accepts %d (refuses one: %v)", rn, rerr != nil, want, wantErr)
		}
		t.hist["bounded-reader"]++
		t.g.emit(fmt.Sprintf("B bound=%d text=%s", bound, hx(text)), ans)
	}
}

// overlongLaw: k well-formed lines, then a line too long for the reader's scanner (a 70 000 byte text literal), then one
// more well-formed line: the reader fails, reports k, and the graph holds k triples.
func overlongLaw(k int) string {
	ctx := context.Background()
	var b strings.Builder
	for i := 0; i < k; i++ {
		fmt.Fprintf(&b, "/u<s%d>\t\"p\"@[]\t/u<o>\n", i)
	}
	fmt.Fprintf(&b, "/u<long>\t\"p\"@[]\t\"%s\"^^type:text\n", strings.Repeat("x", 70000))
	b.WriteString("/u<after>\t\"p\"@[]\t/u<o>\n")
	g, _ := memory.NewStore().NewGraph(ctx, "?l")
	rn, rerr := bwio.ReadIntoGraph(ctx, g, strings.NewReader(b.String()), literal.DefaultBuilder())
	ch := make(chan *triple.Triple, 16)
	go g.Triples(ctx, storage.DefaultLookup, ch)
	held := 0
	for range ch {
		held++
	}
	if rerr == nil || rn != held || held != k {
		return fmt.Sprintf("differs: %d well-formed lines before a line too long for the scanner: the reader reports %d (error: %v), the graph holds %d", k, rn, rerr != nil, held)
	}
	return "same"
}

func (t *textGen) newlineWitness() {
	ctx := context.Background()
	st := memory.NewStore()
	g, _ := st.NewGraph(ctx, "?g")
	tr, _ := triple.New(mustNode("/u", "a"), mustImm("says"), triple.NewLiteralObject(mustLit(literal.Text, "two\nlines")))
	g.AddTriples(ctx, []*triple.Triple{tr})
	var buf bytes.Buffer
	bwio.WriteGraph(ctx, &buf, g)
	g2, _ := st.NewGraph(ctx, "?h")
	rn, rerr := bwio.ReadIntoGraph(ctx, g2, strings.NewReader(buf.String()), literal.DefaultBuilder())
	ok, _ := g2.Exist(ctx, tr)
	ans := "roundtrip"
	if rerr != nil || rn != 1 || !ok {
		ans = fmt.Sprintf("broken read=%d err=%v", rn, rerr != nil)
	}
	t.g.emit("K newline-text "+hx(buf.String()), ans)
}

func (t *textGen) graphs(n int) {
	ctx := context.Background()
	t.newlineWitness()
	for i := 0; i < n; i++ {
		st := memory.NewStore()
		g, _ := st.NewGraph(ctx, "?g")
		var ts []*triple.Triple
		for k := 0; k < t.r.intn(8); k++ {
			tr, _ := triple.New(t.randNode(), t.randPred(), t.randObj(true))
			ts = append(ts, tr)
		}
		g.AddTriples(ctx, ts)
		var buf bytes.Buffer
		wn, werr := bwio.WriteGraph(ctx, &buf, g)
		text := buf.String()
		// a malformed line somewhere, sometimes
		lines := strings.Split(text, "\n")
		family := "written"
		if len(lines) > 1 && t.r.chance(1, 3) {
			k := t.r.intn(len(lines) - 1)
			bad := []string{"garbage", `/u<a> "p"@[] `, `/u<a>	"p"@[	/u<b>`, `"p"@[]	/u<b>`, lines[k][:len(lines[k])/2]}
			lines[k] = bad[t.r.intn(len(bad))]
			text = strings.Join(lines, "\n")
			family = "malformed-line"
		}
		if t.r.chance(1, 3) {
			// empty and white-space-only lines anywhere: skipped, never counted
			for k := 0; k < 1+t.r.intn(3); k++ {
				at := t.r.intn(len(lines) + 1)
				lines = append(lines[:at], append([]string{[]string{"", " ", "\t ", "   "}[t.r.intn(4)]}, lines[at:]...)...)
			}
			text = strings.Join(lines, "\n")
		}
		ans := guard(func() string {
			g2, _ := st.NewGraph(ctx, "?h")
			rn, rerr := bwio.ReadIntoGraph(ctx, g2, strings.NewReader(text), literal.DefaultBuilder())
			tc := make(chan *triple.Triple, 64)
			go g2.Triples(ctx, storage.DefaultLookup, tc)
			var encs []string
			for x := range tc {
				encs = append(encs, encTriple(x))
			}
			sort.Strings(encs)
			cls := "ok"
			if rerr != nil {
				cls = "err"
			}
			extra := ""
			if family == "written" && (werr != nil || wn != rn) {
				extra = fmt.Sprintf(" counts-differ written=%d read=%d", wn, rn)
			}
			if family == "written" {
				var orig []string
				for _, x := range ts {
					orig = append(orig, encTriple(x))
				}
				sort.Strings(orig)
				uniq := orig[:0]
				for i, x := range orig {
					if i == 0 || orig[i-1] != x {
						uniq = append(uniq, x)
					}
				}
				if strings.Join(uniq, ";") != strings.Join(encs, ";") {
					extra += " set-differs"
				}
			}
			// the reported count, by the property's own words: the triples loaded, i.e. the non-empty lines
			// before the first one that is not a triple
			want := 0
			for _, l := range strings.Split(text, "\n") {
				if strings.TrimSpace(l) == "" {
					continue
				}
				if _, perr := triple.Parse(strings.TrimSpace(l), literal.DefaultBuilder()); perr != nil {
					break
				}
				want++
			}
			if rn != want {
				extra += fmt.Sprintf(" count-wrong reported=%d loaded=%d", rn, want)
			}
			return fmt.Sprintf("%s n=%d %s%s", cls, rn, strings.Join(encs, ";"), extra)
		})
		t.hist["graph/"+strings.Fields(ans)[0]]++
		var ors []string
		for _, l := range strings.Split(text, "\n") {
			ors = append(ors, oraclesFor(l)...)
		}
		t.g.emit(fmt.Sprintf("X kind=graph fam=%s text=%s or=%s", family, hx(text), orField(ors)), ans)
	}
}

func (t *textGen) arbitrary(maxLen, n int) {
	kinds := []string{"node", "pred", "lit", "obj", "triple", "litb", "objb", "tripleb"}
	alpha := []string{`"`, "@", "[", "]", "<", ">", "/", "_", ":", "^", "t", " ", "\t"}
	var rec func(prefix string, depth int)
	rec = func(prefix string, depth int) {
		for _, k := range kinds {
			t.parseLine(k, prefix, "short")
		}
		if depth == maxLen {
			return
		}
		for _, a := range alpha {
			rec(prefix+a, depth+1)
		}
	}
	rec("", 0)
	// skeletons: the delimiters of each printed form in place, every part between them drawn from a small set
	// of degenerate fillings (empty, a lone quote, a half-quoted value, ...), all combinations
	{
		tm := "2006-01-02T15:04:05Z"
		ids := []string{"", "p", `"`, " "}
		anchors := []string{"", `"`, `""`, `"` + tm + `"`, `"` + tm, tm + `"`, tm, `"x"`, "x", " ", `" "`, `"` + tm + `" `, "]", `"]`}
		opens := []string{`"@[`, `"@`, `"[`, `@[`}
		closes := []string{"]", "", "]]", `"]`}
		for _, id := range ids {
			for _, op := range opens {
				for _, a := range anchors {
					for _, cl := range closes {
						s := `"` + id + op + a + cl
						for _, k := range []string{"pred", "obj", "objb"} {
							t.parseLine(k, s, "skeleton")
						}
						t.parseLine("triple", "/u<a>\t"+s+"\t/u<b>", "skeleton")
					}
				}
			}
		}
		vals := []string{"", "1", " 1", "1 ", `"`, "true", " ", "[1 2]", "[", "[]", "1e400", "-", "9223372036854775808"}
		tys := []string{"", "bool", "int64", "float64", "text", "blob", "int64 ", " int64", "x", "int", "text\"", "blob]"}
		seps := []string{`"^^type:`, `"^^type`, `"^type:`, `^^type:`, `"^^`}
		for _, v := range vals {
			for _, sp := range seps {
				for _, ty := range tys {
					s := `"` + v + sp + ty
					for _, k := range []string{"lit", "litb", "obj", "objb"} {
						t.parseLine(k, s, "skeleton")
					}
				}
			}
		}
		ntys := []string{"", "/", "/t", "t", "/t/", "/t/u", "//", "/ t", "_", "/_", "/t>", "/>t", "/t>u"}
		nids := []string{"", "a", "<", ">", " ", "a>", "<a", `\`}
		for _, ty := range ntys {
			for _, o := range []string{"<", "", "<<"} {
				for _, id := range nids {
					for _, c := range []string{">", "", ">>"} {
						s := ty + o + id + c
						for _, k := range []string{"node", "obj"} {
							t.parseLine(k, s, "skeleton")
						}
					}
				}
			}
		}
	}
	// mutations of valid texts and random strings
	rich := []string{`"`, `"`, "@[", "]", "<", ">", "/", "_:", "^^type:", "text", "int64", "blob", "float64", "bool", " ", "\t", "a", "1", "-", ".", "e", "T", "Z", ":",
		"2006-01-02T15:04:05Z", `\`, "é", "\x00", "\xff", "[", "true", "+Inf", "] /", `] "`, `> "`, ">\t\"", "]\t/", `"p"@[]`, "/u<a>", `"1"^^type:int64`}
	// short sequences of whole delimiters and valid parts, in any order
	for i := 0; i < 2*n; i++ {
		var b strings.Builder
		for k := 0; k < 2+t.r.intn(4); k++ {
			b.WriteString(rich[t.r.intn(len(rich))])
		}
		s := strings.Trim(b.String(), "\u0085\u00a0")
		for _, k := range kinds {
			t.parseLine(k, s, "mutated")
		}
	}
	for i := 0; i < n; i++ {
		var base string
		switch t.r.intn(5) {
		case 0:
			base = t.randNode().String()
		case 1:
			base = t.randPred().String()
		case 2:
			base = t.randLit(false).String()
		case 3:
			tr, _ := triple.New(t.randNode(), t.randPred(), t.randObj(true))
			base = tr.String()
		default:
			var b strings.Builder
			for k := 0; k < 1+t.r.intn(10); k++ {
				b.WriteString(rich[t.r.intn(len(rich))])
			}
			base = b.String()
		}
		s := base
		for k := 0; k < t.r.intn(3); k++ {
			if len(s) == 0 {
				break
			}
			pos := t.r.intn(len(s))
			switch t.r.intn(4) {
			case 0:
				s = s[:pos]
			case 1:
				s = s[:pos] + s[pos+1:]
			case 2:
				end := pos + 1 + t.r.intn(4)
				if end > len(s) {
					end = len(s)
				}
				s = s[:end] + s[pos:end] + s[end:]
			default:
				s = s[:pos] + rich[t.r.intn(len(rich))] + s[pos:]
			}
		}
		// the model trims ASCII white space only: keep other Unicode white space away from the ends
		s = strings.Trim(s, "\u0085 ")
		for _, k := range kinds {
			t.parseLine(k, s, "mutated")
		}
	}
}

func cmdText(args []string) error {
	fs := flag.NewFlagSet("text", flag.ContinueOnError)
	n := fs.Int("n", 300, "generated values / graphs / mutated strings")
	maxLen := fs.Int("maxlen", 3, "all strings over the delimiter alphabet up to this length")
	opsPath := fs.String("ops", "", "")
	implPath := fs.String("impl", "", "")
	if err := fs.Parse(args); err != nil {
		return err
	}
	fo, wo := mustCreate(*opsPath)
	fi, wi := mustCreate(*implPath)
	defer fo.Close()
	defer fi.Close()
	r := newRng(envSeed()*2654435761 + 505)
	g := &storeGen{r: r, ops: wo, impl: wi, hist: map[string]int{}}
	t := &textGen{r: r, g: g, hist: map[string]int{}}
	t.values(*n)
	t.graphs(*n / 3)
	t.boundedReader(*n / 6)
	for _, k := range []int{0, 1, 3} {
		t.hist["overlong-line"]++
		t.g.emit(fmt.Sprintf("B2 lines=%d", k), overlongLaw(k))
	}
	t.arbitrary(*maxLen, *n)
	wo.Flush()
	wi.Flush()
	keys := make([]string, 0)
	for k := range t.hist {
		keys = append(keys, k)
	}
	sort.Strings(keys)
	for _, k := range keys {
		fmt.Printf("hist %s %d\n", k, t.hist[k])
	}
	return nil
}

func cmdTextOne(args []string) error {
	if len(args) != 2 {
		return fmt.Errorf("usage: textone <kind> <hextext>")
	}
	t, _ := unhx(args[1])
	if strings.HasPrefix(args[0], "overlong:") {
		k, _ := strconv.Atoi(strings.TrimPrefix(args[0], "overlong:"))
		fmt.Println(overlongLaw(k))
		return nil
	}
	if strings.HasPrefix(args[0], "bounded:") {
		// the law of the B lines on one text
		bound, _ := strconv.Atoi(strings.TrimPrefix(args[0], "bounded:"))
		b := literal.NewBoundedBuilder(bound)
		lines := strings.Split(strings.TrimSuffix(t, "\n"), "\n")
		want, wantErr := len(lines), false
		for j, l := range lines {
			if _, err := triple.Parse(l, b); err != nil {
				want, wantErr = j, true
				break
			}
		}
		g, _ := memory.NewStore().NewGraph(context.Background(), "?b")
		rn, rerr := bwio.ReadIntoGraph(context.Background(), g, strings.NewReader(t), b)
		if rn != want || (rerr != nil) != wantErr {
			fmt.Printf("differs: the reader loaded %d lines (error: %v), triple.Parse with the same builder accepts %d (refuses one: %v)\n", rn, rerr != nil, want, wantErr)
		} else {
			fmt.Println("same")
		}
		return nil
	}
	fmt.Println(parseWith(args[0], t))
	return nil
}

func init() { register("text", cmdText); register("textone", cmdTextOne) }
