package main

import (
	"bufio"
	"encoding/hex"
	"flag"
	"fmt"
	"math"
	"os"
	"strings"
	"sync"
	"time"

	"github.com/google/badwolf/triple"
	"github.com/google/badwolf/triple/literal"
	"github.com/google/badwolf/triple/node"
	"github.com/google/badwolf/triple/predicate"
	"github.com/pborman/uuid"
)

// uval is one value of the UUID correspondence.
type uval struct {
	kind string // node pred lit obj triple
	enc  string
	uuid func() uuid.UUID
	str  string
	trp  *triple.Triple
}

func safeU(f func() uuid.UUID) (u uuid.UUID, ok bool) {
	defer func() {
		if recover() != nil {
			ok = false
		}
	}()
	return f(), true
}

func uvNode(n *node.Node) uval {
	return uval{kind: "node", enc: encNode(n), uuid: n.UUID, str: n.String()}
}
func uvPred(p *predicate.Predicate) uval {
	return uval{kind: "pred", enc: encPred(p), uuid: p.UUID, str: p.String()}
}
func uvLit(l *literal.Literal) uval {
	return uval{kind: "lit", enc: encLit(l), uuid: l.UUID, str: l.String()}
}
func uvObj(o *triple.Object) uval {
	return uval{kind: "obj", enc: encObj(o), uuid: o.UUID, str: o.String()}
}
func uvTriple(t *triple.Triple) uval {
	return uval{kind: "triple", enc: encNode(t.Subject()) + " " + encPred(t.Predicate()) + " " + encObj(t.Object()), uuid: t.UUID, str: t.String(), trp: t}
}

// collisionFamilies: groups of values inside which every pair is compared (near-collisions first).
func collisionFamilies() [][]uval {
	wrap := t0
	for i := 0; i < 4; i++ {
		wrap = wrap.Add(time.Duration(1 << 62))
	}
	text := func(s string) *literal.Literal { return mustLit(literal.Text, s) }
	blob := func(s string) *literal.Literal { return mustLit(literal.Blob, []byte(s)) }
	fams := [][]uval{
		{uvNode(mustNode("/a", "bc")), uvNode(mustNode("/ab", "c")), uvNode(mustNode("/a", "bc")), uvNode(mustNode("/a/b", "c")), uvNode(mustNode("/a", "/bc"))},
		{uvLit(text("true")), uvLit(mustLit(literal.Bool, true)), uvLit(text("false")), uvLit(mustLit(literal.Bool, false)), uvLit(blob("true"))},
		{uvLit(mustLit(literal.Int64, int64(0))), uvLit(mustLit(literal.Float64, 0.0)), uvLit(blob("\x00\x00\x00\x00\x00\x00\x00\x00")),
			uvLit(text("\x00\x00\x00\x00\x00\x00\x00\x00")), uvLit(mustLit(literal.Float64, math.Copysign(0, -1))),
			uvLit(mustLit(literal.Int64, int64(1))), uvLit(mustLit(literal.Float64, math.Float64frombits(2))), uvLit(mustLit(literal.Int64, int64(-1)))},
		{uvObj(triple.NewNodeObject(mustNode("/u", "a"))), uvObj(triple.NewLiteralObject(text("/ua"))), uvObj(triple.NewLiteralObject(blob("/ua"))),
			uvObj(triple.NewPredicateObject(mustImm("/p"))), uvObj(triple.NewNodeObject(mustNode("/p", "immutable"))),
			uvObj(triple.NewLiteralObject(text("/pimmutable")))},
		{uvPred(mustImm("p")), uvPred(mustTmp("p", t0)), uvPred(mustTmp("p", t0.In(zoneE))), uvPred(mustTmp("p", t0.Add(1))), uvPred(mustTmp("p", wrap)),
			uvPred(mustImm("pimmutable")), uvPred(mustTmp("q", t0)), uvPred(mustImm("q"))},
	}
	// anchors outside the years UnixNano can represent (1678..2262): still one UUID per instant whatever the zone, and
	// different instants on the same side of the range still apart
	far := func(y int, m time.Month, d int) time.Time { return time.Date(y, m, d, 12, 0, 0, 0, time.UTC) }
	fams = append(fams, []uval{
		uvPred(mustTmp("p", far(1500, 6, 1))), uvPred(mustTmp("p", far(1500, 6, 1).In(zoneE))), uvPred(mustTmp("p", far(1500, 6, 1).In(zoneW))),
		uvPred(mustTmp("p", far(1564, 4, 26))), uvPred(mustTmp("p", far(1616, 4, 23))), uvPred(mustTmp("p", far(1066, 10, 14).In(zoneE))),
		uvPred(mustTmp("p", far(1066, 10, 14))), uvPred(mustTmp("p", far(2364, 1, 1))), uvPred(mustTmp("p", far(2365, 1, 1))),
		uvPred(mustTmp("p", far(2500, 1, 1))), uvPred(mustTmp("p", far(2500, 1, 1).In(zoneW))), uvPred(mustTmp("p", far(9999, 12, 31).In(zoneE))),
		uvPred(mustTmp("p", far(9999, 12, 31))),
	})
	// blank nodes: the ID of a blank node is the text of a UUID, but its identity is the hash of type and ID like any
	// node's — two spellings of one UUID are two nodes, and a blank node named after another node's UUID is not that node
	{
		const u = "385060d0-4f66-4a1e-9d3a-0c8f6f3a1b2c"
		alice := mustNode("/u", "alice")
		fam := []uval{uvNode(alice)}
		for _, id := range []string{u, strings.ToUpper(u), "urn:uuid:" + u, "{" + u + "}", strings.ReplaceAll(u, "-", ""), alice.UUID().String(), strings.ToUpper(alice.UUID().String())} {
			if n, err := node.NewNodeFromStrings("/_", id); err == nil {
				fam = append(fam, uvNode(n))
			}
		}
		fams = append(fams, fam)
	}
	// triples that differ in exactly one of the near-colliding components
	mkT := func(s *node.Node, p *predicate.Predicate, o *triple.Object) uval {
		t, _ := triple.New(s, p, o)
		return uvTriple(t)
	}
	fams = append(fams, []uval{
		mkT(mustNode("/a", "bc"), mustImm("p"), triple.NewLiteralObject(text("true"))),
		mkT(mustNode("/ab", "c"), mustImm("p"), triple.NewLiteralObject(text("true"))),
		mkT(mustNode("/a", "bc"), mustImm("p"), triple.NewLiteralObject(mustLit(literal.Bool, true))),
		mkT(mustNode("/a", "bc"), mustTmp("p", t0), triple.NewLiteralObject(text("true"))),
		mkT(mustNode("/a", "bc"), mustTmp("p", t0.In(zoneW)), triple.NewLiteralObject(text("true"))),
		mkT(mustNode("/a", "bc"), mustTmp("p", wrap), triple.NewLiteralObject(text("true"))),
	})
	return fams
}

func cmdUUID(args []string) error {
	fs := flag.NewFlagSet("uuid", flag.ContinueOnError)
	n := fs.Int("n", 2000, "random values")
	opsPath := fs.String("ops", "", "")
	implPath := fs.String("impl", "", "")
	if err := fs.Parse(args); err != nil {
		return err
	}
	fo, wo := mustCreate(*opsPath)
	fi, wi := mustCreate(*implPath)
	defer fo.Close()
	defer fi.Close()
	defer wo.Flush()
	defer wi.Flush()
	r := newRng(envSeed()*7919 + 11)
	// noise: while the values below are hashed, other goroutines hash OTHER values (long texts and blobs, nodes,
	// predicates, triples) without pause — a UUID is the same on every call whatever else the process is hashing
	// (shared scratch buffers are where that breaks)
	stopNoise := make(chan struct{})
	var noise sync.WaitGroup
	for gi := 0; gi < 8; gi++ {
		noise.Add(1)
		go func(gi int) {
			defer noise.Done()
			big := strings.Repeat(string(rune('a'+gi)), 1<<16)
			lt := mustLit(literal.Text, big)
			lb := mustLit(literal.Blob, []byte(big[:1<<12]))
			nn := mustNode("/noise", big[:300])
			pp := mustTmp(big[:200], t0.Add(time.Duration(gi)))
			tr, _ := triple.New(nn, pp, triple.NewLiteralObject(lt))
			for {
				select {
				case <-stopNoise:
					return
				default:
				}
				safeU(lt.UUID)
				safeU(lb.UUID)
				safeU(nn.UUID)
				safeU(pp.UUID)
				safeU(tr.UUID)
			}
		}(gi)
	}
	defer func() { close(stopNoise); noise.Wait() }()
	var vals []uval
	emitV := func(v uval) int {
		id := len(vals)
		vals = append(vals, v)
		fmt.Fprintf(wo, "V %d %s %s\n", id, v.kind, v.enc)
		u, ok := safeU(v.uuid)
		if !ok {
			fmt.Fprintln(wi, "panic")
			return id
		}
		// determinism: same value hashed again, in 4 goroutines
		same := true
		var wg sync.WaitGroup
		var mu sync.Mutex
		for g := 0; g < 4; g++ {
			wg.Add(1)
			go func() {
				defer wg.Done()
				u2, ok2 := safeU(v.uuid)
				if !ok2 || !uuid.Equal(u, u2) {
					mu.Lock()
					same = false
					mu.Unlock()
				}
			}()
		}
		wg.Wait()
		det := ""
		if !same {
			det = " nondeterministic"
		}
		fmt.Fprintf(wi, "uuid %s%s\n", hex.EncodeToString(u), det)
		return id
	}
	emitE := func(i, j int) {
		fmt.Fprintf(wo, "E %d %d\n", i, j)
		a, ok1 := safeU(vals[i].uuid)
		b, ok2 := safeU(vals[j].uuid)
		if !ok1 || !ok2 {
			fmt.Fprintln(wi, "panic")
			return
		}
		ans := "ne"
		if uuid.Equal(a, b) {
			ans = "eq"
		}
		if vals[i].trp != nil && vals[j].trp != nil {
			if vals[i].trp.Equal(vals[j].trp) != (ans == "eq") {
				ans += " Equal-disagrees"
			}
		}
		fmt.Fprintln(wi, ans)
	}
	for _, fam := range collisionFamilies() {
		start := len(vals)
		for _, v := range fam {
			emitV(v)
		}
		for i := start; i < len(vals); i++ {
			for j := i; j < len(vals); j++ {
				emitE(i, j)
			}
		}
	}
	// the shared universe: all values once; pairs inside each kind at random
	byKind := map[string][]int{}
	for _, x := range uniNodes() {
		byKind["node"] = append(byKind["node"], emitV(uvNode(x)))
	}
	for _, x := range uniPreds() {
		byKind["pred"] = append(byKind["pred"], emitV(uvPred(x)))
	}
	for _, x := range uniLits(true) {
		byKind["lit"] = append(byKind["lit"], emitV(uvLit(x)))
	}
	// int64 and float64 boundary sets
	for k := 0; k < 64; k++ {
		for _, d := range []int64{-1, 0, 1} {
			v := (int64(1) << uint(k)) + d
			byKind["lit"] = append(byKind["lit"], emitV(uvLit(mustLit(literal.Int64, v))), emitV(uvLit(mustLit(literal.Int64, -v))))
		}
		byKind["lit"] = append(byKind["lit"], emitV(uvLit(mustLit(literal.Float64, math.Float64frombits(uint64(1)<<uint(k))))))
	}
	for _, f := range []float64{math.Inf(1), math.Inf(-1), math.MaxFloat64, math.SmallestNonzeroFloat64, 1 + math.Pow(2, -52)} {
		byKind["lit"] = append(byKind["lit"], emitV(uvLit(mustLit(literal.Float64, f))))
	}
	for _, x := range uniObjects(true) {
		byKind["obj"] = append(byKind["obj"], emitV(uvObj(x)))
	}
	nodes, preds, objs := uniNodes(), uniPreds(), uniObjects(true)
	for i := 0; i < *n; i++ {
		t, err := triple.New(nodes[r.intn(len(nodes))], preds[r.intn(len(preds))], objs[r.intn(len(objs))])
		if err == nil {
			byKind["triple"] = append(byKind["triple"], emitV(uvTriple(t)))
		}
	}
	for _, k := range []string{"node", "pred", "lit", "obj", "triple"} {
		ids := byKind[k]
		for c := 0; c < 4*len(ids); c++ {
			emitE(ids[r.intn(len(ids))], ids[r.intn(len(ids))])
		}
	}
	// objects across kinds
	all := append(append(append([]int{}, byKind["obj"]...), byKind["node"]...), byKind["lit"]...)
	_ = all
	return nil
}

// cmdUUIDVerify hashes the model's pre-images with Go's own SHA-1 UUID function and compares them with
// what UUID() returned: the byte-exact tie of the pre-image model.
func cmdUUIDVerify(args []string) error {
	fs := flag.NewFlagSet("uuidverify", flag.ContinueOnError)
	implPath := fs.String("impl", "", "")
	modelPath := fs.String("model", "", "")
	if err := fs.Parse(args); err != nil {
		return err
	}
	fi, err := os.Open(*implPath)
	if err != nil {
		return err
	}
	defer fi.Close()
	fm, err := os.Open(*modelPath)
	if err != nil {
		return err
	}
	defer fm.Close()
	si, sm := bufio.NewScanner(fi), bufio.NewScanner(fm)
	si.Buffer(make([]byte, 1<<20), 1<<26)
	sm.Buffer(make([]byte, 1<<20), 1<<26)
	w := bufio.NewWriter(os.Stdout)
	defer w.Flush()
	line := 0
	sha := func(h string) (uuid.UUID, error) {
		b, err := unhx(h)
		if err != nil {
			return nil, err
		}
		return uuid.NewSHA1(uuid.NIL, []byte(b)), nil
	}
	for si.Scan() && sm.Scan() {
		line++
		a, m := si.Text(), sm.Text()
		fa, fm := strings.Fields(a), strings.Fields(m)
		switch {
		case len(fm) >= 1 && fm[0] == "pre" && len(fm) == 2:
			u, err := sha(fm[1])
			if err != nil {
				fmt.Fprintf(w, "%d bad-model-line\n", line)
				continue
			}
			if len(fa) >= 2 && fa[0] == "uuid" && fa[1] == hex.EncodeToString(u) {
				fmt.Fprintf(w, "%d ok\n", line)
			} else {
				fmt.Fprintf(w, "%d MISMATCH impl=%s model-hash=%s\n", line, a, hex.EncodeToString(u))
			}
		case len(fm) == 4 && fm[0] == "pre3":
			us, e1 := sha(fm[1])
			up, e2 := sha(fm[2])
			uo, e3 := sha(fm[3])
			if e1 != nil || e2 != nil || e3 != nil {
				fmt.Fprintf(w, "%d bad-model-line\n", line)
				continue
			}
			buf := append(append(append([]byte{}, us...), up...), uo...)
			u := uuid.NewSHA1(uuid.NIL, buf)
			if len(fa) >= 2 && fa[0] == "uuid" && fa[1] == hex.EncodeToString(u) {
				fmt.Fprintf(w, "%d ok\n", line)
			} else {
				fmt.Fprintf(w, "%d MISMATCH impl=%s model-hash=%s\n", line, a, hex.EncodeToString(u))
			}
		case m == "panic":
			if a == "panic" {
				fmt.Fprintf(w, "%d ok\n", line)
			} else {
				fmt.Fprintf(w, "%d MISMATCH impl=%s model=panic\n", line, a)
			}
		default:
			if fa[0] == "uuid" || a == "panic" {
				fmt.Fprintf(w, "%d MISMATCH impl=%s model=%s\n", line, a, m)
			} else if a == m {
				fmt.Fprintf(w, "%d ok\n", line)
			} else {
				fmt.Fprintf(w, "%d MISMATCH impl=%s model=%s\n", line, a, m)
			}
		}
	}
	return nil
}

func init() {
	register("uuid", cmdUUID)
	register("uuidverify", cmdUUIDVerify)
}
