package main

import (
	"fmt"
	"go/ast"
	"os"
	"sort"
	"strings"
)

// parfacts: go/ast extraction for C14 — how the goroutines of specifyClauseWithTable (one per row) share state:
// the methods through which addSpecifiedData touches the shared table, whether those methods hold the table's
// mutex for their whole body, whether addSpecifiedData writes a field of the plan, and whether every goroutine
// works on its own copy of the clause and of the row. Output: BW/Generated/ParFacts.lean.

// holdsMutexWholeBody: the body starts with <recv>.mu.Lock() and ends with <recv>.mu.Unlock() (or defers it).
func holdsMutexWholeBody(s *srcFile, fd *ast.FuncDecl) bool {
	if fd == nil || fd.Body == nil || len(fd.Body.List) < 2 || fd.Recv == nil || len(fd.Recv.List[0].Names) == 0 {
		return false
	}
	rn := fd.Recv.List[0].Names[0].Name
	first := strings.TrimSpace(s.str(fd.Body.List[0]))
	if first != rn+".mu.Lock()" {
		return false
	}
	second := strings.TrimSpace(s.str(fd.Body.List[1]))
	last := strings.TrimSpace(s.str(fd.Body.List[len(fd.Body.List)-1]))
	if second == "defer "+rn+".mu.Unlock()" {
		return true
	}
	if last != rn+".mu.Unlock()" {
		return false
	}
	// no return before the unlock
	early := false
	for _, st := range fd.Body.List[:len(fd.Body.List)-1] {
		ast.Inspect(st, func(n ast.Node) bool {
			if _, ok := n.(*ast.ReturnStmt); ok {
				early = true
			}
			return true
		})
	}
	return !early
}

func cmdParfacts(args []string) error {
	if len(args) != 1 {
		return fmt.Errorf("usage: parfacts <out.lean>")
	}
	tb, err := loadSrc("bql", "table", "table.go")
	if err != nil {
		return err
	}
	pl, err := loadSrc("bql", "planner", "planner.go")
	if err != nil {
		return err
	}
	addRow := holdsMutexWholeBody(tb, tb.fn("*Table", "AddRow"))
	addBindings := holdsMutexWholeBody(tb, tb.fn("*Table", "AddBindings"))
	asd := pl.fn("*queryPlan", "addSpecifiedData")
	uses := map[string]bool{}
	writesPlan := false
	if asd != nil {
		rn := asd.Recv.List[0].Names[0].Name
		ast.Inspect(asd.Body, func(n ast.Node) bool {
			switch x := n.(type) {
			case *ast.SelectorExpr:
				if inner, ok := x.X.(*ast.SelectorExpr); ok && pl.str(inner) == rn+".tbl" {
					uses[x.Sel.Name] = true
				}
			case *ast.AssignStmt:
				for _, l := range x.Lhs {
					if strings.HasPrefix(pl.str(l), rn+".") {
						writesPlan = true
					}
				}
			case *ast.IncDecStmt:
				if strings.HasPrefix(pl.str(x.X), rn+".") {
					writesPlan = true
				}
			}
			return true
		})
		// the shared table handed on as a value (p.tbl as an argument) would escape this accounting
		ast.Inspect(asd.Body, func(n ast.Node) bool {
			if c, ok := n.(*ast.CallExpr); ok {
				for _, a := range c.Args {
					if pl.str(a) == rn+".tbl" {
						uses["<passed as argument>"] = true
					}
				}
			}
			return true
		})
	}
	var ulist []string
	for u := range uses {
		ulist = append(ulist, u)
	}
	sort.Strings(ulist)
	// specifyClauseWithTable: inside the goroutine, the clause is copied and the row is the loop's own copy
	sc := pl.fn("*queryPlan", "specifyClauseWithTable")
	copied := false
	if sc != nil {
		body := pl.str(sc.Body)
		copied = strings.Contains(body, "tmpCls = *cls") && strings.Contains(body, "addSpecifiedData(gCtx, r, &tmpCls, lo)") &&
			strings.Contains(body, "r := tmpRow")
	}
	// every Lock()/RLock() in the planner and in the table is released on every path: the next statement defers
	// the unlock, or the unlock follows in the same block with no return in between
	var unbalanced []string
	for _, sf := range []*srcFile{pl, tb} {
		ast.Inspect(sf.f, func(n ast.Node) bool {
			blk, ok := n.(*ast.BlockStmt)
			if !ok {
				return true
			}
			for i, st := range blk.List {
				txt := strings.TrimSpace(sf.str(st))
				var recv, un string
				switch {
				case strings.HasSuffix(txt, ".Lock()") && !strings.Contains(txt, " "):
					recv, un = strings.TrimSuffix(txt, ".Lock()"), ".Unlock()"
				case strings.HasSuffix(txt, ".RLock()") && !strings.Contains(txt, " "):
					recv, un = strings.TrimSuffix(txt, ".RLock()"), ".RUnlock()"
				default:
					continue
				}
				ok := false
				if i+1 < len(blk.List) && strings.TrimSpace(sf.str(blk.List[i+1])) == "defer "+recv+un {
					ok = true
				} else {
					for j := i + 1; j < len(blk.List); j++ {
						t2 := strings.TrimSpace(sf.str(blk.List[j]))
						if t2 == recv+un {
							ok = true
							break
						}
						ret := false
						ast.Inspect(blk.List[j], func(m ast.Node) bool {
							if _, isRet := m.(*ast.ReturnStmt); isRet {
								ret = true
							}
							return true
						})
						if ret {
							break
						}
					}
				}
				if !ok {
					unbalanced = append(unbalanced, fmt.Sprintf("%s:%d", sf.fset.Position(st.Pos()).Filename[len(repoRoot)+1:], sf.fset.Position(st.Pos()).Line))
				}
			}
			return true
		})
	}
	// the stages of queryPlan.Execute, in the order in which their calls stand in the body
	var stages []string
	if ex := pl.fn("*queryPlan", "Execute"); ex != nil {
		rn := ex.Recv.List[0].Names[0].Name
		ast.Inspect(ex.Body, func(n ast.Node) bool {
			if c, ok := n.(*ast.CallExpr); ok {
				if sel, ok := c.Fun.(*ast.SelectorExpr); ok {
					if id, ok := sel.X.(*ast.Ident); ok && id.Name == rn {
						stages = append(stages, sel.Sel.Name)
					}
				}
			}
			return true
		})
	}
	var b strings.Builder
	b.WriteString("/- GENERATED by `bwh parfacts` from bql/planner/planner.go and bql/table/table.go — do not edit. -/\nnamespace BW.Generated\n\n")
	fmt.Fprintf(&b, "/-- `Table.AddRow` holds the table's mutex for its whole body. -/\ndef addRowLocked : Bool := %v\n\n", addRow)
	fmt.Fprintf(&b, "/-- `Table.AddBindings` holds the table's mutex for its whole body. -/\ndef addBindingsLocked : Bool := %v\n\n", addBindings)
	b.WriteString("/-- The methods through which `addSpecifiedData` (one goroutine per row) touches the shared table. -/\ndef perRowTableUses : List String := [")
	for i, u := range ulist {
		if i > 0 {
			b.WriteString(", ")
		}
		fmt.Fprintf(&b, "%q", u)
	}
	b.WriteString("]\n\n")
	fmt.Fprintf(&b, "/-- `addSpecifiedData` assigns to a field of the plan. -/\ndef perRowWritesPlan : Bool := %v\n\n", writesPlan)
	b.WriteString("/-- Lock()/RLock() statements of bql/planner/planner.go and bql/table/table.go that are not released on every path. -/\ndef unbalancedLocks : List String := [")
	for i, u := range unbalanced {
		if i > 0 {
			b.WriteString(", ")
		}
		fmt.Fprintf(&b, "%q", u)
	}
	b.WriteString("]\n\n")
	b.WriteString("/-- The methods `queryPlan.Execute` calls on the plan, in the order of its body. -/\ndef executeStages : List String := [")
	for i, u := range stages {
		if i > 0 {
			b.WriteString(", ")
		}
		fmt.Fprintf(&b, "%q", u)
	}
	b.WriteString("]\n\n")
	fmt.Fprintf(&b, "/-- Every goroutine of `specifyClauseWithTable` works on its own copy of the clause and of the row. -/\ndef perRowOwnCopies : Bool := %v\n\nend BW.Generated\n", copied)
	return os.WriteFile(args[0], []byte(b.String()), 0o644)
}

func init() { register("parfacts", cmdParfacts) }
