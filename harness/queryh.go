package main

import (
	"context"
	"flag"
	"fmt"
	"sort"
	"strconv"
	"strings"
	"time"

	"github.com/google/badwolf/bql/grammar"
	"github.com/google/badwolf/bql/lexer"
	"github.com/google/badwolf/bql/planner"
	"github.com/google/badwolf/bql/semantic"
	"github.com/google/badwolf/bql/table"
	"github.com/google/badwolf/storage"
	"github.com/google/badwolf/storage/memory"
	"github.com/google/badwolf/triple"
	"github.com/google/badwolf/triple/literal"
	"github.com/google/badwolf/triple/node"
	"github.com/google/badwolf/triple/predicate"
)

// ---- Statement -> protocol ----

func encTimeP(t *time.Time) string {
	if t == nil {
		return "-"
	}
	_, off := t.Zone()
	return fmt.Sprintf("%s:%d", instantNanos(*t), off)
}

func encClause(c *semantic.GraphClause) string {
	s, p, o := "-", "-", "-"
	if c.S != nil {
		s = encNode(c.S)
	}
	if c.P != nil {
		p = encPred(c.P)
	}
	if c.O != nil {
		o = encObj(c.O)
	}
	b := func(x bool) string {
		if x {
			return "1"
		}
		return "0"
	}
	f := []string{b(c.Optional), s, hx(c.SBinding), hx(c.SAlias), hx(c.STypeAlias), hx(c.SIDAlias),
		p, hx(c.PID), hx(c.PBinding), hx(c.PAlias), hx(c.PIDAlias), hx(c.PAnchorBinding), hx(c.PAnchorAlias),
		encTimeP(c.PLowerBound), encTimeP(c.PUpperBound), hx(c.PLowerBoundAlias), hx(c.PUpperBoundAlias), b(c.PTemporal),
		o, hx(c.OBinding), hx(c.OAlias), hx(c.OID), hx(c.OTypeAlias), hx(c.OIDAlias), hx(c.OAnchorBinding), hx(c.OAnchorAlias),
		encTimeP(c.OLowerBound), encTimeP(c.OUpperBound), hx(c.OLowerBoundAlias), hx(c.OUpperBoundAlias), b(c.OTemporal)}
	return strings.Join(f, "|")
}

func encStatement(st *semantic.Statement) string {
	var gs, cs, ps, gb, ob, fl []string
	for _, g := range st.InputGraphNames() {
		gs = append(gs, hx(g))
	}
	for _, c := range st.GraphPatternClauses() {
		cs = append(cs, encClause(c))
	}
	for _, p := range st.Projections() {
		op := "0"
		switch p.OP {
		case lexer.ItemCount:
			op = "1"
		case lexer.ItemSum:
			op = "2"
		}
		d := "0"
		if p.Modifier == lexer.ItemDistinct {
			d = "1"
		}
		ps = append(ps, fmt.Sprintf("%s|%s|%s|%s", hx(p.Binding), hx(p.Alias), op, d))
	}
	for _, g := range st.GroupBy() {
		gb = append(gb, hx(g))
	}
	for _, o := range st.OrderBy() {
		d := "0"
		if o.Desc {
			d = "1"
		}
		ob = append(ob, hx(o.Binding)+":"+d)
	}
	for _, f := range st.FilterClauses() {
		fl = append(fl, fmt.Sprintf("%d:%s", int(f.Operation), hx(f.Binding)))
	}
	j := func(xs []string, sep string) string {
		if len(xs) == 0 {
			return "-"
		}
		return strings.Join(xs, sep)
	}
	lim := "-"
	if st.IsLimitSet() {
		lim = fmt.Sprint(st.Limit())
	}
	hv := "0"
	if st.HasHavingClause() {
		hv = "1"
	}
	var hts []string
	for _, h := range st.HavingExpression() {
		if h.IsSymbol() {
			continue
		}
		tk := h.Token()
		parsed := "-"
		txt := strings.TrimSpace(tk.Text)
		switch tk.Type {
		case lexer.ItemLiteral:
			parsed = "bad"
			if l, err := literal.DefaultBuilder().Parse(txt); err == nil && l != nil {
				parsed = encLit(l)
			}
		case lexer.ItemNode:
			parsed = "bad"
			if n, err := node.Parse(txt); err == nil {
				parsed = encNode(n)
			}
		case lexer.ItemTime:
			parsed = "bad"
			if t, err := time.Parse(time.RFC3339Nano, txt); err == nil {
				parsed = encTimeP(&t)
			}
		}
		hts = append(hts, tk.Type.String()+"~"+hx(tk.Text)+"~"+parsed)
	}
	lo := st.GlobalLookupOptions()
	return fmt.Sprintf("g=%s c=%s p=%s gb=%s ob=%s hv=%s ht=%s lim=%s lo=%s hi=%s f=%s", j(gs, ","), j(cs, ";"), j(ps, ";"), j(gb, ","), j(ob, ","),
		hv, j(hts, ";"), lim, encTimeP(lo.LowerAnchor), encTimeP(lo.UpperAnchor), j(fl, ";"))
}

// ---- result tables ----

func encCell(c *table.Cell) string {
	switch {
	case c == nil:
		return "NULL"
	case c.S != nil:
		return "S," + hx(*c.S)
	case c.N != nil:
		return encNode(c.N)
	case c.P != nil:
		return encPred(c.P)
	case c.L != nil:
		return encLit(c.L)
	case c.T != nil:
		_, off := c.T.Zone()
		return fmt.Sprintf("T,%s,%d", instantNanos(*c.T), off)
	}
	return "NULL"
}

func encTable(t *table.Table, order table.SortConfig) string {
	var cols []string
	for _, b := range t.Bindings() {
		cols = append(cols, hx(b))
	}
	var rows []string
	for _, r := range t.Rows() {
		var cells []string
		for _, b := range t.Bindings() {
			cells = append(cells, encCell(r[b]))
		}
		rows = append(rows, strings.Join(cells, "|"))
	}
	ordered := len(order) > 0
	if !ordered {
		sort.Strings(rows)
	} else {
		// sort.Sort is not stable: rows that compare equal under the ORDER BY keys form a tie group
		// whose internal order is unspecified; order each group by its rendering.
		data := t.Rows()
		tie := func(a, b table.Row) bool {
			for _, c := range order {
				if x, _ := table.CompareCells(a[c.Binding], b[c.Binding]); x != 0 {
					return false
				}
			}
			return true
		}
		for i := 0; i < len(rows); {
			j := i + 1
			for j < len(rows) && tie(data[j-1], data[j]) {
				j++
			}
			sort.Strings(rows[i:j])
			i = j
		}
	}
	return fmt.Sprintf("ok cols=%s rows=%s", strings.Join(cols, ","), strings.Join(rows, ";"))
}

type execResult struct {
	cls  string // ok err panic hang
	text string
}

// runStatement: lex + parse + plan + execute one statement text against a store.
func runStatement(store storage.Store, text string, chanSize, bulkSize int) (res execResult, stm *semantic.Statement) {
	done := make(chan execResult, 1)
	var stOut *semantic.Statement
	go func() {
		var r execResult
		defer func() {
			if e := recover(); e != nil {
				r = execResult{cls: "panic", text: fmt.Sprint(e)}
			}
			done <- r
		}()
		p, err := grammar.NewParser(grammar.SemanticBQL())
		if err != nil {
			r = execResult{cls: "err", text: "parser: " + err.Error()}
			return
		}
		st := &semantic.Statement{}
		if err := p.Parse(grammar.NewLLk(text, 1), st); err != nil {
			r = execResult{cls: "reject", text: err.Error()}
			return
		}
		stOut = st
		pln, err := planner.New(context.Background(), store, st, chanSize, bulkSize, nil)
		if err != nil {
			r = execResult{cls: "err", text: "planner: " + err.Error()}
			return
		}
		tbl, err := pln.Execute(context.Background())
		if err != nil {
			r = execResult{cls: "err", text: err.Error()}
			return
		}
		if tbl == nil {
			r = execResult{cls: "nil-table"}
			return
		}
		r = execResult{cls: "ok", text: encTable(tbl, st.OrderBy())}
	}()
	select {
	case r := <-done:
		return r, stOut
	case <-time.After(10 * time.Second):
		return execResult{cls: "hang"}, nil
	}
}

// ---- query generation ----

type qgen struct {
	lastPO []string // predicate / object bindings and aliases of the clause generated last
	eqOnly bool // HAVING comparisons are equalities only (statements over stores that hold blank nodes)
	r    *rng
	g    *storeGen
	mode string
	all  string // the modes of the whole run ("order+limit+group")
	hist map[string]int
	// meta: no LIMIT; the parts of the last generated query are kept for the metamorphic variants (C14)
	meta     bool
	lastProj []string
	lastCls  []string
	lastOuts []string
	lastTail string
	// what the generator meant, independent of what the parser's hooks made of it
	intent string
	lastExp string
}

var qNodes = []*node.Node{}
var qPreds = []*predicate.Predicate{}
var qObjs = []*triple.Object{}
var (
	qt0 = time.Date(2015, 1, 1, 0, 0, 0, 0, time.UTC)
	qt1 = time.Date(2016, 6, 1, 12, 0, 0, 0, time.UTC)
	qt2 = time.Date(2017, 3, 4, 5, 6, 7, 8, time.FixedZone("", 7200))
)

func init() {
	qNodes = []*node.Node{mustNode("/u", "a"), mustNode("/u", "b"), mustNode("/u", "c"), mustNode("/t", "a")}
	qPreds = []*predicate.Predicate{mustImm("p"), mustImm("q"), mustTmp("p", qt0), mustTmp("p", qt1), mustTmp("q", qt0),
		mustTmp("q", qt2), mustTmp("p", qt0.In(time.FixedZone("", 3600))),
		// the same second with and without a fraction (05:06:07+02:00, 05:06:07.000000008+02:00, 05:06:07.5+02:00): the
		// printed forms are not of one width, so their text order is not their order in time
		mustTmp("q", qt2.Truncate(time.Second)), mustTmp("q", qt2.Truncate(time.Second).Add(500*time.Millisecond))}
	for _, n := range qNodes {
		qObjs = append(qObjs, triple.NewNodeObject(n))
	}
	qObjs = append(qObjs,
		triple.NewLiteralObject(mustLit(literal.Int64, int64(1))), triple.NewLiteralObject(mustLit(literal.Int64, int64(2))),
		triple.NewLiteralObject(mustLit(literal.Int64, int64(-3))), triple.NewLiteralObject(mustLit(literal.Text, "a")),
		triple.NewLiteralObject(mustLit(literal.Text, "x y")), triple.NewLiteralObject(mustLit(literal.Bool, true)),
		triple.NewLiteralObject(mustLit(literal.Float64, 1.5)),
		triple.NewPredicateObject(mustImm("p")), triple.NewPredicateObject(mustTmp("p", qt0)), triple.NewPredicateObject(mustTmp("q", qt1)))
	// the ends of int64: sums that leave the range
	// (and running sums that leave it and come back: 9223372036854775802 + 10 - 10)
	for _, v := range []int64{-2, -1, 10, 11, 9223372036854775807, 9223372036854775806, -9223372036854775808, 4611686018427387904, 9223372036854775802, -10} {
		qNums = append(qNums, triple.NewLiteralObject(mustLit(literal.Int64, v)))
	}
	for _, v := range []float64{0.25, -2, 2.5, 1.25, 1.75, -2.5} {
		qNums = append(qNums, triple.NewLiteralObject(mustLit(literal.Float64, v)))
	}
	qNums = append(qNums, qObjs[4], qObjs[5], qObjs[6], qObjs[10])
}

var qNums []*triple.Object

var qBindings = []string{"?a", "?b", "?c", "?d", "?e"}

func (q *qgen) binding() string { return qBindings[q.r.intn(len(qBindings))] }

func fmtT(t time.Time) string { return t.Format(time.RFC3339Nano) }

// clauseText renders one random clause; level 0 = plain (constants / bindings), 1 = with aliases and
// partially specified predicates.
func (q *qgen) clauseText(level int) string {
	r := q.r
	var b strings.Builder
	// c: what the clause means, written down by the generator next to the text it produces (never by way of
	// the BQL parser): the reference is run on it, so a hook that builds another clause from the text shows
	c := &semantic.GraphClause{}
	defer func() {
		q.lastExp = encClause(c)
		q.lastPO = nil
		for _, b := range []string{c.PBinding, c.PAlias, c.OBinding, c.OAlias} {
			if b != "" {
				q.lastPO = append(q.lastPO, b)
			}
		}
	}()
	// Alias names are fresh within the clause: a name shared between an ID alias of a node object and
	// another binding of the same clause has a behaviour pinned by the suite ("?c \"p\"@[] ?gc ID ?gc":
	// the id wins) that lies outside the fragment the properties speak about.
	fresh := []string{"?v", "?w", "?x", "?y", "?z", "?k", "?l", "?m", "?n", "?o"}
	fi := r.intn(3)
	alias := func() string { fi++; return fresh[fi%len(fresh)] }
	// the TYPE / ID alias of the subject, sometimes reused for the object: both must then agree
	sType, sID := "", ""
	// subject
	if r.chance(1, 3) {
		c.S = qNodes[r.intn(len(qNodes))]
		b.WriteString(c.S.String())
	} else {
		c.SBinding = q.binding()
		b.WriteString(c.SBinding)
	}
	if level > 0 {
		if r.chance(1, 6) {
			c.SAlias = alias()
			b.WriteString(" as " + c.SAlias)
		}
		if r.chance(1, 8) {
			sType = alias()
			c.STypeAlias = sType
			b.WriteString(" type " + sType)
		}
		if r.chance(1, 8) {
			sID = alias()
			c.SIDAlias = sID
			b.WriteString(" id " + sID)
		}
	}
	b.WriteString(" ")
	// predicate
	ids := []string{"p", "q"}
	times := []time.Time{qt0, qt1, qt2}
	switch x := r.intn(10); {
	case x < 3:
		c.P = qPreds[r.intn(len(qPreds))]
		c.PTemporal = c.P.Type() == predicate.Temporal
		b.WriteString(c.P.String())
	case x < 7 || level == 0:
		c.PBinding = q.binding()
		b.WriteString(c.PBinding)
		if level > 0 {
			if r.chance(1, 8) {
				c.PAlias = alias()
				b.WriteString(" as " + c.PAlias)
			}
			if r.chance(1, 8) {
				c.PIDAlias = alias()
				b.WriteString(" id " + c.PIDAlias)
			}
			if r.chance(1, 8) {
				c.PAnchorAlias = alias()
				b.WriteString(" at " + c.PAnchorAlias)
			}
		}
	case x < 8:
		c.PID, c.PAnchorBinding, c.PTemporal = ids[r.intn(2)], q.binding(), true
		fmt.Fprintf(&b, `"%s"@[%s]`, c.PID, c.PAnchorBinding)
		if r.chance(1, 4) {
			c.PAlias = alias()
			b.WriteString(" as " + c.PAlias)
		}
	default:
		lo, hi := "", ""
		if r.chance(2, 3) {
			t := times[r.intn(3)]
			c.PLowerBound = &t
			lo = fmtT(t)
		}
		if r.chance(2, 3) {
			t := times[r.intn(3)]
			c.PUpperBound = &t
			hi = fmtT(t)
		}
		c.PID, c.PTemporal = ids[r.intn(2)], true
		fmt.Fprintf(&b, `"%s"@[%s,%s]`, c.PID, lo, hi)
		if level > 0 {
			if r.chance(1, 6) {
				c.PAlias = alias()
				b.WriteString(" as " + c.PAlias)
			}
			if r.chance(1, 6) {
				c.PIDAlias = alias()
				b.WriteString(" id " + c.PIDAlias)
			}
			if r.chance(1, 5) {
				c.PAnchorAlias = alias()
				b.WriteString(" at " + c.PAnchorAlias)
			}
		}
	}
	b.WriteString(" ")
	// object
	switch x := r.intn(10); {
	case x < 3:
		c.O = qObjs[r.intn(len(qObjs))]
		if op, err := c.O.Predicate(); err == nil {
			c.OTemporal = op.Type() == predicate.Temporal
		}
		b.WriteString(c.O.String())
	case x < 8 || level == 0:
		c.OBinding = q.binding()
		b.WriteString(c.OBinding)
		if level > 0 {
			if r.chance(1, 8) {
				c.OAlias = alias()
				b.WriteString(" as " + c.OAlias)
			}
			if r.chance(1, 8) || (sType != "" && r.chance(1, 2)) {
				a := alias()
				if sType != "" && r.chance(1, 2) {
					a = sType
				}
				c.OTypeAlias = a
				b.WriteString(" type " + a)
			}
			if r.chance(1, 8) || (sID != "" && r.chance(1, 2)) {
				a := alias()
				if sID != "" && r.chance(1, 2) {
					a = sID
				}
				c.OIDAlias = a
				b.WriteString(" id " + a)
			}
			if r.chance(1, 8) {
				c.OAnchorAlias = alias()
				b.WriteString(" at " + c.OAnchorAlias)
			}
		}
	case x < 9:
		c.OID, c.OAnchorBinding, c.OTemporal = ids[r.intn(2)], q.binding(), true
		fmt.Fprintf(&b, `"%s"@[%s]`, c.OID, c.OAnchorBinding)
		if level > 0 && r.chance(1, 4) {
			c.OAlias = alias()
			b.WriteString(" as " + c.OAlias)
		}
	default:
		lo, hi := times[r.intn(3)], times[r.intn(3)]
		if hi.Before(lo) {
			lo, hi = hi, lo
		}
		c.OID, c.OLowerBound, c.OUpperBound, c.OTemporal = ids[r.intn(2)], &lo, &hi, true
		fmt.Fprintf(&b, `"%s"@[%s,%s]`, c.OID, fmtT(lo), fmtT(hi))
		if level > 0 {
			// modifiers of an interval-bounded predicate in object position: AS, ID, AT in the grammar's order
			if r.chance(1, 5) {
				c.OAlias = alias()
				b.WriteString(" as " + c.OAlias)
			}
			if r.chance(1, 5) {
				c.OIDAlias = alias()
				b.WriteString(" id " + c.OIDAlias)
			}
			if r.chance(1, 3) {
				c.OAnchorAlias = alias()
				b.WriteString(" at " + c.OAnchorAlias)
			}
		}
	}
	return b.String()
}

// clauseFrom renders a clause that matches the stored triple t: every position is either the
// triple's own value or a binding; the same value always gets the same binding name (vm), so that the
// clauses of one query share bindings the way a satisfiable join does.
func (q *qgen) clauseFrom(t *triple.Triple, vm map[string]string, level int) string {
	r := q.r
	// the time bindings of EARLIER clauses: what an object interval of this clause may be bounded by
	earlier := timeBindings(vm)
	name := func(key string) string {
		if b, ok := vm[key]; ok {
			return b
		}
		b := fmt.Sprintf("?f%d", len(vm))
		if len(vm) < len(qBindings) {
			b = qBindings[len(vm)]
		}
		vm[key] = b
		return b
	}
	var b strings.Builder
	c := &semantic.GraphClause{}
	defer func() {
		q.lastExp = encClause(c)
		q.lastPO = nil
		for _, b := range []string{c.PBinding, c.PAlias, c.OBinding, c.OAlias} {
			if b != "" {
				q.lastPO = append(q.lastPO, b)
			}
		}
	}()
	if tp := t.Predicate(); len(earlier) > 0 && tp.Type() == predicate.Temporal && r.chance(1, 10) {
		// a clause that extracts nothing but the anchor of an interval-bounded predicate, under the name of a time an
		// earlier clause bound: constants everywhere else; it holds for a row only if a matching triple is anchored
		// at the row's value of that name
		c.S, c.O = t.Subject(), t.Object()
		if op, err := t.Object().Predicate(); err == nil {
			c.OTemporal = op.Type() == predicate.Temporal
		}
		c.PID, c.PTemporal = string(tp.ID()), true
		c.PAnchorAlias = earlier[r.intn(len(earlier))].name
		q.hist["anchor-alias-only-clause"]++
		return fmt.Sprintf(`%s "%s"@[,] at %s %s`, t.Subject(), tp.ID(), c.PAnchorAlias, t.Object())
	}
	if r.chance(1, 3) {
		c.S = t.Subject()
		b.WriteString(t.Subject().String())
	} else {
		c.SBinding = name("n:" + t.Subject().String())
		b.WriteString(c.SBinding)
		if level > 0 && r.chance(1, 6) {
			c.STypeAlias = name("s:" + t.Subject().Type().String())
			b.WriteString(" type " + c.STypeAlias)
		}
		if level > 0 && r.chance(1, 6) {
			c.SIDAlias = name("s:" + t.Subject().ID().String())
			b.WriteString(" id " + c.SIDAlias)
		}
	}
	b.WriteString(" ")
	p := t.Predicate()
	switch x := r.intn(10); {
	case x < 4:
		c.P, c.PTemporal = p, p.Type() == predicate.Temporal
		b.WriteString(p.String())
	case x < 8 || p.Type() == predicate.Immutable:
		c.PBinding = name("p:" + p.String())
		b.WriteString(c.PBinding)
		if level > 0 && r.chance(1, 6) {
			c.PIDAlias = name("s:" + string(p.ID()))
			b.WriteString(" id " + c.PIDAlias)
		}
		if level > 0 && p.Type() == predicate.Temporal && r.chance(1, 4) {
			ta, _ := p.TimeAnchor()
			c.PAnchorAlias = name("t:" + instantNanos(*ta))
			b.WriteString(" at " + c.PAnchorAlias)
		}
	case x < 9:
		ta, _ := p.TimeAnchor()
		c.PID, c.PAnchorBinding, c.PTemporal = string(p.ID()), name("t:"+instantNanos(*ta)), true
		fmt.Fprintf(&b, `"%s"@[%s]`, p.ID(), c.PAnchorBinding)
	case len(timeBindings(vm)) > 0 && r.chance(2, 3):
		// bounds taken from time bindings of earlier clauses: "id"@[?lo,?hi]
		ta, _ := p.TimeAnchor()
		tbs := timeBindings(vm)
		pick := func(below bool) string {
			var c []string
			for _, tb := range tbs {
				if (below && tb.nanos <= ta.UnixNano()) || (!below && tb.nanos >= ta.UnixNano()) || r.chance(1, 5) {
					c = append(c, tb.name)
				}
			}
			if len(c) == 0 || r.chance(1, 4) {
				return ""
			}
			return c[r.intn(len(c))]
		}
		lo, hi := pick(true), pick(false)
		if lo == "" && hi == "" {
			lo = tbs[r.intn(len(tbs))].name
		}
		c.PID, c.PLowerBoundAlias, c.PUpperBoundAlias, c.PTemporal = string(p.ID()), lo, hi, true
		fmt.Fprintf(&b, `"%s"@[%s,%s]`, p.ID(), lo, hi)
	default:
		ta, _ := p.TimeAnchor()
		lo, hi := "", ""
		if r.chance(2, 3) {
			t := ta.Add(-time.Duration(r.intn(2)) * time.Hour)
			c.PLowerBound = &t
			lo = fmtT(t)
		}
		if r.chance(2, 3) {
			t := ta.Add(time.Duration(r.intn(2)) * time.Hour)
			c.PUpperBound = &t
			hi = fmtT(t)
		}
		c.PID, c.PTemporal = string(p.ID()), true
		fmt.Fprintf(&b, `"%s"@[%s,%s]`, p.ID(), lo, hi)
	}
	if c.PID != "" && c.PAnchorBinding == "" && r.chance(1, 3) {
		// AT after an interval-bounded predicate: the anchor of the matched triple under a name — a new one, or the
		// name an earlier clause gave that instant (then the clause has to agree with the row on it)
		ta, _ := p.TimeAnchor()
		c.PAnchorAlias = name("t:" + instantNanos(*ta))
		if len(earlier) > 0 && r.chance(1, 2) {
			// … or the name of any time an earlier clause bound: mostly another instant, so the clause fails the row
			c.PAnchorAlias = earlier[r.intn(len(earlier))].name
		}
		b.WriteString(" at " + c.PAnchorAlias)
		q.hist["at-after-bounded-predicate"]++
	}
	b.WriteString(" ")
	o := t.Object()
	if r.chance(1, 3) {
		c.O = o
		if op, err := o.Predicate(); err == nil {
			c.OTemporal = op.Type() == predicate.Temporal
		}
		b.WriteString(o.String())
	} else if op, err := o.Predicate(); err == nil && op.Type() == predicate.Temporal && r.chance(1, 3) {
		ta, _ := op.TimeAnchor()
		c.OID, c.OAnchorBinding, c.OTemporal = string(op.ID()), name("t:"+instantNanos(*ta)), true
		fmt.Fprintf(&b, `"%s"@[%s]`, op.ID(), c.OAnchorBinding)
	} else if op, err := o.Predicate(); err == nil && op.Type() == predicate.Temporal && len(earlier) > 0 && r.chance(1, 2) {
		// an object predicate bounded by time bindings of earlier clauses: "id"@[?lo,?hi] in object position
		tbs := earlier
		lo, hi := "", ""
		if r.chance(2, 3) {
			lo = tbs[r.intn(len(tbs))].name
		}
		if lo == "" || r.chance(1, 2) {
			hi = tbs[r.intn(len(tbs))].name
		}
		c.OID, c.OLowerBoundAlias, c.OUpperBoundAlias, c.OTemporal = string(op.ID()), lo, hi, true
		fmt.Fprintf(&b, `"%s"@[%s,%s]`, op.ID(), lo, hi)
		q.hist["object-bounded-by-bindings"]++
	} else {
		key := "o:" + o.String()
		if n, err := o.Node(); err == nil {
			key = "n:" + n.String()
		} else if op, err := o.Predicate(); err == nil {
			key = "p:" + op.String()
		}
		c.OBinding = name(key)
		b.WriteString(c.OBinding)
		if n, err := o.Node(); err == nil && level > 0 {
			if r.chance(1, 6) {
				c.OTypeAlias = name("s:" + n.Type().String())
				b.WriteString(" type " + c.OTypeAlias)
			}
			if r.chance(1, 6) {
				c.OIDAlias = name("s:" + n.ID().String())
				b.WriteString(" id " + c.OIDAlias)
			}
		}
		if level > 0 && r.chance(1, 12) {
			c.OTypeAlias = "?t" + fmt.Sprint(len(vm)) // may not apply: the clause then does not match
			b.WriteString(" type " + c.OTypeAlias)
		}
	}
	return b.String()
}

type timeBinding struct {
	name  string
	nanos int64
}

// timeBindings: the bindings of the query so far that hold a time anchor ("t:<nanos>" keys of vm).
func timeBindings(vm map[string]string) []timeBinding {
	var out []timeBinding
	for k, v := range vm {
		if strings.HasPrefix(k, "t:") {
			n, err := strconv.ParseInt(k[2:], 10, 64)
			if err == nil {
				out = append(out, timeBinding{v, n})
			}
		}
	}
	sort.Slice(out, func(i, j int) bool { return out[i].name < out[j].name })
	return out
}

func bindingsIn(s string) []string {
	var out []string
	seen := map[string]bool{}
	for _, f := range strings.FieldsFunc(s, func(r rune) bool { return !(r == '?' || r == '_' || (r >= 'a' && r <= 'z') || (r >= '0' && r <= '9')) }) {
		if strings.HasPrefix(f, "?") && len(f) > 1 && !seen[f] {
			seen[f] = true
			out = append(out, f)
		}
	}
	return out
}

// queryText builds a SELECT for the given mode: "plain" (C03), "optional" (C10), "limit" (C12/LIMIT).
func (q *qgen) queryText(graphs []string) string {
	r := q.r
	if q.mode == "having" && !q.meta && r.chance(1, 8) {
		// anchors against time constants written to the nanosecond, in several zones
		id := []string{"p", "q"}[r.intn(2)]
		tm := []time.Time{qt0, qt1, qt2, qt2.Add(-8 * time.Nanosecond), qt2.Add(time.Nanosecond), qt0.In(time.FixedZone("", -5*3600)),
			qt1.Add(500 * time.Millisecond), qt2.Truncate(time.Second), qt2.Truncate(time.Second).Add(500 * time.Millisecond),
			qt2.Truncate(time.Second).Add(500 * time.Millisecond)}[r.intn(10)]
		op := []string{"=", "<", ">"}[r.intn(3)]
		neg := ""
		if r.chance(1, 4) {
			neg = "not "
		}
		var xgs []string
		for _, g := range graphs {
			xgs = append(xgs, hx(g))
		}
		q.lastProj, q.lastCls, q.lastTail, q.lastOuts = nil, nil, "", []string{"?t", "?n"}
		q.intent = " xc=" + encClause(&semantic.GraphClause{SBinding: "?s", PID: id, PAnchorBinding: "?t", PTemporal: true, OBinding: "?o"}) +
			" xg=" + strings.Join(xgs, ",") + " xgb=" + hx("?t") + " xp=" + hx("?t") + "|" + hx("") + "|0|0;" + hx("?s") + "|" + hx("?n") + "|1|0 xlo=- xhi=-"
		return fmt.Sprintf(`select ?t, count(?s) as ?n from %s where { ?s "%s"@[?t] ?o } group by ?t having %s?t %s %s;`,
			strings.Join(graphs, ", "), id, neg, op, fmtT(tm))
	}
	if q.mode == "having" && !q.meta && r.chance(1, 8) {
		// ORDER BY a column of one kind (the subjects) and a HAVING that drops rows from the middle of the ordered
		// result: what is left is still in order
		consts := []string{`"1"^^type:int64`, `"2"^^type:int64`, `"-3"^^type:int64`, `"10"^^type:int64`, `"-2"^^type:int64`, `"a"^^type:text`, "/u<a>", "/u<b>", "/t<a>",
			`"1.5"^^type:float64`, `"0.25"^^type:float64`}
		c1, c2 := consts[r.intn(len(consts))], consts[r.intn(len(consts))]
		dir := []string{"", " asc", " desc"}[r.intn(3)]
		hv := fmt.Sprintf("not ?o = %s", c1)
		if r.chance(1, 2) {
			hv = fmt.Sprintf("(not ?o = %s) and (not ?o = %s)", c1, c2)
		}
		var xgs []string
		for _, g := range graphs {
			xgs = append(xgs, hx(g))
		}
		q.lastProj, q.lastCls, q.lastTail, q.lastOuts = nil, nil, "", []string{"?s", "?o"}
		q.intent = " xc=" + encClause(&semantic.GraphClause{SBinding: "?s", PBinding: "?p", OBinding: "?o"}) +
			" xg=" + strings.Join(xgs, ",") + " xp=" + hx("?s") + "|" + hx("") + "|0|0;" + hx("?o") + "|" + hx("") + "|0|0 xob=" + hx("?s") + ":" + map[string]string{"": "0", " asc": "0", " desc": "1"}[dir] + " xlo=- xhi=-"
		q.hist["order-then-having-drops-middle"]++
		return fmt.Sprintf(`select ?s, ?o from %s where { ?s ?p ?o } order by ?s%s having %s;`, strings.Join(graphs, ", "), dir, hv)
	}
	if q.mode == "having" && !q.meta && r.chance(1, 10) {
		// two anchors compared with each other: the same instant may be written in two zones
		op := []string{"=", "<", ">"}[r.intn(3)]
		neg := ""
		if r.chance(1, 3) {
			neg = "not "
		}
		var xgs []string
		for _, g := range graphs {
			xgs = append(xgs, hx(g))
		}
		ida, idb := []string{"p", "q"}[r.intn(2)], []string{"p", "q"}[r.intn(2)]
		q.lastProj, q.lastCls, q.lastTail, q.lastOuts = nil, nil, "", []string{"?t", "?u", "?s"}
		q.intent = " xc=" + encClause(&semantic.GraphClause{SBinding: "?s", PID: ida, PAnchorBinding: "?t", PTemporal: true, OBinding: "?o"}) + ";" +
			encClause(&semantic.GraphClause{SBinding: "?z", PID: idb, PAnchorBinding: "?u", PTemporal: true, OBinding: "?w"}) +
			" xg=" + strings.Join(xgs, ",") + " xp=" + hx("?t") + "|" + hx("") + "|0|0;" + hx("?u") + "|" + hx("") + "|0|0;" + hx("?s") + "|" + hx("") + "|0|0 xlo=- xhi=-"
		return fmt.Sprintf(`select ?t, ?u, ?s from %s where { ?s "%s"@[?t] ?o . ?z "%s"@[?u] ?w } having %s?t %s ?u;`,
			strings.Join(graphs, ", "), ida, idb, neg, op)
	}
	n := 1 + r.intn(3)
	if r.chance(1, 6) {
		n = 4
	}
	level := r.intn(2)
	var cls, exps []string
	var poOf [][]string
	vm := map[string]string{}
	for i := 0; i < n; i++ {
		c := q.clauseText(level)
		if ids := q.g.okIDs(); len(ids) > 0 && r.chance(4, 5) {
			c = q.clauseFrom(q.g.uni[ids[r.intn(len(ids))]], vm, level)
		}
		e := q.lastExp
		poOf = append(poOf, append([]string{}, q.lastPO...))
		if i > 0 && ((q.mode == "optional" && r.chance(1, 2)) ||
			// OPTIONAL under the other stages too: NULLs reach GROUP BY keys, aggregates, ORDER BY keys, HAVING operands
			(!q.meta && (q.mode == "group" || q.mode == "having" || q.mode == "order" || q.mode == "limit") && r.chance(1, 7))) {
			c = "optional { " + c + " }"
			e = "1" + e[1:]
		}
		cls = append(cls, c)
		exps = append(exps, e)
	}
	if q.mode == "limit" && r.chance(1, 4) {
		// a lone clause of plain bindings, two of them the same: the clause filters the triples the driver
		// returns, so a limit handed down to the driver would cut before the filter
		pat := [][3]string{{"?a", "?b", "?a"}, {"?a", "?b", "?b"}, {"?a", "?a", "?b"}, {"?a", "?a", "?a"}, {"?a", "?b", "?c"}}[r.intn(5)]
		cls = []string{pat[0] + " " + pat[1] + " " + pat[2]}
		exps = []string{encClause(&semantic.GraphClause{SBinding: pat[0], PBinding: pat[1], OBinding: pat[2]})}
	}
	// The rows of a table cannot represent "one solution binding nothing": a pattern whose mandatory
	// prefix binds nothing is outside what OPTIONAL can express here (known finding D35, exercised by its
	// own witness); the first clause of an OPTIONAL pattern therefore binds something.
	if strings.Contains(strings.Join(cls, " "), "optional {") && len(bindingsIn(strings.NewReplacer(`"p"`, "", `"q"`, "").Replace(cls[0]))) == 0 {
		cls[0] = "?s0 ?p0 ?o0"
		exps[0] = encClause(&semantic.GraphClause{SBinding: "?s0", PBinding: "?p0", OBinding: "?o0"})
	}
	where := strings.Join(cls, " . ")
	if !q.meta && len(poOf) == len(cls) && r.chance(1, 6) {
		// FILTER on a predicate or object binding of one clause (a storage-level filter on that clause's look-ups):
		// isTemporal / isImmutable keep the triples whose predicate (or predicate-valued object) is of that kind
		i := r.intn(len(poOf))
		if len(poOf[i]) > 0 {
			b := poOf[i][r.intn(len(poOf[i]))]
			op := []string{"isTemporal", "isImmutable", "isTemporal", "isImmutable", "latest", "ISTEMPORAL"}[r.intn(6)]
			where += " . filter " + op + "(" + b + ")"
			q.hist["filter-"+strings.ToLower(op)]++
			if r.chance(1, 5) && len(poOf) > 1 {
				j := r.intn(len(poOf))
				if j != i && len(poOf[j]) > 0 {
					where += " . filter " + []string{"isTemporal", "isImmutable"}[r.intn(2)] + "(" + poOf[j][r.intn(len(poOf[j]))] + ")"
				}
			}
		}
	}
	// bindings outside quoted/bracketed parts
	bs := bindingsIn(strings.NewReplacer(`"p"`, "", `"q"`, "").Replace(where))
	var proj, xp []string
	for _, b := range bs {
		if r.chance(3, 4) || len(proj) == 0 {
			if r.chance(1, 8) {
				proj = append(proj, b+" as "+b+"x")
				xp = append(xp, hx(b)+"|"+hx(b+"x")+"|0|0")
			} else {
				proj = append(proj, b)
				xp = append(xp, hx(b)+"|"+hx("")+"|0|0")
			}
		}
	}
	if len(proj) == 0 {
		proj = []string{"?a"}
		xp = []string{hx("?a") + "|" + hx("") + "|0|0"}
	}
	if len(bs) >= 2 && r.chance(1, 6) {
		// an alias spelled like a pattern binding that is itself projected further on (or a swap of two
		// bindings): projection is simultaneous, each column shows the solution's value of its binding
		pm := r.perm(len(bs))
		a, b := bs[pm[0]], bs[pm[1]]
		second := b + "x"
		if r.chance(1, 2) {
			second = a
		}
		proj = []string{a + " as " + b, b + " as " + second}
		xp = []string{hx(a) + "|" + hx(b) + "|0|0", hx(b) + "|" + hx(second) + "|0|0"}
		for _, c := range pm[2:] {
			if r.chance(1, 2) {
				proj = append(proj, bs[c])
				xp = append(xp, hx(bs[c])+"|"+hx("")+"|0|0")
			}
		}
		q.hist["shadowing-alias"]++
	}
	var xgs []string
	for _, g := range graphs {
		xgs = append(xgs, hx(g))
	}
	text := fmt.Sprintf("select %s from %s where { %s }", strings.Join(proj, ", "), strings.Join(graphs, ", "), where)
	q.lastProj, q.lastCls, q.lastTail = proj, cls, ""
	q.intent = " xc=" + strings.Join(exps, ";") + " xg=" + strings.Join(xgs, ",")
	var groupKeys []string
	outs := func() []string {
		var o []string
		for _, p := range proj {
			f := strings.Fields(p)
			o = append(o, f[len(f)-1])
		}
		return o
	}()
	if len(bs) > 0 && (q.mode == "group" || (q.mode == "having" && r.chance(1, 2))) {
		// one or two grouping keys, aggregates over the other bindings
		nk := 1 + r.intn(2)
		if nk > len(bs) {
			nk = len(bs)
		}
		var keys, sel []string
		collided := false
		xp = nil
		for i, b := range bs {
			switch {
			case i < nk:
				name := b
				if len(bs) > nk && !collided && r.chance(1, 6) {
					collided = true
					// the key's output name is spelled like a binding that is aggregated further on: GROUP BY
					// then names the output column, not that binding
					name = bs[nk+r.intn(len(bs)-nk)]
					sel = append(sel, b+" as "+name)
					xp = append(xp, hx(b)+"|"+hx(name)+"|0|0")
				} else if r.chance(1, 5) {
					name = b + "k"
					sel = append(sel, b+" as "+name)
					xp = append(xp, hx(b)+"|"+hx(name)+"|0|0")
				} else {
					sel = append(sel, b)
					xp = append(xp, hx(b)+"|"+hx("")+"|0|0")
				}
				keys = append(keys, name)
			default:
				switch r.intn(4) {
				case 0:
					sel = append(sel, fmt.Sprintf("count(%s) as %sc", b, b))
					xp = append(xp, hx(b)+"|"+hx(b+"c")+"|1|0")
				case 1:
					sel = append(sel, fmt.Sprintf("count(distinct %s) as %sd", b, b))
					xp = append(xp, hx(b)+"|"+hx(b+"d")+"|1|1")
				case 2:
					sel = append(sel, fmt.Sprintf("sum(%s) as %ss", b, b))
					xp = append(xp, hx(b)+"|"+hx(b+"s")+"|2|0")
				default:
					sel = append(sel, fmt.Sprintf("count(%s) as %sc", b, b))
					xp = append(xp, hx(b)+"|"+hx(b+"c")+"|1|0")
				}
			}
		}
		if r.chance(1, 4) {
			// a grouping binding that is also counted
			b := bs[r.intn(nk)]
			sel = append(sel, fmt.Sprintf("count(%s) as %sq", b, b))
			xp = append(xp, hx(b)+"|"+hx(b+"q")+"|1|0")
		}
		if r.chance(1, 3) {
			// any order of the SELECT list: aggregates before the keys they are grouped by
			pm := r.perm(len(sel))
			sel2, xp2 := make([]string, len(sel)), make([]string, len(sel))
			for i, j := range pm {
				sel2[i], xp2[i] = sel[j], xp[j]
			}
			sel, xp = sel2, xp2
		}
		if len(keys) > 1 && r.chance(1, 3) {
			// GROUP BY lists its keys in another order than the SELECT list
			pm := r.perm(len(keys))
			k2 := make([]string, len(keys))
			for i, j := range pm {
				k2[i] = keys[j]
			}
			keys = k2
		}
		groupKeys = keys
		text = fmt.Sprintf("select %s from %s where { %s } group by %s", strings.Join(sel, ", "), strings.Join(graphs, ", "), where, strings.Join(keys, ", "))
		var xg []string
		for _, k := range keys {
			xg = append(xg, hx(k))
		}
		q.intent += " xgb=" + strings.Join(xg, ",")
		outs = nil
		for _, p := range sel {
			f := strings.Fields(p)
			outs = append(outs, f[len(f)-1])
		}
	}
	if q.mode == "order" || ((q.mode == "group" || q.mode == "having") && (r.chance(1, 4) || (q.mode == "group" && strings.Contains(q.all, "order")))) {
		var ks []string
		dir := map[string]string{}
		byGroupKeys := len(groupKeys) > 0 && r.chance(1, 3)
		if byGroupKeys {
			// ORDER BY exactly the grouping keys, in GROUP BY order, ascending: the grouped rows still have to be sorted
			for _, k := range groupKeys {
				ks = append(ks, k+[]string{"", " asc"}[r.intn(2)])
			}
			q.hist["order-by-the-group-keys"]++
		}
		for i := 0; !byGroupKeys && i < 1+r.intn(3); i++ {
			k := outs[r.intn(len(outs))]
			d, seen := dir[k]
			if !seen {
				d = []string{" asc", " desc", ""}[r.intn(3)]
				dir[k] = d
			} else if d == "" && r.chance(1, 2) {
				d = " asc" // same direction written differently
			}
			if r.chance(1, 10) {
				d = []string{" asc", " desc"}[r.intn(2)] // may contradict an earlier direction: rejected
			}
			ks = append(ks, k+d)
		}
		text += " order by " + strings.Join(ks, ", ")
		var xs []string
		seen := map[string]bool{}
		for _, kd := range ks {
			f := strings.Fields(kd)
			if seen[f[0]] {
				continue
			}
			seen[f[0]] = true
			desc := "0"
			if len(f) > 1 && f[1] == "desc" {
				desc = "1"
			}
			xs = append(xs, hx(f[0])+":"+desc)
		}
		q.intent += " xob=" + strings.Join(xs, ",")
	}
	if q.mode == "having" {
		text += " having " + q.havingExpr(outs, 0)
	}
	// the global time bound comes after HAVING and before LIMIT
	xlo, xhi := "-", "-"
	switch r.intn(12) {
	case 0:
		q.lastTail = " before " + fmtT(qt1)
		xhi = encTimeP(&qt1)
	case 1:
		q.lastTail = " after " + fmtT(qt1)
		xlo = encTimeP(&qt1)
	case 2:
		q.lastTail = " between " + fmtT(qt0) + ", " + fmtT(qt1)
		xlo, xhi = encTimeP(&qt0), encTimeP(&qt1)
	}
	q.intent += " xp=" + strings.Join(xp, ";") + " xlo=" + xlo + " xhi=" + xhi
	text += q.lastTail
	q.lastOuts = outs
	if q.meta {
		return text + ";"
	}
	if q.mode == "limit" || (q.mode != "optional" && r.chance(1, 10)) {
		n := r.intn(4)
		text += fmt.Sprintf(` limit "%d"^^type:int64`, n)
		q.intent += fmt.Sprintf(" xlim=%d", n)
	}
	return text + ";"
}

// havingExpr: nested parenthesised AND/OR/NOT over comparisons with every operand kind.
func (q *qgen) havingExpr(outs []string, depth int) string {
	r := q.r
	cmp := func() string {
		b := outs[r.intn(len(outs))]
		op := []string{"=", "<", ">"}[r.intn(3)]
		if q.eqOnly {
			// blank nodes carry random UUIDs as IDs: how they compare with other strings is not defined
			op = "="
		}
		if !q.eqOnly && r.chance(1, 14) {
			// the constant first: the grammar derives it, the evaluator builder refuses it; an implementation that accepts
			// it has to read `c < ?b` as `?b > c` (the reference does)
			q.hist["having-constant-first"]++
			return fmt.Sprintf(`"%d"^^type:int64 %s %s`, []int{-2, -1, 0, 1, 2, 10}[r.intn(6)], op, b)
		}
		switch r.intn(9) {
		case 0:
			return fmt.Sprintf("%s %s %s", b, op, outs[r.intn(len(outs))])
		case 1, 2:
			return fmt.Sprintf(`%s %s "%d"^^type:int64`, b, op, []int{-2, -1, 0, 1, 2, 10}[r.intn(6)])
		case 3:
			return fmt.Sprintf(`%s %s "%s"^^type:float64`, b, op, []string{"-2", "0.25", "1.5", "2.5", "1.75", "-2.25", "0.5", "2"}[r.intn(8)])
		case 4:
			return fmt.Sprintf(`%s %s "%s"^^type:text`, b, op, []string{"a", "a!", "x y", "/u"}[r.intn(4)])
		case 5:
			return fmt.Sprintf("%s = %s", b, qNodes[r.intn(len(qNodes))])
		case 6:
			return fmt.Sprintf("%s %s %s", b, op, fmtT([]time.Time{qt0, qt1, qt2, qt2.Truncate(time.Second), qt2.Truncate(time.Second).Add(500 * time.Millisecond)}[r.intn(5)]))
		case 7:
			return fmt.Sprintf("%s = %s", b, qPreds[r.intn(len(qPreds))])
		default:
			return fmt.Sprintf(`%s %s "true"^^type:bool`, b, op)
		}
	}
	if depth >= 3 {
		return cmp()
	}
	if r.chance(1, 12) {
		// a comparison that is not wrapped in parentheses followed by AND / OR: the grammar derives it, the
		// evaluator builder refuses it (it would drop everything after the comparison); such a statement
		// must be rejected or mean the whole expression
		return cmp() + []string{" and ", " or "}[r.intn(2)] + q.havingExpr(outs, depth+1)
	}
	switch r.intn(6) {
	case 0:
		return "not " + q.havingExpr(outs, depth+1)
	case 1:
		return "(" + q.havingExpr(outs, depth+1) + ") and " + q.havingExpr(outs, depth+1)
	case 2:
		return "(" + q.havingExpr(outs, depth+1) + ") or " + q.havingExpr(outs, depth+1)
	case 3:
		return "(" + q.havingExpr(outs, depth+1) + ")"
	default:
		return cmp()
	}
}

func cmdQuery(args []string) error {
	fs := flag.NewFlagSet("query", flag.ContinueOnError)
	mode := fs.String("mode", "plain", "plain | optional | limit | order | group | having")
	n := fs.Int("n", 300, "number of (store, queries) scenarios")
	per := fs.Int("per", 10, "queries per scenario")
	opsPath := fs.String("ops", "", "")
	implPath := fs.String("impl", "", "")
	if err := fs.Parse(args); err != nil {
		return err
	}
	fo, wo := mustCreate(*opsPath)
	fi, wi := mustCreate(*implPath)
	defer fo.Close()
	defer fi.Close()
	r := newRng(envSeed()*2654435761 + uint64(len(*mode))*17)
	g := &storeGen{r: r, ops: wo, impl: wi, hist: map[string]int{}}
	q := &qgen{r: r, g: g, mode: *mode, all: *mode, hist: map[string]int{}}
	names := []string{"?g", "?h", "?i"}
	rejected := 0
	for sc := 0; sc < *n; sc++ {
		g.comment(fmt.Sprintf("scenario %d", sc))
		g.reset()
		g.names = names
		// universe: combinations over the small vocabulary so that joins are non-empty
		nt := 3 + r.intn(18)
		seen := map[string]bool{}
		for tries := 0; len(g.uni) < nt && tries < 200; tries++ {
			objs := qObjs
			if (strings.Contains(*mode, "group") || strings.Contains(*mode, "having") || strings.Contains(*mode, "order")) && r.chance(1, 2) {
				objs = qNums
			}
			t, _ := triple.New(qNodes[r.intn(len(qNodes))], qPreds[r.intn(len(qPreds))], objs[r.intn(len(objs))])
			if seen[t.String()] {
				continue
			}
			seen[t.String()] = true
			g.define(t)
		}
		// grouping values whose printed forms run into each other when they are strung together: IDs holding the
		// separator a composite group key might be built with ("a;b","c" against "a","b;c")
		sepScenario := strings.Contains(*mode, "group") && r.chance(1, 5)
		if sepScenario {
			for _, x := range [][3]string{{"a;b", "p", "c"}, {"a", "p", "b;c"}, {"a", "q", "b;c"}, {"a;b", "q", "c"}, {"a", "q", "b"},
				{"ab", "p", "c"}, {"a", "p", "bc"}, {"ab", "q", "c"}, {"1:a", "p", "b"}, {"1", "p", "a;1:b"}} {
				pr := mustImm(x[1])
				t, _ := triple.New(mustNode("/u", x[0]), pr, triple.NewNodeObject(mustNode("/u", x[2])))
				if !seen[t.String()] {
					seen[t.String()] = true
					g.define(t)
				}
			}
		}
		// a binding that stands for the predicate AND the object of a clause (?a ?b ?b), under a FILTER: which position
		// the filter looks at is fixed (the predicate's)
		selfScenario := (*mode == "plain" || *mode == "optional") && sc%6 == 4
		if selfScenario {
			p1, p2, p3 := mustTmp("p", qt0), mustTmp("p", qt1), mustImm("p")
			for i, po := range [][2]*predicate.Predicate{{p1, p1}, {p2, p2}, {p1, p2}, {p2, p1}, {p3, p3}, {p3, p2}, {p1, p3}} {
				t, err := triple.New(mustNode("/u", []string{"a", "b", "c"}[i%3]), po[0], triple.NewPredicateObject(po[1]))
				if err == nil && !seen[t.String()] {
					seen[t.String()] = true
					g.define(t)
				}
			}
		}
		// extracted IDs that begin or end with white space (/u<joe >, /u< zed>): HAVING compares them as they are
		spaceScenario := *mode == "having" && sc%4 == 2
		if spaceScenario {
			for _, x := range [][2]string{{"joe ", "joe"}, {"joe", " zed"}, {" zed", "joe "}, {"joe", "joe "}, {"a", "joe"}} {
				sn, e1 := node.NewNodeFromStrings("/u", x[0])
				on, e2 := node.NewNodeFromStrings("/u", x[1])
				if e1 != nil || e2 != nil {
					continue
				}
				if t, err := triple.New(sn, mustImm("p"), triple.NewNodeObject(on)); err == nil && !seen[t.String()] {
					seen[t.String()] = true
					g.define(t)
				}
			}
		}
		// one grouping value in two spellings with another value sorting between them: an anchor at 00:00Z, the same
		// instant written 01:00+01:00, and 00:30Z (the rows of a group need not be neighbours after the sort)
		zoneScenario := strings.Contains(*mode, "group") && sc%5 == 3
		if zoneScenario {
			base := time.Date(2016, 2, 3, 0, 0, 0, 0, time.UTC)
			for i, at := range []time.Time{base, base.Add(30 * time.Minute), base.In(time.FixedZone("", 3600)), base.In(time.FixedZone("", -7200)), base.Add(30 * time.Minute).In(time.FixedZone("", 1800))} {
				for _, id := range []string{"z", "y"} {
					if id == "y" && i > 1 {
						continue
					}
					t, err := triple.New(mustNode("/u", fmt.Sprintf("n%d", i)), mustTmp(id, at), triple.NewNodeObject(mustNode("/u", []string{"a", "b"}[i%2])))
					if err == nil && !seen[t.String()] {
						seen[t.String()] = true
						g.define(t)
					}
				}
			}
		}
		// a grouping value that is the empty text (the ID of the predicate ""@[], of the node /u<>): a group like any other
		emptyScenario := strings.Contains(*mode, "group") && !sepScenario && r.chance(1, 6)
		if emptyScenario {
			for _, x := range [][3]string{{"a", "", "b"}, {"a", "", "c"}, {"b", "", "c"}, {"a", "y", "b"}, {"", "y", "b"}, {"", "", "a"}, {"c", "z", ""}} {
				// (the constructor refuses an empty ID, the text parser and INSERT DATA accept ""@[])
				pr, perr := predicate.Parse(fmt.Sprintf("%q@[]", x[1]))
				sn, serr := node.NewNodeFromStrings("/u", x[0])
				on, oerr := node.NewNodeFromStrings("/u", x[2])
				if perr != nil || serr != nil || oerr != nil {
					continue
				}
				t, err := triple.New(sn, pr, triple.NewNodeObject(on))
				if err == nil && !seen[t.String()] {
					seen[t.String()] = true
					g.define(t)
				}
			}
		}
		// sums whose running value leaves int64 and comes back (9223372036854775802 + 10 - 10), whose total does not fit
		// (2^62 + 2^62), and ordinary ones: the outcome must not depend on the order in which the rows arrive
		sumScenario := strings.Contains(*mode, "group") && !sepScenario && !emptyScenario && r.chance(1, 5)
		if sumScenario {
			for _, x := range []struct {
				s string
				v int64
			}{{"s1", 9223372036854775802}, {"s1", 10}, {"s1", -10}, {"s2", 4611686018427387904}, {"s2", 4611686018427387903},
				{"s3", -9223372036854775808}, {"s3", -1}, {"s3", 1}, {"s4", 7}, {"s4", -9}, {"s5", 9223372036854775807}, {"s5", 11}, {"s5", -11}, {"s5", -2}} {
				t, _ := triple.New(mustNode("/u", x.s), mustImm("w"), triple.NewLiteralObject(mustLit(literal.Int64, x.v)))
				if !seen[t.String()] {
					seen[t.String()] = true
					g.define(t)
				}
			}
		}
		ng := 1 + r.intn(3)
		overlap := false
		used := map[string]int{}
		for gi := 0; gi < ng; gi++ {
			g.doNew(names[gi])
			var ids []int
			for id := range g.uni {
				// partition by default; sometimes the same triple in two graphs
				if id%ng == gi || r.chance(1, 12) {
					ids = append(ids, id)
					key := valueIdentity(g.uni[id])
					used[key]++
					if used[key] > 1 {
						overlap = true
					}
				}
			}
			g.doMut(true, names[gi], ids)
			// the content of a graph is also what removals left of it: a third of the scenarios remove some of the
			// triples again (and put a few back)
			if sc%3 == 1 && len(ids) > 1 {
				var gone []int
				for _, id := range ids {
					if r.chance(1, 3) {
						gone = append(gone, id)
					}
				}
				if len(gone) > 0 {
					g.doMut(false, names[gi], gone)
					if r.chance(1, 2) {
						g.doMut(true, names[gi], gone[:1])
					}
					q.hist["graphs-after-removals"]++
				}
			}
		}
		for k := 0; k < *per; k++ {
			nfrom := 1 + r.intn(ng)
			if ms := strings.Split(*mode, "+"); len(ms) > 1 {
				q.mode = ms[r.intn(len(ms))] // "order+limit": each statement in one of the modes
			}
			text := q.queryText(names[:nfrom])
			if sepScenario && k < 2 {
				// two grouping columns of plain strings (extracted IDs), counted and summed over
				text = fmt.Sprintf("select ?sid, ?oid, count(?p) as ?n, count(distinct ?p) as ?d from %s where { ?s id ?sid ?p ?o id ?oid } group by %s;",
					strings.Join(names[:nfrom], ", "), []string{"?sid, ?oid", "?oid, ?sid"}[k])
				q.intent = ""
				q.hist["string-keys-with-separator"]++
			}
			if selfScenario && k < 4 {
				text = fmt.Sprintf("select ?a, ?b from %s where { ?a ?b ?b . filter %s(?b) };", strings.Join(names[:ng], ", "), []string{"latest", "isTemporal", "isImmutable", "latest"}[k])
				if k == 3 {
					text = fmt.Sprintf("select ?a, ?b, ?c from %s where { ?a ?b ?c . ?c ?b ?b . filter latest(?b) };", strings.Join(names[:ng], ", "))
				}
				q.intent = ""
				q.hist["filter-on-predicate-and-object-binding"]++
			}
			if zoneScenario && k < 3 {
				text = []string{
					"select ?p, count(?s) as ?n, count(distinct ?o) as ?d from %s where { ?s ?p ?o } group by ?p;",
					"select ?t, count(?s) as ?n from %s where { ?s \"z\"@[?t] ?o } group by ?t;",
					"select ?p, ?o, count(?s) as ?n from %s where { ?s ?p ?o } group by ?p, ?o order by ?n desc;"}[k]
				text = fmt.Sprintf(text, strings.Join(names[:ng], ", "))
				q.intent = ""
				q.hist["group-key-in-two-zone-spellings"]++
			}
			if spaceScenario && k < 5 {
				cond := []string{`?k = "joe"^^type:text`, `?k = "joe "^^type:text`, `?k < "a"^^type:text`, `?k > ?j`, `not (?j = " zed"^^type:text) or (?k = ?j)`}[k]
				text = fmt.Sprintf("select ?s, ?k, ?j from %s where { ?s id ?k \"p\"@[] ?o id ?j } having %s;", strings.Join(names[:ng], ", "), cond)
				q.intent = ""
				q.hist["having-on-ids-with-white-space"]++
			}
			if emptyScenario && k < 3 {
				col := []string{"?p id ?k ?o", "?p ?o id ?k", "id ?k ?p ?o"}[k]
				text = fmt.Sprintf("select ?k, count(?p) as ?n, count(distinct ?p) as ?d from %s where { ?s %s } group by ?k;", strings.Join(names[:ng], ", "), col)
				q.intent = ""
				q.hist["empty-text-group-key"]++
			}
			if sumScenario && k < 3 {
				text = fmt.Sprintf("select ?s, sum(?o) as ?t, count(?o) as ?n from %s where { ?s \"w\"@[] ?o } group by ?s%s;",
					strings.Join(names[:ng], ", "), []string{"", " order by ?s", " having ?n > \"2\"^^type:int64"}[k])
				q.intent = ""
				q.hist["sums-at-the-ends-of-int64"]++
			}
			if (q.mode == "having" || q.mode == "limit") && k < 2 && sc%3 == 0 {
				// HAVING keeps a share of the rows and LIMIT cuts what is kept: the order of the two stages shows
				text = fmt.Sprintf("select ?s, ?o from %s where { ?s ?p ?o }%s having (?o > \"%d\"^^type:int64) or (?o < \"%d\"^^type:int64) limit \"%d\"^^type:int64;",
					strings.Join(names[:ng], ", "), []string{" order by ?o asc", " order by ?o desc, ?s asc", ""}[r.intn(3)], r.intn(3), -1-r.intn(2), 1+r.intn(3))
				q.intent = ""
				q.hist["having-then-limit"]++
			}
			// overlap only matters among the graphs actually listed
			ov := false
			if overlap {
				cnt := map[int]int{}
				_ = cnt
				ov = true
			}
			res, st := runStatement(g.store, text, []int{0, 1, 64}[r.intn(3)], 1)
			if res.cls == "reject" {
				rejected++
				continue
			}
			stEnc := "-"
			if st != nil {
				stEnc = encStatement(st)
			}
			o := "0"
			if ov {
				o = "1"
			}
			line := fmt.Sprintf("Q overlap=%s text=%s %s%s tk=%s", o, hx(text), stEnc, q.intent, hookTokens(text))
			ans := res.cls
			if res.cls == "ok" {
				ans = res.text
			}
			g.emit(line, ans)
			q.hist[res.cls]++
		}
	}
	wo.Flush()
	wi.Flush()
	fmt.Printf("queries=%d rejected_by_parser=%d\n", q.hist["ok"]+q.hist["err"]+q.hist["panic"]+q.hist["hang"], rejected)
	for k, v := range q.hist {
		fmt.Printf("hist %s %d\n", k, v)
	}
	_ = memory.NewStore
	return nil
}

func init() { register("query", cmdQuery) }
