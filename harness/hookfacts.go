package main

import (
	"fmt"
	"os"
	"sort"
	"strings"

	"github.com/google/badwolf/bql/grammar"
	"github.com/google/badwolf/bql/lexer"
	"github.com/google/badwolf/bql/semantic"
)

// hookfacts: which hook the semantic grammar attaches to which symbol, found by PROBING the hooks of
// grammar.SemanticBQL() — a binding token handed to an element hook lands in SBinding, PBinding or
// OBinding of the working clause, in the ORDER BY list, the working projection, the input graphs or the
// GROUP BY list; an int64 literal becomes the limit; BEFORE <time> the upper global bound; a clause hook
// either appends the working clause to the pattern (next), resets it (init), flushes the working
// projection (flushVars), rewrites the ORDER BY list (orderCheck), sets the statement's type (bindType),
// resets / closes the working construct clause (cInit / cNext), closes the working predicate-object pair
// (cPair), or does none of these. A node, a predicate and a node handed to the data accumulator make a
// triple of the statement's data. Element hooks are recorded per alternative (START carries the data
// accumulator on its INSERT and DELETE alternatives only). Output: BW/Generated/HookFacts.lean.

func probeElement(h semantic.ElementHook) string {
	if h == nil {
		return "none"
	}
	st := &semantic.Statement{}
	st.ResetWorkingGraphClause()
	st.ResetWorkingConstructClause()
	st.WorkingConstructClause().ResetWorkingPredicateObjectPair()
	func() {
		defer func() { recover() }()
		h(st, semantic.NewConsumedToken(&lexer.Token{Type: lexer.ItemBinding, Text: "?probe"}))
	}()
	c := st.WorkingClause()
	switch {
	case c == nil:
		return "none"
	case c.SBinding == "?probe":
		return "subj"
	case c.PBinding == "?probe":
		return "pred"
	case c.OBinding == "?probe":
		return "obj"
	case len(st.OrderBy()) == 1 && st.OrderBy()[0].Binding == "?probe":
		return "order"
	case st.WorkingProjection().Binding == "?probe":
		return "vars"
	case len(st.InputGraphNames()) == 1 && st.InputGraphNames()[0] == "?probe":
		return "inGraphs"
	case len(st.GroupBy()) == 1 && st.GroupBy()[0] == "?probe":
		return "group"
	case len(st.GraphNames()) == 1 && st.GraphNames()[0] == "?probe":
		return "graphs"
	case len(st.OutputGraphNames()) == 1 && st.OutputGraphNames()[0] == "?probe":
		return "outGraphs"
	case st.WorkingConstructClause() != nil && st.WorkingConstructClause().SBinding == "?probe":
		return "cSubj"
	case st.WorkingConstructClause() != nil && st.WorkingConstructClause().WorkingPredicateObjectPair() != nil &&
		st.WorkingConstructClause().WorkingPredicateObjectPair().PBinding == "?probe":
		return "cPred"
	case st.WorkingConstructClause() != nil && st.WorkingConstructClause().WorkingPredicateObjectPair() != nil &&
		st.WorkingConstructClause().WorkingPredicateObjectPair().OBinding == "?probe":
		return "cObj"
	}
	// the data accumulator: node, predicate, node make one triple of the statement's data
	st = &semantic.Statement{}
	func() {
		defer func() { recover() }()
		for _, t := range []lexer.Token{{Type: lexer.ItemNode, Text: "/t<probe>"}, {Type: lexer.ItemPredicate, Text: `"p"@[]`}, {Type: lexer.ItemNode, Text: "/t<o>"}} {
			t := t
			if _, err := h(st, semantic.NewConsumedToken(&t)); err != nil {
				return
			}
		}
	}()
	if len(st.Data()) == 1 {
		return "data"
	}
	// LIMIT: an int64 literal becomes the limit
	st = &semantic.Statement{}
	func() {
		defer func() { recover() }()
		h(st, semantic.NewConsumedToken(&lexer.Token{Type: lexer.ItemLiteral, Text: `"7"^^type:int64`}))
	}()
	if st.IsLimitSet() && st.Limit() == 7 {
		return "limit"
	}
	// global time bounds: BEFORE <time> becomes the upper anchor
	st = &semantic.Statement{}
	func() {
		defer func() { recover() }()
		if _, err := h(st, semantic.NewConsumedToken(&lexer.Token{Type: lexer.ItemBefore, Text: "before"})); err != nil {
			return
		}
		h(st, semantic.NewConsumedToken(&lexer.Token{Type: lexer.ItemTime, Text: "2006-01-02T15:04:05Z"}))
	}()
	if lo := st.GlobalLookupOptions(); lo != nil && lo.UpperAnchor != nil && lo.UpperAnchor.Year() == 2006 {
		return "bounds"
	}
	return "none"
}

func probeClause(h semantic.ClauseHook) string {
	if h == nil {
		return "none"
	}
	st := &semantic.Statement{}
	st.ResetWorkingGraphClause()
	st.WorkingClause().SBinding = "?probe"
	func() {
		defer func() { recover() }()
		h(st, semantic.Symbol("PROBE"))
	}()
	switch {
	case len(st.GraphPatternClauses()) == 1:
		return "next"
	case st.WorkingClause() != nil && st.WorkingClause().SBinding == "":
		return "init"
	}
	// the end of WHERE: the working projection is flushed
	st3 := &semantic.Statement{}
	st3.WorkingProjection().Binding = "?probe"
	func() {
		defer func() { recover() }()
		h(st3, semantic.Symbol("PROBE"))
	}()
	if len(st3.Projections()) == 1 {
		return "flushVars"
	}
	// the statement's type
	st4 := &semantic.Statement{}
	func() {
		defer func() { recover() }()
		h(st4, semantic.Symbol("PROBE"))
	}()
	if k := int(st4.Type()); k != int(semantic.Query) {
		names := []string{"query", "insert", "delete", "create", "drop", "construct", "deconstruct", "show"}
		if k >= 0 && k < len(names) {
			return "bindType ." + names[k]
		}
	}
	// construct templates: close the working clause (cNext), reset it (cInit), close the working pair (cPair)
	st5 := &semantic.Statement{}
	st5.ResetWorkingConstructClause()
	st5.WorkingConstructClause().SBinding = "?probe"
	st5.WorkingConstructClause().ResetWorkingPredicateObjectPair()
	st5.WorkingConstructClause().WorkingPredicateObjectPair().PBinding = "?probe"
	func() {
		defer func() { recover() }()
		h(st5, semantic.Symbol("PROBE"))
	}()
	switch {
	case len(st5.ConstructClauses()) == 1:
		return "cNext"
	case st5.WorkingConstructClause() != nil && st5.WorkingConstructClause().SBinding == "":
		return "cInit"
	case st5.WorkingConstructClause() != nil && len(st5.WorkingConstructClause().PredicateObjectPairs()) == 1:
		return "cPair"
	}
	// the ORDER BY checker: a key listed twice (same direction) is rewritten to one key
	st2 := &semantic.Statement{}
	st2.ResetProjection()
	st2.WorkingProjection().Binding = "?probe"
	st2.AddWorkingProjection()
	ob := semantic.OrderByBindings()
	for i := 0; i < 2; i++ {
		func() {
			defer func() { recover() }()
			ob(st2, semantic.NewConsumedToken(&lexer.Token{Type: lexer.ItemBinding, Text: "?probe"}))
		}()
	}
	if len(st2.OrderBy()) == 2 {
		func() {
			defer func() { recover() }()
			h(st2, semantic.Symbol("PROBE"))
		}()
		if len(st2.OrderBy()) == 1 {
			return "orderCheck"
		}
	}
	return "none"
}

func cmdHookfacts(args []string) error {
	if len(args) != 1 {
		return fmt.Errorf("usage: hookfacts <out.lean>")
	}
	g := grammar.SemanticBQL()
	var syms []string
	for s := range *g {
		syms = append(syms, string(s))
	}
	sort.Strings(syms)
	var b strings.Builder
	b.WriteString("-- GENERATED by `bwh hookfacts`: the hooks grammar.SemanticBQL() attaches, identified by probing them. Do not edit.\n")
	b.WriteString("import BW.Generated.Grammar\nimport BW.Model.Hooks\n\nnamespace BW.Generated\nopen BW.Model.Hooks\n\n")
	part := map[string][]string{}
	start := map[string]string{}
	end := map[string]string{}
	uniform := true
	var split []string
	for _, s := range syms {
		same := true
		for i, cls := range (*g)[semantic.Symbol(s)] {
			p, st, en := probeElement(cls.ProcessedElement), probeClause(cls.ProcessStart), probeClause(cls.ProcessEnd)
			if i > 0 && (start[s] != st || end[s] != en) {
				uniform = false
			}
			if i > 0 && part[s][0] != p {
				same = false
			}
			part[s] = append(part[s], p)
			start[s], end[s] = st, en
		}
		if !same {
			split = append(split, s)
		}
	}
	fmt.Fprintf(&b, "/-- Every alternative of a symbol carries the same clause hooks. -/\ndef hooksUniform : Bool := %v\n\n", uniform)
	b.WriteString("/-- The symbols whose alternatives do not all carry the same element hook. -/\ndef splitSyms : List Sym := [")
	for i, s := range split {
		if i > 0 {
			b.WriteString(", ")
		}
		b.WriteString("." + leanIdent(s))
	}
	b.WriteString("]\n\n")
	b.WriteString("/-- The element hook of alternative `i` of a symbol. -/\ndef partOf : Sym → Nat → Part\n")
	for _, s := range syms {
		isSplit := false
		for _, x := range split {
			isSplit = isSplit || x == s
		}
		if isSplit {
			for i, p := range part[s] {
				if p != "none" {
					fmt.Fprintf(&b, "  | .%s, %d => .%s\n", leanIdent(s), i, p)
				}
			}
		} else if len(part[s]) > 0 && part[s][0] != "none" {
			fmt.Fprintf(&b, "  | .%s, _ => .%s\n", leanIdent(s), part[s][0])
		}
	}
	b.WriteString("  | _, _ => .none\n\n")
	w := func(name, ty string, m map[string]string, dflt string) {
		fmt.Fprintf(&b, "def %s : Sym → %s\n", name, ty)
		for _, s := range syms {
			if m[s] != dflt {
				fmt.Fprintf(&b, "  | .%s => .%s\n", leanIdent(s), m[s])
			}
		}
		fmt.Fprintf(&b, "  | _ => .%s\n\n", dflt)
	}
	w("startHook", "CHook", start, "none")
	w("endHook", "CHook", end, "none")
	b.WriteString("end BW.Generated\n")
	return os.WriteFile(args[0], []byte(b.String()), 0o644)
}

func init() { register("hookfacts", cmdHookfacts) }
