package main

import (
	"flag"
	"fmt"
	"math"
	"strconv"
	"strings"
	"time"
)

// leaflaws: the laws the text proofs (BW/Proofs/Text.lean, `LeafLaws`, `LeafLaws2`) ASSUME of Go's leaf codecs —
// %q / strconv.Unquote, Time.Format / time.Parse with RFC3339Nano, %v / ParseFloat for float64 — evaluated on Go
// itself over random and boundary inputs, each law inside the domain the Lean statement gives it (timeOK: the year has
// four digits in the anchor's zone and the zone offset is whole minutes; floatOK: a number or Go's own NaN). Outside
// timeOK the laws are false of Go — the checker also counts how often ("outside-domain"). A counterexample is printed as
// "law <name> FAILS <witness>"; the check reports it as a broken tie.
func cmdLeafLaws(args []string) error {
	fs := flag.NewFlagSet("leaflaws", flag.ContinueOnError)
	n := fs.Int("n", 20000, "random inputs per law")
	if err := fs.Parse(args); err != nil {
		return err
	}
	r := newRng(envSeed()*7919 + 11)
	fails, outside := 0, 0
	fail := func(law, wit string) {
		if fails < 20 {
			fmt.Printf("law %s FAILS %s\n", law, wit)
		}
		fails++
	}
	reSpace := func(c byte) bool { return c == ' ' || c == '\t' || c == '\n' || c == '\r' || c == '\f' }
	// ---- %q / Unquote ----
	pieces := []string{"a", "Z", "0", " ", "\t", "\n", "\r", "\f", "\v", "\"", "\\", "'", "`", "<", ">", "@", "[", "]", "^", "é", " ", " ", "\u0085", "\U0001F600",
		"\x00", "\x7f", "\xff", "\xc3", "\xe2\x80", "�", "\\n", "\\\"", "%", "{", "}"}
	for i := 0; i < *n; i++ {
		var b strings.Builder
		for k := r.intn(7); k > 0; k-- {
			b.WriteString(pieces[r.intn(len(pieces))])
		}
		id := b.String()
		q := fmt.Sprintf("%q", id)
		u, err := strconv.Unquote(q)
		if err != nil || u != id {
			fail("unq_quote", fmt.Sprintf("id=%x quoted=%s unquoted=%x err=%v", id, q, u, err))
		}
		if len(q) < 2 || q[0] != '"' || q[len(q)-1] != '"' {
			fail("quote_shape", fmt.Sprintf("id=%x quoted=%s", id, q))
		}
		// quote_scans (QuoteScans): scanning the printed ID from after its opening quote, a backslash taking the next byte
		// with it, stops exactly at the closing quote — what triple.Parse relies on to find the end of the predicate's ID
		k := 1
		for k < len(q) && q[k] != '"' {
			if q[k] == '\\' {
				k++
			}
			k++
		}
		if k != len(q)-1 {
			fail("quote_scans", fmt.Sprintf("id=%x quoted=%s scan stops at %d", id, q, k))
		}
		noSpace := true
		for j := 0; j < len(id); j++ {
			if reSpace(id[j]) {
				noSpace = false
			}
		}
		if noSpace {
			for j := 0; j < len(q); j++ {
				if reSpace(q[j]) {
					fail("quote_noSpace", fmt.Sprintf("id=%x quoted=%s", id, q))
					break
				}
			}
		}
	}
	// ---- RFC3339Nano ----
	zones := []*time.Location{time.UTC, time.FixedZone("", 3600), time.FixedZone("", -19800), time.FixedZone("", 14*3600), time.FixedZone("", -12*3600+1800), time.FixedZone("", 1), time.FixedZone("", -59)}
	// the domain of the format: four digits for the year, whole minutes for the zone offset (a zone 1 s east of
	// Greenwich is printed as +00:00, the text then names another instant)
	timeOK := func(t time.Time) bool {
		_, off := t.Zone()
		return t.Year() >= 0 && t.Year() <= 9999 && off%60 == 0
	}
	checkTime := func(t time.Time) {
		if !timeOK(t) {
			outside++
			return
		}
		s := t.Format(time.RFC3339Nano)
		if s == "" || strings.Contains(s, "\"") {
			fail("time_nonempty/time_noDq", fmt.Sprintf("t=%v text=%q", t.UnixNano(), s))
		}
		for j := 0; j < len(s); j++ {
			if reSpace(s[j]) {
				fail("time_noSpace", fmt.Sprintf("text=%q", s))
			}
		}
		p, err := time.Parse(time.RFC3339Nano, s)
		_, o1 := t.Zone()
		if err != nil {
			fail("time_round", fmt.Sprintf("text=%q err=%v", s, err))
			return
		}
		_, o2 := p.Zone()
		// the model's Time is (instant, offset in seconds); Go prints the offset to the minute
		if !p.Equal(t) || (o1/60)*60 != o2 {
			fail("time_round", fmt.Sprintf("text=%q parsed=%v offsets %d %d", s, p.Format(time.RFC3339Nano), o1, o2))
		}
		if !timeOK(p) {
			fail("time_parsed_ok", fmt.Sprintf("text=%q", s))
		}
	}
	for _, z := range zones {
		for _, t := range []time.Time{{}, time.Unix(0, 0), time.Date(9999, 12, 31, 23, 59, 59, 999999999, z), time.Date(0, 1, 1, 0, 0, 0, 0, z),
			time.Date(1, 1, 1, 0, 0, 0, 0, z), time.Date(2000, 2, 29, 23, 59, 60, 0, z), time.Date(1969, 12, 31, 23, 59, 59, 1, z)} {
			checkTime(t.In(z))
			checkTime(t)
		}
	}
	for i := 0; i < *n; i++ {
		y := []int{0, 1, 99, 999, 1582, 1969, 1970, 2038, 2262, 9999}[r.intn(10)]
		if r.chance(1, 2) {
			y = r.intn(10000)
		}
		ns := []int{0, 1, 10, 100, 123456789, 999999999, 500000000, 120000000}[r.intn(8)]
		checkTime(time.Date(y, time.Month(1+r.intn(12)), 1+r.intn(31), r.intn(24), r.intn(60), r.intn(60), ns, zones[r.intn(len(zones))]))
	}
	// ---- float64 ----
	checkFloat := func(f float64) {
		bits := math.Float64bits(f)
		if f != f && bits != math.Float64bits(math.NaN()) {
			return // outside floatOK: a literal never holds it (literal.Build keeps one NaN)
		}
		s := fmt.Sprintf("%v", f)
		if strings.Contains(s, "\"") {
			fail("float_noDq", s)
		}
		p, err := strconv.ParseFloat(s, 64)
		if err != nil || math.Float64bits(p) != bits {
			fail("float_round", fmt.Sprintf("bits=%016x text=%s parsed=%016x err=%v", bits, s, math.Float64bits(p), err))
		}
		if p != p && math.Float64bits(p) != math.Float64bits(math.NaN()) {
			fail("float_parsed_ok", s)
		}
	}
	for _, f := range []float64{0, math.Copysign(0, -1), math.Inf(1), math.Inf(-1), math.NaN(), math.SmallestNonzeroFloat64, math.MaxFloat64, -math.MaxFloat64,
		1e21, 1e20, 1e-7, 0.1, 1 << 53, 1<<53 + 2, 5e-324 * 3, 2.2250738585072014e-308, 2.225073858507201e-308} {
		checkFloat(f)
	}
	for i := 0; i < *n; i++ {
		checkFloat(math.Float64frombits(r.next()))
		checkFloat(float64(int64(r.next())) / float64(1+r.intn(1000)))
	}
	// what ParseFloat yields on texts of NaN in any spelling is Go's own NaN
	for _, s := range []string{"NaN", "nan", "NAN", "+NaN", "-NaN"} {
		if p, err := strconv.ParseFloat(s, 64); err == nil && p != p && math.Float64bits(p) != math.Float64bits(math.NaN()) {
			fail("float_parsed_ok", s)
		}
	}
	fmt.Printf("leaflaws checked=%d failures=%d outside-domain=%d\n", 3**n+*n+2**n, fails, outside)
	return nil
}

func init() { register("leaflaws", cmdLeafLaws) }
