package main

import (
	"fmt"
	"go/ast"
	"go/token"
	"os"
	"sort"
	"strings"
)

// errfacts: go/ast extraction for C20 — every place in the planner (and Statement.Init) where a
// storage driver method, or a function of the planner that returns an error, is called, and what
// happens to the error it returns: returned, kept in a variable that is read again, sent on a
// channel, or thrown away. Output: BW/Generated/ErrFacts.lean.

var driverMethods = map[string]bool{
	"AddTriples": true, "RemoveTriples": true, "Exist": true, "Objects": true, "Subjects": true,
	"PredicatesForSubject": true, "PredicatesForObject": true, "PredicatesForSubjectAndObject": true,
	"TriplesForSubject": true, "TriplesForPredicate": true, "TriplesForObject": true,
	"TriplesForSubjectAndPredicate": true, "TriplesForPredicateAndObject": true, "Triples": true,
	"Graph": true, "NewGraph": true, "DeleteGraph": true, "GraphNames": true,
}

type errSite struct {
	file     string
	line     int
	fn       string
	callee   string
	handling string
}

func calleeName(c *ast.CallExpr) string {
	switch f := c.Fun.(type) {
	case *ast.Ident:
		return f.Name
	case *ast.SelectorExpr:
		return f.Sel.Name
	}
	return ""
}

// identUsedElsewhere: is `name` read anywhere in body other than at the positions in skip?
func identUsedElsewhere(body *ast.BlockStmt, name string, skip map[token.Pos]bool) bool {
	used := false
	ast.Inspect(body, func(n ast.Node) bool {
		if id, ok := n.(*ast.Ident); ok && id.Name == name && !skip[id.Pos()] {
			used = true
		}
		return true
	})
	return used
}

func scanErrSites(s *srcFile, rel string, errFuncs map[string]bool) []errSite {
	var out []errSite
	for _, d := range s.f.Decls {
		fd, ok := d.(*ast.FuncDecl)
		if !ok || fd.Body == nil {
			continue
		}
		interesting := func(c *ast.CallExpr) (string, bool) {
			n := calleeName(c)
			if sel, isSel := c.Fun.(*ast.SelectorExpr); isSel && driverMethods[n] {
				// a method call on a store / graph value (not p.stm.Graph-like accessors without ctx argument)
				if len(c.Args) > 0 && s.str(c.Args[0]) == "ctx" {
					return s.str(sel.X) + "." + n, true
				}
				return "", false
			}
			if errFuncs[n] {
				return n, true
			}
			return "", false
		}
		handled := map[*ast.CallExpr]string{}
		var visit func(n ast.Node) bool
		visit = func(n ast.Node) bool {
			switch x := n.(type) {
			case *ast.ReturnStmt:
				for _, r := range x.Results {
					if c, ok := r.(*ast.CallExpr); ok {
						if _, yes := interesting(c); yes {
							handled[c] = "returned"
						}
					}
				}
			case *ast.SendStmt:
				if c, ok := x.Value.(*ast.CallExpr); ok {
					if _, yes := interesting(c); yes {
						handled[c] = "sent"
					}
				}
			case *ast.AssignStmt:
				if len(x.Rhs) == 1 {
					if c, ok := x.Rhs[0].(*ast.CallExpr); ok {
						if _, yes := interesting(c); yes {
							last := x.Lhs[len(x.Lhs)-1]
							id, isId := last.(*ast.Ident)
							switch {
							case isId && id.Name == "_":
								handled[c] = "discarded"
							case isId:
								skip := map[token.Pos]bool{id.Pos(): true}
								if identUsedElsewhere(fd.Body, id.Name, skip) {
									handled[c] = "kept"
								} else {
									handled[c] = "discarded"
								}
							default:
								handled[c] = "kept"
							}
						}
					}
				}
			case *ast.ExprStmt:
				if c, ok := x.X.(*ast.CallExpr); ok {
					if _, yes := interesting(c); yes {
						handled[c] = "discarded"
					}
				}
			case *ast.GoStmt:
				if _, yes := interesting(x.Call); yes {
					handled[x.Call] = "discarded"
				}
			case *ast.DeferStmt:
				if _, yes := interesting(x.Call); yes {
					handled[x.Call] = "discarded"
				}
			}
			return true
		}
		ast.Inspect(fd.Body, visit)
		ast.Inspect(fd.Body, func(n ast.Node) bool {
			c, ok := n.(*ast.CallExpr)
			if !ok {
				return true
			}
			name, yes := interesting(c)
			if !yes {
				return true
			}
			h, seen := handled[c]
			if !seen {
				h = "used-in-expression" // e.g. inside an if condition or as an argument
			}
			out = append(out, errSite{rel, s.fset.Position(c.Pos()).Line, fd.Name.Name, name, h})
			return true
		})
	}
	return out
}

func cmdErrfacts(args []string) error {
	if len(args) != 1 {
		return fmt.Errorf("usage: errfacts <out.lean>")
	}
	files := [][]string{{"bql", "planner", "planner.go"}, {"bql", "planner", "data_access.go"}, {"bql", "semantic", "semantic.go"}}
	var srcs []*srcFile
	errFuncs := map[string]bool{}
	// functions of the planner that return an error and (transitively) call the storage driver
	returnsErr := map[string]bool{}
	callees := map[string]map[string]bool{}
	reaches := map[string]bool{}
	for _, rel := range files {
		s, err := loadSrc(rel...)
		if err != nil {
			return err
		}
		srcs = append(srcs, s)
		for _, d := range s.f.Decls {
			fd, ok := d.(*ast.FuncDecl)
			if !ok || fd.Body == nil {
				continue
			}
			name := fd.Name.Name
			if rel[1] == "semantic" && name != "Init" {
				continue
			}
			if fd.Type.Results != nil && len(fd.Type.Results.List) > 0 {
				last := fd.Type.Results.List[len(fd.Type.Results.List)-1]
				if s.str(last.Type) == "error" {
					returnsErr[name] = true
				}
			}
			if callees[name] == nil {
				callees[name] = map[string]bool{}
			}
			ast.Inspect(fd.Body, func(n ast.Node) bool {
				if c, ok := n.(*ast.CallExpr); ok {
					cn := calleeName(c)
					callees[name][cn] = true
					if _, isSel := c.Fun.(*ast.SelectorExpr); isSel && driverMethods[cn] && len(c.Args) > 0 && s.str(c.Args[0]) == "ctx" {
						reaches[name] = true
					}
				}
				return true
			})
		}
	}
	for changed := true; changed; {
		changed = false
		for f, cs := range callees {
			if reaches[f] {
				continue
			}
			for c := range cs {
				if reaches[c] {
					reaches[f] = true
					changed = true
					break
				}
			}
		}
	}
	for f := range returnsErr {
		if reaches[f] && f != "New" {
			errFuncs[f] = true
		}
	}
	var sites []errSite
	for i, s := range srcs {
		sites = append(sites, scanErrSites(s, strings.Join(files[i], "/"), errFuncs)...)
	}
	sort.Slice(sites, func(i, j int) bool {
		if sites[i].file != sites[j].file {
			return sites[i].file < sites[j].file
		}
		return sites[i].line < sites[j].line
	})
	var b strings.Builder
	b.WriteString("/- GENERATED by `bwh errfacts` from bql/planner/{planner,data_access}.go, bql/semantic/semantic.go — do not edit. -/\nnamespace BW.Generated\n\n")
	b.WriteString("/-- What happens to the error a call returns. -/\ninductive ErrHandling where\n  | returned | kept | sent | usedInExpression | discarded\n  deriving DecidableEq, Repr\n\n")
	b.WriteString("structure ErrSite where\n  file : String\n  line : Nat\n  fn : String\n  callee : String\n  handling : ErrHandling\n  deriving Repr\n\n")
	b.WriteString("def errSites : List ErrSite := [\n")
	hn := map[string]string{"returned": ".returned", "kept": ".kept", "sent": ".sent", "used-in-expression": ".usedInExpression", "discarded": ".discarded"}
	for i, s := range sites {
		sep := ","
		if i == len(sites)-1 {
			sep = ""
		}
		fmt.Fprintf(&b, "  ⟨%q, %d, %q, %q, %s⟩%s\n", s.file, s.line, s.fn, s.callee, hn[s.handling], sep)
	}
	b.WriteString("]\n\nend BW.Generated\n")
	return os.WriteFile(args[0], []byte(b.String()), 0o644)
}

func init() { register("errfacts", cmdErrfacts) }
