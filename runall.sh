#!/bin/sh
# Runs every registered check (quick tier unless $1 = thorough) on the current tree and validates the evidence.
cd "$(dirname "$0")"
tier=${1:-quick}
rc=0
for id in $(python3 -c "import json; print(' '.join(c['property_id'] for c in json.load(open('MANIFEST.json'))['checks']))"); do
  start=$(date +%s)
  ./check "$id" --tier "$tier" > ".build/runall-$id.log" 2>&1
  r=$?
  echo "$id rc=$r $(( $(date +%s) - start ))s $(grep -c KNOWN-FINDING .build/runall-$id.log) known $(grep -c '^VIOLATION' .build/runall-$id.log) violations"
  [ $r -ne 0 ] && rc=1
done
python3-vt tools_validate.py || rc=1
exit $rc
