#!/usr/bin/env python3
"""Validate MANIFEST.json and evidence/*.json against the given schemas (needs jsonschema: run with python3-vt)."""
import glob, json, sys
import jsonschema
ok = True
jsonschema.validate(json.load(open('/verif/MANIFEST.json')), json.load(open('/root/.vp/MANIFEST.schema.json')))
es = json.load(open('/root/.vp/EVIDENCE.schema.json'))
for p in sorted(glob.glob('/verif/evidence/*.json')):
    try:
        jsonschema.validate(json.load(open(p)), es)
    except Exception as e:
        ok = False
        print("INVALID", p, str(e)[:300])
print("valid" if ok else "INVALID")
sys.exit(0 if ok else 1)
