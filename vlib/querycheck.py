"""Shared machinery of the SELECT properties (C03, C10, LIMIT part of C12): generated stores and
queries through the real lexer→parser→planner→Execute, the Lean planner model (on the Statement the
real parser produced) and the Lean specification (solutions = join over a scan)."""
import os
import re
from collections import Counter

from . import core, gen

SIZES = {"quick": 250, "thorough": 8000}


def rows(x, instants=False):
    r = x.split("rows=", 1)[1] if "rows=" in x else ""
    if instants:  # the same instant in another zone is the same value
        r = re.sub(r"(\bT,-?\d+),-?\d+", r"\1", r)
        r = re.sub(r"(\bPT,[0-9a-f-]+,-?\d+),-?\d+", r"\1", r)
    return sorted(r.split(";")) if r else []


def zoneless(x):
    x = re.sub(r"(\bT,-?\d+),-?\d+", r"\1", x)
    return re.sub(r"(\bPT,[0-9a-f-]+,-?\d+),-?\d+", r"\1", x)


def cols(x):
    return x.split("cols=", 1)[1].split(" ")[0] if "cols=" in x else ""


def submulti(a, b):
    ca, cb = Counter(a), Counter(b)
    return all(ca[k] <= cb[k] for k in ca)


def interval_clause(o):
    c = [w for w in o.split() if w.startswith("c=")]
    if not c:
        return False
    for cl in c[0][2:].split(";"):
        f = cl.split("|")
        if len(f) == 31 and ((f[7] != "-" and f[11] == "-") or (f[21] != "-" and f[24] == "-")):
            return True
    return False


def kinds_mixed(o, s):
    """ORDER BY is only specified for key columns holding one kind of value: True when some key column
    of the (unlimited) reference result mixes kinds."""
    ob = [w for w in o.split() if w.startswith("ob=")]
    if not ob or ob[0][3:] == "-":
        return False
    if " mk=1 " in s:   # a key column mixed kinds before HAVING removed rows (the engine sorts first)
        return True
    keys = [k.split(":")[0] for k in ob[0][3:].split(",")]
    s2 = s.split(" ", 1)[1] if s.startswith("limit=") else s
    cs = cols(s2).split(",")
    for k in keys:
        if k not in cs:
            continue
        i = cs.index(k)
        ks = set()
        for r in rows(s2):
            c = r.split("|")
            if i < len(c):
                p = c[i].split(",")[0]
                ks.add("P" if p in ("PI", "PT") else p)
        if len(ks) > 1:
            return True
    return False


def key_projection(o, x):
    """The ORDER BY key columns of a result, row by row (instants without zone)."""
    ob = [w for w in o.split() if w.startswith("ob=")][0][3:]
    keys = [k.split(":")[0] for k in ob.split(",")]
    cs = cols(x).split(",")
    idx = [cs.index(k) for k in keys if k in cs]
    r = x.split("rows=", 1)[1] if "rows=" in x else ""
    r = re.sub(r"(\bT,-?\d+),-?\d+", r"\1", r)
    r = re.sub(r"(\bPT,[0-9a-f-]+,-?\d+),-?\d+", r"\1", r)
    out = []
    for row in (r.split(";") if r else []):
        c = row.split("|")
        out.append("|".join(c[i] for i in idx if i < len(c)))
    return out


def unorder(x):
    return x.split("rows=")[0] + "rows=" + ";".join(sorted(rows(x))) if "rows=" in x else x


def text_of(o):
    return bytes.fromhex(o.split("text=")[1].split()[0]).decode("utf-8", "replace")


def model_agrees(o, a, m, s=None):
    """Model vs implementation. LIMIT without ORDER BY leaves the choice of rows open (the order of
    rows before the cut depends on goroutine scheduling): then only columns and count are compared."""
    if m == "unsupported":
        return True
    model_mixed = m.startswith("ok mk=1 ")
    if model_mixed:
        m = m.replace("ok mk=1 cols=", "ok cols=", 1)
    lim = "lim=-" not in o
    ordered = " ob=-" not in o
    if not (a.startswith("ok") and m.startswith("ok")):
        return a == m
    if " gb=-" not in o:
        # one instant spelled in two zones is one grouping value; which spelling a group shows depends on
        # the (unstable) sort of the rows inside Reduce
        a, m = zoneless(a), zoneless(m)
        if " ob=-" in o and "lim=-" in o:
            # no ORDER BY: the order of the groups follows Reduce's unstable sort on ties (keys equal as values)
            return unorder(a) == unorder(m)
    ref = s if (s and s.startswith(("ok", "limit="))) else m
    mixed = ordered and (model_mixed or kinds_mixed(o, ref))
    if ordered and lim and mixed:
        return cols(a) == cols(m) and len(rows(a)) == len(rows(m))
    if ordered and lim:
        # rows tying on the ORDER BY keys may be cut differently: key columns and count must agree
        return cols(a) == cols(m) and len(rows(a)) == len(rows(m)) and key_projection(o, a) == key_projection(o, m)
    if mixed:
        return unorder(a) == unorder(m)
    if lim and not ordered:
        return cols(a) == cols(m) and len(rows(a)) == len(rows(m))
    return a == m


def spec_verdict(o, a, s):
    """None if the implementation's answer is what the specification allows, else the reason."""
    if s == "unsupported":
        return None
    loose = "overlap=1" in o or interval_clause(o)
    ordered = " ob=-" not in o
    grouped = " gb=-" not in o
    if loose and grouped:
        return None  # aggregates depend on multiplicities the property leaves open here
    if ordered and s.startswith(("ok", "limit=")) and kinds_mixed(o, s):
        ordered = False  # ORDER BY is unspecified for key columns mixing kinds
        a, s = unorder(a), (s.split(" ", 1)[0] + " " + unorder(s.split(" ", 1)[1]) if s.startswith("limit=") else unorder(s))
    if s.startswith("limit=") and ordered:
        nlim = int(s.split()[0].split("=")[1])
        s2 = s.split(" ", 1)[1]
        if not a.startswith("ok"):
            return f"the query fails ({a.split()[0]}) although the specification defines a result"
        if cols(a) != cols(s2):
            return "different columns"
        ra, rs = rows(a, True), rows(s2, True)
        n = min(nlim, len(rs))
        if loose:
            # multiplicities are open (a triple in two listed graphs, an interval predicate): between
            # min(n, distinct qualifying rows) and min(n, qualifying occurrences) rows
            if len(ra) > n or len(ra) < min(nlim, len(set(rs))) or not set(ra) <= set(rs):
                return f"ORDER BY ... LIMIT {nlim} returns {len(ra)} rows although between {len(set(rs))} and {len(rs)} qualify"
            return None
        if len(ra) != n:
            return f"ORDER BY ... LIMIT {nlim} returns {len(ra)} rows although {len(rs)} rows qualify"
        if not (set(ra) <= set(rs) if loose else submulti(ra, rs)):
            return "ORDER BY ... LIMIT returns rows that do not qualify"
        if not loose and key_projection(o, a) != key_projection(o, s2)[:n]:
            return "ORDER BY ... LIMIT n does not return the first n rows of the ordered result"
        return None
    if s.startswith("limit="):
        nlim = int(s.split()[0].split("=")[1])
        s2 = s.split(" ", 1)[1]
        if not a.startswith("ok"):
            return f"the query fails ({a.split()[0]}) although the specification defines a result"
        if cols(a) != cols(s2):
            return "different columns"
        ra, rs = rows(a, True), rows(s2, True)
        if loose:
            if len(ra) > nlim or not set(ra) <= set(rs) or len(ra) < min(nlim, len(set(rs))):
                return "LIMIT n does not return min(n, N) qualifying rows"
            return None
        if len(ra) != min(nlim, len(rs)):
            return f"LIMIT {nlim} returns {len(ra)} rows although {len(rs)} rows qualify"
        if not ordered and not submulti(ra, rs):
            return "LIMIT returns rows that are not solutions"
        return None
    if a == s:
        return None
    if not a.startswith("ok"):
        return f"the query fails ({a.split()[0]}) although the specification defines a result"
    if cols(a) != cols(s):
        return "different columns"
    ra, rs = rows(a, True), rows(s, True)
    if ordered:
        ka, ks = key_projection(o, a), key_projection(o, s)
        if loose:  # multiplicities are open: compare the sequences without repetitions
            uniq = lambda l: [x for i, x in enumerate(l) if i == 0 or l[i - 1] != x]
            ka, ks = uniq(ka), uniq(ks)
        if ka != ks:
            return "ORDER BY: the rows are not in the order of the listed keys"
    if ra == rs:
        return None
    if loose and set(ra) == set(rs):
        return None
    if set(ra) == set(rs):
        return "same rows but different multiplicities"
    if set(ra) < set(rs):
        return "solutions are missing from the result"
    if set(ra) > set(rs):
        return "rows that are not solutions are returned"
    return "the returned rows differ from the solutions"


def exec_three(lines, tag):
    d = core.SCRATCH
    os.makedirs(d, exist_ok=True)
    p = os.path.join(d, f"{tag}.ops")
    with open(p, "w") as f:
        f.write("\n".join(lines) + "\n")
    core.run_bwh(["storeexec", "-ops", p, "-impl", p + ".impl"])
    core.run_driver(["query", "spec"], stdin_path=p, out_path=p + ".spec")
    return core.read_lines(p + ".impl")[:len(lines)], core.read_lines(p + ".spec")[:len(lines)]


def still_fails(lines, tag):
    impl, spec = exec_three(lines, tag)
    i = len(lines) - 1
    return spec_verdict(lines[i], impl[i], spec[i])


def shrink(lines, tag):
    """Drop triples from the scenario while the query still contradicts the specification."""
    cur = list(lines)
    budget = 60
    for i in range(len(cur) - 2, -1, -1):
        if budget <= 0:
            break
        f = cur[i].split()
        if f and f[0] == "add" and f[2] != "-":
            ids = f[2].split(",")
            j = len(ids) - 1
            while j >= 0 and budget > 0:
                cand_ids = ids[:j] + ids[j + 1:]
                cand = cur[:i] + [f"add {f[1]} {','.join(cand_ids) if cand_ids else '-'}"] + cur[i + 1:]
                budget -= 1
                try:
                    if still_fails(cand, tag):
                        cur, ids = cand, cand_ids
                except core.TieBroken:
                    pass
                j -= 1
    used = set()
    for l in cur:
        f = l.split()
        if f and f[0] == "add" and f[2] != "-":
            used.update(f[2].split(","))
    return [l for l in cur if not (l.startswith("T ") and l.split()[1] not in used)]


def run(r: core.Run, mode, prop_module, what, known_ops_key="ops"):
    n = SIZES[r.tier]
    gen.regen_all()
    pr = core.prove(prop_module, extra_targets=["bwdriver"])
    r.add_proof(pr, prop_module)
    if r.tier == "thorough":
        ok, out, secs = core.leanchecker(prop_module)
        r.notes["leanchecker"] = {"ok": ok, "secs": round(secs, 1)}
        if not ok:
            pr["ok"] = False
            pr["failed"].append(("leanchecker", out[-500:]))
    r.cov["rule"] = what
    d = core.SCRATCH
    os.makedirs(d, exist_ok=True)
    base = os.path.join(d, f"{r.prop}-{mode}")

    if r.replay_input is not None:
        lines = r.replay_input.get("ops", [])
        why = still_fails(lines, f"{r.prop}-replay") if lines else None
        if why:
            r.violation({"protocol": "query", "ops": lines, "what": "replayed scenario still contradicts the specification: " + why})
        return

    for f in r.findings.get("findings", []):
        if f.get("property") == r.prop and f.get("ops"):
            try:
                if still_fails(f["ops"], f"{r.prop}-known"):
                    r.known(f["id"], f["what"])
            except core.TieBroken:
                pass

    tie = None
    bad = []
    ops = []
    try:
        stats = core.run_bwh(["query", "-mode", mode, "-n", str(n), "-per", "10", "-ops", base + ".ops", "-impl", base + ".impl"],
                             extra_env={"VERIF_SEED": str(r.seed)}, timeout=3000)
        r.notes["generator"] = stats[0] if stats else ""
        if not pr["built"]:
            ok, log, _ = core.lake_build(["bwdriver"])
            if not ok:
                raise core.TieBroken("Lean driver does not build", log[-2000:])
        core.run_driver(["query", "model"], stdin_path=base + ".ops", out_path=base + ".model")
        core.run_driver(["query", "spec"], stdin_path=base + ".ops", out_path=base + ".spec")
        ops, impl = core.read_lines(base + ".ops"), core.read_lines(base + ".impl")
        model, spec = core.read_lines(base + ".model"), core.read_lines(base + ".spec")
        # the WHERE-clause hooks: tokens through the model parser (regenerated grammar), routed by the regenerated
        # hook table to the model hooks; the clauses they build against the clauses the real hooks built
        core.run_driver(["hooks"], stdin_path=base + ".ops", out_path=base + ".hooks")
        hooks = core.read_lines(base + ".hooks")
        hook_mism = [i for i, o in enumerate(ops) if o.startswith("Q") and i < len(hooks) and hooks[i] not in ("same", "-")]
        r.notes["hooks_model"] = {"statements": sum(1 for i, o in enumerate(ops) if o.startswith("Q") and i < len(hooks) and hooks[i] == "same"),
                                  "disagreements": len(hook_mism)}
        nontriv = set()
        mism = []
        rowhist = Counter()
        nclauses = Counter()
        for i, o in enumerate(ops):
            if not o.startswith("Q"):
                continue
            r.cov["evaluations"] += 1
            a, m, s = impl[i], model[i], spec[i]
            nr = len(rows(a)) if a.startswith("ok") else -1
            rowhist["error" if nr < 0 else ("0" if nr == 0 else ("1-3" if nr <= 3 else "4+"))] += 1
            c = [w for w in o.split() if w.startswith("c=")]
            nclauses[str(len(c[0][2:].split(";")) if c else 0)] += 1
            if nr > 0:
                nontriv.add(o.split("text=")[1])
            if not model_agrees(o, a, m, s):
                mism.append(i)
            why = spec_verdict(o, a, s)
            if why:
                bad.append((i, why))
        r.cov["distinct_nontrivial"] = len(nontriv)
        r.cov["traces_validated_against_impl"] = r.cov["evaluations"]
        r.notes["rows_per_query"] = dict(rowhist)
        r.notes["clauses_per_query"] = dict(nclauses)
        k = 0
        for i, o in enumerate(ops):
            if o.startswith("Q") and impl[i].startswith("ok") and len(rows(impl[i])) >= 2:
                r.sample({"query": text_of(o), "implementation": impl[i][:240]})
                k += 1
                if k >= 3:
                    break
        pfm = [i for i, l in enumerate(model) if l == "T printed-form-mismatch"]
        if pfm:
            tie = core.TieBroken("the model's RFC3339Nano / predicate printer (Model/TimeFmt.lean) and Go's disagree", ops[pfm[0]][:400])
        elif mism:
            i = mism[0]
            tie = core.TieBroken(f"query correspondence ({mode}): model and implementation disagree on {len(mism)} queries",
                                 f"first: {text_of(ops[i])!r} impl={impl[i][:300]!r} model={model[i][:300]!r}")
        elif hook_mism:
            i = hook_mism[0]
            tie = core.TieBroken(f"hooks correspondence ({mode}): the model of the SELECT hooks and the real hooks build different "
                                 f"statements (clauses, projections, graphs, GROUP BY, ORDER BY, LIMIT, bounds) for {len(hook_mism)} statements", f"first: {text_of(ops[i])!r}: {hooks[i][:600]}")
    except core.TieBroken as e:
        tie = e

    def scenario(i):
        j = i
        while j > 0 and ops[j] != "reset":
            j -= 1
        return [l for l in ops[j:i] if not l.startswith("#") and not l.startswith("Q")] + [ops[i]]

    done = 0
    for i, why in bad:
        sc = scenario(i)
        try:
            small = shrink(sc, f"{r.prop}-shrink")
        except core.TieBroken:
            small = sc
        r.violation({"protocol": "query", "mode": mode, "query": text_of(ops[i]), "ops": small, "what": why,
                     "implementation": impl[i][:2000], "specification": spec[i][:2000],
                     "how_to_replay": f"./check {r.prop} --replay <this file>"})
        done += 1
        if done >= 3:
            break
    if bad:
        return
    crash = core.crash_of(tie)
    if crash:
        r.violation({"protocol": "query", "statement": crash[0], "crash": crash[1],
                     "what": "executing the statement crashes the process — a panic in a goroutine the engine spawned, which no caller can recover: " + crash[1],
                     "how_to_replay": "run the statement on a store that holds the graphs it names (the crash may depend on scheduling)"})
        return
    if not pr["ok"] or tie is not None:
        r.violation({"protocol": "query", "mode": mode,
                     "what": "proof obligation or correspondence no longer checks; no query on which the implementation contradicts the specification was found",
                     "failed_theorems": [f"{n}: {why}" for n, why in pr["failed"]], "lean_errors": pr["errors"][:10],
                     "tie": (tie.what + "\n" + tie.detail) if tie else None}, found_input=False)
