"""C20 — storage driver failures surface as errors: never success, hang or leak."""
import os
import subprocess
from collections import Counter

from . import core, gen

SIZES = {"quick": 60, "thorough": 1200}

RULE = ("proof (partial): Props/C20.lean — in the error-flow model (seq = return at the first error, par = collect every error) a "
        "statement reports an error iff a driver call it made failed, for every composition and failing set; a thrown-away "
        "result loses it; regenerated obligation: none of the sites where the planner or Statement.Init calls a driver method "
        "(or a planner function reaching one) discards the returned error (errfacts translator); the goroutine life-cycle "
        "theorems of C08 cover the failure paths. Tie: `faults` runs — a generated corpus (SHOW/CREATE/DROP/INSERT/DELETE/"
        "CONSTRUCT/DECONSTRUCT and SELECTs of every clause kind) on a populated store behind a fault-injecting wrapper of the "
        "memory driver: the calls of a fault-free run are counted, then each call position is failed in turn — reads before any "
        "element, after 1 and after 3 elements (channel closed, error returned), writes and store calls by returning an error — "
        "under chanSize 0/1/16 and bulkSize 1/2/100; the statement must report an error, return before the watchdog, and leave "
        "no goroutine. non-trivial = distinct (statement, failed call position, mode) triples where a fault was really injected")


def kv(o, k):
    for w in o.split():
        if w.startswith(k + "="):
            return w[len(k) + 1:]
    return None


def text_of(o):
    return bytes.fromhex(kv(o, "text")).decode("utf-8", "replace")


def run_faults(args, seed, timeout):
    env = core.go_env()
    env["VERIF_SEED"] = str(seed)
    p = subprocess.run([core.BWH, "faults"] + args, stdout=subprocess.PIPE, stderr=subprocess.PIPE, env=env, timeout=timeout)
    return p.returncode, p.stdout.decode("utf-8", "replace").split("\n"), p.stderr.decode("utf-8", "replace")


def run(r: core.Run):
    n = SIZES[r.tier]
    gen.regen_all()
    pr = core.prove("BW.Props.C20")
    r.add_proof(pr, "BW.Props.C20")
    if r.tier == "thorough":
        ok, out, secs = core.leanchecker("BW.Props.C20")
        r.notes["leanchecker"] = {"ok": ok, "secs": round(secs, 1)}
        if not ok:
            pr["ok"] = False
            pr["failed"].append(("leanchecker", out[-500:]))
    r.cov["rule"] = RULE
    d = core.SCRATCH
    os.makedirs(d, exist_ok=True)
    base = os.path.join(d, "C20-faults")

    def judge(ops, impl):
        bad = []
        for i, o in enumerate(ops):
            if o.startswith("X ") and impl[i] != "err":
                bad.append(i)
            # a statement that fails by itself (a graph that does not exist, twice) and does not return, or panics
            if o.startswith("C ") and impl[i].split(" ")[0].startswith(("hang", "panic")):
                bad.append(i)
        return bad

    if r.replay_input is not None:
        text = r.replay_input.get("text")
        if text:
            sp = base + ".replay.txt"
            open(sp, "w").write(text + "\n")
            rc, _, err = run_faults(["-script", sp, "-ops", base + ".r.ops", "-impl", base + ".r.impl"], r.seed, 600)
            ops, impl = core.read_lines(base + ".r.ops"), core.read_lines(base + ".r.impl")
            bad = judge(ops, impl) if rc == 0 else [0]
            if bad:
                i = bad[0]
                r.violation({"protocol": "faults", "text": text, "what": "replayed statement still does not report the injected failure",
                             "case": ops[i] if rc == 0 else err[-800:], "outcome": impl[i] if rc == 0 else "crash"})
        return

    tie = None
    bad = []
    ops = impl = []
    try:
        rc, stats, err = run_faults(["-n", str(n), "-ops", base + ".ops", "-impl", base + ".impl"], r.seed, 3400)
        if rc != 0:
            raise core.TieBroken("the fault-injection harness died (a panic outside the calling goroutine?)", err[-2500:])
        r.notes["generator"] = {" ".join(l.split()[:2]): int(l.split()[2]) for l in stats if l.startswith(("hist ", "call "))}
        ops, impl = core.read_lines(base + ".ops"), core.read_lines(base + ".impl")
        seen = set()
        for i, o in enumerate(ops):
            if o.startswith("X "):
                r.cov["evaluations"] += 1
                seen.add((kv(o, "text"), kv(o, "at"), kv(o, "after")))
        r.cov["distinct_nontrivial"] = len(seen)
        r.cov["traces_validated_against_impl"] = r.cov["evaluations"]
        bad = judge(ops, impl)
        k = 0
        for i, o in enumerate(ops):
            if o.startswith("X ") and kv(o, "after") != "0" and k < 4:
                r.sample({"statement": text_of(o), "failed_call": kv(o, "call"), "position": kv(o, "at"), "elements_before_failure": kv(o, "after"), "outcome": impl[i]})
                k += 1
    except core.TieBroken as e:
        tie = e
    except subprocess.TimeoutExpired:
        tie = core.TieBroken("the fault-injection run did not finish in time")

    done = 0
    seen_txt = set()
    for i in bad:
        o = ops[i]
        if kv(o, "text") in seen_txt:
            continue
        seen_txt.add(kv(o, "text"))
        if o.startswith("C "):
            r.violation({"protocol": "faults", "text": text_of(o), "outcome": impl[i][:200],
                         "what": "the statement fails by itself (the driver reports errors: graphs that do not exist) and does not end with an "
                                 f"error in bounded time: {impl[i].split(' ')[0]}", "how_to_replay": "./check C20 --replay <this file>"})
            done += 1
            if done >= 3:
                break
            continue
        r.violation({"protocol": "faults", "text": text_of(o), "failed_call": kv(o, "call"), "position": kv(o, "at"),
                     "elements_before_failure": kv(o, "after"), "cfg": kv(o, "cfg"), "outcome": impl[i],
                     "what": f"driver call {kv(o, 'call')} (#{kv(o, 'at')}) failed and the statement ended with {impl[i]!r} instead of an error",
                     "how_to_replay": "./check C20 --replay <this file>"})
        done += 1
        if done >= 3:
            break
    if done:
        return
    if not pr["ok"] or tie is not None:
        r.violation({"protocol": "faults",
                     "what": "proof obligation or correspondence no longer checks; no statement that hides an injected driver failure was found",
                     "failed_theorems": [f"{n}: {why}" for n, why in pr["failed"]], "lean_errors": pr["errors"][:10],
                     "tie": (tie.what + "\n" + tie.detail) if tie else None}, found_input=False)
