"""C10 — OPTIONAL is a left outer join: it never removes rows."""
from . import querycheck


def run(r):
    querycheck.run(r, "optional", "BW.Props.C10",
                   "proof: in the planner model, processing an OPTIONAL clause under any of its strategies keeps every row "
                   "(extended by the match, or once with the new bindings NULL) and never makes the pattern unresolvable; the "
                   "same for the reference semantics (Props/C10.lean); tie: the `query` correspondence with OPTIONAL clauses "
                   "in every position after the first, sharing 0/1/more bindings, fully specified, several in sequence, with "
                   "extractions that may not apply — implementation vs planner model vs left-outer-join reference semantics; "
                   "the mandatory prefix always binds something (a pattern whose prefix binds nothing cannot be represented "
                   "by the result table: known finding D35, replayed from its witness)")
