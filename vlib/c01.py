"""C01 — a store is a map from graph names to independent sets of triples."""
from . import storecheck


def run(r):
    storecheck.run(r, "store", "BW.Props.C01",
                   "proof: refinement of the memory store (seven indexes driven by facts regenerated from memory.go's AST) to "
                   "the specification names ↦ duplicate-free sets, by induction over all finite histories (Props/C01.lean); "
                   "tie: generated and exhaustive-small-scope histories (every subset of a 4-triple universe x every single "
                   "operation; random histories over 3 names and 6-20 triples incl. UUID-colliding pairs) executed on the real "
                   "store, the Lean model and the Lean spec, comparing after every step names, Graph() result, full listing "
                   "and Exist for the whole universe in every graph; a case is one operation line, distinct non-trivial = "
                   "distinct (operation, answer) pairs whose answer is not an empty/ok/err/false one")
