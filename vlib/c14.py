"""C14 — query results depend only on data and query meaning, not on order or scheduling."""
import os
import re
from collections import Counter

from . import core, gen
from . import querycheck as qc

SIZES = {"quick": 200, "thorough": 3000}

RULE = ("proof: of the reference semantics (Props/C14.lean) — the multiset of solutions is invariant under any re-partition of "
        "the scanned triples over graphs, a consistent (injective) renaming of bindings renames columns and nothing else, "
        "without OPTIONAL growing data never lowers the multiplicity of a solution, ORDER BY keys that are a total order on "
        "the rows give one sequence for every arrival order, every permutation of the clauses of a pattern without OPTIONAL "
        "and without row-bounded predicates gives the same multiset of result rows (clause_order_invariant). Tie: metamorphic three-way runs — for each generated store (3-20 distinct triples laid out "
        "as 1 graph, 2 and 3 disjoint parts, and a superset graph) and each base SELECT (1-4 clauses, OPTIONAL in a third, "
        "aliases, bounds; no LIMIT/FILTER) the variants {other chanSize/bulkSize/GOMAXPROCS, bijective renaming incl. "
        "permuting the names, FROM over the 2- and 3-part layouts, permuted clauses (no OPTIONAL), superset graph (no OPTIONAL), "
        "ORDER BY over all output columns twice and on the partitioned layout} are executed by the real engine, the Lean "
        "planner model and the Lean reference semantics; each variant is compared impl/model/spec as in C03 and each relation "
        "(same multiset, same rows under other column names, sub-multiset, same sequence) is evaluated on all three streams. "
        "non-trivial = distinct base/variant pairs whose base result has >= 1 row; total-order relations are only demanded "
        "when no ORDER BY key column mixes kinds of values (the comparison is not transitive across kinds)")


def seq(x):
    r = x.split("rows=", 1)[1] if "rows=" in x else ""
    r = re.sub(r"(\bT,-?\d+),-?\d+", r"\1", r)
    r = re.sub(r"(\bPT,[0-9a-f-]+,-?\d+),-?\d+", r"\1", r)
    return r.split(";") if r else []


def holds(rel, o_a, a, b):
    """Does relation `rel` hold between the answers a and b? None = not demanded here."""
    if not (a.startswith("ok") and b.startswith("ok")):
        return a.split(" ")[0] == b.split(" ")[0]
    if rel == "same":
        return qc.cols(a) == qc.cols(b) and sorted(seq(a)) == sorted(seq(b))
    if rel == "samerows":
        return sorted(seq(a)) == sorted(seq(b))
    if rel == "sub":
        return qc.cols(a) == qc.cols(b) and qc.submulti(seq(a), seq(b))
    if rel == "permcols":
        # the SELECT list in another order: the same rows, their cells under the same column names
        ca, cb = qc.cols(a).split(","), qc.cols(b).split(",")
        if sorted(ca) != sorted(cb):
            return False
        if len(set(ca)) != len(ca):
            return None   # two columns of one name: which is which is not defined
        def keyed(cs, rows):
            return sorted(tuple(sorted(zip(cs, r.split("|")))) for r in rows)
        return keyed(ca, seq(a)) == keyed(cb, seq(b))
    if rel == "sameseq":
        if qc.kinds_mixed(o_a, a) or qc.kinds_mixed(o_a, b):
            return None
        return qc.cols(a) == qc.cols(b) and seq(a) == seq(b)
    return False


def mfields(o):
    return dict(w.split("=", 1) for w in o.split()[1:])


def qid_of(o):
    return int(o.split()[1].split("=")[1])


def exec_impl(lines, tag):
    d = core.SCRATCH
    os.makedirs(d, exist_ok=True)
    p = os.path.join(d, f"{tag}.ops")
    with open(p, "w") as f:
        f.write("\n".join(lines) + "\n")
    core.run_bwh(["storeexec", "-ops", p, "-impl", p + ".impl"])
    return core.read_lines(p + ".impl")[:len(lines)]


def relation_fails(lines, tag, tries=4):
    """lines = setup + Q a + Q b + M; True if the implementation breaks the relation (any of `tries` runs)."""
    f = mfields(lines[-1])
    for _ in range(tries):
        impl = exec_impl(lines, tag)
        if holds(f["rel"], lines[-3], impl[-3], impl[-2]) is False:
            return True
    return False


def shrink(lines, tag):
    """Drop triples (from every graph at once, so that the layouts stay layouts of one data set)."""
    cur = list(lines)
    ids = sorted({i for l in cur if l.startswith("add ") for i in l.split()[2].split(",") if i != "-"}, key=int)
    budget = 40
    for tid in reversed(ids):
        if budget <= 0:
            break
        budget -= 1
        cand = []
        for l in cur:
            if l.startswith("add "):
                f = l.split()
                rest = [i for i in f[2].split(",") if i != tid and i != "-"]
                cand.append(f"add {f[1]} {','.join(rest) if rest else '-'}")
            elif l.startswith("T ") and l.split()[1] == tid:
                continue
            else:
                cand.append(l)
        try:
            if relation_fails(cand, tag, tries=2):
                cur = cand
        except core.TieBroken:
            pass
    return cur


def run(r: core.Run):
    n = SIZES[r.tier]
    gen.regen_all()
    pr = core.prove("BW.Props.C14", extra_targets=["bwdriver"])
    r.add_proof(pr, "BW.Props.C14")
    if r.tier == "thorough":
        ok, out, secs = core.leanchecker("BW.Props.C14")
        r.notes["leanchecker"] = {"ok": ok, "secs": round(secs, 1)}
        if not ok:
            pr["ok"] = False
            pr["failed"].append(("leanchecker", out[-500:]))
    r.cov["rule"] = RULE
    d = core.SCRATCH
    os.makedirs(d, exist_ok=True)
    base = os.path.join(d, "C14-meta")

    if r.replay_input is not None:
        lines = r.replay_input.get("ops", [])
        if lines and lines[-1].startswith("M "):
            if relation_fails(lines, "C14-replay", tries=8):
                r.violation({"protocol": "query/meta", "ops": lines, "what": "replayed pair still breaks the relation " + lines[-1]})
        elif lines:
            why = qc.still_fails(lines, "C14-replay")
            if why:
                r.violation({"protocol": "query", "ops": lines, "what": "replayed scenario still contradicts the specification: " + why})
        return

    tie = None
    bad_rel, bad_spec = [], []
    ops = impl = model = spec = []
    try:
        stats = core.run_bwh(["meta", "-n", str(n), "-per", "6", "-ops", base + ".ops", "-impl", base + ".impl"],
                             extra_env={"VERIF_SEED": str(r.seed)}, timeout=3000)
        r.notes["generator"] = {l.split()[1]: int(l.split()[2]) for l in stats if l.startswith(("kind ", "hist "))}
        if not pr["built"]:
            ok, log, _ = core.lake_build(["bwdriver"])
            if not ok:
                raise core.TieBroken("Lean driver does not build", log[-2000:])
        core.run_driver(["query", "model"], stdin_path=base + ".ops", out_path=base + ".model")
        core.run_driver(["query", "spec"], stdin_path=base + ".ops", out_path=base + ".spec")
        ops, impl = core.read_lines(base + ".ops"), core.read_lines(base + ".impl")
        model, spec = core.read_lines(base + ".model"), core.read_lines(base + ".spec")
        byq = {}
        mism, relmism = [], []
        nontriv = set()
        relhist, skipped = Counter(), Counter()
        for i, o in enumerate(ops):
            if o == "reset":
                byq = {}
            elif o.startswith("Q "):
                byq[qid_of(o)] = i
                r.cov["evaluations"] += 1
                a, m, s = impl[i], model[i], spec[i]
                if a == "reject":
                    continue
                if not qc.model_agrees(o, a, m, s):
                    mism.append(i)
                why = qc.spec_verdict(o, a, s)
                if why:
                    bad_spec.append((i, why))
            elif o.startswith("M "):
                f = mfields(o)
                ia, ib = byq[int(f["a"])], byq[int(f["b"])]
                h = holds(f["rel"], ops[ia], impl[ia], impl[ib])
                if h is None:
                    skipped[f["kind"]] += 1
                    continue
                relhist[f["kind"]] += 1
                if impl[ia].startswith("ok") and len(qc.rows(impl[ia])) >= 1:
                    nontriv.add((ops[ia].split("text=")[1].split()[0], ops[ib].split("text=")[1].split()[0]))
                if not h:
                    bad_rel.append((i, ia, ib, f))
                # the theorems predict the relation on the reference semantics; the model is tied to the code
                for name, stream in (("model", model), ("spec", spec)):
                    if stream[ia] in ("unsupported", "bad-op") or stream[ib] in ("unsupported", "bad-op"):
                        continue
                    if f["rel"] == "sameseq" and (qc.kinds_mixed(ops[ia], stream[ia].split(" ", 1)[1] if stream[ia].startswith("limit=") else stream[ia])):
                        continue
                    if holds(f["rel"], ops[ia], stream[ia], stream[ib]) is False:
                        relmism.append((name, i))
        r.cov["distinct_nontrivial"] = len(nontriv)
        r.cov["traces_validated_against_impl"] = r.cov["evaluations"]
        r.notes["relations_checked"] = dict(relhist)
        r.notes["relations_outside_domain"] = dict(skipped)
        k = 0
        for i, o in enumerate(ops):
            if o.startswith("M ") and k < 4:
                f = mfields(o)
                ia, ib = byq_at(ops, i, f)
                if impl[ia].startswith("ok") and len(qc.rows(impl[ia])) >= 2:
                    r.sample({"relation": f["rel"], "kind": f["kind"], "a": qc.text_of(ops[ia]), "b": qc.text_of(ops[ib]),
                              "implementation_a": impl[ia][:160]})
                    k += 1
        if mism:
            i = mism[0]
            tie = core.TieBroken(f"query correspondence (meta): model and implementation disagree on {len(mism)} queries",
                                 f"first: {qc.text_of(ops[i])!r} impl={impl[i][:300]!r} model={model[i][:300]!r}")
        elif relmism:
            name, i = relmism[0]
            tie = core.TieBroken(f"the {name} breaks a relation that the theorems of Props/C14 predict ({len(relmism)} cases)", ops[i])
    except core.TieBroken as e:
        tie = e

    def setup(i):
        j = i
        while j > 0 and ops[j] != "reset":
            j -= 1
        return [l for l in ops[j:i] if l and not l.startswith(("#", "Q ", "M "))]

    done = 0
    for i, ia, ib, f in bad_rel:
        sc = setup(i) + [ops[ia], ops[ib], ops[i]]
        small = sc
        try:
            if relation_fails(sc, "C14-shrink", tries=3):
                small = shrink(sc, "C14-shrink")
        except core.TieBroken:
            pass
        r.violation({"protocol": "query/meta", "kind": f["kind"], "relation": f["rel"],
                     "query_a": qc.text_of(ops[ia]), "query_b": qc.text_of(ops[ib]),
                     "cfg_a": mfields(ops[ia]).get("cfg"), "cfg_b": mfields(ops[ib]).get("cfg"),
                     "implementation_a": impl[ia][:2000], "implementation_b": impl[ib][:2000], "ops": small,
                     "what": f"the two results must be related by '{f['rel']}' ({f['kind']}) and are not",
                     "how_to_replay": "./check C14 --replay <this file>"})
        done += 1
        if done >= 3:
            break
    for i, why in bad_spec[:max(0, 3 - done)]:
        sc = setup(i) + [ops[i]]
        r.violation({"protocol": "query", "query": qc.text_of(ops[i]), "ops": sc, "what": why,
                     "implementation": impl[i][:2000], "specification": spec[i][:2000]})
    if bad_rel or bad_spec:
        return
    if not pr["ok"] or tie is not None:
        r.violation({"protocol": "query/meta",
                     "what": "proof obligation or correspondence no longer checks; no pair of runs on which the implementation breaks a relation was found",
                     "failed_theorems": [f"{n}: {why}" for n, why in pr["failed"]], "lean_errors": pr["errors"][:10],
                     "tie": (tie.what + "\n" + tie.detail) if tie else None}, found_input=False)


def byq_at(ops, i, f):
    """Line numbers of the two queries an M line at i refers to (searching back to the scenario start)."""
    want = {int(f["a"]): None, int(f["b"]): None}
    j = i
    while j >= 0 and ops[j] != "reset":
        if ops[j].startswith("Q "):
            q = qid_of(ops[j])
            if q in want and want[q] is None:
                want[q] = j
        j -= 1
    return want[int(f["a"])], want[int(f["b"])]
