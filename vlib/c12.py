"""C12 — ORDER BY / LIMIT."""
from . import querycheck


def run(r):
    querycheck.run(r, "order+limit+group", "BW.Props.C12",
                   "proof: stage-level theorems on the model of the stages after the graph pattern (Props/C12.lean); tie: the "
                   "`query` correspondence in modes 'order', 'limit' and 'group' (ORDER BY over grouped rows; LIMIT without ORDER BY, lone clauses with repeated bindings included) — generated stores with int64/float64/text/bool values, nodes, "
                   "predicates and anchors in several zones; statements with the clause under test combined with every other "
                   "clause (GROUP BY keys and aliases, count/count distinct/sum, ORDER BY key lists with ASC/DESC and repeated "
                   "keys, nested HAVING expressions over every operand kind, LIMIT 0..3, global bounds); implementation vs "
                   "Lean model of the whole pipeline vs reference pipeline (solutions, then one row per group / sorted "
                   "permutation / rows satisfying HAVING / first n); tie groups of ORDER BY are canonicalised, key columns "
                   "mixing kinds are compared as multisets, aggregates are not compared when multiplicities are left open")
