"""C15 — text parsers return a well-formed value or an error for every input string."""
from . import textcheck


def run(r):
    textcheck.run(r, "C15", "BW.Props.C15",
                  "proof (partial): Props/C15.lean — on the model the graph reader loads exactly the non-blank lines before the "
                  "first malformed one and reports that count; accepted nodes are well formed; texts shorter than two bytes are "
                  "rejected. Absence of panics is a property of the Go code only: tie = `text` runs — ALL strings up to length L "
                  "over the delimiter alphabet {\" @ [ ] < > / _ : ^ t space tab}, mutations (truncate, delete, duplicate, inject "
                  "delimiters, type names, NUL, invalid UTF-8) of valid printed values and random delimiter-rich strings, each "
                  "handed to the node, predicate, literal, object and triple parsers under recover and to the model (same verdict, "
                  "same value; an accepted value must print to a text that parses to an equal value; no nil value without error); "
                  "graph texts with one malformed line (the reader must load exactly the lines before it). "
                  "non-trivial = distinct texts some parser accepts", "total")
