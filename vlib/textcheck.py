"""Shared machinery of C05 (round trips) and C15 (parsers total): the `text` correspondence."""
import os
import subprocess
from collections import Counter

from . import core, gen

SIZES = {"quick": (400, 3), "thorough": (8000, 4)}


def kv(o, k):
    for w in o.split():
        if w.startswith(k + "="):
            return w[len(k) + 1:]
    return None


def text_of(o):
    t = kv(o, "text")
    return bytes.fromhex(t).decode("utf-8", "replace") if t and t != "-" else ""


def graph_same(a, m):
    fa, fm = a.split(), m.split()
    if len(fa) < 2 or len(fm) < 2 or fa[0] != fm[0] or fa[1] != fm[1]:
        return False
    ta = fa[2].split(";") if len(fa) > 2 and not fa[2].startswith(("count", "set")) else []
    tm = fm[2].split(";") if len(fm) > 2 else []
    return sorted(set(ta)) == sorted(set(tm))


def run(r: core.Run, prop, module, rule, want):
    """want = 'roundtrip' (C05: printed values and written graphs) or 'total' (C15: arbitrary texts)."""
    n, maxlen = SIZES[r.tier]
    gen.regen_all()
    pr = core.prove(module, extra_targets=["bwdriver"])
    r.add_proof(pr, module)
    if r.tier == "thorough":
        ok, out, secs = core.leanchecker(module)
        r.notes["leanchecker"] = {"ok": ok, "secs": round(secs, 1)}
        if not ok:
            pr["ok"] = False
            pr["failed"].append(("leanchecker", out[-500:]))
    r.cov["rule"] = rule
    d = core.SCRATCH
    os.makedirs(d, exist_ok=True)
    base = os.path.join(d, f"{prop}-text")

    def judge(ops, impl, model):
        out = []
        last_value = None
        for i, o in enumerate(ops):
            if not o or o.startswith("#") or o == "reset":
                continue
            a = impl[i]
            m = model[i] if model is not None and i < len(model) else None
            kind, fam = kv(o, "kind"), kv(o, "fam")
            if o.startswith("W "):
                last_value = kv(o, "value")
                if want == "roundtrip" and m is not None and a != m:
                    out.append((i, f"printed form: implementation {a[:200]!r}, model {m[:200]!r}", "model"))
                continue
            if o.startswith("K "):
                continue
            if o.startswith("B2 "):
                if want == "total" and a != "same":
                    out.append((i, "the graph reader's count is not the number of triples it loaded before the line it cannot read: " + a[:200], "impl"))
                continue
            if o.startswith("B "):
                if want == "total" and a != "same":
                    out.append((i, "the graph reader and triple.Parse disagree about a line when both are handed the same bounded literal builder: " + a[:200], "impl"))
                continue
            if not o.startswith("X "):
                continue
            mine = (want == "roundtrip" and fam in ("printed", "written")) or (want == "total" and fam in ("short", "mutated", "malformed-line", "skeleton"))
            if not mine:
                continue
            cls = a.split(" ")[0]
            if cls in ("panic", "nilval"):
                out.append((i, {"panic": "the parser panics", "nilval": "the parser returns no value and no error"}[cls], "impl"))
                continue
            if cls == "unstable":
                out.append((i, "the accepted value does not print to a text that parses back to an equal value", "impl"))
                continue
            if kind == "graph":
                if "count-wrong" in a:
                    out.append((i, "the graph reader reports a count that is not the number of triples it loaded: " + a[a.index("count-wrong"):][:80], "impl"))
                    continue
                if want == "roundtrip":
                    if cls != "ok" or "counts-differ" in a or "set-differs" in a:
                        out.append((i, "writing a graph and reading the text back does not reproduce the graph: " + a[:160], "impl"))
                        continue
                if m is not None and not graph_same(a, m):
                    out.append((i, f"graph reader: implementation {a[:160]!r}, model {m[:160]!r}", "model"))
                continue
            if want == "roundtrip":
                if cls != "ok" or a.split(" ", 1)[1] != last_value:
                    out.append((i, f"parsing the printed form of {last_value} yields {a[:200]}", "impl"))
                    continue
            if m is not None and a.replace("unstable", "ok") != m:
                out.append((i, f"{kind} parser: implementation {a[:200]!r}, model {m[:200]!r}", "model"))
        return out

    if r.replay_input is not None:
        line = r.replay_input.get("line")
        if line:
            p = base + ".replay.ops"
            # re-run the real parser on the text of the line
            kind = kv(line, "kind")
            if line.startswith("B2 "):
                rc = subprocess.run([core.BWH, "textone", "overlong:" + kv(line, "lines"), "00"], stdout=subprocess.PIPE, stderr=subprocess.PIPE, env=core.go_env(), timeout=120)
                ans = rc.stdout.decode("utf-8", "replace").strip()
                if rc.returncode != 0 or ans != "same":
                    r.violation({"protocol": "text", "line": line, "what": "replayed text still fails: " + (ans or rc.stderr.decode()[-300:])})
                return
            if line.startswith("B "):
                rc = subprocess.run([core.BWH, "textone", "bounded:" + kv(line, "bound"), kv(line, "text")], stdout=subprocess.PIPE, stderr=subprocess.PIPE, env=core.go_env(), timeout=120)
                ans = rc.stdout.decode("utf-8", "replace").strip()
                if rc.returncode != 0 or ans != "same":
                    r.violation({"protocol": "text", "line": line, "what": "replayed text still fails: " + (ans or rc.stderr.decode()[-300:])})
                return
            rc = subprocess.run([core.BWH, "textone", kind, kv(line, "text")], stdout=subprocess.PIPE, stderr=subprocess.PIPE, env=core.go_env(), timeout=120)
            ans = rc.stdout.decode("utf-8", "replace").strip()
            if rc.returncode != 0 or ans.split(" ")[0] in ("panic", "nilval", "unstable") or \
                    (want == "roundtrip" and r.replay_input.get("expected") and ans != "ok " + r.replay_input["expected"]):
                r.violation({"protocol": "text", "line": line, "what": "replayed text still fails: " + (ans or rc.stderr.decode()[-300:])})
        return

    for f in r.findings.get("findings", []):
        if f.get("property") == prop and f.get("id", "").startswith("D06"):
            r.notes.setdefault("known_probe", f["id"])

    tie = None
    bad = []
    ops = impl = model = []
    try:
        env = core.go_env()
        env["VERIF_SEED"] = str(r.seed)
        p = subprocess.run([core.BWH, "text", "-n", str(n), "-maxlen", str(maxlen), "-ops", base + ".ops", "-impl", base + ".impl"],
                           stdout=subprocess.PIPE, stderr=subprocess.PIPE, env=env, timeout=3400)
        if p.returncode != 0:
            raise core.TieBroken("the text harness died", p.stderr.decode("utf-8", "replace")[-2500:])
        stats = p.stdout.decode("utf-8", "replace").split("\n")
        r.notes["generator"] = {l.split()[1]: int(l.split()[2]) for l in stats if l.startswith("hist ")}
        if not pr["built"]:
            ok, log, _ = core.lake_build(["bwdriver"])
            if not ok:
                raise core.TieBroken("Lean driver does not build", log[-2000:])
        core.run_driver(["text"], stdin_path=base + ".ops", out_path=base + ".model")
        ops, impl, model = core.read_lines(base + ".ops"), core.read_lines(base + ".impl"), core.read_lines(base + ".model")
        # the laws the proofs ASSUME of Go's leaf codecs, evaluated on Go itself, each inside its stated domain
        ll = core.run_bwh(["leaflaws", "-n", str(20000 if r.tier == "quick" else 400000)], extra_env={"VERIF_SEED": str(r.seed)}, timeout=3000)
        r.notes["leaf_laws"] = next((l for l in ll if l.startswith("leaflaws ")), "?")
        broken = [l for l in ll if " FAILS " in l]
        if broken:
            raise core.TieBroken("a law the text proofs assume of Go's codecs (LeafLaws) is false of Go", "\n".join(broken[:5]))
        nontriv = set()
        fams = Counter()
        for i, o in enumerate(ops):
            if o.startswith(("X ", "W ")):
                fam = kv(o, "fam") or "print"
                mine = (want == "roundtrip" and (o.startswith("W ") or fam in ("printed", "written"))) or \
                       (want == "total" and fam in ("short", "mutated", "malformed-line", "skeleton"))
                if mine:
                    r.cov["evaluations"] += 1
                    fams[fam] += 1
                    if impl[i].startswith("ok") and o.startswith("X "):
                        nontriv.add(kv(o, "kind") + kv(o, "text"))
            elif o.startswith("K newline-text") and want == "roundtrip":
                if impl[i] != "roundtrip":
                    known = [f for f in r.findings.get("findings", []) if f.get("property") == prop and f.get("id", "").startswith("D06")]
                    if known:
                        r.known(known[0]["id"], known[0]["what"])
                    else:
                        bad.append((i, "a graph holding a text literal with a line feed does not survive WriteGraph/ReadIntoGraph: " + impl[i], "impl"))
        r.cov["distinct_nontrivial"] = len(nontriv)
        r.cov["traces_validated_against_impl"] = r.cov["evaluations"]
        r.notes["families"] = dict(fams)
        bad += judge(ops, impl, model)
        k = 0
        for i, o in enumerate(ops):
            if o.startswith("X ") and impl[i].startswith("ok") and k < 4 and \
                    ((want == "roundtrip" and kv(o, "fam") == "printed" and kv(o, "kind") in ("pred", "triple")) or (want == "total" and kv(o, "fam") == "mutated")):
                r.sample({"kind": kv(o, "kind"), "text": text_of(o), "parsed": impl[i][:200]})
                k += 1
    except core.TieBroken as e:
        tie = e

    done = 0
    for i, why, kind in bad:
        if kind == "model":
            tie = tie or core.TieBroken("the text model and the implementation disagree", f"{text_of(ops[i])!r}: {why}")
            continue
        r.violation({"protocol": "text", "kind": kv(ops[i], "kind"), "text": text_of(ops[i]), "line": ops[i][:4000], "what": why,
                     "implementation": impl[i][:500], "how_to_replay": f"./check {prop} --replay <this file>"})
        done += 1
        if done >= 3:
            break
    if done:
        return
    if not pr["ok"] or tie is not None:
        r.violation({"protocol": "text",
                     "what": "proof obligation or correspondence no longer checks; no text on which the implementation breaks the property was found",
                     "failed_theorems": [f"{n_}: {why}" for n_, why in pr["failed"]], "lean_errors": pr["errors"][:10],
                     "tie": (tie.what + "\n" + tie.detail) if tie else None}, found_input=False)
