"""C16 — the lexer tokenizes every input faithfully."""
import os
import re

from . import core, gen

SIZES = {"quick": (4, 3000), "thorough": (6, 150000)}


def decode_runes(line):
    out = bytearray()
    for f in line.split()[2:]:
        if f == "-":
            continue
        out += bytes.fromhex(f.split(":")[1])
    return out.decode("utf-8", "backslashreplace")


def run(r: core.Run):
    gen.regen_all()
    pr = core.prove("BW.Props.C16", extra_targets=["bwdriver"])
    r.add_proof(pr, "BW.Props.C16")
    if r.tier == "thorough":
        ok, out, secs = core.leanchecker("BW.Props.C16")
        r.notes["leanchecker"] = {"ok": ok, "secs": round(secs, 1)}
        if not ok:
            pr["ok"] = False
            pr["failed"].append(("leanchecker", out[-500:]))
    maxlen, n = SIZES[r.tier]
    r.cov["rule"] = ("proof: for every rune list the model lexer emits a body without EOF/ERROR followed by exactly one of them, "
                     "token texts are ordered non-overlapping substrings, keyword recognition depends only on fold classes, "
                     "white space at a token boundary is invisible (Props/C16.lean; tables regenerated from lexer.go); tie: "
                     f"all strings of length <= {maxlen} over a 16-symbol alphabet reaching every lexer state, grammar-derived "
                     "statements with whitespace/case variants, printed forms, mutations and random Unicode incl. invalid UTF-8, "
                     "channel capacities 0/1/2/7 — token (kind, text) sequences compared between the real lexer and the model; "
                     "the property's own words (ordered substrings, one terminal token, case/whitespace/printed-form laws) are "
                     "evaluated on the implementation's output; non-trivial = distinct inputs yielding >= 2 tokens")
    d = core.SCRATCH
    os.makedirs(d, exist_ok=True)
    base = os.path.join(d, "C16")
    tie = None
    bad = []
    d36 = next((f for f in r.findings.get("findings", []) if f.get("property") == "C16" and f.get("id", "").startswith("D36")), None)
    d36_seen = False

    def in_d36(hexform):
        try:
            t = bytes.fromhex(hexform).decode("utf-8", "replace")
        except ValueError:
            return False
        m = re.match(r'^"(.*)"\^\^type:text$', t, re.S)
        return bool(m) and m.group(1).endswith("\\")
    d38 = next((f for f in r.findings.get("findings", []) if f.get("property") == "C16" and f.get("id", "").startswith("D38")), None)
    d38_seen = False

    def in_d38(hexform):
        try:
            t = bytes.fromhex(hexform).decode("utf-8", "replace")
        except ValueError:
            return False
        return bool(re.match(r'^/[^<>]*\\<[^<>]*>$', t, re.S))
    try:
        stats = core.run_bwh(["lex", "-maxlen", str(maxlen), "-n", str(n), "-ops", base + ".ops", "-impl", base + ".impl"],
                             extra_env={"VERIF_SEED": str(r.seed)}, timeout=3000)
        r.notes["distribution"] = {l.split()[1]: int(l.split()[2]) for l in stats if l.startswith("hist ")}
        if not pr["built"]:
            ok, log, _ = core.lake_build(["bwdriver"])
            if not ok:
                raise core.TieBroken("Lean driver does not build on the regenerated lexer tables", log[-2000:])
        core.run_driver(["lex"], stdin_path=base + ".ops", out_path=base + ".model")
        ops, impl, model = core.read_lines(base + ".ops"), core.read_lines(base + ".impl"), core.read_lines(base + ".model")
        nontriv = set()
        mism = []
        for i, o in enumerate(ops):
            if not o:
                continue
            r.cov["evaluations"] += 1
            a = impl[i] if i < len(impl) else "<missing>"
            m = model[i] if i < len(model) else "<missing>"
            if o.startswith("L "):
                if a.count(",") >= 1:
                    nontriv.add(o)
                if not a.endswith("| ok"):
                    bad.append((i, o, a, "the emitted tokens violate the property's own words: " + a.split("|")[-1].strip()))
                if a != m:
                    mism.append((i, o, a, m))
            else:
                nontriv.add(o)
                if a != "ok":
                    f = o.split()
                    if f[1] == "printed" and d36 is not None and in_d36(f[2]):
                        # known finding D36 (identified by its class: a printed text literal whose value ends with a
                        # backslash); reported once, while its witness reproduces
                        if f[2] == d36.get("witness"):
                            d36_seen = True
                        continue
                    if f[1] == "printed" and d38 is not None and in_d38(f[2]):
                        # known finding D38 (class: a printed node whose type ends with a backslash)
                        if f[2] == d38.get("witness"):
                            d38_seen = True
                        continue
                    bad.append((i, o, a, f"metamorphic law '{f[1]}' fails on the real lexer: {a}"))
        r.cov["distinct_nontrivial"] = len(nontriv)
        r.cov["traces_validated_against_impl"] = r.cov["evaluations"]
        r.cov["exhaustive"] = False
        r.notes["exhaustive_part"] = f"all strings of length <= {maxlen} over 16 symbols"
        k = 0
        for i, o in enumerate(ops):
            if o.startswith("L ") and impl[i].count(",") >= 3:
                r.sample({"input": decode_runes(o), "tokens": impl[i][:300]})
                k += 1
                if k >= 3:
                    break
        if mism:
            i, o, a, m = mism[0]
            tie = core.TieBroken(f"lex correspondence: model and implementation disagree on {len(mism)} inputs",
                                 f"first: input={decode_runes(o)!r} impl={a!r} model={m!r}")
            r.notes["first_mismatch_input"] = decode_runes(o)
    except core.TieBroken as e:
        tie = e
        if "HANG on input" in e.detail:
            inp = e.detail.split("HANG on input", 1)[1].strip().split("\n")[0]
            r.violation({"protocol": "lex", "what": "the real lexer does not terminate (or does not close its channel) on this input (Go-quoted); "
                         "for a metamorphic pair the hang may be on its case/whitespace variant", "input_go_quoted": inp})
            return
    if d36_seen:
        r.known(d36["id"], d36["what"])
    if d38_seen:
        r.known(d38["id"], d38["what"])
    for i, o, a, why in bad[:3]:
        payload = {"protocol": "lex", "what": why, "implementation": a, "op": o}
        if o.startswith("L "):
            payload["input"] = decode_runes(o)
        else:
            f = o.split()
            payload["inputs"] = [bytes.fromhex(x).decode("utf-8", "backslashreplace") if x != "-" else "" for x in f[2:4]]
        r.violation(payload)
    if bad:
        return
    if not pr["ok"] or tie is not None:
        r.violation({"protocol": "lex", "what": "proof obligation or correspondence no longer checks; no input on which the real lexer violates the property's own words was found",
                     "failed_theorems": [f"{n}: {why}" for n, why in pr["failed"]], "lean_errors": pr["errors"][:10],
                     "tie": (tie.what + "\n" + tie.detail) if tie else None}, found_input=False)
