"""C08 — any statement text yields a table or an error: no crash, hang or leak."""
import os
import subprocess
from collections import Counter

from . import core, gen

SIZES = {"quick": (2, 1500), "thorough": (3, 8000)}

RULE = ("proof (partial): Props/C08.lean — the lexer model ends with one final token on every text; the parser model decides every "
        "token sequence within n*(M+1)+2 steps (M re-checked against the regenerated grammar table); the goroutine life-cycle "
        "model of the four channel hand-overs (lexer->parser, driver->relay, relay->row builder, CONSTRUCT loop->bulk writer) never "
        "leaves a goroutine behind, for every item count, capacity, point of lost interest and point of giving up, under the "
        "policies the `concfacts` translator reads off the source (drain / close-on-every-path), and does leave one behind "
        "without them. Panics, driver calls that do not return and scheduling are outside any model: tie = `fuzz` runs of the "
        "real engine under a watchdog with the goroutine count compared before/after each call, on four families of texts "
        "(every token sequence up to length L; grammar witnesses, random grammar sentences, generated SELECT/INSERT/DELETE/"
        "CREATE/DROP/CONSTRUCT/DECONSTRUCT statements; 1-3 byte-level mutations (truncate, delete, duplicate, inject delimiters, "
        "NUL, invalid UTF-8) and statement splices; random strings over a delimiter-rich alphabet), each against an empty and "
        "a populated store, chanSize 0/1/16, bulkSize 1/3/100; the accept/reject decision of the plain grammar is compared with "
        "the Lean lexer+parser model on every text. The harness runs in its own process: a panic in a goroutine the engine "
        "started kills it, the text in flight is recovered and re-run alone. non-trivial = distinct texts the parser accepts")


def text_of(o):
    return bytes.fromhex(o.split("text=")[1].split()[0]).decode("utf-8", "replace") if "text=- " not in o else ""


def run_fuzz(args, seed, timeout):
    env = core.go_env()
    env["VERIF_SEED"] = str(seed)
    env.setdefault("GOMEMLIMIT", "6GiB")
    p = subprocess.run([core.BWH, "fuzz"] + args, stdout=subprocess.PIPE, stderr=subprocess.PIPE, env=env, timeout=timeout)
    return p.returncode, p.stdout.decode("utf-8", "replace").split("\n"), p.stderr.decode("utf-8", "replace")


def classify(ans):
    """impl answer `syn empty full` -> list of bad classes."""
    f = ans.split()
    bad = []
    for cls in f[1:]:
        for k in ("panic", "hang", "leak", "nil-table"):
            if k in cls:
                bad.append(k)
    if f and f[0] == "panic":
        bad.append("panic")
    return bad


def run(r: core.Run):
    maxlen, n = SIZES[r.tier]
    gen.regen_all()
    pr = core.prove("BW.Props.C08", extra_targets=["bwdriver"])
    r.add_proof(pr, "BW.Props.C08")
    if r.tier == "thorough":
        ok, out, secs = core.leanchecker("BW.Props.C08")
        r.notes["leanchecker"] = {"ok": ok, "secs": round(secs, 1)}
        if not ok:
            pr["ok"] = False
            pr["failed"].append(("leanchecker", out[-500:]))
    r.cov["rule"] = RULE
    d = core.SCRATCH
    os.makedirs(d, exist_ok=True)
    base = os.path.join(d, "C08-fuzz")

    def one(hextext, tag):
        rc, _, err = run_fuzz(["-only", hextext, "-ops", base + f".{tag}.ops", "-impl", base + f".{tag}.impl"], r.seed, 120)
        if rc != 0:
            return "crash", err[-1500:]
        impl = [l for l in core.read_lines(base + f".{tag}.impl") if l]
        bad = classify(impl[0]) if impl else ["no-answer"]
        return (",".join(bad) if bad else None), (impl[0] if impl else "")

    if r.replay_input is not None:
        hx = r.replay_input.get("text_hex")
        if hx is not None:
            for _ in range(3):
                what, detail = one(hx, "replay")
                if what:
                    r.violation({"protocol": "fuzz", "text_hex": hx, "text": r.replay_input.get("text"), "what": f"replayed text still ends with {what}", "detail": detail})
                    break
        return

    tie = None
    bad = []
    try:
        rc, stats, err = run_fuzz(["-maxlen", str(maxlen), "-n", str(n), "-ops", base + ".ops", "-impl", base + ".impl", "-current", base + ".cur"],
                                  r.seed, 3400)
        if rc != 0:
            # the process died: a panic outside the calling goroutine, a fatal error, or the memory limit
            cur = (core.read_lines(base + ".cur") or [""])[0].strip()
            what, detail = ("crash", err[-1500:])
            if cur:
                w2, d2 = one(cur, "postmortem")
                what, detail = (w2 or "crash (not reproduced alone)"), (d2 or err[-1500:])
            r.violation({"protocol": "fuzz", "text_hex": cur, "text": bytes.fromhex(cur).decode("utf-8", "replace") if cur else None,
                         "what": f"the engine process died while executing this text: {what}", "detail": detail,
                         "how_to_replay": "./check C08 --replay <this file>"})
            return
        r.notes["generator"] = {" ".join(l.split()[:2]): int(l.split()[2]) for l in stats if l.startswith(("hist ", "family "))}
        if not pr["built"]:
            ok, log, _ = core.lake_build(["bwdriver"])
            if not ok:
                raise core.TieBroken("Lean driver does not build", log[-2000:])
        core.run_driver(["fuzz"], stdin_path=base + ".ops", out_path=base + ".model")
        ops, impl, model = core.read_lines(base + ".ops"), core.read_lines(base + ".impl"), core.read_lines(base + ".model")
        accepted = set()
        mism = []
        outcomes = Counter()
        for i, o in enumerate(ops):
            if not o.startswith("F "):
                continue
            r.cov["evaluations"] += 1
            a, m = impl[i], model[i]
            f = a.split()
            for cls in f[1:]:
                outcomes[cls] += 1
            if f[0] == "accept":
                accepted.add(o.split("text=")[1].split()[0])
            if f[0] != m:
                mism.append(i)
            b = classify(a)
            if b:
                bad.append((i, b))
        r.cov["distinct_nontrivial"] = len(accepted)
        r.cov["traces_validated_against_impl"] = r.cov["evaluations"]
        r.notes["outcomes"] = dict(outcomes)
        k = 0
        for i, o in enumerate(ops):
            if o.startswith("F ") and "fam=mutated" in o and impl[i].split()[0] == "accept" and k < 3:
                r.sample({"family": "mutated", "text": text_of(o), "answer": impl[i]})
                k += 1
        for i, o in enumerate(ops):
            if o.startswith("F ") and "fam=random" in o and k < 5:
                r.sample({"family": "random", "text": text_of(o), "answer": impl[i]})
                k += 1
        if mism:
            i = mism[0]
            tie = core.TieBroken(f"lexer+parser model and the real parser disagree on {len(mism)} texts",
                                 f"first: {text_of(ops[i])!r}: grammar.BQL() says {impl[i].split()[0]}, model says {model[i]}")
    except core.TieBroken as e:
        tie = e
    except subprocess.TimeoutExpired:
        tie = core.TieBroken("the fuzz run did not finish in time")

    done = 0
    for i, b in bad:
        hx = ops[i].split("text=")[1].split()[0]
        # hangs and leaks are timing-dependent: confirm alone
        what, detail = one(hx, "confirm")
        if not what and set(b) <= {"hang", "leak"}:
            continue
        r.violation({"protocol": "fuzz", "text_hex": hx, "text": text_of(ops[i]), "what": f"the call ends with {','.join(b)}",
                     "answer (syntax, empty store, populated store)": impl[i], "confirmed_alone": what, "how_to_replay": "./check C08 --replay <this file>"})
        done += 1
        if done >= 3:
            break
    if done:
        return
    if not pr["ok"] or tie is not None:
        r.violation({"protocol": "fuzz",
                     "what": "proof obligation or correspondence no longer checks; no text on which the engine crashes, hangs or leaks was found",
                     "failed_theorems": [f"{n}: {why}" for n, why in pr["failed"]], "lean_errors": pr["errors"][:10],
                     "tie": (tie.what + "\n" + tie.detail) if tie else None}, found_input=False)
