"""C03 — SELECT returns exactly the solutions of its graph pattern."""
from . import querycheck


def run(r):
    querycheck.run(r, "plain", "BW.Props.C03",
                   "proof (partial): the reference semantics (solutions = clause-by-clause join of the matches on a scan) "
                   "respects constants, predicate kinds and closed time windows, contains every compatible match and nothing "
                   "else, is monotone in the data; the planner model joins only rows agreeing on shared bindings "
                   "(Props/C03.lean). NOT proved: equality of the planner's table with the solutions for every pattern — tied by "
                   "the three-way correspondence: generated stores (1-3 graphs, 3-20 triples over a vocabulary with immutable and "
                   "temporal predicates sharing ids, all literal kinds, reified predicates, the same instant in two zones) and "
                   "SELECTs of 1-4 clauses built from stored triples (so that joins are non-empty) plus random clauses, "
                   "constants/bindings in every position, repeated bindings, anchor bindings, bounds, TYPE/ID/AT/AS, global "
                   "bounds, LIMIT; real lexer→parser→planner vs Lean planner model (on the Statement the real parser produced) vs "
                   "Lean reference semantics; multisets compared, sets when a triple sits in two listed graphs or a clause has an "
                   "interval predicate; non-trivial = distinct query texts with >= 1 row")
