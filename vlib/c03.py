"""C03 — SELECT returns exactly the solutions of its graph pattern."""
from . import querycheck


def run(r):
    querycheck.run(r, "plain", "BW.Props.C03",
                   "proof: (Props/C03.lean) the planner model's table is the set of solutions of the reference semantics for every "
                   "pattern (select_pattern_eq_solutions: fetch = clause match on a scan, every strategy of processClause = one "
                   "join step, loop invariant), as sets of rows up to anchor zone, under stated hypotheses on statement and data "
                   "(index invariant, distinct UUID pre-images of the values in play, parser-shaped clauses, first clause mandatory "
                   "and extracting, no FILTER, no limit push-down); the reference respects constants, kinds and closed windows. "
                   "Multiplicities and the hypotheses' complement (and the model's tie to the code) are carried by "
                   "the three-way correspondence: generated stores (1-3 graphs, 3-20 triples over a vocabulary with immutable and "
                   "temporal predicates sharing ids, all literal kinds, reified predicates, the same instant in two zones) and "
                   "SELECTs of 1-4 clauses built from stored triples (so that joins are non-empty) plus random clauses, "
                   "constants/bindings in every position, repeated bindings, anchor bindings, bounds, TYPE/ID/AT/AS, global "
                   "bounds, LIMIT; real lexer→parser→planner vs Lean planner model (on the Statement the real parser produced) vs "
                   "Lean reference semantics; multisets compared, sets when a triple sits in two listed graphs or a clause has an "
                   "interval predicate; non-trivial = distinct query texts with >= 1 row")
