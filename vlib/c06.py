"""C06 — equal UUID exactly when values are equal; UUID defined for every value."""
import os

from . import core, gen

N = {"quick": 3000, "thorough": 120000}


def pred_key(enc):
    f = enc.split(",")
    if f[0] == "PI":
        return ("PI", f[1])
    return ("PT", f[1], f[2])  # identifier and instant; the zone is irrelevant


def comp_equal(a, b):
    ka, kb = a.split(",")[0], b.split(",")[0]
    if ka in ("PI", "PT") and kb in ("PI", "PT"):
        return pred_key(a) == pred_key(b)
    return a == b


def canon(enc):
    f = enc.split(",")
    return ",".join(f[:3]) if f[0] == "PT" else enc


def listed(a, b, wit):
    a, b = canon(a), canon(b)
    return (a, b) in wit or (b, a) in wit


def in_class(a, b):
    """The call site a collision of two component values belongs to (a listed finding is identified by its call
    site: every pair of the class is the same finding), or None."""
    fa, fb = a.split(","), b.split(",")
    ka, kb = fa[0], fb[0]
    if ka[0] == "L" and kb[0] == "L" and ka != kb:
        return "lit-cross-type"
    if ka == "N" and kb == "N" and len(fa) == 3 and len(fb) == 3 and fa[1] + fa[2] == fb[1] + fb[2]:
        return "node-boundary"
    if ka == "PT" and kb == "PT" and fa[1] == fb[1]:
        try:
            if (int(fa[2]) - int(fb[2])) % (1 << 64) == 0 and fa[2] != fb[2]:
                return "anchor-wrap"
        except ValueError:
            pass
    if ka[0] != kb[0] or (ka[0] == "P" and kb[0] == "P" and ka != kb):
        return "object-kind"
    return None


def explained(kind, a, b, wit, classes=(), model_eq=False):
    """Is the collision of a and b (same UUID, different values) one of the listed findings — a listed witness
    pair, or a pair of the class (call site) of a listed finding that the proved pre-image model predicts — or,
    for a triple, entirely due to such component collisions?"""
    if comp_equal(a, b):
        return True
    if listed(a, b, wit):
        return True
    if kind != "triple" and model_eq and in_class(a, b) in classes:
        return True
    if kind == "triple":
        ca, cb = a.split(" "), b.split(" ")
        return all(comp_equal(x, y) or listed(x, y, wit) or (model_eq and in_class(x, y) in classes) for x, y in zip(ca, cb))
    return False


def run(r: core.Run):
    gen.regen_all()
    pr = core.prove("BW.Props.C06", extra_targets=["bwdriver"])
    r.add_proof(pr, "BW.Props.C06")
    if r.tier == "thorough":
        ok, out, secs = core.leanchecker("BW.Props.C06")
        r.notes["leanchecker"] = {"ok": ok, "secs": round(secs, 1)}
        if not ok:
            pr["ok"] = False
            pr["failed"].append(("leanchecker", out[-500:]))
    r.cov["rule"] = ("proof: injectivity of the SHA-1 pre-images of predicates (identifier, kind, 64-bit instant), of literals "
                     "within a type, of nodes of equal type or equal id, zone irrelevance, totality after the D03 repair, and "
                     "closed counter-witnesses where the pre-image is not injective (Props/C06.lean); tie: for every generated "
                     "value the model's pre-image is hashed with Go's own uuid.NewSHA1 and must equal UUID() byte for byte "
                     "(near-collision families, the shared universe, all int64 2^k±1 and float64 single-bit patterns, random "
                     "triples); pairs are compared implementation (UUID equal) / model (pre-image equal) / spec (values equal); "
                     "non-trivial = distinct values with a UUID + distinct pairs with equal UUIDs")
    d = core.SCRATCH
    os.makedirs(d, exist_ok=True)
    base = os.path.join(d, "C06")
    tie = None
    bad = []
    wit = set()
    finds = [f for f in r.findings.get("findings", []) if f.get("property") == "C06"]
    for f in finds:
        for a, b in f.get("witness_pairs", []):
            wit.add((canon(a), canon(b)))
    reproduced = set()
    try:
        core.run_bwh(["uuid", "-n", str(N[r.tier]), "-ops", base + ".ops", "-impl", base + ".impl"], extra_env={"VERIF_SEED": str(r.seed)})
        if not pr["built"]:
            ok, log, _ = core.lake_build(["bwdriver"])
            if not ok:
                raise core.TieBroken("Lean driver does not build", log[-2000:])
        core.run_driver(["uuid", "model"], stdin_path=base + ".ops", out_path=base + ".model")
        core.run_driver(["uuid", "spec"], stdin_path=base + ".ops", out_path=base + ".spec")
        ver = core.run_bwh(["uuidverify", "-impl", base + ".impl", "-model", base + ".model"])
        ops, impl, spec = core.read_lines(base + ".ops"), core.read_lines(base + ".impl"), core.read_lines(base + ".spec")
        model = core.read_lines(base + ".model")
        classes = {f.get("class") for f in finds if f.get("class")}
        mism = [l for l in ver if l and not l.endswith(" ok")]
        vals, kinds = {}, {}
        distinct = set()
        for i, o in enumerate(ops):
            f = o.split()
            if not f:
                continue
            r.cov["evaluations"] += 1
            if f[0] == "V":
                vals[f[1]] = " ".join(f[3:])
                kinds[f[1]] = f[2]
                a = impl[i]
                if a.startswith("uuid"):
                    distinct.add(("V", vals[f[1]]))
                if a == "panic":
                    bad.append({"what": "UUID() panics: the UUID is not defined for this value", "value": o})
                if "nondeterministic" in a:
                    bad.append({"what": "UUID() differs between calls/goroutines", "value": o})
                if len(r.cov["samples"]) < 3 and f[2] in ("pred", "triple"):
                    r.sample({"value": o, "implementation": a})
            elif f[0] == "E":
                a, s = impl[i], spec[i]
                va, vb, k = vals.get(f[1], "?"), vals.get(f[2], "?"), kinds.get(f[1], "?")
                if a.startswith("eq"):
                    distinct.add(("E", va, vb))
                if "Equal-disagrees" in a:
                    bad.append({"what": "Triple.Equal disagrees with UUID equality", "pair": [va, vb]})
                if a.split(" ")[0] != s:
                    meq = i < len(model) and model[i].split(" ")[0] == "eq"
                    if a.startswith("eq") and explained(k, va, vb, wit, classes, meq):
                        for f_ in finds:
                            for x, y in f_.get("witness_pairs", []):
                                if k != "triple" and listed(va, vb, {(canon(x), canon(y))}):
                                    reproduced.add(f_["id"])
                            if k != "triple" and meq and f_.get("class") and in_class(va, vb) == f_["class"]:
                                reproduced.add(f_["id"])
                    else:
                        bad.append({"what": f"UUIDs are {'equal' if a.startswith('eq') else 'different'} but the values are "
                                            f"{'equal' if s == 'eq' else 'different'}", "kind": k, "pair": [va, vb]})
        r.cov["distinct_nontrivial"] = len(distinct)
        r.cov["traces_validated_against_impl"] = sum(1 for l in ver if l.endswith(" ok"))
        if mism:
            tie = core.TieBroken(f"values/uuid correspondence: {len(mism)} model pre-images do not hash to the implementation's UUID",
                                 "\n".join(mism[:5]))
            # search for a concrete failing pair: a value whose UUID is not the hash of its pre-image but is the UUID of
            # another, different value of the run (for every value that corresponds, UUID = hash of its pre-image, so
            # the model says the two differ)
            by_uuid = {}
            for i, o in enumerate(ops):
                f = o.split()
                if f and f[0] == "V" and i < len(impl) and impl[i].startswith("uuid "):
                    by_uuid.setdefault(impl[i].split()[1], []).append((i, f[2], " ".join(f[3:])))
            for tier_kinds in (("node", "pred", "lit", "obj"), ("triple",)):
                for l in mism:
                    try:
                        idx = int(l.split()[0]) - 1
                        f = ops[idx].split()
                        u = impl[idx].split()[1]
                    except (ValueError, IndexError):
                        continue
                    if len(f) < 4 or f[0] != "V" or f[2] not in tier_kinds:
                        continue
                    va = " ".join(f[3:])
                    for j, k2, vb in by_uuid.get(u, []):
                        if j != idx and k2 == f[2] and not explained(k2, va, vb, wit):
                            bad.append({"what": "UUIDs are equal but the values are different (found through a value whose UUID is "
                                                "not the hash of its model pre-image)", "kind": k2, "pair": [va, vb]})
                            break
                    if len(bad) >= 3:
                        break
                if bad:
                    break
    except core.TieBroken as e:
        tie = e
    for f in finds:
        if f["id"] in reproduced:
            r.known(f["id"], f["what"])
    seen = set()
    for b in bad:
        key = str(b.get("pair") or b.get("value"))
        if key in seen:
            continue
        seen.add(key)
        if len(seen) <= 5:
            r.violation(dict(b, protocol="uuid", how_to_replay="./check C06 (the failing value/pair is part of the deterministic families or regenerated from the seed)"))
    if bad:
        return
    if not pr["ok"] or tie is not None:
        r.violation({"protocol": "uuid", "what": "proof obligation or correspondence no longer checks; no value or pair contradicting the property was found",
                     "failed_theorems": [f"{n}: {why}" for n, why in pr["failed"]], "lean_errors": pr["errors"][:10],
                     "tie": (tie.what + "\n" + tie.detail) if tie else None}, found_input=False)
