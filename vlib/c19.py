"""C19 — the memoizing store is observationally identical to the store it wraps."""
import os
from collections import Counter

from . import core, gen

SIZES = {"quick": (120, 120), "thorough": (3000, 0)}

RULE = ("proof: Props/C19.lean — sequential transparency for every history (given that the key determines the answer); "
        "regenerated obligations that the key covers every LookupOptions field (Offset included), every argument of every "
        "memoizing method and a distinct operation tag; for any number of concurrent readers and writers and every "
        "interleaving of the memoizer's internal steps, whatever is memoized while no update is mid-flight is the wrapped "
        "store's current answer (invariant proof, no bound); each protection (generation check, closing reset) is shown "
        "necessary by a stale schedule. Tie: `memo` correspondence — (S) lockstep histories of 25-50 operations through 1-3 "
        "handles of one graph of memoization.New(store) against the wrapped memory store: adds/removes of 1-4 triples, Exist, "
        "all eleven lookups with arguments from stored triples, default and random options (bounds, latest, filters, page "
        "size and offset), 1 in 15 wrapped lookups failed after one element; (I) for thread sets {W,R}, {W,R,R}, {W,W,R}, same "
        "or different keys, warm or cold, add or remove: schedules of the verif yield points (sampled at quick tier, ALL at "
        "thorough tier) executed on the real memoizer by a deterministic scheduler and on the Lean small-step model; what each "
        "lookup saw (before/after the update) and what lookups after the end see must agree, and the latter must be the "
        "state after the update. non-trivial = distinct schedules plus lockstep reads with a non-empty answer")


def kv(o, k):
    for w in o.split():
        if w.startswith(k + "="):
            return w[len(k) + 1:]
    return None


def run(r: core.Run):
    n, sample = SIZES[r.tier]
    gen.regen_all()
    pr = core.prove("BW.Props.C19", extra_targets=["bwdriver"])
    r.add_proof(pr, "BW.Props.C19")
    if r.tier == "thorough":
        ok, out, secs = core.leanchecker("BW.Props.C19")
        r.notes["leanchecker"] = {"ok": ok, "secs": round(secs, 1)}
        if not ok:
            pr["ok"] = False
            pr["failed"].append(("leanchecker", out[-500:]))
    r.cov["rule"] = RULE
    d = core.SCRATCH
    os.makedirs(d, exist_ok=True)
    base = os.path.join(d, "C19-memo")

    def judge(ops, impl, model):
        """(index, what, kind) for every failure; kind 'impl' = the property is violated on the implementation."""
        out = []
        for i, o in enumerate(ops):
            if o.startswith("S "):
                if not impl[i].startswith("same"):
                    out.append((i, "through the memoizer the answer differs from the wrapped store's: " + impl[i][:300], "impl"))
            elif o.startswith("I "):
                a = impl[i]
                if a == "hang":
                    out.append((i, "the schedule does not finish (deadlock)", "impl"))
                    continue
                fin = a.split("final=")[1] if "final=" in a else "?"
                if fin != "11":
                    out.append((i, f"after the update returned, lookups see {fin} (1 = state after the update, 0 = before)", "impl"))
                elif model is not None and i < len(model) and model[i] != a:
                    out.append((i, f"implementation {a!r}, model {model[i]!r}", "model"))
        return out

    def scenario(ops, i):
        if ops[i].startswith("I "):
            return [ops[i]]
        j = i
        while j > 0 and ops[j] != "reset":
            j -= 1
        return [l for l in ops[j:i + 1] if l and not l.startswith("#")]

    if r.replay_input is not None:
        line = r.replay_input.get("line")
        if line and line.startswith("I "):
            # re-run the one schedule
            sp = base + ".replay.ops"
            env = {"VERIF_SEED": str(r.seed)}
            core.run_bwh(["memo", "-n", "0", "-sample", "0", "-only", line, "-ops", sp, "-impl", sp + ".impl"], extra_env=env)
            ops, impl = core.read_lines(sp), core.read_lines(sp + ".impl")
            bad = judge(ops, impl, None)
            if bad:
                r.violation({"protocol": "memo", "line": line, "what": "replayed schedule still fails: " + bad[0][1]})
        elif r.replay_input.get("seed_of_run") is not None:
            sp = base + ".replay.ops"
            core.run_bwh(["memo", "-n", str(r.replay_input.get("n", n)), "-sample", "1", "-ops", sp, "-impl", sp + ".impl"],
                         extra_env={"VERIF_SEED": str(r.replay_input["seed_of_run"])})
            ops, impl = core.read_lines(sp), core.read_lines(sp + ".impl")
            bad = [b for b in judge(ops, impl, None) if ops[b[0]].startswith("S ")]
            if bad:
                r.violation({"protocol": "memo", "seed_of_run": r.replay_input["seed_of_run"], "what": "replayed history still fails: " + bad[0][1],
                             "ops": scenario(ops, bad[0][0])})
        return

    tie = None
    bad = []
    ops = impl = model = []
    try:
        stats = core.run_bwh(["memo", "-n", str(n), "-sample", str(sample), "-ops", base + ".ops", "-impl", base + ".impl"],
                             extra_env={"VERIF_SEED": str(r.seed)}, timeout=3400)
        r.notes["generator"] = {l.split()[1]: int(l.split()[2]) for l in stats if l.startswith("hist ")}
        if not pr["built"]:
            ok, log, _ = core.lake_build(["bwdriver"])
            if not ok:
                raise core.TieBroken("Lean driver does not build", log[-2000:])
        core.run_driver(["memo"], stdin_path=base + ".ops", out_path=base + ".model")
        ops, impl, model = core.read_lines(base + ".ops"), core.read_lines(base + ".impl"), core.read_lines(base + ".model")
        outcomes = Counter()
        distinct = set()
        for i, o in enumerate(ops):
            if o.startswith("I "):
                r.cov["evaluations"] += 1
                outcomes[impl[i]] += 1
                distinct.add(o)
            elif o.startswith("S "):
                r.cov["evaluations"] += 1
        r.cov["distinct_nontrivial"] = len(distinct) + r.notes["generator"].get("read-nonempty", 0)
        r.cov["traces_validated_against_impl"] = r.cov["evaluations"]
        r.cov["exhaustive"] = sample == 0
        r.notes["interleaving_outcomes"] = dict(outcomes)
        bad = judge(ops, impl, model)
        k = 0
        for i, o in enumerate(ops):
            if o.startswith("I ") and "threads=WRR" in o and impl[i].startswith("r=1,0") and k < 2:
                r.sample({"schedule": o, "implementation": impl[i], "model": model[i]})
                k += 1
        for i, o in enumerate(ops):
            if o.startswith("S look") and k < 4:
                r.sample({"history_step": o, "answer": impl[i]})
                k += 1
    except core.TieBroken as e:
        tie = e

    done = 0
    for i, why, kind in bad:
        if kind == "model":
            tie = tie or core.TieBroken("the small-step model and the memoizer disagree on a schedule", ops[i] + " :: " + why)
            continue
        payload = {"protocol": "memo", "what": why, "how_to_replay": "./check C19 --replay <this file>"}
        if ops[i].startswith("I "):
            payload.update({"line": ops[i], "implementation": impl[i], "model": model[i] if i < len(model) else None})
        else:
            payload.update({"seed_of_run": r.seed, "n": n, "ops": scenario(ops, i)})
        r.violation(payload)
        done += 1
        if done >= 3:
            break
    if done:
        return
    if not pr["ok"] or tie is not None:
        r.violation({"protocol": "memo",
                     "what": "proof obligation or correspondence no longer checks; no history or schedule on which the memoizer differs from the wrapped store was found",
                     "failed_theorems": [f"{n_}: {why}" for n_, why in pr["failed"]], "lean_errors": pr["errors"][:10],
                     "tie": (tie.what + "\n" + tie.detail) if tie else None}, found_input=False)
