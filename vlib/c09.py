"""C09 — lookup options: time window, filter functions and paging select as defined."""
from . import storecheck


def run(r):
    storecheck.run(r, "opts", "BW.Props.C09",
                   "proof: for all options the look-up pipeline (bounds check, LatestAnchor rewrite, filter functions, "
                   "sort, CheckLimitAndUpdate state machine) equals page n k (sortByStr (filt (window candidates))) or the "
                   "documented error; pages partition the unpaged result (Props/C09.lean); tie: look-ups with options from "
                   "the grid {anchors equal to stored anchors, lower>upper, absent sides} x {no filter, LatestAnchor, "
                   "latest/isImmutable/isTemporal/unknown op x predicate/object/subject/unknown field} x sizes {-1,0,1,2,3,1000} "
                   "x offsets {-1,0,1,2,3}; element *sequences* are compared (order matters); the spec comparison skips only "
                   "size<0 together with offset<0, where the theorem's side condition does not hold")
