"""Shared machinery of C01 / C02 / C09: histories over the memory store, three-way comparison
implementation / Lean model / Lean specification."""
import os

from . import core, gen

SIZES = {  # (histories, ops per history)
    ("store", "quick"): (120, 30), ("store", "thorough"): (4000, 40),
    ("lookups", "quick"): (250, 30), ("lookups", "thorough"): (6000, 40),
    ("opts", "quick"): (300, 30), ("opts", "thorough"): (8000, 40),
}

TRIVIAL = {"ok", "err", "false", "ok ", "T ok", "names ", ""}


def in_spec_domain(op_line):
    """The specification (and the theorem's side condition Op.ok) does not cover a negative page
    size combined with a negative offset (DESIGN.md §5 C09)."""
    f = op_line.split()
    if not f or f[0] != "look":
        return True
    lo = f[-1].split(",")
    try:
        n, k = int(lo[0]), int(lo[1])
    except ValueError:
        return True
    return n > 0 or n * k <= 0


def histories(ops):
    """Split protocol lines into histories (each starts with `reset`). Returns list of (start, end)."""
    starts = [i for i, l in enumerate(ops) if l == "reset"]
    return [(s, (starts[j + 1] if j + 1 < len(starts) else len(ops))) for j, s in enumerate(starts)]


def exec_three(ops_lines, tag):
    """Execute protocol lines on implementation, model and spec. Returns three answer lists."""
    d = core.SCRATCH
    os.makedirs(d, exist_ok=True)
    p = os.path.join(d, f"{tag}.ops")
    with open(p, "w") as f:
        f.write("\n".join(ops_lines) + "\n")
    core.run_bwh(["storeexec", "-ops", p, "-impl", p + ".impl"])
    core.run_driver(["store", "model"], stdin_path=p, out_path=p + ".model")
    core.run_driver(["store", "spec"], stdin_path=p, out_path=p + ".spec")
    return [core.read_lines(p + s)[:len(ops_lines)] for s in (".impl", ".model", ".spec")]


def spec_fails(ops_lines, tag):
    impl, _, spec = exec_three(ops_lines, tag)
    for i, l in enumerate(ops_lines):
        if in_spec_domain(l) and impl[i] != spec[i]:
            return i, impl[i], spec[i]
    return None


def shrink(ops_lines, tag):
    """Greedy one-at-a-time removal of operation lines while the implementation still contradicts the
    specification (universe definitions and `reset` are kept)."""
    cur = list(ops_lines)
    i = len(cur) - 1
    budget = 400
    while i >= 0 and budget > 0:
        l = cur[i]
        if l != "reset" and not l.startswith("T "):
            cand = cur[:i] + cur[i + 1:]
            budget -= 1
            if spec_fails(cand, tag) is not None:
                cur = cand
        i -= 1
    # drop unused universe definitions
    used = set()
    for l in cur:
        f = l.split()
        if f and f[0] in ("add", "rem") and f[2] != "-":
            used.update(f[2].split(","))
        if f and f[0] == "exist":
            used.add(f[2])
    cand = [l for l in cur if not (l.startswith("T ") and l.split()[1] not in used)]
    if spec_fails(cand, tag) is not None:
        cur = cand
    return cur


def run(r: core.Run, mode, prop_module, what):
    tier = r.tier
    n, length = SIZES[(mode, tier)]
    gen.regen_all()
    pr = core.prove(prop_module, extra_targets=["bwdriver"])
    r.add_proof(pr, prop_module)
    if tier == "thorough":
        ok, out, secs = core.leanchecker(prop_module)
        r.notes["leanchecker"] = {"ok": ok, "secs": round(secs, 1), "tail": out[-300:]}
        if not ok:
            pr["ok"] = False
            pr["failed"].append(("leanchecker", out[-500:]))
    r.cov["rule"] = what
    d = core.SCRATCH
    os.makedirs(d, exist_ok=True)
    base = os.path.join(d, f"{r.prop}-{mode}")

    if r.replay_input is not None:
        ops = r.replay_input.get("ops", [])
        res = spec_fails(ops, f"{r.prop}-replay") if ops else None
        if res is not None:
            i, a, b = res
            r.violation({"protocol": "store", "ops": ops, "failing_line": i, "implementation": a, "specification": b,
                         "what": "replayed history still contradicts the specification"})
        return

    # known findings of this property: replay each listed witness; it is reported as KNOWN-FINDING
    # while it reproduces (implementation contradicts the specification on exactly that history)
    for f in r.findings.get("findings", []):
        if f.get("property") == r.prop and f.get("ops"):
            try:
                if spec_fails(f["ops"], f"{r.prop}-known") is not None:
                    r.known(f["id"], f["what"])
            except core.TieBroken:
                pass

    tie = None
    spec_bad = []
    collisions = []
    ops = []
    try:
        stats = core.run_bwh(["store", "-mode", mode, "-n", str(n), "-len", str(length), "-ops", base + ".ops", "-impl", base + ".impl"],
                             extra_env={"VERIF_SEED": str(r.seed)})
        r.notes["op_distribution"] = {l.split()[1]: int(l.split()[2]) for l in stats if l.startswith("op ")}
        if not pr["built"]:
            ok, log, _ = core.lake_build(["bwdriver"])
            if not ok:
                raise core.TieBroken("Lean driver does not build on the regenerated facts", log[-2000:])
        core.run_driver(["store", "model"], stdin_path=base + ".ops", out_path=base + ".model")
        core.run_driver(["store", "spec"], stdin_path=base + ".ops", out_path=base + ".spec")
        ops, impl = core.read_lines(base + ".ops"), core.read_lines(base + ".impl")
        model, spec = core.read_lines(base + ".model"), core.read_lines(base + ".spec")
        nontriv = set()
        model_bad = []
        for i, l in enumerate(ops):
            if not l or l.startswith("#"):
                continue
            r.cov["evaluations"] += 1
            a = impl[i] if i < len(impl) else "<missing>"
            if a not in TRIVIAL:
                nontriv.add((l, a))
            if l.startswith("K ") and a == "collide" and i < len(model) and model[i] == "distinct":
                # two different values under one UUID, and not by one of the pre-image classes the model proves
                collisions.append(i)
                continue
            if (model[i] if i < len(model) else "<missing>") != a:
                model_bad.append(i)
            if in_spec_domain(l) and (spec[i] if i < len(spec) else "<missing>") != a:
                spec_bad.append(i)
        r.cov["distinct_nontrivial"] = len(nontriv)
        r.cov["traces_validated_against_impl"] = len(histories(ops))
        for i, l in enumerate(ops):
            if l.startswith("look") and impl[i].startswith("ok ") and len(impl[i]) > 3:
                r.sample({"op": l, "implementation": impl[i][:200], "model": model[i][:200]})
                if len(r.cov["samples"]) >= 4:
                    break
        if model_bad:
            i = model_bad[0]
            tie = core.TieBroken(f"store correspondence ({mode}): model and implementation disagree on {len(model_bad)} lines",
                                 f"first at line {i}: op={ops[i]!r} impl={impl[i]!r} model={model[i]!r}")
    except core.TieBroken as e:
        tie = e
        ops = []

    if tie is None and ops and collisions:
        for i in collisions[:3]:
            r.violation({"protocol": "store", "mode": mode, "pair": ops[i],
                         "what": "two different triples (K <s p o> <s p o>) have one UUID, outside the collision classes of the pre-image model: "
                                 "a graph holds them as one triple",
                         "how_to_replay": f"./check {r.prop} (the pair is met by the universe generator of seed {r.seed})"})
        return
    if spec_bad:
        # concrete failing input: minimise the first few (distinct histories)
        done = 0
        seen_h = set()
        hs = histories(ops)
        for i in spec_bad:
            h = next(((s, e) for s, e in hs if s <= i < e), None)
            if h is None or h in seen_h:
                continue
            seen_h.add(h)
            prefix = [l for l in ops[h[0]:i + 1] if not l.startswith("#")]
            small = shrink(prefix, f"{r.prop}-shrink")
            res = spec_fails(small, f"{r.prop}-shrink")
            fl, a, b = res if res else (len(small) - 1, impl[i], spec[i])
            r.violation({"protocol": "store", "mode": mode, "ops": small, "failing_line": fl,
                         "implementation": a, "specification": b,
                         "what": "the implementation's answer contradicts the specification (names ↦ sets; look-up = filtered scan; window/filter/page definition)",
                         "how_to_replay": f"./check {r.prop} --replay <this file>"})
            done += 1
            if done >= 3:
                break
        return
    if not pr["ok"] or tie is not None:
        r.violation({"protocol": "store", "mode": mode,
                     "what": "proof obligation or correspondence no longer checks; no history on which the implementation contradicts the specification was found",
                     "failed_theorems": [f"{n}: {why}" for n, why in pr["failed"]], "lean_errors": pr["errors"][:10],
                     "tie": (tie.what + "\n" + tie.detail) if tie else None}, found_input=False)
