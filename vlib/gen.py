"""All translators: (name of generated file, bwh arguments)."""
from . import core

TRANSLATORS = [
    ("Grammar.lean", ["gramdump"]),
    ("MemoryFacts.lean", ["memfacts"]),
    ("LexFacts.lean", ["lexfacts"]),
    ("ConcFacts.lean", ["concfacts"]),
    ("ErrFacts.lean", ["errfacts"]),
    ("MemoFacts.lean", ["memofacts"]),
    ("LockFacts.lean", ["lockfacts"]),
    ("HookFacts.lean", ["hookfacts"]),
    ("ParFacts.lean", ["parfacts"]),
]


def regen_all():
    core.build_harness()
    res = {}
    for name, args in TRANSLATORS:
        res[name] = core.regen(name, args)
    return res
