"""C07 — concurrent use of a store: linearizable, race-free, deadlock-free."""
import os
import subprocess
from collections import Counter

from . import core, gen

SIZES = {"quick": (1500, 3.0), "thorough": (40000, 40.0)}

RULE = ("proof (partial): Props/C07.lean — regenerated lock discipline of memory.go (every index access under the receiver's "
        "lock, read-locked methods write nothing, AddTriples locks the whole batch, RemoveTriples per triple, no nesting), "
        "no wait cycle with one lock at a time, a look-up that sends under the read lock with its consumer and a writer (Model/Chan.lean: a draining consumer never halts them, for every number of results and every schedule; a consumer reading the same graph can — D37), the store's lock and a graph's (Model/Chan2.lean), linearizability of calls under one readers-writer lock for every interleaving, soundness of the linearizability search. Data races, Go's memory model and "
        "runtime fairness are outside a model. Tie: `conc` runs — (H) small concurrent histories (2-3 goroutines released "
        "together, 1-3 operations each: AddTriples/RemoveTriples of random batches over six triples, Exist, Triples, and "
        "NewGraph/Graph/DeleteGraph/GraphNames on a second graph) recorded on the real driver with call/return stamps and "
        "searched for a linearization by the Lean driver (a batch of adds is one step, removes one step per triple); (L) every "
        "look-up method x eight option values (three of them error paths) must close its channel exactly once and leave the "
        "options as they were; (N) the consumer of a look-up of n results does b reads of the same graph per result, with and without a writer arriving — the implementation may come to a halt only where Model/Chan.lean's search says a halt is reachable (those are known finding D37); (S) a caller half way through reading a look-up's results uses the store (Graph, GraphNames, NewGraph, DeleteGraph) while another goroutine runs a store operation, 16 combinations: nobody waits for ever; (R) randomized stress of 12 goroutines over three graphs, sharing LookupOptions values, run on "
        "the -race build: no race report, panic or deadlock. non-trivial = recorded histories in which operations of "
        "different goroutines overlap in time")


def run(r: core.Run):
    n, secs = SIZES[r.tier]
    gen.regen_all()
    pr = core.prove("BW.Props.C07", extra_targets=["bwdriver"])
    r.add_proof(pr, "BW.Props.C07")
    if r.tier == "thorough":
        ok, out, s_ = core.leanchecker("BW.Props.C07")
        r.notes["leanchecker"] = {"ok": ok, "secs": round(s_, 1)}
        if not ok:
            pr["ok"] = False
            pr["failed"].append(("leanchecker", out[-500:]))
    r.cov["rule"] = RULE
    d = core.SCRATCH
    os.makedirs(d, exist_ok=True)
    base = os.path.join(d, "C07-conc")

    if r.replay_input is not None:
        line = r.replay_input.get("history")
        if line:
            p = base + ".replay.ops"
            open(p, "w").write(line + "\n")
            out = core.run_driver(["conc"], stdin_path=p)
            if out and out[0] != "linearizable":
                r.violation({"protocol": "conc", "history": line, "what": "the recorded history still has no linearization (" + out[0] + ")"})
        return

    tie = None
    bad = []
    d37 = next((f for f in r.findings.get("findings", []) if f.get("property") == "C07" and f.get("id", "").startswith("D37")), None)
    d37_seen = False
    try:
        stats = core.run_bwh(["conc", "-n", str(n), "-stress", "0.2", "-ops", base + ".ops", "-impl", base + ".impl"],
                             extra_env={"VERIF_SEED": str(r.seed)}, timeout=3000)
        r.notes["generator"] = {l.split()[1]: int(l.split()[2]) for l in stats if l.startswith("hist ")}
        if not pr["built"]:
            ok, log, _ = core.lake_build(["bwdriver"])
            if not ok:
                raise core.TieBroken("Lean driver does not build", log[-2000:])
        core.run_driver(["conc"], stdin_path=base + ".ops", out_path=base + ".model")
        ops, impl, model = core.read_lines(base + ".ops"), core.read_lines(base + ".impl"), core.read_lines(base + ".model")
        verdicts = Counter()
        for i, o in enumerate(ops):
            if o.startswith("H "):
                r.cov["evaluations"] += 1
                verdicts[model[i]] += 1
                if model[i] == "bad-op":
                    tie = tie or core.TieBroken("the Lean driver cannot read a recorded history", o[:300])
                elif model[i] != "linearizable":
                    bad.append((i, "history", "a concurrent history recorded on the driver has no linearization" if model[i] != "deadlock" else "the goroutines did not finish (deadlock)"))
            elif o.startswith("L "):
                r.cov["evaluations"] += 1
                if not impl[i].startswith("closed"):
                    bad.append((i, "lookup", {"hang": "the look-up never closed its channel", "panic": "the look-up panicked (closed its channel twice?)",
                                              "options-modified": "the look-up modified the LookupOptions value it was handed"}.get(impl[i], impl[i])))
            elif o.startswith("N "):
                # the consumer of a look-up reads the same graph between results: Model/Chan.lean says when the three
                # goroutines can come to a halt (D37: known finding, identified by that class)
                r.cov["evaluations"] += 1
                if model[i] not in ("can-halt", "progress"):
                    tie = tie or core.TieBroken("the Lean driver cannot read a consumer scenario", o + " -> " + model[i])
                elif impl[i] != "ok":
                    if model[i] == "can-halt" and d37 is not None:
                        d37_seen = d37_seen or o == d37.get("witness")
                    else:
                        bad.append((i, "lookup", "the consumer of a look-up and the look-up came to a halt where the model of the lock says they cannot: " + impl[i]))
            elif o.startswith("S "):
                r.cov["evaluations"] += 1
                if impl[i] != "ok":
                    bad.append((i, "lookup", "a caller half way through a look-up's results could not use the store while another goroutine ran a store operation: " + impl[i]))
            elif o.startswith("R "):
                if impl[i] != "ok":
                    bad.append((i, "stress", "randomized concurrent use ended with " + impl[i]))
        r.cov["distinct_nontrivial"] = r.notes["generator"].get("overlapping", 0)
        r.cov["traces_validated_against_impl"] = r.cov["evaluations"]
        r.notes["verdicts"] = dict(verdicts)
        k = 0
        for i, o in enumerate(ops):
            if o.startswith("H ") and len(o.split()) >= 7 and k < 3:
                r.sample({"history (thread,call,return,op,graph,triples,result)": o[2:], "verdict": model[i]})
                k += 1
        # stress under the race detector
        race_bin = core.build_harness(race=True)
        env = core.go_env()
        env.update({"VERIF_SEED": str(r.seed), "GORACE": "halt_on_error=1 exitcode=66"})
        p = subprocess.run([race_bin, "conc", "-n", "300", "-scen=false", "-stress", str(secs), "-ops", base + ".race.ops", "-impl", base + ".race.impl"],
                           stdout=subprocess.PIPE, stderr=subprocess.PIPE, env=env, timeout=3000)
        err = p.stderr.decode("utf-8", "replace")
        r.notes["race_run"] = {"exit": p.returncode, "seconds": secs}
        if "DATA RACE" in err or p.returncode == 66:
            rep = err[err.find("WARNING: DATA RACE"):][:3000]
            path = r.replay({"protocol": "conc/race", "what": "the Go race detector reports a data race in concurrent use of the store",
                             "report": rep, "how_to_replay": "./check C07 (the stress run is randomized; the report names the two accesses)"})
            r.violations.append((path, ""))
            return
        if p.returncode != 0:
            tie = tie or core.TieBroken("the -race harness died", err[-2000:])
        else:
            rl = core.read_lines(base + ".race.impl")
            ro = core.read_lines(base + ".race.ops")
            for i, o in enumerate(ro):
                if o.startswith("R ") and rl[i] != "ok":
                    bad.append((None, "stress", "randomized concurrent use under -race ended with " + rl[i]))
    except core.TieBroken as e:
        tie = e
    except subprocess.TimeoutExpired:
        tie = core.TieBroken("the concurrent runs did not finish in time (deadlock?)")

    if d37_seen:
        r.known(d37["id"], d37["what"])
    done = 0
    for i, kind, why in bad:
        payload = {"protocol": "conc", "what": why}
        if kind == "history":
            payload["history"] = ops[i]
            payload["how_to_replay"] = "./check C07 --replay <this file> (re-checks the recorded history; recording is schedule-dependent)"
        elif kind == "lookup":
            payload["lookup"] = ops[i]
        r.violation(payload)
        done += 1
        if done >= 3:
            break
    if done:
        return
    if not pr["ok"] or tie is not None:
        r.violation({"protocol": "conc",
                     "what": "proof obligation or correspondence no longer checks; no history, look-up or stress run that breaks the property was found",
                     "failed_theorems": [f"{n_}: {why}" for n_, why in pr["failed"]], "lean_errors": pr["errors"][:10],
                     "tie": (tie.what + "\n" + tie.detail) if tie else None}, found_input=False)
