"""C02 — every indexed look-up returns exactly what a scan of the graph would return."""
from . import storecheck


def run(r):
    storecheck.run(r, "lookups", "BW.Props.C02",
                   "proof: on every graph satisfying the index invariant (all reachable graphs, C01) each of the ten look-ups "
                   "equals the filter of the stored set by the fixed components, with predicates matched by identifier, kind "
                   "and instant (Props/C02.lean); tie: after every mutation of generated histories all ten methods are called "
                   "with components drawn from stored and non-stored triples (same identifier in other kind/instant/zone "
                   "included) on the real graph, the model (index reads) and the spec (scan); distinct non-trivial = distinct "
                   "(look-up, non-empty answer) pairs")
