"""C18 — the parser accepts exactly whole grammar statements and keeps no state between."""
import os
import re

from . import core, gen

SIZES = {"quick": (3, 3000), "thorough": (4, 60000)}


def run(r: core.Run):
    gen.regen_all()
    pr = core.prove("BW.Props.C18", extra_targets=["bwdriver"])
    r.add_proof(pr, "BW.Props.C18")
    if r.tier == "thorough":
        ok, out, secs = core.leanchecker("BW.Props.C18")
        r.notes["leanchecker"] = {"ok": ok, "secs": round(secs, 1)}
        if not ok:
            pr["ok"] = False
            pr["failed"].append(("leanchecker", out[-500:]))
    maxlen, n = SIZES[r.tier]
    r.cov["rule"] = ("proof: for every grammar whose rules do not mention the end-of-input token (instantiated at the regenerated BQL "
                     "table) the parser machine is sound and complete for greedy derivations, accepts only whole inputs, is fuel "
                     "independent, and the semantic layer can only reject more (Props/C18.lean); tie: every token-kind sequence of "
                     f"length <= {maxlen} over the 55 token kinds that the real lexer can produce from a rendering, grammar "
                     "witnesses, random sentences and their single-token mutations (incl. two statements in one input) through "
                     "the real plain parser (accept/reject + alternatives fired) and the model; the real semantic parser must not "
                     "accept what the plain one rejects; sequences of statements through ONE semantic parser instance must yield "
                     "the same acceptance and the same Statement dump as fresh instances; non-trivial = distinct accepted inputs + "
                     "distinct statement sequences")
    d = core.SCRATCH
    os.makedirs(d, exist_ok=True)
    base = os.path.join(d, "C18")
    tie = None
    bad = []
    try:
        stats = core.run_bwh(["parse", "-maxlen", str(maxlen), "-n", str(n), "-ops", base + ".ops", "-impl", base + ".impl"],
                             extra_env={"VERIF_SEED": str(r.seed)}, timeout=3000)
        r.notes["distribution"] = {l.split()[1]: int(l.split()[2]) for l in stats if l.startswith("hist ")}
        r.notes["summary"] = stats[0] if stats else ""
        if not pr["built"]:
            ok, log, _ = core.lake_build(["bwdriver"])
            if not ok:
                raise core.TieBroken("Lean driver does not build on the regenerated grammar", log[-2000:])
        core.run_driver(["parse"], stdin_path=base + ".ops", out_path=base + ".model")
        ops, impl, model = core.read_lines(base + ".ops"), core.read_lines(base + ".impl"), core.read_lines(base + ".model")
        nontriv = set()
        mism = []
        for i, o in enumerate(ops):
            if not o:
                continue
            r.cov["evaluations"] += 1
            a = impl[i] if i < len(impl) else "<missing>"
            m = model[i] if i < len(model) else "<missing>"
            if o.startswith("P"):
                plain, _, sem = a.partition(" sem=")
                if plain.startswith("accept"):
                    nontriv.add(o)
                if sem == "accept" and not plain.startswith("accept "):
                    bad.append((o, a, "the semantic parser accepts a token sequence the plain grammar parser rejects"))
                if sem == "panic":
                    bad.append((o, a, "the semantic parser panics"))
                if plain.startswith("accept-partial"):
                    bad.append((o, a, "the parser accepts although input remains after the statement"))
                if plain != m:
                    mism.append((o, a, m))
            else:
                nontriv.add(o)
                if a != "ok":
                    stm = [bytes.fromhex(x).decode("utf-8", "replace") if x != "-" else "" for x in o.split()[1:]]
                    bad.append((o, a, "a parser instance that has parsed earlier statements treats this one differently from a fresh parser: " + " | ".join(stm)))
        r.cov["distinct_nontrivial"] = len(nontriv)
        r.cov["traces_validated_against_impl"] = r.cov["evaluations"]
        k = 0
        for i, o in enumerate(ops):
            if o.startswith("P") and impl[i].startswith("accept ") and len(o) > 60:
                r.sample({"tokens": o[2:], "implementation": impl[i][:300]})
                k += 1
                if k >= 3:
                    break
        # the hooks model (Props/C18: hooks_keep_no_state, routing_wf) against the real hooks: generated SELECTs, their
        # tokens through model parser + model hooks; pattern clauses, projections, input graphs, GROUP BY, ORDER BY,
        # LIMIT and global time bounds against what the real hooks built
        hq = os.path.join(d, "C18-hooks")
        core.run_bwh(["query", "-mode", "optional+plain+group+having+order+limit", "-n", "60" if r.tier == "quick" else "1500", "-per", "8", "-ops", hq + ".ops", "-impl", hq + ".impl"],
                     extra_env={"VERIF_SEED": str(r.seed)}, timeout=3000)
        core.run_driver(["hooks"], stdin_path=hq + ".ops", out_path=hq + ".hooks")
        hops, hks = core.read_lines(hq + ".ops"), core.read_lines(hq + ".hooks")
        hbad = [(hops[i], hks[i]) for i in range(min(len(hops), len(hks))) if hops[i].startswith("Q") and hks[i] not in ("same", "-")]
        r.notes["hooks_model"] = {"statements": sum(1 for x in hks if x == "same"), "disagreements": len(hbad)}
        r.cov["evaluations"] += sum(1 for x in hks if x != "-")
        if hbad and not mism:
            o, a = hbad[0]
            text = bytes.fromhex(o.split("text=")[1].split()[0]).decode("utf-8", "replace")
            tie = core.TieBroken(f"hooks correspondence: the model of the SELECT hooks and the real hooks build different "
                                 f"statements for {len(hbad)} statements", f"first: {text!r}: {a[:500]}")
        if mism:
            o, a, m = mism[0]
            tie = core.TieBroken(f"parse correspondence: model and implementation disagree on {len(mism)} token sequences",
                                 f"first: tokens={o!r} impl={a!r} model={m!r}")
            # a disagreement is a failing input when the model (proved = greedy derivability) says otherwise
            for o, a, m in mism[:3]:
                bad.append((o, a, f"the real parser's verdict differs from greedy derivability of the whole input (model: {m})"))
    except core.TieBroken as e:
        tie = e
    for o, a, why in bad[:3]:
        r.violation({"protocol": "parse", "what": why, "op": o, "implementation": a})
    if bad:
        return
    if not pr["ok"] or tie is not None:
        # a grammar table that no longer meets the obligations (say, an empty alternative tried first): the
        # statements derived for each alternative by the translator are derivable by construction, with every
        # optional part present where its first token comes next; run them through the real parser
        try:
            for line in core.run_bwh(["c17"]):
                m = re.match(r"W (\S+) (\d+) (\S+) \[(.*?)\] (.*)$", line)
                if m and m.group(3) != "accept":
                    r.violation({"protocol": "parse", "what": f"the real parser rejects a derivable statement (the one derived for "
                                 f"alternative {m.group(2)} of rule {m.group(1)}): {m.group(3)}", "tokens": m.group(5),
                                 "how_to_replay": "./check C18 (the witnesses are regenerated from the running grammar on every run)"})
                    return
        except core.TieBroken:
            pass
        r.violation({"protocol": "parse", "what": "proof obligation or correspondence no longer checks; no failing token sequence found",
                     "failed_theorems": [f"{n}: {why}" for n, why in pr["failed"]], "lean_errors": pr["errors"][:10],
                     "tie": (tie.what + "\n" + tie.detail) if tie else None}, found_input=False)
