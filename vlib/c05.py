"""C05 — printed nodes, predicates, literals, triples, graphs parse back to equal values."""
from . import textcheck


def run(r):
    textcheck.run(r, "C05", "BW.Props.C05",
                  "proof: Props/C05.lean — round trips of nodes, predicates (any ID, any anchor the format can write), every literal kind incl. blobs, "
                  "objects, whole triples and written/read graphs on the structural model, under the laws of the leaf codecs "
                  "(%q/Unquote, RFC3339Nano, %v/ParseFloat of float64, which are Go's: assumed inside stated domains — `timeOK`: four-digit year and whole-minute offset, `floatOK`: a number or Go's one NaN — and evaluated on Go itself on every run by `bwh leaflaws`; shown satisfiable by a toy "
                  "codec); the graph theorem needs 'no line feed in a printed triple', which is the known finding D06. Tie: `text` runs — generated values of the documented domain (node types as paths, node IDs without white space, predicate IDs with quotes, spaces and `] /` inside, brackets, backslashes, non-ASCII and the separators "
                  "themselves; anchors in five zones from year 1 to 9999 with nanoseconds; int64 extremes, float64 -0/±Inf/"
                  "subnormal/random bits, texts with any byte incl. separators and line feeds, blobs, predicate objects) printed by "
                  "Go and by the model (W), the printed text parsed by Go and by the model (X) and required to give back an equal "
                  "value (anchors: same instant and offset); graphs of 0-7 triples written with WriteGraph and read back into an "
                  "empty graph (same set, same count). Known finding D06 (line feed in a text literal) is probed on every run. "
                  "non-trivial = distinct printed texts parsed back", "roundtrip")
