"""Shared machinery of ./check: building, translating, proving, auditing, evidence, replays."""
import fcntl
import hashlib
import json
import os
import re
import subprocess
import sys
import time

ROOT = os.path.dirname(os.path.dirname(os.path.abspath(__file__)))
REPO = os.environ.get("VERIF_REPO", "/repo")
BUILD = os.path.join(ROOT, ".build")
LEAN = os.path.join(ROOT, "lean")
GEN = os.path.join(LEAN, "BW", "Generated")
HARNESS = os.path.join(ROOT, "harness")
BWH = os.path.join(BUILD, "bwh")
# checks may run concurrently (seed sweeps next to single runs): each run has its own scratch directory
SCRATCH = os.path.join(BUILD, "scratch" + os.environ.get("VERIF_SCRATCH", ""))
DRIVER = os.path.join(LEAN, ".lake", "build", "bin", "bwdriver")
ALLOWED_AXIOMS = {"propext", "Classical.choice", "Quot.sound"}
FORBIDDEN = re.compile(r"\bsorry\b|\badmit\b|^\s*axiom\s|native_decide|bv_decide|implemented_by|\bunsafe\s|maxHeartbeats\s+0|@\[extern")

TRUSTED_BASE = [
    "Lean 4.33.0 kernel (lake build; thorough tier re-checks the property module with leanchecker)",
    "axioms per theorem as printed by #print axioms; only propext / Classical.choice / Quot.sound are accepted; no native_decide, bv_decide, sorry, or user axioms (enforced by source grep and by parsing the axiom report)",
    "translators in /verif/harness (go/ast fact extractors, grammar dumper that runs grammar.BQL()) — what they emit is re-checked by Lean, what they read is assumed to be the code that runs",
    "correspondence harness (Go, in-process against /repo's working tree) and the compiled Lean driver (Lean compiler + leanc are trusted for *running* the model, never for proving)",
    "the Go code itself is modelled, not verified: it is related to the model only by regenerated tables and differential runs",
]


def go_env():
    env = dict(os.environ)
    env["GOFLAGS"] = "-mod=mod"
    env["GOPROXY"] = "off"
    env.pop("GOSUMDB", None)
    # the default `go` auto-switches to the cached toolchain /repo/go.mod asks for
    if env.get("GOTOOLCHAIN") == "local":
        env.pop("GOTOOLCHAIN")
    env.setdefault("GOCACHE", os.path.join(BUILD, "gocache"))
    return env


def sh(cmd, cwd=ROOT, timeout=3600, env=None, stdin=None, stdout=None):
    t0 = time.time()
    p = subprocess.run(cmd, cwd=cwd, env=env, stdin=stdin, stdout=stdout or subprocess.PIPE,
                       stderr=subprocess.STDOUT if stdout is None else subprocess.PIPE,
                       timeout=timeout, shell=isinstance(cmd, str))
    out = p.stdout.decode("utf-8", "replace") if p.stdout is not None else ""
    if stdout is not None and p.stderr is not None:
        out = p.stderr.decode("utf-8", "replace")
    return p.returncode, out, time.time() - t0


class Lock:
    """Serialises everything that writes under lean/ or .build/ (checks may run concurrently)."""

    def __init__(self, name="build"):
        os.makedirs(BUILD, exist_ok=True)
        self.path = os.path.join(BUILD, name + ".lock")

    def __enter__(self):
        self.f = open(self.path, "w")
        fcntl.flock(self.f, fcntl.LOCK_EX)
        return self

    def __exit__(self, *a):
        fcntl.flock(self.f, fcntl.LOCK_UN)
        self.f.close()


TRANSLATOR_FAILURES = []


class TieBroken(Exception):
    """The model can no longer be tied to the source (translator / build / protocol failure)."""

    def __init__(self, what, detail=""):
        super().__init__(what)
        self.what, self.detail = what, detail


def crash_of(tie):
    """A harness that died while executing a statement: (statement, first line of the crash) or None."""
    st = getattr(tie, "statement", None)
    d = getattr(tie, "detail", "") or ""
    if tie is None or not st:
        return None
    for mark in ("panic:", "fatal error:"):
        if mark in d:
            return st, d[d.index(mark):].split("\n")[0][:300]
    return None


def build_harness(tags="verif", race=False):
    """(Re)build the Go harness against /repo's current working tree."""
    os.makedirs(BUILD, exist_ok=True)
    # the harness module pins /repo through a replace directive; go.sum is copied from /repo
    try:
        with open(os.path.join(REPO, "go.sum"), "rb") as f:
            want = f.read()
        p = os.path.join(HARNESS, "go.sum")
        if not os.path.exists(p) or open(p, "rb").read() != want:
            with open(p, "wb") as f:
                f.write(want)
    except OSError:
        pass
    out_bin = BWH + ("-race" if race else "")
    tmp_bin = out_bin + f".new{os.getpid()}"
    cmd = ["go", "build", "-tags", tags, "-o", tmp_bin]
    if race:
        cmd.insert(2, "-race")
    cmd.append(".")
    with Lock("gobuild"):
        rc, out, _ = sh(cmd, cwd=HARNESS, env=go_env(), timeout=900)
        if rc == 0:
            os.replace(tmp_bin, out_bin)   # atomically: a concurrent run keeps executing the file it opened
    if rc != 0:
        raise TieBroken("harness does not build against /repo's working tree", out[-4000:])
    return out_bin


def regen(name, args):
    """Run a translator (`bwh <args> <tmpfile>`) and install its output as BW/Generated/<name> only
    when the content changed. Returns (changed, sha256)."""
    os.makedirs(GEN, exist_ok=True)
    tmp = os.path.join(BUILD, name + ".tmp")
    if os.path.exists(tmp):
        os.remove(tmp)
    rc, out, _ = sh([BWH] + args + [tmp], cwd=ROOT, env=go_env(), timeout=600)
    if rc != 0 or not os.path.exists(tmp):
        dst = os.path.join(GEN, name)
        if os.path.exists(dst):
            # The source has a shape the translator cannot interpret: the tie is broken. The facts of the last
            # successful translation stay in place so that the correspondence can still run and look for a
            # concrete failing input; without one the check ends with no-failing-input-found and this message.
            TRANSLATOR_FAILURES.append((f"translator `bwh {' '.join(args)}` failed: the source has a shape it cannot interpret", out[-4000:]))
            return False, hashlib.sha256(open(dst, "rb").read()).hexdigest()
        raise TieBroken(f"translator `bwh {' '.join(args)}` failed: the source has a shape it cannot interpret", out[-4000:])
    new = open(tmp, "rb").read()
    dst = os.path.join(GEN, name)
    changed = True
    if os.path.exists(dst) and open(dst, "rb").read() == new:
        changed = False
    else:
        with open(dst, "wb") as f:
            f.write(new)
    os.remove(tmp)
    return changed, hashlib.sha256(new).hexdigest()


AX_RE = re.compile(r"'([^']+)' (depends on axioms: \[([^\]]*)\]|does not depend on any axioms)")
ERR_RE = re.compile(r"^error: (\S+?):(\d+):(\d+): (.*)$", re.M)


def lake_build(targets, timeout=3000):
    with Lock("lake"):
        rc, out, secs = sh(["lake", "build"] + list(targets), cwd=LEAN, timeout=timeout)
    return rc == 0, out, secs


def parse_axioms(log):
    res = {}
    for m in AX_RE.finditer(log):
        name = m.group(1)
        axs = [a.strip() for a in (m.group(3) or "").split(",") if a.strip()]
        res[name] = axs
    return res


def declared_theorems(module_path):
    """Names of the theorems a Props file asks `#print axioms` for (the obligations)."""
    src = open(module_path, encoding="utf-8").read()
    return re.findall(r"^#print axioms (\S+)", src, re.M)


def strip_comments(src):
    # remove /- ... -/ (nested) and -- line comments
    out, i, depth = [], 0, 0
    while i < len(src):
        if src.startswith("/-", i):
            depth += 1
            i += 2
        elif depth and src.startswith("-/", i):
            depth -= 1
            i += 2
        elif depth:
            if src[i] == "\n":
                out.append("\n")
            i += 1
        elif src.startswith("--", i):
            while i < len(src) and src[i] != "\n":
                i += 1
        else:
            out.append(src[i])
            i += 1
    return "".join(out)


def audit_sources():
    """grep every Lean source of the project (comments stripped) for forbidden constructs."""
    hits = []
    for base, _, files in os.walk(LEAN):
        if ".lake" in base:
            continue
        for fn in files:
            if not fn.endswith(".lean"):
                continue
            p = os.path.join(base, fn)
            body = strip_comments(open(p, encoding="utf-8").read())
            for ln, line in enumerate(body.split("\n"), 1):
                if FORBIDDEN.search(line):
                    hits.append(f"{os.path.relpath(p, ROOT)}:{ln}: {line.strip()[:120]}")
    return hits


def prove(prop_module, extra_targets=()):
    """Build a property module; returns dict(ok, obligations, discharged, failed, axioms, log, secs)."""
    path = os.path.join(LEAN, *prop_module.split(".")) + ".lean"
    names = declared_theorems(path)
    ok, log, secs = lake_build([prop_module] + list(extra_targets))
    axioms = parse_axioms(log)
    failed, discharged = [], []
    for n in names:
        axs = axioms.get(n)
        if axs is None:
            failed.append((n, "no axiom report (did not elaborate)"))
        elif "sorryAx" in axs:
            failed.append((n, "depends on sorryAx (proof failed)"))
        elif not set(axs) <= ALLOWED_AXIOMS:
            failed.append((n, "uses axioms outside the accepted set: " + ", ".join(sorted(set(axs) - ALLOWED_AXIOMS))))
        else:
            discharged.append(n)
    errors = [f"{m.group(1)}:{m.group(2)}: {m.group(4)}" for m in ERR_RE.finditer(log)]
    hits = audit_sources()
    for h in hits:
        failed.append(("source-audit", h))
    return dict(ok=ok and not failed, built=ok, obligations=names, discharged=discharged, failed=failed,
                axioms=axioms, errors=errors, log=log, secs=secs)


def leanchecker(module):
    with Lock("lake"):
        rc, out, secs = sh(["lake", "env", "leanchecker", module], cwd=LEAN, timeout=3000)
    return rc == 0, out, secs


def run_driver(args, stdin_path=None, out_path=None, timeout=3000):
    if not os.path.exists(DRIVER):
        raise TieBroken("Lean driver executable missing (lake build bwdriver failed)")
    fin = open(stdin_path, "rb") if stdin_path else subprocess.DEVNULL
    fout = open(out_path, "wb") if out_path else None
    try:
        p = subprocess.run([DRIVER] + args, stdin=fin, stdout=fout or subprocess.PIPE, stderr=subprocess.PIPE, timeout=timeout)
    finally:
        if stdin_path:
            fin.close()
        if fout:
            fout.close()
    if p.returncode != 0:
        raise TieBroken(f"Lean driver `{' '.join(args)}` exited {p.returncode}", p.stderr.decode("utf-8", "replace")[-2000:])
    return None if out_path else p.stdout.decode("utf-8", "replace").split("\n")


def run_bwh(args, out_path=None, timeout=3000, stdin_path=None, binary=None, extra_env=None):
    env = go_env()
    if extra_env:
        env.update(extra_env)
    # the statement a harness is executing when it dies (a panic in a goroutine the engine spawned kills the process)
    os.makedirs(SCRATCH, exist_ok=True)
    cur = os.path.join(SCRATCH, f"cur-{os.getpid()}-{args[0]}.txt")
    env["VERIF_CURFILE"] = cur
    fin = open(stdin_path, "rb") if stdin_path else subprocess.DEVNULL
    fout = open(out_path, "wb") if out_path else None
    try:
        p = subprocess.run([binary or BWH] + args, stdin=fin, stdout=fout or subprocess.PIPE, stderr=subprocess.PIPE, timeout=timeout, env=env)
    finally:
        if stdin_path:
            fin.close()
        if fout:
            fout.close()
    if p.returncode != 0:
        e = TieBroken(f"harness `bwh {' '.join(args)}` exited {p.returncode}", p.stderr.decode("utf-8", "replace")[-4000:])
        try:
            h = (read_lines(cur) or [""])[0].strip()
            e.statement = bytes.fromhex(h).decode("utf-8", "replace") if h else None
        except (OSError, ValueError):
            e.statement = None
        raise e
    try:
        os.remove(cur)
    except OSError:
        pass
    return None if out_path else p.stdout.decode("utf-8", "replace").split("\n")


def read_lines(path):
    with open(path, encoding="utf-8", errors="replace") as f:
        return f.read().split("\n")


class Run:
    """State of one check run: counters, samples, findings, violations; writes evidence and replays."""

    def __init__(self, prop, tier, seed):
        self.prop, self.tier, self.seed = prop, tier, seed
        self.t0 = time.time()
        self.cov = {"evaluations": 0, "distinct_nontrivial": 0, "samples": [], "rule": "",
                    "obligations": 0, "discharged": 0, "checker_cmd": "", "trusted_base": list(TRUSTED_BASE)}
        self.assumptions = []
        self.violations = []   # (replay_path, suffix)
        self.known_lines = []
        self.notes = {}
        self.replay_n = 0
        self.findings = load_findings()

    # --- proofs ---
    def add_proof(self, pr, module):
        self.cov["obligations"] += len(pr["obligations"])
        self.cov["discharged"] += len(pr["discharged"])
        cmd = f"cd lean && lake build {module}  (+ #print axioms audit, source grep)"
        self.cov["checker_cmd"] = (self.cov["checker_cmd"] + " ; " if self.cov["checker_cmd"] else "") + cmd
        self.cov.setdefault("theorems", {}).update({n: pr["axioms"].get(n, []) for n in pr["discharged"]})
        self.cov.setdefault("proof_wall_s", 0)
        self.cov["proof_wall_s"] = round(self.cov["proof_wall_s"] + pr["secs"], 1)

    def sample(self, s, cap=6):
        if len(self.cov["samples"]) < cap:
            self.cov["samples"].append(s)

    # --- verdicts ---
    def replay(self, payload):
        os.makedirs(os.path.join(ROOT, "replays"), exist_ok=True)
        self.replay_n += 1
        path = os.path.join(ROOT, "replays", f"{self.prop}-{self.seed}-{self.replay_n}.json")
        payload = dict(payload)
        payload.setdefault("property", self.prop)
        payload.setdefault("seed", self.seed)
        payload.setdefault("tier", self.tier)
        with open(path, "w") as f:
            json.dump(payload, f, indent=1, sort_keys=True)
        return path

    def violation(self, payload, found_input=True):
        path = self.replay(payload)
        self.violations.append((path, "" if found_input else " no-failing-input-found"))

    def known(self, fid, what):
        self.known_lines.append(f"KNOWN-FINDING: property={self.prop} {fid}: {what}")

    def finish(self):
        self.cov["distinct_nontrivial"] = int(self.cov["distinct_nontrivial"])
        ev = {
            "property_id": self.prop, "tier": self.tier, "seed": int(self.seed), "level": "proof",
            "coverage": self.cov, "assumptions": self.assumptions,
            "wall_s": round(time.time() - self.t0, 2), "violations": len(self.violations),
        }
        if self.notes:
            ev["coverage"]["notes"] = self.notes
        os.makedirs(os.path.join(ROOT, "evidence"), exist_ok=True)
        with open(os.path.join(ROOT, "evidence", f"{self.prop}.json"), "w") as f:
            json.dump(ev, f, indent=1, sort_keys=True)
        for l in self.known_lines:
            print(l)
        for path, suffix in self.violations:
            print(f"VIOLATION property={self.prop} replay={path}{suffix}")
        sys.stdout.flush()
        return 1 if self.violations else 0


def load_findings():
    p = os.path.join(ROOT, "known_findings.json")
    if not os.path.exists(p):
        return {"findings": [], "fixed": []}
    return json.load(open(p))


def diff_streams(a_lines, b_lines, limit=20):
    """Line-by-line comparison; returns list of (index, a, b)."""
    out = []
    n = max(len(a_lines), len(b_lines))
    for i in range(n):
        a = a_lines[i] if i < len(a_lines) else "<missing>"
        b = b_lines[i] if i < len(b_lines) else "<missing>"
        if a != b:
            out.append((i, a, b))
            if len(out) >= limit:
                break
    return out
