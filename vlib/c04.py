"""C04 — data and graph statements change the store exactly as stated, nothing else."""
import os
from collections import Counter

from . import core, gen
from . import querycheck as qc

SIZES = {"quick": 150, "thorough": 5000}

RULE = ("proof: Props/C04.lean over the statement model (BW/Model/Statements.lean: createPlan, dropPlan, insertPlan, deletePlan, "
        "constructPlan, update fan-out, Statement.Init, Triple.Reify, template instantiation) on the storage contract of C01 "
        "(names -> sets of triples) with the WHERE pattern evaluated by the reference semantics. Tie: `stmts` correspondence — "
        "generated scenarios (2-3 initial graphs over a shared vocabulary, then up to 10 statements: CREATE/DROP of 1-2 names, "
        "INSERT/DELETE of 1-4 triples into 1-3 graphs, CONSTRUCT/DECONSTRUCT with 1-2 template clauses using constants, "
        "bindings, anchor bindings, the `_:v` notation and ';' reification with 1-2 extra pairs, WHERE of 1-2 clauses with "
        "OPTIONAL, aliases and bounds; existing and missing graphs; chanSize 0/1/64, bulkSize 1/2/1000) run through the real "
        "lexer/parser/planner against the memory driver; after every statement the content of EVERY graph is listed and "
        "compared with the model's (anchors as instants; blank nodes compared by what is attached to them: one multiset of "
        "blank-node signatures over all graphs). Independent oracles on the implementation alone: INSERT/DELETE post-state = "
        "pre-state +/- data on the targets and equality elsewhere, CREATE/DROP name sets, unchanged store after a rejection. "
        "non-trivial = distinct statements that changed some graph")


def text_of(o):
    return bytes.fromhex(o.split("text=")[1].split()[0]).decode("utf-8", "replace")


def kv(o, k):
    for w in o.split():
        if w.startswith(k + "="):
            return w[len(k) + 1:]
    return None


def isblank(enc):
    f = enc.split(",")
    if len(f) != 3 or f[0] != "N" or f[1] != "2f5f":
        return False
    try:
        s = bytes.fromhex(f[2]).decode()
    except ValueError:
        return False
    return s.startswith("#") or (len(s) == 36 and s.count("-") == 4)


def parse_state(d):
    """state line -> {graph: [(s,p,o)]}"""
    out = {}
    for part in d.split()[1:]:
        name, ts = part[2:].split(":", 1)
        out[name] = [tuple(t.split("|")) for t in ts.split(";")] if ts else []
    return out


def canon(d):
    """(graphs without blank-node triples, multiset of blank-node signatures)."""
    if not d.startswith("state"):
        return d
    graphs, blanks = {}, {}
    for name, ts in parse_state(d).items():
        keep = []
        for s, p, o in ts:
            o2 = "BLANK" if isblank(o) else o
            if isblank(s):
                blanks.setdefault(s, []).append((name, p, o2))
            else:
                keep.append((s, p, o2))
        graphs[name] = tuple(sorted(keep))
    return tuple(sorted(graphs.items())), tuple(sorted(tuple(sorted(v)) for v in blanks.values()))


def norm_pred(p):
    f = p.split(",")
    return ",".join(f[:3]) if f[0] == "PT" else p


def data_of(o):
    d = kv(o, "data")
    if not d or d == "-":
        return []
    out = []
    for t in d.split(";"):
        s, p, ob = t.split("|")
        out.append((s, norm_pred(p), norm_pred(ob)))
    return out


def names_of(o, k):
    v = kv(o, k)
    return [] if not v or v == "-" else v.split(",")


def loose(o, before):
    """Multiplicities of solutions are left open when a triple is scanned twice or a clause has an interval predicate."""
    gs = names_of(o, "g")
    if len(set(gs)) != len(gs) or qc.interval_clause(o):
        return True
    seen = Counter()
    for g in set(gs):
        for t in set(before.get(g, [])):
            seen[t] += 1
    return any(v > 1 for v in seen.values())


def direct_oracle(o, cls, before_line, after_line):
    """What the property says about this statement, judged on the implementation's own dumps. None = fine."""
    if not (before_line.startswith("state") and after_line.startswith("state")):
        return "the content of the store could not be listed"
    b, a = parse_state(before_line), parse_state(after_line)
    bs = {k: set(v) for k, v in b.items()}
    as_ = {k: set(v) for k, v in a.items()}
    ty = kv(o, "ty")
    if cls in ("panic", "hang", "nil-table"):
        return f"the statement ends with {cls}"
    if cls == "reject" or ty is None:
        return None if bs == as_ else "a statement rejected by the parser changed the store"
    # what the generator wrote down for the statement it produced (never through the BQL parser) against what the
    # real hooks extracted: kind, graph names, data triples
    xty = kv(o, "xty")
    if xty is not None:
        if xty != ty:
            return f"the statement is read as kind {ty} although its text is of kind {xty}"
        for k in ("gn", "og", "g"):
            if kv(o, "x" + k) is not None and names_of(o, "x" + k) != names_of(o, k):
                return f"the graph names read from the statement ({k}) are not the ones its text lists"
        if kv(o, "xcc") is not None and kv(o, "cc") is not None and kv(o, "xcc") != kv(o, "cc"):
            return "the CONSTRUCT / DECONSTRUCT template read from the statement is not the template its text writes"
        if kv(o, "xc") is not None and kv(o, "c") is not None and kv(o, "xc") != kv(o, "c"):
            return "the WHERE clauses read from the statement are not the clauses its text writes"
        if kv(o, "xdata") is not None:
            want = []
            for t in kv(o, "xdata").split(";"):
                s_, p_, ob_ = t.split("|")
                want.append((s_, norm_pred(p_), norm_pred(ob_)))
            if want != data_of(o):
                return "the triples read from the statement are not the triples its text lists"
    if ty in ("1", "2") and cls == "ok":
        targets = names_of(o, "og") if ty == "1" else names_of(o, "g")
        data = set(data_of(o))
        for g in bs:
            want = (bs[g] | data if ty == "1" else bs[g] - data) if g in targets else bs[g]
            if as_.get(g) != want:
                return f"graph {bytes.fromhex(g).decode()} is not its previous content {'plus' if ty == '1' else 'minus'} the listed triples" \
                    if g in targets else f"graph {bytes.fromhex(g).decode()} is not a target and changed"
        if set(as_) != set(bs):
            return "the set of graphs changed"
    if ty in ("3", "4") and cls == "ok":
        names = set(names_of(o, "gn"))
        want = set(bs) | names if ty == "3" else set(bs) - names
        if set(as_) != want:
            return "CREATE/DROP did not add/remove exactly the named graphs"
        for g in set(as_) & set(bs):
            if as_[g] != bs[g]:
                return "CREATE/DROP changed the content of another graph"
        if ty == "3" and any(as_[g] for g in names - set(bs)):
            return "a created graph is not empty"
    if ty in ("5", "6"):
        named = set(names_of(o, "g")) | set(names_of(o, "og")) | set(names_of(o, "gn"))
        if not named <= set(bs):
            if cls == "ok":
                return "CONSTRUCT/DECONSTRUCT naming a graph that does not exist reports success"
            if bs != as_:
                return "CONSTRUCT/DECONSTRUCT naming a graph that does not exist changed the store"
        elif cls == "ok":
            targets = set(names_of(o, "og"))
            for g in bs:
                if g not in targets and as_.get(g) != bs[g]:
                    return f"graph {bytes.fromhex(g).decode()} is not a target and changed"
            if set(as_) != set(bs):
                return "the set of graphs changed"
            for g in targets:
                if ty == "5" and not bs[g] <= as_[g]:
                    return "CONSTRUCT removed triples"
                if ty == "6" and not as_[g] <= bs[g]:
                    return "DECONSTRUCT added triples"
    return None


def exec_both(lines, tag):
    d = core.SCRATCH
    os.makedirs(d, exist_ok=True)
    p = os.path.join(d, f"{tag}.ops")
    with open(p, "w") as f:
        f.write("\n".join(lines) + "\n")
    core.run_bwh(["storeexec", "-ops", p, "-impl", p + ".impl"])
    core.run_driver(["stmts"], stdin_path=p, out_path=p + ".model")
    return core.read_lines(p + ".impl")[:len(lines)], core.read_lines(p + ".model")[:len(lines)]


def judge(ops, impl, model):
    """Walk one stream; yields (index, what, found_by) for every failure."""
    out = []
    skip = False
    sets_only = False   # after a statement whose solution multiplicities are open, blank nodes are compared as a set
    last_d = None
    last_x = None
    for i, o in enumerate(ops):
        if o == "reset":
            skip, sets_only, last_d, last_x = False, False, None, None
        elif o.startswith("T ") and model[i] == "T printed-form-mismatch":
            out.append((i, "the model's RFC3339Nano / predicate printer (Model/TimeFmt.lean) and Go's disagree", "tie"))
        elif o.startswith("X "):
            last_x = i
            a, m = impl[i], model[i]
            if a.split(" ")[0] != m.split(" ")[0] and not skip and m != "bad-op":
                out.append((i, f"outcome: implementation {a!r}, model {m!r}", "model"))
            if m == "bad-op" and a != "reject":
                out.append((i, "the model driver cannot read the statement", "tie"))
        elif o == "D":
            if last_x is not None and last_d is not None:
                why = direct_oracle(ops[last_x], impl[last_x], impl[last_d], impl[i])
                if why:
                    out.append((i, why, "oracle"))
                x = ops[last_x]
                failed_construct = kv(x, "ty") in ("5", "6") and impl[last_x] not in ("ok", "reject") and model[last_x] == "err failed"
                if failed_construct:
                    skip = True    # the property leaves the state after a template error open
            if not skip:
                a, m = canon(impl[i]), canon(model[i])
                if a != m:
                    lo = last_x is not None and last_d is not None and kv(ops[last_x], "ty") in ("5", "6") and \
                        loose(ops[last_x], parse_state(model[last_d]) if model[last_d].startswith("state") else {})
                    if (lo or sets_only) and isinstance(a, tuple) and isinstance(m, tuple) and a[0] == m[0] and set(a[1]) == set(m[1]):
                        sets_only = True
                    else:
                        out.append((i, "the graphs after the statement differ from the model's", "model"))
                        skip = True
            last_d = i
    return out


def run(r: core.Run):
    n = SIZES[r.tier]
    gen.regen_all()
    pr = core.prove("BW.Props.C04", extra_targets=["bwdriver"])
    r.add_proof(pr, "BW.Props.C04")
    if r.tier == "thorough":
        ok, out, secs = core.leanchecker("BW.Props.C04")
        r.notes["leanchecker"] = {"ok": ok, "secs": round(secs, 1)}
        if not ok:
            pr["ok"] = False
            pr["failed"].append(("leanchecker", out[-500:]))
    r.cov["rule"] = RULE
    d = core.SCRATCH
    os.makedirs(d, exist_ok=True)
    base = os.path.join(d, "C04-stmts")

    if r.replay_input is not None:
        lines = r.replay_input.get("ops", [])
        if lines:
            impl, model = exec_both(lines, "C04-replay")
            bad = judge(lines, impl, model)
            if bad:
                r.violation({"protocol": "stmts", "ops": lines, "what": "replayed scenario still fails: " + bad[0][1]})
        return

    for f in r.findings.get("findings", []):
        if f.get("property") == r.prop and f.get("ops"):
            try:
                ki, km = exec_both(f["ops"], "C04-known")
                if judge(f["ops"], ki, km):
                    r.known(f["id"], f["what"])
            except core.TieBroken:
                pass

    tie = None
    bad = []
    ops = impl = model = []
    try:
        stats = core.run_bwh(["stmts", "-n", str(n), "-per", "10", "-ops", base + ".ops", "-impl", base + ".impl"],
                             extra_env={"VERIF_SEED": str(r.seed)}, timeout=3000)
        r.notes["generator"] = {l.split()[1]: int(l.split()[2]) for l in stats if l.startswith("hist ")}
        if not pr["built"]:
            ok, log, _ = core.lake_build(["bwdriver"])
            if not ok:
                raise core.TieBroken("Lean driver does not build", log[-2000:])
        core.run_driver(["stmts"], stdin_path=base + ".ops", out_path=base + ".model")
        ops, impl, model = core.read_lines(base + ".ops"), core.read_lines(base + ".impl"), core.read_lines(base + ".model")
        nontriv = set()
        last_d = None
        for i, o in enumerate(ops):
            if o.startswith("X "):
                r.cov["evaluations"] += 1
            if o == "reset":
                last_d = None
            if o == "D":
                if last_d is not None and impl[i] != impl[last_d] and ops[i - 1].startswith("X "):
                    nontriv.add(ops[i - 1].split("text=")[1].split()[0])
                last_d = i
        r.cov["distinct_nontrivial"] = len(nontriv)
        r.cov["traces_validated_against_impl"] = r.cov["evaluations"]
        bad = judge(ops, impl, model)
        # the hooks that build these statements (Model/Hooks.lean: data accumulator, graph accumulators, type binding,
        # construct template hooks, WHERE hooks): tokens -> model parser -> model hooks, against the Statement the real
        # hooks built (type, graph names, input / output graphs, data triples, template, WHERE clauses)
        core.run_driver(["hooks"], stdin_path=base + ".ops", out_path=base + ".hooks")
        hooks = core.read_lines(base + ".hooks")
        hook_mism = [i for i, o in enumerate(ops) if o.startswith("X ") and i < len(hooks) and hooks[i] not in ("same", "-")]
        r.notes["hooks_model"] = {"statements": sum(1 for i, o in enumerate(ops) if o.startswith("X ") and i < len(hooks) and hooks[i] == "same"),
                                  "disagreements": len(hook_mism)}
        if hook_mism and not bad:
            i = hook_mism[0]
            tie = core.TieBroken(f"hooks correspondence: the model of the statement hooks and the real hooks build different statements "
                                 f"(type, graphs, data, template, clauses) for {len(hook_mism)} statements",
                                 f"first: {text_of(ops[i])!r}: {hooks[i][:600]}")
        k = 0
        for i, o in enumerate(ops):
            if o.startswith("X ") and impl[i] == "ok" and kv(o, "ty") == "5" and ";" in text_of(o).split("}")[0] and k < 3:
                r.sample({"statement": text_of(o), "graphs_after": impl[i + 1][:300]})
                k += 1
    except core.TieBroken as e:
        tie = e

    def scenario(i):
        j = i
        while j > 0 and ops[j] != "reset":
            j -= 1
        return [l for l in ops[j:i + 1] if l and not l.startswith("#")]

    done = 0
    for i, why, by in bad:
        if by == "tie":
            tie = tie or core.TieBroken(why, ops[i][:300])
            continue
        sc = scenario(i)
        x = [l for l in sc if l.startswith("X ")]
        r.violation({"protocol": "stmts", "statement": text_of(x[-1]) if x else "", "ops": sc, "what": why, "judged_by": by,
                     "implementation_after": impl[i][:3000], "model_after": model[i][:3000],
                     "how_to_replay": "./check C04 --replay <this file>"})
        done += 1
        if done >= 3:
            break
    if done:
        return
    crash = core.crash_of(tie)
    if crash:
        r.violation({"protocol": "stmts", "statement": crash[0], "crash": crash[1],
                     "what": "executing the statement crashes the process — a panic in a goroutine the engine spawned, which no caller can recover: " + crash[1],
                     "how_to_replay": "run the statement on a store that holds the graphs it names (the crash may depend on scheduling)"})
        return
    if not pr["ok"] or tie is not None:
        r.violation({"protocol": "stmts",
                     "what": "proof obligation or correspondence no longer checks; no statement sequence on which the implementation breaks the property was found",
                     "failed_theorems": [f"{n}: {why}" for n, why in pr["failed"]], "lean_errors": pr["errors"][:10],
                     "tie": (tie.what + "\n" + tie.detail) if tie else None}, found_input=False)
