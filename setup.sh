#!/bin/sh
# MANIFEST.setup_cmd — builds the framework offline from files on disk only.
set -e
cd "$(dirname "$0")"
export GOFLAGS=-mod=mod GOPROXY=off
unset GOSUMDB || true
[ "$GOTOOLCHAIN" = "local" ] && unset GOTOOLCHAIN
mkdir -p .build evidence replays
export GOCACHE="$PWD/.build/gocache"
cp /repo/go.sum harness/go.sum
(cd harness && go build -tags verif -o ../.build/bwh .)
# regenerate the source-derived Lean data, then build models, proofs and the driver
python3 - <<'PY'
import sys
sys.path.insert(0, ".")
from vlib import core, gen
gen.regen_all()
PY
(cd lean && lake build)
echo setup ok
