import BW.Model.Linear
import BW.Model.Chan
import Driver.Util

/-! `bwdriver conc`: `H` lines carry a recorded concurrent history; the answer says whether it has a
    linearization against the sequential specification. -/
namespace Driver.Conc
open BW.Model.Linear Driver

def parseIds (s : String) : Option (List Nat) :=
  if s = "-" then some [] else (s.splitOn ".").mapM (·.toNat?)

def parseRes (s : String) : Option Res :=
  if s = "ok" then some .ok else if s = "err" then some .err
  else if s = "true" then some (.bool true) else if s = "false" then some (.bool false)
  else if s.startsWith "[" then
    (parseIds ((s.drop 1).dropRight 1).toString).map .set
  else if s.startsWith "{" then
    let body := ((s.drop 1).dropRight 1).toString
    if body = "" then some (.nameSet []) else ((body.splitOn ".").mapM unhexBytes).map fun ns => .nameSet (sortNames ns)
  else none

def parseOp (s : String) : Option (List HOp) :=
  match s.splitOn "," with
  | [th, c, r, kind, g, ids, res] => do
    let th ← th.toInt?
    let c ← c.toNat?
    let r ← r.toNat?
    let g ← unhexBytes g
    let ids ← parseIds ids
    let res ← parseRes res
    let mk := fun (k : Kind) (ids : List Nat) => ({ thread := th, call := c, ret := r, kind := k, graph := g, ids := ids, result := res } : HOp)
    match kind with
    | "init" => pure [mk .init (match res with | .set v => v | _ => [])]
    | "add" => pure [mk .add ids]
    | "rem" => pure (if res == .err then [mk .rem1 []] else ids.map fun i => mk .rem1 [i])   -- one step per triple
    | "exist" => pure [mk .exist ids]
    | "triples" => pure [mk .triples []]
    | "new" => pure [mk .newG []]
    | "get" => pure [mk .getG []]
    | "del" => pure [mk .delG []]
    | "names" => pure [mk .names []]
    | _ => none
  | _ => none

def main : IO Unit := do
  let stdin ← IO.getStdin
  forLines stdin fun line => do
    match words line with
    | "H" :: ops =>
      match ops.mapM parseOp with
      | none => IO.println (if ops == ["deadlock"] then "deadlock" else "bad-op")
      | some opss =>
        let all := opss.flatten
        IO.println (if search (all.length + 1) [] all then "linearizable" else "not-linearizable")
    | ["N", n, b, w] =>
      -- a look-up of n results whose consumer does b reads of the same graph per result, with or without a writer:
      -- can the three come to a halt? (exhaustive search of the model's state space)
      match n.toNat?, b.toNat?, w.toNat? with
      | some n, some b, some w =>
        let s0 : BW.Model.Chan.Sys := ⟨n, b, .idle, .waitRecv, if w = 0 then .done else .idle⟩
        IO.println (if BW.Model.Chan.canHalt (4 * (n + 2) * (2 * b + 3) + 8) [s0] then "can-halt" else "progress")
      | _, _, _ => IO.println "bad-op"
    | "S" :: _ => IO.println "-"
    | "L" :: _ => IO.println "-"
    | "R" :: _ => IO.println "-"
    | _ => if line.startsWith "#" then IO.println line else IO.println "bad-op"

end Driver.Conc
