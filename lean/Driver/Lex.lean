import BW.Model.BqlLex
import Driver.Util

/-! `bwdriver lex`: one line of classified runes in, the model's token list out. -/
namespace Driver.Lex
open BW.Model BW.Generated Driver

def parseRune (s : String) : Option Rune :=
  match s.splitOn ":" with
  | [cp, bytes, flags, lower, fold] => do
    let cp ← cp.toNat?
    let bs ← unhexBytes bytes
    let fl ← flags.toNat?
    pure { cp := cp, bytes := bs, letter := fl % 2 == 1, digit := (fl / 2) % 2 == 1, space := (fl / 4) % 2 == 1,
           lower := (← lower.toNat?), fold := (← fold.toNat?) }
  | _ => none

def showTokens (ts : List (Tok × List Rune)) : String :=
  ",".intercalate (ts.map fun (k, text) => s!"{tokName k}:{hexBytes (runesBytes text)}")

def main : IO Unit := do
  let stdin ← IO.getStdin
  forLines stdin fun line => do
    match words line with
    | "L" :: _ :: rs =>
      let runes? := if rs == ["-"] then some [] else rs.mapM parseRune
      match runes? with
      | none => IO.println "bad-op"
      | some runes => IO.println (showTokens (lex bqlLex runes) ++ " | ok")
    | "M" :: _ => IO.println "ok"   -- metamorphic laws: theorems on the model side
    | _ => IO.println "bad-op"

end Driver.Lex
