import BW.Model.Query
import BW.Model.QueryPost
import BW.Model.TimeFmt
import BW.Spec.Query
import BW.Spec.Having
import BW.Generated.MemoryFacts
import Driver.Proto

/-! `bwdriver query model|spec`: stores are built by the store-protocol lines, then `Q` lines carry the
    dumped `semantic.Statement`; the answer is the result table in canonical form. -/
namespace Driver.Query
open BW.Model BW.Spec Driver

structure St where
  uni : List (Nat × Triple × TView) := []
  graphs : List (Bytes × Graph) := []

def St.triple (st : St) (id : Nat) : Option Triple := (st.uni.find? (·.1 == id)).map (·.2.1)
def St.view (st : St) (id : Nat) : Option TView := (st.uni.find? (·.1 == id)).map (·.2.2)

def hexStr (s : String) : Option Bytes := unhexBytes s

def parseTimeP (s : String) : Option (Option Time) :=
  if s = "-" then some none else
  match s.splitOn ":" with
  | [n, o] => do pure (some ⟨← n.toInt?, ← o.toInt?⟩)
  | _ => none

def optVal {α : Type} (f : List String → Option α) (s : String) : Option (Option α) :=
  if s = "-" then some none else (f (fields s)).map some

def parseClause (s : String) : Option Clause :=
  match s.splitOn "|" with
  | [opt, sN, sb, sa, sta, sia, pP, pid, pb, pa, pia, pab, paa, plb, pub, plba, puba, pt,
     oO, ob, oa, oid, ota, oia, oab, oaa, olb, oub, olba, ouba, ot] => do
    pure { optional := opt == "1", s := ← optVal parseNode sN, sBinding := ← hexStr sb, sAlias := ← hexStr sa,
           sTypeAlias := ← hexStr sta, sIDAlias := ← hexStr sia,
           p := ← optVal parsePred pP, pID := ← hexStr pid, pBinding := ← hexStr pb, pAlias := ← hexStr pa,
           pIDAlias := ← hexStr pia, pAnchorBinding := ← hexStr pab, pAnchorAlias := ← hexStr paa,
           pLower := ← parseTimeP plb, pUpper := ← parseTimeP pub, pLowerAlias := ← hexStr plba, pUpperAlias := ← hexStr puba,
           pTemporal := pt == "1",
           o := ← optVal parseObj oO, oBinding := ← hexStr ob, oAlias := ← hexStr oa, oID := ← hexStr oid,
           oTypeAlias := ← hexStr ota, oIDAlias := ← hexStr oia, oAnchorBinding := ← hexStr oab, oAnchorAlias := ← hexStr oaa,
           oLower := ← parseTimeP olb, oUpper := ← parseTimeP oub, oLowerAlias := ← hexStr olba, oUpperAlias := ← hexStr ouba,
           oTemporal := ot == "1" }
  | _ => none

def parseProj (s : String) : Option Proj :=
  match s.splitOn "|" with
  | [b, a, op, d] => do
    pure { binding := ← hexStr b, alias := ← hexStr a,
           op := (match op with | "1" => .count | "2" => .sum | _ => .none), distinct := d == "1" }
  | _ => none

def listOf {α : Type} (sep : String) (f : String → Option α) (s : String) : Option (List α) :=
  if s = "-" then some [] else (s.splitOn sep).mapM f

def kv (ws : List String) (k : String) : Option String :=
  (ws.find? (·.startsWith (k ++ "="))).map fun w => (w.drop (k.length + 1)).toString

def parseStmt (ws : List String) : Option Stmt := do
  let g ← kv ws "g"
  let c ← kv ws "c"
  let p ← kv ws "p"
  let gb ← kv ws "gb"
  let ob ← kv ws "ob"
  let hv ← kv ws "hv"
  let lim ← kv ws "lim"
  let lo ← kv ws "lo"
  let hi ← kv ws "hi"
  let f ← kv ws "f"
  pure {
    graphs := ← listOf "," hexStr g
    clauses := ← listOf ";" parseClause c
    projs := ← listOf ";" parseProj p
    groupBy := ← listOf "," hexStr gb
    orderBy := ← listOf "," (fun x => match x.splitOn ":" with
        | [b, d] => do pure (← hexStr b, d == "1")
        | _ => none) ob
    hasHaving := hv == "1"
    limit := if lim = "-" then none else lim.toInt?
    lower := ← parseTimeP lo
    upper := ← parseTimeP hi
    filters := ← listOf ";" (fun x => match x.splitOn ":" with
        | [o, b] => do pure (← o.toNat?, ← hexStr b)
        | _ => none) f }

def parseHOp : String → Option HOp
  | "LT" => some .lt | "GT" => some .gt | "EQ" => some .eq | _ => none

def parseHTok (s : String) : Option HTok :=
  match s.splitOn "~" with
  | [ty, text, parsed] =>
    match ty with
    | "BINDING" => (hexStr text).map .binding
    | "LT" | "GT" | "EQ" => (parseHOp ty).map .op
    | "NOT" => some .not
    | "AND" => some .and
    | "OR" => some .or
    | "LEFT_PARENT" => some .lpar
    | "RIGHT_PARENT" => some .rpar
    | "LITERAL" => some (.lit (if parsed == "bad" then none else parseLit (fields parsed)))
    | "NODE" => some (.node (if parsed == "bad" then none else parseNode (fields parsed)))
    | "TIME" => some (.time (if parsed == "bad" then none else (parseTimeP parsed).join))
    | "PREDICATE" => (hexStr text).map .pred
    | _ => some .other
  | _ => none

def parseHaving (ws : List String) : Option (List HTok) := do
  let ht ← kv ws "ht"
  listOf ";" parseHTok ht

/-! #### printed forms from the universe of the run -/

def natStr (n : Nat) : Bytes := (toString n).toUTF8.toList
def intStr (i : Int) : Bytes := (toString i).toUTF8.toList
def bs (s : String) : Bytes := s.toUTF8.toList

def litStrBasic : Lit → Option Bytes
  | .bool b => some (bs (if b then "\"true\"^^type:bool" else "\"false\"^^type:bool"))
  | .int i => some ([34] ++ intStr i ++ bs "\"^^type:int64")
  | .text t => some ([34] ++ t ++ bs "\"^^type:text")
  | .blob b => some (bs "\"[" ++ (bs " ").intercalate (b.map fun x => natStr x.toNat) ++ bs "]\"^^type:blob")
  | .float _ => none

/-- `"id"@[<time>]` → `<time>`. -/
def anchorText (pstr : Bytes) : Bytes :=
  let rev := pstr.reverse
  match rev with
  | 93 :: rest => ((rest.takeWhile (· != 91))).reverse
  | _ => []

def mkStrs (uni : List (Nat × Triple × TView)) : Strs :=
  let preds : List (Pred × Bytes) := uni.flatMap fun (_, t, v) =>
    (t.p, v.pstr) :: (match t.o with | .pred p => [(p, v.ostr)] | _ => [])
  let lits : List (Lit × Bytes) := uni.filterMap fun (_, t, v) => match t.o with | .lit l => some (l, v.ostr) | _ => none
  let times : List (Time × Bytes) := preds.filterMap fun (p, s) => match p with | .tmp _ t => some (t, anchorText s) | _ => none
  -- values the harness handed over: its printed forms; values that exist only because a statement wrote them: the
  -- model's own (`TimeFmt`, checked against every form handed over: `printedFormsAgree`)
  { pred := fun p => match preds.find? (·.1 == p) with
      | some x => x.2
      | none => (BW.Model.TimeFmt.predString p).getD []
    time := fun t => match times.find? (·.1 == t) with
      | some x => x.2
      | none => BW.Model.TimeFmt.rfc3339Nano t
    lit := fun l => match litStrBasic l with
      | some s => s
      | none => ((lits.find? (·.1 == l)).map (·.2)).getD [] }

/-- The printed forms Go gave for a triple's predicate (and predicate object) are the model's own. -/
def printedFormsAgree (t : Triple) (pstr ostr : Bytes) : Bool :=
  let ok := fun (p : Pred) (s : Bytes) => match BW.Model.TimeFmt.predString p with
    | some m => m == s
    | none => true
  ok t.p pstr && (match t.o with | .pred p => ok p ostr | _ => true)

def floatAddBits (a b : Nat) : Nat :=
  ((Float.ofBits a.toUInt64) + (Float.ofBits b.toUInt64)).toBits.toNat

/-! #### canonical rendering of tables -/

def showNode (n : Node) : String := s!"N,{hexBytes n.ty},{hexBytes n.id}"
def showPred : Pred → String
  | .imm i => s!"PI,{hexBytes i}"
  | .tmp i t => s!"PT,{hexBytes i},{t.nanos},{t.off}"
def showLit : Lit → String
  | .bool b => if b then "LB,1" else "LB,0"
  | .int i => s!"LI,{i}"
  | .float b => s!"LF,{b}"
  | .text s => s!"LT,{hexBytes s}"
  | .blob s => s!"LX,{hexBytes s}"
def showCell : Cell → String
  | .node n => showNode n
  | .pred p => showPred p
  | .lit l => showLit l
  | .time t => s!"T,{t.nanos},{t.off}"
  | .str s => s!"S,{hexBytes s}"
  | .null => "NULL"

def cellKind : Cell → Nat
  | .node _ => 0 | .pred _ => 1 | .time _ => 2 | .str _ => 3 | .null => 4
  | .lit (.int _) => 5 | .lit (.float _) => 6 | .lit (.text _) => 7 | .lit (.bool _) => 8 | .lit (.blob _) => 9

def dedupNat (l : List Nat) : List Nat := l.foldl (fun acc x => if acc.contains x then acc else x :: acc) []

def showTable (cols : List Bytes) (rows : List Row) (ordered : Bool) : String :=
  let rs := rows.map fun r => "|".intercalate (cols.map fun b => showCell ((r.get b).getD .null))
  let rs := if ordered then rs else rs.mergeSort (· ≤ ·)
  s!"ok cols={",".intercalate (cols.map hexBytes)} rows={";".intercalate rs}"

def errClass : QErr → String
  | _ => "err"

/-- Canonical order of tie groups: Go's sort is not stable, so rows that compare equal under the
    ORDER BY configuration are ordered by their rendering (the harness does the same). -/
def canonTies (S : Strs) (cfg : List (Bytes × Bool)) (cols : List Bytes) (rows : List Row) : List Row :=
  let render := fun (r : Row) => "|".intercalate (cols.map fun b => showCell ((r.get b).getD .null))
  let rec groups : List Row → List (List Row)
    | [] => []
    | r :: rest =>
      match groups rest with
      | [] => [[r]]
      | (x :: xs) :: gs => if compareRows S cfg r x == .eq then (r :: x :: xs) :: gs else [r] :: (x :: xs) :: gs
      | [] :: gs => [r] :: gs
  (groups rows).flatMap fun g => g.mergeSort fun a b => render a ≤ render b

/-- The SELECT pipeline of the model, in the stage order of `queryPlan.Execute`. -/
def runModel (st : St) (q : Stmt) (having : List HTok) : String :=
  let F := BW.Generated.memoryFacts
  let S := mkStrs st.uni
  match q.graphs.mapM (fun n => (st.graphs.find? (·.1 == n)).map (·.2)) with
  | none => "err"
  | some gs =>
    let qgs : List QGraph := gs.map fun g => { g := g, uni := st.triple }
    match organizeFilters q.filters q.clauses with
    | .error e => errClass e
    | .ok fs =>
    match processPattern F qgs q.clauses { lower := q.lower, upper := q.upper } q.pushedLimit (filterForOf fs) with
    | .error e => errClass e
    | .ok tbl =>
      -- projection / grouping
      let staged : Except QErr Tbl :=
        if q.groupBy.isEmpty then projectPlain q tbl
        else (groupReduce S floatAddBits q tbl.rows).map fun rows =>
          ({ bindings := if rows.isEmpty then tbl.bindings else dedup q.outputBindings, rows := rows } : Tbl)
      match staged with
      | .error e => errClass e
      | .ok t =>
        -- ORDER BY, HAVING, LIMIT in the order of `queryPlan.Execute` (`postStages`)
        let hv : Except HErr (List Row) :=
          if q.hasHaving then
            match newEvaluator having with
            | some e => postStages S q.orderBy (some e) q.limit t.rows
            | none => .error .badConstant
          else postStages S q.orderBy none q.limit t.rows
        match hv with
        | .error _ => "err"
        | .ok rows =>
          -- a key column that mixes kinds of values before the cut: the comparison is not an order, nothing is promised
          -- about the sequence (marker mk=1, as in the reference)
          let mixedKey := q.orderBy.any fun (k, _) => (dedupNat (t.rows.map fun r => cellKind ((r.get k).getD .null))).length > 1
          let mark := fun (s : String) => if mixedKey then s.replace "ok cols=" "ok mk=1 cols=" else s
          if rows.isEmpty then
            (if (dedup q.outputBindings).length != q.outputBindings.length then "err"
             else showTable q.outputBindings [] false)
          else
            let cols := if q.groupBy.isEmpty then t.bindings else dedup q.outputBindings
            if q.orderBy.isEmpty then showTable cols rows false
            else mark (showTable cols (canonTies S q.orderBy cols rows) true)

/-- A predicate bounded by bindings ("id"@[?lo,?hi]) is only given a meaning when every row that reaches
    the clause holds a time for those bindings (the engine reports an error otherwise). -/
def boundsUndefined (solsOf : List Clause → List Row) (cs : List Clause) : Bool :=
  (List.range cs.length).any fun i =>
    match cs[i]? with
    | none => false
    | some c =>
      (c.pLowerAlias ≠ [] || c.pUpperAlias ≠ [] || c.oLowerAlias ≠ [] || c.oUpperAlias ≠ []) &&
      (solsOf (cs.take i)).any fun r =>
        (c.pLowerAlias ≠ [] && (rowTime r c.pLowerAlias).isNone) || (c.pUpperAlias ≠ [] && (rowTime r c.pUpperAlias).isNone) ||
        (c.oLowerAlias ≠ [] && (rowTime r c.oLowerAlias).isNone) || (c.oUpperAlias ≠ [] && (rowTime r c.oUpperAlias).isNone)

/-- Reference pipeline: the solutions of the pattern (join over a scan), then the declarative stages:
    one row per group with its aggregates, rows satisfying HAVING, sorted permutation, first n. -/
def runSpec (st : St) (q : Stmt) (having : List HTok) : String :=
  let S := mkStrs st.uni
  match q.graphs.mapM (fun n => (st.graphs.find? (·.1 == n)).map (·.2)) with
  | none => "err"
  | some gs =>
    -- FILTER: `isTemporal` / `isImmutable` keep the triples whose predicate (or predicate-valued object) is of that kind;
    -- `latest` is defined per driver look-up (what the candidates are depends on the evaluation strategy): no reference
    match organizeFilters q.filters q.clauses with
    | .error _ => "err"
    | .ok fs =>
    if fs.any (fun p => p.2.op == .latest) then "unsupported" else
    let scan : List Triple := gs.flatMap fun g => g.master.filterMap fun v => st.triple v.id
    let keeps : Clause → Triple → Bool := fun c t =>
      match filterForOf fs c with
      | none => true
      | some fo =>
        let kind : Option Bool := match fo.field with      -- some true: temporal, some false: immutable
          | .predicate => some t.p.anchor.isSome
          | .object => (match t.o with | .pred p => some p.anchor.isSome | _ => none)
          | _ => none
        (match fo.op with
         | .isTemporal => kind == some true
         | .isImmutable => kind == some false
         | _ => true)
    let solsOf : List Clause → List Row := fun cs => cs.foldl (fun rows c =>
      joinClauseO (scan.filter (keeps c)) (q.lower.map (·.nanos)) (q.upper.map (·.nanos)) rows c) [[]]
    -- (the rows that reach a clause bounded by bindings are those the FILTERed clauses before it let through)
    if boundsUndefined solsOf q.clauses then "unsupported" else
    let sols := solsOf q.clauses
    let cols := dedup q.outputBindings
    let staged : Except QErr (List Row) :=
      if q.groupBy.isEmpty then .ok (sols.map (project q.projs)) else groupReduceWith sumExact S floatAddBits q sols
    match staged with
    | .error .sumOrderDependent => "unsupported"
    | .error _ => "err"
    | .ok rows =>
      let mixedKeyBefore := q.orderBy.any fun (k, _) => (dedupNat (rows.map fun r => cellKind ((r.get k).getD .null))).length > 1
      let hv : Except HErr (List Row) :=
        if q.hasHaving then
          match specEvaluator having with
          | some e => havingFilter S e rows
          | none => .error .badConstant
        else .ok rows
      match hv with
      | .error _ => "err"
      | .ok rows =>
        let rows := sortRows S q.orderBy rows
        let ordered := !q.orderBy.isEmpty
        let rows := if ordered then canonTies S q.orderBy cols rows else rows
        -- the engine sorts BEFORE it applies HAVING: when a key column of the rows before HAVING mixes kinds of
        -- values the comparison is not an order and nothing is promised about the sequence (marker mk=1)
        let mark := fun (t : String) => if ordered && q.hasHaving && mixedKeyBefore then t.replace "ok cols=" "ok mk=1 cols=" else t
        match q.limit with
        | some n => s!"limit={n} " ++ mark (showTable cols rows ordered)
        | none => mark (showTable cols rows ordered)

/-- The reference pipeline reads ORDER BY, GROUP BY and LIMIT as the generator of the text meant them
    (`xob=`, `xgb=`, `xlim=`), not as the parser's hooks recorded them: a hook that distorts them is
    then visible as a contradiction with the reference. -/
def withIntent (ws : List String) (q : Stmt) : Stmt :=
  let q := match kv ws "xc" with
    | some v => match listOf ";" parseClause v with
      | some cs => { q with clauses := cs }
      | none => q
    | none => q
  let q := match kv ws "xg" with
    | some v => match listOf "," hexStr v with
      | some gs => { q with graphs := gs }
      | none => q
    | none => q
  let q := match kv ws "xp" with
    | some v => match listOf ";" parseProj v with
      | some ps => { q with projs := ps }
      | none => q
    | none => q
  let q := match kv ws "xlo", kv ws "xhi" with
    | some lo, some hi => match parseTimeP lo, parseTimeP hi with
      | some lo, some hi => { q with lower := lo, upper := hi }
      | _, _ => q
    | _, _ => q
  let q := match kv ws "xob" with
    | some v => match listOf "," (fun x => match x.splitOn ":" with
        | [b, d] => do pure (← hexStr b, d == "1")
        | _ => none) v with
      | some ob => { q with orderBy := ob }
      | none => q
    | none => q
  let q := match kv ws "xgb" with
    | some v => match listOf "," hexStr v with
      | some gb => { q with groupBy := gb }
      | none => q
    | none => q
  match kv ws "xlim" with
  | some v => match v.toInt? with
    | some n => { q with limit := some n }
    | none => q
  | none => q

def step (useSpec : Bool) (st : St) (line : String) : St × String :=
  match words line with
  | ["reset"] => ({}, "ok")
  | ["T", tid, s, p, o, pstr, str, sstr, ostr] =>
    let r : Option (Nat × Triple × Option TView) := do
      let id ← tid.toNat?
      let tr : Triple := ⟨← parseNode (fields s), ← parsePred (fields p), ← parseObj (fields o)⟩
      pure (id, tr, tr.view false id (← unhexBytes pstr) (← unhexBytes str) (← unhexBytes sstr) (← unhexBytes ostr))
    match r with
    | some (id, tr, some tv) =>
      ({ st with uni := (id, tr, tv) :: st.uni }, if printedFormsAgree tr tv.pstr tv.ostr then "T ok" else "T printed-form-mismatch")
    | some (_, _, none) => (st, "T panic")
    | none => (st, "bad-op")
  | ["new", n] =>
    match unhexBytes n with
    | some n => if st.graphs.any (·.1 == n) then (st, "err") else ({ st with graphs := (n, Graph.empty) :: st.graphs }, "ok")
    | none => (st, "bad-op")
  | ["add", n, ts] =>
    let r : Option (Bytes × List TView) := do
      let n ← unhexBytes n
      let vs ← if ts = "-" then some [] else (fields ts).mapM fun f => do st.view (← f.toNat?)
      pure (n, vs)
    match r with
    | some (n, vs) =>
      if st.graphs.any (·.1 == n) then
        ({ st with graphs := st.graphs.map fun p => if p.1 == n then (p.1, p.2.addAll BW.Generated.memoryFacts vs) else p }, "ok")
      else (st, "err")
    | none => (st, "bad-op")
  | ["rem", n, ts] =>
    let r : Option (Bytes × List TView) := do
      let n ← unhexBytes n
      let vs ← if ts = "-" then some [] else (fields ts).mapM fun f => do st.view (← f.toNat?)
      pure (n, vs)
    match r with
    | some (n, vs) =>
      if st.graphs.any (·.1 == n) then
        ({ st with graphs := st.graphs.map fun p => if p.1 == n then (p.1, p.2.remAll BW.Generated.memoryFacts vs) else p }, "ok")
      else (st, "err")
    | none => (st, "bad-op")
  | "Q" :: ws =>
    match parseStmt ws with
    | none => (st, "bad-op")
    | some q =>
      match parseHaving ws with
      | none => (st, "bad-op")
      | some hv => (st, if useSpec then runSpec st (withIntent ws q) hv else runModel st q hv)
  | "M" :: _ => (st, "-")
  | _ => (st, "bad-op")

def main (mode : String) : IO Unit := do
  let stdin ← IO.getStdin
  let stRef ← IO.mkRef ({} : St)
  forLines stdin fun line => do
    if line.startsWith "#" then IO.println line
    else
      let st ← stRef.get
      let (st', out) := step (mode == "spec") st line
      stRef.set st'
      IO.println out

end Driver.Query
