import BW.Model.Store
import BW.Model.Value
import BW.Spec.Store
import BW.Generated.MemoryFacts
import Driver.Proto

/-! `bwdriver store model|spec`: histories over the store, one output line per input line. -/
namespace Driver.Store
open BW.Model BW.Spec Driver

def parseMethod : String → Option Method
  | "objects" => some .objects
  | "subjects" => some .subjects
  | "predsForSO" => some .predsForSO
  | "predsForS" => some .predsForS
  | "predsForO" => some .predsForO
  | "triplesForS" => some .triplesForS
  | "triplesForP" => some .triplesForP
  | "triplesForO" => some .triplesForO
  | "triplesForSP" => some .triplesForSP
  | "triplesForPO" => some .triplesForPO
  | "triples" => some .triples
  | _ => none

def parseOptInt (s : String) : Option (Option Int) :=
  if s = "-" then some none else (s.toInt?).map some

def parseLo (s : String) : Option LookupOpts :=
  match fields s with
  | [mx, off, lo, up, latest, fop, ffield] => do
    let mx ← mx.toInt?
    let off ← off.toInt?
    let lo ← parseOptInt lo
    let up ← parseOptInt up
    let fop ← fop.toNat?
    let ff ← ffield.toNat?
    let field : FilterField := match ff with
      | 1 => .subject | 2 => .predicate | 3 => .object | _ => .unknown
    let filter : Option FilterOpts := match fop with
      | 0 => none
      | 1 => some ⟨.latest, field⟩
      | 2 => some ⟨.isImmutable, field⟩
      | 3 => some ⟨.isTemporal, field⟩
      | _ => some ⟨.unknown, field⟩
    pure { maxElements := mx, offset := off, lower := lo, upper := up, latestAnchor := latest = "1", filter := filter }
  | _ => none

structure St where
  uni : List (Nat × Option TView) := []
  model : BW.Model.Store := []
  spec : SStore := []

def St.tv (st : St) (id : Nat) : Option TView := ((st.uni.find? (·.1 == id)).map (·.2)).join

def parseTids (st : St) (s : String) : Option (List TView) :=
  if s = "-" then some [] else (fields s).mapM fun f => do st.tv (← f.toNat?)

def projOf : Method → (TView → Bytes)
  | .objects => (·.ostr)
  | .subjects => (·.sstr)
  | .predsForSO | .predsForS | .predsForO => (·.pstr)
  | _ => (·.str)

def showOut (m? : Option Method) : Out → String
  | .ok => "ok"
  | .err => "err"
  | .names l => "names " ++ ",".intercalate ((l.map hexBytes).mergeSort (· ≤ ·))
  | .bool b => if b then "true" else "false"
  | .elems (.error _) => "err"
  | .elems (.ok l) =>
    let f := match m? with | some m => projOf m | none => (·.str)
    "ok " ++ ",".intercalate (l.map fun t => hexBytes (f t))

/-- Decode one line into an operation (or a universe definition). -/
def step (useSpec : Bool) (F : Facts) (st : St) (line : String) : St × String :=
  match words line with
  | ["K", s1, p1, o1, s2, p2, o2] =>
    -- two different values the generator found under one UUID: do their pre-images coincide (a listed class)?
    let r : Option Bool := do
      let a : Triple := ⟨← parseNode (fields s1), ← parsePred (fields p1), ← parseObj (fields o1)⟩
      let b : Triple := ⟨← parseNode (fields s2), ← parsePred (fields p2), ← parseObj (fields o2)⟩
      let va ← a.view false 0 [] [] [] []
      let vb ← b.view false 1 [] [] [] []
      pure (va.key == vb.key)
    match r with
    | some true => (st, "collide")
    | some false => (st, if useSpec then "collide" else "distinct")   -- the specification has no UUIDs
    | none => (st, "bad-op")
  | ["T", tid, s, p, o, pstr, str, sstr, ostr] =>
    let r : Option (Nat × Option TView) := do
      let id ← tid.toNat?
      let s ← parseNode (fields s)
      let p ← parsePred (fields p)
      let o ← parseObj (fields o)
      let tr : Triple := ⟨s, p, o⟩
      let (a, b, c, d) := (← unhexBytes pstr, ← unhexBytes str, ← unhexBytes sstr, ← unhexBytes ostr)
      -- the UUID must be defined in both modes; the spec identifies triples by value, not by pre-image
      pure (id, if useSpec then (tr.view false id a b c d).map (fun _ => tr.viewSpec id a b c d) else tr.view false id a b c d)
    match r with
    | some (id, tv) => ({ st with uni := (id, tv) :: st.uni }, if tv.isSome then "T ok" else "T panic")
    | none => (st, "bad-op")
  | ["reset"] => ({}, "ok")
  | cmd :: rest =>
    let op? : Option (Op × Option Method) := match cmd, rest with
      | "new", [n] => do pure (.newGraph (← unhexBytes n), none)
      | "get", [n] => do pure (.getGraph (← unhexBytes n), none)
      | "del", [n] => do pure (.deleteGraph (← unhexBytes n), none)
      | "names", [] => some (.names, none)
      | "add", [n, ts] => do pure (.add (← unhexBytes n) (← parseTids st ts), none)
      | "rem", [n, ts] => do pure (.rem (← unhexBytes n) (← parseTids st ts), none)
      | "exist", [n, t] => do pure (.exist (← unhexBytes n) (← st.tv (← t.toNat?)), none)
      | "look", [n, m, s, p, pstr, o, lo] => do
        let m ← parseMethod m
        let sN : Bytes ← if s = "-" then some [] else (parseNode (fields s)).map (if useSpec then idNode else preNode)
        let pq : Option PQ ← if p = "-" then some none else do
          let pr ← parsePred (fields p)
          pure (some { pid := pr.id, pnano := pr.anchor.map (·.nanos), pstr := (← unhexBytes pstr) })
        let oB : Bytes ← if o = "-" then some [] else do
          let ob ← parseObj (fields o)
          if useSpec then pure (idObj ob) else preObj false ob
        pure (.lookup (← unhexBytes n) m { s := sN, p := pq, o := oB } (← parseLo lo), some m)
      | _, _ => none
    match op? with
    | none => (st, "bad-op")
    | some (op, m?) =>
      if useSpec then
        let (s', o) := st.spec.step op
        ({ st with spec := s' }, showOut m? o)
      else
        let (s', o) := st.model.step F op
        ({ st with model := s' }, showOut m? o)
  | [] => (st, "")

def main (mode : String) : IO Unit := do
  let stdin ← IO.getStdin
  let stRef ← IO.mkRef ({} : St)
  forLines stdin fun line => do
    if line.startsWith "#" then
      IO.println line
    else
      let st ← stRef.get
      let (st', out) := step (mode == "spec") BW.Generated.memoryFacts st line
      stRef.set st'
      IO.println out

end Driver.Store
