import BW.Model.Grammar
import BW.Generated.Grammar
import Driver.Util

namespace Driver.C17
open BW.Model BW.Generated

def showFired (l : List (Sym × Nat)) : String :=
  ",".intercalate (l.map fun (s, i) => s!"{symName s}:{i}")

/-- One line per translator witness: what the model parser does with it. -/
def main : IO Unit := do
  for (s, i, toks) in witnesses do
    let r := parseKinds bql 4096 toks
    let acc := match r with
      | .accept rest _ => if rest.isEmpty then "accept" else "accept-partial"
      | .reject _ => "reject"
      | .nofuel => "nofuel"
    let toksS := " ".intercalate (toks.map tokName)
    IO.println s!"W {symName s} {i} {acc} [{showFired (firedAlts r.events)}] {toksS}"

end Driver.C17
