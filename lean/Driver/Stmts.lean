import BW.Model.Statements
import Driver.Query

/-! `bwdriver stmts`: the store is built by `T` / `new` / `add` lines, `X` lines carry the dumped
    `semantic.Statement` of a CREATE / DROP / INSERT / DELETE / CONSTRUCT / DECONSTRUCT, `D` lines ask
    for the content of every graph. -/
namespace Driver.Stmts
open BW.Model BW.Spec BW.Model.Stm Driver Driver.Query

structure St where
  uni : List (Nat × Triple) := []
  views : List (Nat × Triple × TView) := []   -- with the printed forms Go gave (HAVING compares some values by them)
  store : VStore := {}

def showPredV : Pred → String
  | .imm i => s!"PI,{hexBytes i}"
  | .tmp i t => s!"PT,{hexBytes i},{t.nanos}"

def showObjV : Obj → String
  | .node n => showNode n
  | .pred p => showPredV p
  | .lit l => showLit l

def showTripleV (t : Triple) : String := s!"{showNode t.s}|{showPredV t.p}|{showObjV t.o}"

def dump (s : VStore) : String :=
  "state " ++ " ".intercalate (s.graphs.map fun p => s!"g={hexBytes p.1}:{";".intercalate (p.2.map showTripleV)}")

def parseTripleF (s : String) : Option Triple :=
  match s.splitOn "|" with
  | [a, b, c] => do pure ⟨← parseNode (fields a), ← parsePred (fields b), ← parseObj (fields c)⟩
  | _ => none

def parsePOPair (s : String) : Option POPair :=
  match s.splitOn "~" with
  | [p, pid, pb, pab, pt, o, oid, ob, oab, ot] => do
    pure { p := ← optVal parsePred p, pID := ← hexStr pid, pBinding := ← hexStr pb, pAnchorBinding := ← hexStr pab,
           pTemporal := pt == "1", o := ← optVal parseObj o, oID := ← hexStr oid, oBinding := ← hexStr ob,
           oAnchorBinding := ← hexStr oab, oTemporal := ot == "1" }
  | _ => none

def parseCC (s : String) : Option CClause :=
  match s.splitOn "|" with
  | [n, sb, ps] => do
    pure { s := ← optVal parseNode n, sBinding := ← hexStr sb, pairs := ← (ps.splitOn "^").mapM parsePOPair }
  | _ => none

def parseKind : String → Option Kind
  | "0" => some .query | "1" => some .insert | "2" => some .delete | "3" => some .create | "4" => some .drop
  | "5" => some .construct | "6" => some .deconstruct | "7" => some .show | _ => none

/-- HAVING of a CONSTRUCT / DECONSTRUCT: the evaluator the engine builds from the collected tokens, on a solution. -/
def keepOf (S : Strs) (ws : List String) : Row → Option Bool :=
  if (kv ws "hv").getD "0" != "1" then fun _ => some true else
  match (parseHaving ws).bind newEvaluator with
  | none => fun _ => none
  | some e => fun r => match evalH S r e with
    | .ok b => some b
    | .error _ => none

def parseDStmtS (S : Strs) (ws : List String) : Option DStmt := do
  let q ← parseStmt ws
  pure {
    keep := keepOf S ws
    kind := ← parseKind (← kv ws "ty")
    graphNames := ← listOf "," hexStr (← kv ws "gn")
    inputs := q.graphs
    outputs := ← listOf "," hexStr (← kv ws "og")
    data := ← listOf ";" parseTripleF (← kv ws "data")
    ccs := ← listOf ";" parseCC (← kv ws "cc")
    outBindings := ← listOf "," hexStr (← kv ws "outb")
    clauses := q.clauses
    lower := q.lower
    upper := q.upper }

def parseDStmt (ws : List String) : Option DStmt := do
  let q ← parseStmt ws
  pure {
    kind := ← parseKind (← kv ws "ty")
    graphNames := ← listOf "," hexStr (← kv ws "gn")
    inputs := q.graphs
    outputs := ← listOf "," hexStr (← kv ws "og")
    data := ← listOf ";" parseTripleF (← kv ws "data")
    ccs := ← listOf ";" parseCC (← kv ws "cc")
    outBindings := ← listOf "," hexStr (← kv ws "outb")
    clauses := q.clauses
    lower := q.lower
    upper := q.upper }

def step (st : St) (line : String) : St × String :=
  match words line with
  | ["reset"] => ({}, "ok")
  | "T" :: tid :: s :: p :: o :: more =>
    let r : Option (Nat × Triple) := do
      pure (← tid.toNat?, ⟨← parseNode (fields s), ← parsePred (fields p), ← parseObj (fields o)⟩)
    match r with
    | some x =>
      let view : TView := match more with
        | [pstr, str, _sstr, ostr] =>
          { ks := [], pid := [], pnano := none, ko := [], pstr := (unhexBytes pstr).getD [], str := (unhexBytes str).getD [],
            ostr := (unhexBytes ostr).getD [] }
        | _ => { ks := [], pid := [], pnano := none, ko := [] }
      ({ st with uni := x :: st.uni, views := (x.1, x.2, view) :: st.views },
       if more.length != 4 || printedFormsAgree x.2 view.pstr view.ostr then "T ok" else "T printed-form-mismatch")
    | none => (st, "bad-op")
  | ["new", n] =>
    match unhexBytes n with
    | some n =>
      if st.store.exists n then (st, "err")
      else ({ st with store := { st.store with graphs := st.store.graphs ++ [(n, [])] } }, "ok")
    | none => (st, "bad-op")
  | ["add", n, ts] =>
    let r : Option (Bytes × List Triple) := do
      let n ← unhexBytes n
      let vs ← if ts = "-" then some [] else (fields ts).mapM fun f => do
        let id ← f.toNat?
        (st.uni.find? (·.1 == id)).map (·.2)
      pure (n, vs)
    match r with
    | some (n, vs) =>
      if st.store.exists n then ({ st with store := st.store.update n (·.addAll vs) }, "ok") else (st, "err")
    | none => (st, "bad-op")
  | ["D"] => (st, dump st.store)
  | "X" :: ws =>
    if ws.contains "-" && (kv ws "ty").isNone then (st, "reject") else
    match parseDStmtS (mkStrs st.views) ws with
    | none => (st, "bad-op")
    | some d =>
      let (s', out) := exec st.store d
      ({ st with store := s' }, match out with | .ok => "ok" | .rejected => "err rejected" | .failed => "err failed")
  | _ => (st, "bad-op")

def main : IO Unit := do
  let stdin ← IO.getStdin
  let stRef ← IO.mkRef ({} : St)
  forLines stdin fun line => do
    if line.startsWith "#" then IO.println line
    else
      let st ← stRef.get
      let (st', out) := step st line
      stRef.set st'
      IO.println out

end Driver.Stmts
