import BW.Model.Value
import Driver.Util

/-! Decoding of protocol fields into model values. -/
namespace Driver
open BW.Model

def parseInt? (s : String) : Option Int := s.toInt?

def parseNode (fs : List String) : Option Node :=
  match fs with
  | ["N", ty, id] => do
    let ty ← unhexBytes ty
    let id ← unhexBytes id
    pure ⟨ty, id⟩
  | _ => none

def parsePred (fs : List String) : Option Pred :=
  match fs with
  | ["PI", id] => do pure (.imm (← unhexBytes id))
  | ["PT", id, nanos, off] => do
    pure (.tmp (← unhexBytes id) ⟨← parseInt? nanos, ← parseInt? off⟩)
  | _ => none

def parseLit (fs : List String) : Option Lit :=
  match fs with
  | ["LB", "0"] => some (.bool false)
  | ["LB", "1"] => some (.bool true)
  | ["LI", i] => do pure (.int (← parseInt? i))
  | ["LF", b] => do pure (.float (← b.toNat?))
  | ["LT", s] => do pure (.text (← unhexBytes s))
  | ["LX", s] => do pure (.blob (← unhexBytes s))
  | _ => none

def parseObj (fs : List String) : Option Obj :=
  match fs with
  | "N" :: _ => (parseNode fs).map .node
  | "PI" :: _ => (parsePred fs).map .pred
  | "PT" :: _ => (parsePred fs).map .pred
  | _ => (parseLit fs).map .lit

def fields (s : String) : List String := s.splitOn ","

end Driver
