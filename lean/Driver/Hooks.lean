import BW.Model.Hooks
import BW.Generated.HookFacts
import Driver.Query
import Driver.Parse
import Driver.Stmts

/-! `bwdriver hooks`: the `Q` lines of the query protocol carry the statement's tokens (`tk=`, with what
    Go's parsers make of each text) and the Statement the real hooks built (`c= p= g= gb= ob= lim= lo= hi=`). The tokens go through
    the model parser over the regenerated grammar; its hook events are routed by the regenerated hook table
    to the model of the hooks; the clauses, projections, graphs, GROUP BY, ORDER BY, LIMIT and global bounds
    that come out are compared with Go's. `X` lines (statements that change a store: `stmts` protocol) likewise:
    statement type, graph names, input / output graphs, data triples, construct template, WHERE clauses, bounds. -/
namespace Driver.Hooks
open BW.Model BW.Model.Hooks BW.Model.Stm BW.Generated Driver Driver.Query

instance : BEq Proj := ⟨fun a b => a.binding == b.binding && a.alias == b.alias && a.op == b.op && a.distinct == b.distinct⟩

instance : BEq POPair := ⟨fun a b => a.p == b.p && a.pID == b.pID && a.pBinding == b.pBinding && a.pAnchorBinding == b.pAnchorBinding &&
  a.pTemporal == b.pTemporal && a.o == b.o && a.oID == b.oID && a.oBinding == b.oBinding && a.oAnchorBinding == b.oAnchorBinding &&
  a.oTemporal == b.oTemporal⟩
instance : BEq CClause := ⟨fun a b => a.s == b.s && a.sBinding == b.sBinding && a.pairs == b.pairs⟩

def hkOf (name : String) : HK :=
  match name with
  | "BINDING" => .binding | "NODE" => .node | "PREDICATE" => .predicate | "PREDICATE_BOUND" => .predicateBound
  | "LITERAL" => .literal | "AS" => .as_ | "TYPE" => .type_ | "ID" => .id_ | "AT" => .at_ | "OPTIONAL" => .optional
  | "LEFT_BRACKET" => .lbracket | "RIGHT_BRACKET" => .rbracket | "ASC" => .asc | "DESC" => .desc
  | "SUM" => .sum | "COUNT" => .count | "DISTINCT" => .distinct | "COMMA" => .comma | "BEFORE" => .before
  | "AFTER" => .after | "BETWEEN" => .between | "TIME" => .time | "LIMIT" => .limit_ | "BLANK_NODE" => .blank | _ => .other

def parseTok (s : String) : Option (Tok × HTk) :=
  let parts := s.splitOn "~"
  match parts.take 3 with
  | [ty, text, payload] => do
    let k ← Driver.Parse.tokByName ty
    let txt ← hexStr text
    -- a fourth field: `triple.ParseObject` of a PREDICATE token's text
    let objp : Option Obj := match parts.drop 3 with
      | [o] => if o = "bad" then none else parseObj (fields o)
      | _ => none
    let base : HTk := { k := hkOf ty, text := txt, obj := objp }
    let tk : HTk :=
      if payload = "-" || payload = "bad" then base else
      match hkOf ty with
      | .node | .blank => match parseNode (fields payload) with
        | some n => { base with node := some n, obj := some (.node n) }
        | none => base
      | .literal => { base with obj := parseObj (fields payload) }
      | .predicate =>
        if payload.startsWith "F." then { base with pred := parsePred (fields (payload.drop 2).toString) }
        else match (payload.drop 2).toString.splitOn "." with
          | [id, ta] => match hexStr id, hexStr ta with
            | some i, some t => { base with part := some (i, t) }
            | _, _ => base
          | _ => base
      | .time => { base with time := (parseTimeP payload).join }
      | .predicateBound =>
        if payload.startsWith "G." then
          match (payload.drop 2).toString.splitOn "." with
          | [lo, hi] => match (parseTimeP lo).join, (parseTimeP hi).join with
            | some lo, some hi => { base with pair := some (lo, hi) }
            | _, _ => base
          | _ => base
        else
        match (payload.drop 2).toString.splitOn "." with
        | [id, la, ua, lo, hi] =>
          match hexStr id, hexStr la, hexStr ua, parseTimeP lo, parseTimeP hi with
          | some i, some l, some u, some lo, some hi => { base with bound := some { id := i, loAlias := l, hiAlias := u, lo := lo, hi := hi } }
          | _, _, _, _, _ => base
        | _ => base
      | _ => base
    pure (k, tk)
  | _ => none

def chEv : CHook → List HEv
  | .next => [.next]
  | .init => [.init]
  | .orderCheck => [.orderCheck]
  | .flushVars => [.flushVars]
  | .bindType k => [.bindType k]
  | .cInit => [.cInit]
  | .cNext => [.cNext]
  | .cPair => [.cPair]
  | .none => []

/-- Parser events → what the WHERE hooks are handed. -/
def toHEvs : List (Ev Tok Sym (Tok × HTk)) → List HEv
  | [] => []
  | .start s _ :: es => chEv (startHook s) ++ toHEvs es
  | .fin s _ :: es => chEv (endHook s) ++ toHEvs es
  | .elemTok s i tok :: es => .tok (partOf s i) tok.2 :: toHEvs es
  | _ :: es => toHEvs es

def eofTk : Tok × HTk := (bql.eof, { k := .other })

/-- What the model hooks build from a token list; `none`: rejected by parser or hooks. -/
def builtOf (toks : List (Tok × HTk)) : Option (List Clause × Head) :=
  match parseWith bql (fun t => t.1) eofTk (64 + 128 * toks.length) toks with
  | .accept rest evs => if rest.isEmpty then (wrun { stmt := 1 } (toHEvs evs)).map (fun w => (w.pattern, w.head)) else none
  | _ => none

def main : IO Unit := do
  let stdin ← IO.getStdin
  forLines stdin fun line => do
    match words line with
    | "Q" :: ws =>
      match kv ws "tk", parseStmt ws with
      | some tk, some st =>
        match listOf ";" parseTok tk with
        | some toks =>
          match builtOf toks with
          | some (got, hd) =>
            let diffs : List String :=
              (if got == st.clauses then [] else [s!"clauses model={repr got}"]) ++
              (if hd.projs == st.projs then [] else [s!"projections model={repr hd.projs}"]) ++
              (if hd.graphs == st.graphs then [] else [s!"graphs model={repr hd.graphs}"]) ++
              (if hd.groupBy == st.groupBy then [] else [s!"group-by model={repr hd.groupBy}"]) ++
              (if hd.order == st.orderBy then [] else [s!"order-by model={repr hd.order}"]) ++
              (if hd.limit == st.limit then [] else [s!"limit model={repr hd.limit}"]) ++
              (if hd.lower == st.lower && hd.upper == st.upper then [] else [s!"bounds model={repr hd.lower},{repr hd.upper}"])
            IO.println (if diffs.isEmpty then "same" else "differs " ++ " ".intercalate diffs)
          | none => IO.println "model-rejects"
        | none => IO.println "bad-op"
      | _, _ => IO.println "-"
    | "X" :: ws =>
      -- a statement that changes a store (or a SELECT of the corpus), accepted by the real parser
      match kv ws "tk", Driver.Stmts.parseDStmt ws with
      | some tk, some d =>
        match listOf ";" parseTok tk with
        | some toks =>
          match builtOf toks with
          | some (got, hd) =>
            let diffs : List String :=
              (if hd.kind == d.kind then [] else [s!"type model={repr hd.kind}"]) ++
              (if hd.graphNames == d.graphNames then [] else [s!"graph-names model={repr hd.graphNames}"]) ++
              (if hd.outputs == d.outputs then [] else [s!"output-graphs model={repr hd.outputs}"]) ++
              (if hd.graphs == d.inputs then [] else [s!"input-graphs model={repr hd.graphs}"]) ++
              (if hd.data == d.data then [] else [s!"data model={repr hd.data}"]) ++
              (if hd.ccs == d.ccs then [] else [s!"template model={hd.ccs.length} clauses"]) ++
              (if got == d.clauses then [] else [s!"clauses model={repr got}"]) ++
              (if hd.lower == d.lower && hd.upper == d.upper then [] else [s!"bounds model={repr hd.lower},{repr hd.upper}"])
            IO.println (if diffs.isEmpty then "same" else "differs " ++ " ".intercalate diffs)
          | none => IO.println "model-rejects"
        | none => IO.println "bad-op"
      | _, _ => IO.println "-"
    | _ => IO.println "-"

end Driver.Hooks
