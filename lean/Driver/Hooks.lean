import BW.Model.Hooks
import BW.Generated.HookFacts
import Driver.Query
import Driver.Parse

/-! `bwdriver hooks`: the `Q` lines of the query protocol carry the statement's tokens (`tk=`, with what
    Go's parsers make of each text) and the Statement the real hooks built (`c= p= g= gb= ob= lim= lo= hi=`). The tokens go through
    the model parser over the regenerated grammar; its hook events are routed by the regenerated hook table
    to the model of the hooks; the clauses, projections, graphs, GROUP BY, ORDER BY, LIMIT and global bounds
    that come out are compared with Go's. -/
namespace Driver.Hooks
open BW.Model BW.Model.Hooks BW.Generated Driver Driver.Query

instance : BEq Proj := ⟨fun a b => a.binding == b.binding && a.alias == b.alias && a.op == b.op && a.distinct == b.distinct⟩

def hkOf (name : String) : HK :=
  match name with
  | "BINDING" => .binding | "NODE" => .node | "PREDICATE" => .predicate | "PREDICATE_BOUND" => .predicateBound
  | "LITERAL" => .literal | "AS" => .as_ | "TYPE" => .type_ | "ID" => .id_ | "AT" => .at_ | "OPTIONAL" => .optional
  | "LEFT_BRACKET" => .lbracket | "RIGHT_BRACKET" => .rbracket | "ASC" => .asc | "DESC" => .desc
  | "SUM" => .sum | "COUNT" => .count | "DISTINCT" => .distinct | "COMMA" => .comma | "BEFORE" => .before
  | "AFTER" => .after | "BETWEEN" => .between | "TIME" => .time | "LIMIT" => .limit_ | _ => .other

def parseTok (s : String) : Option (Tok × HTk) :=
  match s.splitOn "~" with
  | [ty, text, payload] => do
    let k ← Driver.Parse.tokByName ty
    let txt ← hexStr text
    let base : HTk := { k := hkOf ty, text := txt }
    let tk : HTk :=
      if payload = "-" || payload = "bad" then base else
      match hkOf ty with
      | .node => match parseNode (fields payload) with
        | some n => { base with node := some n, obj := some (.node n) }
        | none => base
      | .literal => { base with obj := parseObj (fields payload) }
      | .predicate =>
        if payload.startsWith "F." then { base with pred := parsePred (fields (payload.drop 2).toString) }
        else match (payload.drop 2).toString.splitOn "." with
          | [id, ta] => match hexStr id, hexStr ta with
            | some i, some t => { base with part := some (i, t) }
            | _, _ => base
          | _ => base
      | .time => { base with time := (parseTimeP payload).join }
      | .predicateBound =>
        if payload.startsWith "G." then
          match (payload.drop 2).toString.splitOn "." with
          | [lo, hi] => match (parseTimeP lo).join, (parseTimeP hi).join with
            | some lo, some hi => { base with pair := some (lo, hi) }
            | _, _ => base
          | _ => base
        else
        match (payload.drop 2).toString.splitOn "." with
        | [id, la, ua, lo, hi] =>
          match hexStr id, hexStr la, hexStr ua, parseTimeP lo, parseTimeP hi with
          | some i, some l, some u, some lo, some hi => { base with bound := some { id := i, loAlias := l, hiAlias := u, lo := lo, hi := hi } }
          | _, _, _, _, _ => base
        | _ => base
      | _ => base
    pure (k, tk)
  | _ => none

def chEv : CHook → List HEv
  | .next => [.next]
  | .init => [.init]
  | .orderCheck => [.orderCheck]
  | .flushVars => [.flushVars]
  | .none => []

/-- Parser events → what the WHERE hooks are handed. -/
def toHEvs : List (Ev Tok Sym (Tok × HTk)) → List HEv
  | [] => []
  | .start s _ :: es => chEv (startHook s) ++ toHEvs es
  | .fin s _ :: es => chEv (endHook s) ++ toHEvs es
  | .elemTok s _ tok :: es => .tok (partOf s) tok.2 :: toHEvs es
  | _ :: es => toHEvs es

def eofTk : Tok × HTk := (bql.eof, { k := .other })

/-- What the model hooks build from a token list; `none`: rejected by parser or hooks. -/
def builtOf (toks : List (Tok × HTk)) : Option (List Clause × Head) :=
  match parseWith bql (fun t => t.1) eofTk (64 + 128 * toks.length) toks with
  | .accept rest evs => if rest.isEmpty then (wrun { stmt := 1 } (toHEvs evs)).map (fun w => (w.pattern, w.head)) else none
  | _ => none

def main : IO Unit := do
  let stdin ← IO.getStdin
  forLines stdin fun line => do
    match words line with
    | "Q" :: ws =>
      match kv ws "tk", parseStmt ws with
      | some tk, some st =>
        match listOf ";" parseTok tk with
        | some toks =>
          match builtOf toks with
          | some (got, hd) =>
            let diffs : List String :=
              (if got == st.clauses then [] else [s!"clauses model={repr got}"]) ++
              (if hd.projs == st.projs then [] else [s!"projections model={repr hd.projs}"]) ++
              (if hd.graphs == st.graphs then [] else [s!"graphs model={repr hd.graphs}"]) ++
              (if hd.groupBy == st.groupBy then [] else [s!"group-by model={repr hd.groupBy}"]) ++
              (if hd.order == st.orderBy then [] else [s!"order-by model={repr hd.order}"]) ++
              (if hd.limit == st.limit then [] else [s!"limit model={repr hd.limit}"]) ++
              (if hd.lower == st.lower && hd.upper == st.upper then [] else [s!"bounds model={repr hd.lower},{repr hd.upper}"])
            IO.println (if diffs.isEmpty then "same" else "differs " ++ " ".intercalate diffs)
          | none => IO.println "model-rejects"
        | none => IO.println "bad-op"
      | _, _ => IO.println "-"
    | _ => IO.println "-"

end Driver.Hooks
