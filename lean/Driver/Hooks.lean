import BW.Model.Hooks
import BW.Generated.HookFacts
import Driver.Query
import Driver.Parse

/-! `bwdriver hooks`: the `Q` lines of the query protocol carry the statement's tokens (`tk=`, with what
    Go's parsers make of each text) and the pattern clauses the real hooks built (`c=`). The tokens go through
    the model parser over the regenerated grammar; its hook events are routed by the regenerated hook table
    to the model of the WHERE-clause hooks; the clauses that come out are compared with Go's. -/
namespace Driver.Hooks
open BW.Model BW.Model.Hooks BW.Generated Driver Driver.Query

def hkOf (name : String) : HK :=
  match name with
  | "BINDING" => .binding | "NODE" => .node | "PREDICATE" => .predicate | "PREDICATE_BOUND" => .predicateBound
  | "LITERAL" => .literal | "AS" => .as_ | "TYPE" => .type_ | "ID" => .id_ | "AT" => .at_ | "OPTIONAL" => .optional
  | "LEFT_BRACKET" => .lbracket | "RIGHT_BRACKET" => .rbracket | "ASC" => .asc | "DESC" => .desc | _ => .other

def parseTok (s : String) : Option (Tok × HTk) :=
  match s.splitOn "~" with
  | [ty, text, payload] => do
    let k ← Driver.Parse.tokByName ty
    let txt ← hexStr text
    let base : HTk := { k := hkOf ty, text := txt }
    let tk : HTk :=
      if payload = "-" || payload = "bad" then base else
      match hkOf ty with
      | .node => match parseNode (fields payload) with
        | some n => { base with node := some n, obj := some (.node n) }
        | none => base
      | .literal => { base with obj := parseObj (fields payload) }
      | .predicate =>
        if payload.startsWith "F." then { base with pred := parsePred (fields (payload.drop 2).toString) }
        else match (payload.drop 2).toString.splitOn "." with
          | [id, ta] => match hexStr id, hexStr ta with
            | some i, some t => { base with part := some (i, t) }
            | _, _ => base
          | _ => base
      | .predicateBound =>
        match (payload.drop 2).toString.splitOn "." with
        | [id, la, ua, lo, hi] =>
          match hexStr id, hexStr la, hexStr ua, parseTimeP lo, parseTimeP hi with
          | some i, some l, some u, some lo, some hi => { base with bound := some { id := i, loAlias := l, hiAlias := u, lo := lo, hi := hi } }
          | _, _, _, _, _ => base
        | _ => base
      | _ => base
    pure (k, tk)
  | _ => none

def chEv : CHook → List HEv
  | .next => [.next]
  | .init => [.init]
  | .orderCheck => [.orderCheck]
  | .none => []

/-- Parser events → what the WHERE hooks are handed. -/
def toHEvs : List (Ev Tok Sym (Tok × HTk)) → List HEv
  | [] => []
  | .start s _ :: es => chEv (startHook s) ++ toHEvs es
  | .fin s _ :: es => chEv (endHook s) ++ toHEvs es
  | .elemTok s _ tok :: es => .tok (partOf s) tok.2 :: toHEvs es
  | _ :: es => toHEvs es

def eofTk : Tok × HTk := (bql.eof, { k := .other })

/-- The pattern clauses and the ORDER BY list the model hooks build from a token list; `none`: rejected by
    parser or hooks. -/
def clausesOf (toks : List (Tok × HTk)) : Option (List Clause × List (Bytes × Bool)) :=
  match parseWith bql (fun t => t.1) eofTk (64 + 128 * toks.length) toks with
  | .accept rest evs => if rest.isEmpty then (wrun { stmt := 1 } (toHEvs evs)).map (fun w => (w.pattern, w.order)) else none
  | _ => none

def main : IO Unit := do
  let stdin ← IO.getStdin
  forLines stdin fun line => do
    match words line with
    | "Q" :: ws =>
      match kv ws "tk", kv ws "c", kv ws "ob" with
      | some tk, some c, some ob =>
        let wantOb := listOf "," (fun x => match x.splitOn ":" with
          | [b, d] => do pure (← hexStr b, d == "1")
          | _ => none) ob
        match listOf ";" parseTok tk, listOf ";" parseClause c, wantOb with
        | some toks, some want, some wantOb =>
          match clausesOf toks with
          | some (got, gotOb) =>
            IO.println (if got == want && gotOb == wantOb then "same"
              else if got == want then s!"differs order-by model={repr gotOb}" else s!"differs model={repr got}")
          | none => IO.println "model-rejects"
        | _, _, _ => IO.println "bad-op"
      | _, _, _ => IO.println "-"
    | _ => IO.println "-"

end Driver.Hooks
