import BW.Model.Value
import Driver.Proto

/-! `bwdriver uuid model|spec`: pre-images of values; pairwise identity. -/
namespace Driver.UUIDp
open BW.Model Driver

inductive Val
  | node (n : Node) | pred (p : Pred) | lit (l : Lit) | obj (o : Obj) | triple (t : Triple)

def parseVal (kind : String) (rest : List String) : Option Val :=
  match kind, rest with
  | "node", [e] => (parseNode (fields e)).map .node
  | "pred", [e] => (parsePred (fields e)).map .pred
  | "lit", [e] => (parseLit (fields e)).map .lit
  | "obj", [e] => (parseObj (fields e)).map .obj
  | "triple", [s, p, o] => do
    pure (.triple ⟨← parseNode (fields s), ← parsePred (fields p), ← parseObj (fields o)⟩)
  | _, _ => none

/-- Model: the pre-image (what is hashed). A triple hashes the three component UUIDs. -/
def pre : Val → Option (List Bytes)
  | .node n => some [preNode n]
  | .pred p => some [prePred p]
  | .lit l => (preLit false l).map ([·])
  | .obj o => (preObj false o).map ([·])
  | .triple t => (preObj false t.o).map fun ko => [preNode t.s, prePred t.p, ko]

def predSame (p q : Pred) : Bool :=
  p.id == q.id && (p.anchor.map (·.nanos)) == (q.anchor.map (·.nanos))

def objSame : Obj → Obj → Bool
  | .node a, .node b => a == b
  | .pred a, .pred b => predSame a b
  | .lit a, .lit b => a == b
  | _, _ => false

/-- Spec: same kind and equal components, anchors compared as instants regardless of zone. -/
def same : Val → Val → Bool
  | .node a, .node b => a == b
  | .pred a, .pred b => predSame a b
  | .lit a, .lit b => a == b
  | .obj a, .obj b => objSame a b
  | .triple a, .triple b => a.s == b.s && predSame a.p b.p && objSame a.o b.o
  | _, _ => false

def main (mode : String) : IO Unit := do
  let stdin ← IO.getStdin
  let vals ← IO.mkRef (#[] : Array (Option Val))
  forLines stdin fun line => do
    match words line with
    | "V" :: _ :: kind :: rest =>
      let v := parseVal kind rest
      vals.modify (·.push v)
      match v with
      | none => IO.println "bad-op"
      | some v =>
        if mode == "spec" then IO.println "-" else
        match pre v with
        | none => IO.println "panic"
        | some [p] => IO.println s!"pre {hexBytes p}"
        | some [a, b, c] => IO.println s!"pre3 {hexBytes a} {hexBytes b} {hexBytes c}"
        | some _ => IO.println "bad-op"
    | ["E", i, j] =>
      let vs ← vals.get
      match i.toNat?, j.toNat? with
      | some i, some j =>
        match vs[i]?.join, vs[j]?.join with
        | some a, some b =>
          if mode == "spec" then IO.println (if same a b then "eq" else "ne")
          else match pre a, pre b with
            | some x, some y => IO.println (if x == y then "eq" else "ne")
            | _, _ => IO.println "panic"
        | _, _ => IO.println "bad-op"
      | _, _ => IO.println "bad-op"
    | _ => IO.println "bad-op"

end Driver.UUIDp
