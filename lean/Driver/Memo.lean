import BW.Model.Memo
import BW.Generated.MemoFacts
import Driver.Util

/-! `bwdriver memo`: an `I` line names the threads (W = update, R = lookup), whether the lookups share a
    key, whether the key was looked up before, and a schedule; the small-step model of the memoizer is
    run on it with the wrapped store abstracted to "how many updates were forwarded"; the answer says
    which state each lookup saw. The policy comes from the facts extracted from memoization.go. -/
namespace Driver.Memo
open BW.Model.Memo BW.Generated Driver

def env : Env Nat Nat Nat Unit Nat := { ans := fun w _ => w, upd := fun w _ => w + 1, key := fun q => q }

def policy : Policy := ⟨memoStoresGuarded, memoResetsAfter⟩

def kvOf (ws : List String) (k : String) : Option String :=
  (ws.find? (·.startsWith (k ++ "="))).map fun w => (w.drop (k.length + 1)).toString

def seen (v : Nat) : String := if v ≥ 1 then "1" else "0"

def runLine (ws : List String) : Option String := do
  let kinds := (← kvOf ws "threads").toList
  let same := (← kvOf ws "same") == "1"
  let warm := (← kvOf ws "warm") == "1"
  let sched ← ((← kvOf ws "sched").splitOn ",").mapM (·.toNat?)
  -- thread list: the k-th reader reads key 0 (first reader, or all when they share the key) or key 1
  let (threads, _) := kinds.foldl (fun (acc : List (Thread Nat Nat Unit) × Nat) c =>
      if c == 'W' then (acc.1 ++ [.writer () .init], acc.2)
      else (acc.1 ++ [.reader (if same || acc.2 == 0 then 0 else 1) .init], acc.2 + 1)) ([], 0)
  let cache0 : Nat → Option Nat := fun k => if warm && (k == 0 || (k == 1 && !same)) then some 0 else none
  let s0 : Sys Nat Nat Nat Unit Nat := { inner := 0, gen := 0, cache := cache0, threads := threads }
  let s1 := s0.runSchedule policy env sched
  -- whatever is still running finishes, thread by thread in index order
  let s2 := s1.runSchedule policy env ((List.range threads.length).flatMap fun i => [i, i, i])
  let reads := s2.threads.filterMap fun t => match t with
    | .reader _ (.done a) => some (seen a)
    | .reader _ _ => some "?"
    | _ => none
  let fin := fun (k : Nat) => match s2.cache k with | some a => seen a | none => seen s2.inner
  pure s!"r={",".intercalate reads} final={fin 0}{fin 1}"

def main : IO Unit := do
  let stdin ← IO.getStdin
  forLines stdin fun line => do
    match words line with
    | "I" :: ws => IO.println ((runLine ws).getD "bad-op")
    | "S" :: _ => IO.println "-"
    | "T" :: _ => IO.println "T ok"
    | ["reset"] => IO.println "ok"
    | _ => if line.startsWith "#" then IO.println line else IO.println "bad-op"

end Driver.Memo
