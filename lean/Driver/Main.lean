import Driver.C17
import Driver.Store
import Driver.UUIDp
import Driver.Lex
import Driver.Parse
import Driver.Query
import Driver.Stmts
import Driver.Fuzz
import Driver.Memo
import Driver.Conc
import Driver.Text
import Driver.Hooks

def main (args : List String) : IO UInt32 := do
  match args with
  | ["c17"] => Driver.C17.main; return 0
  | ["store", mode] => Driver.Store.main mode; return 0
  | ["uuid", mode] => Driver.UUIDp.main mode; return 0
  | ["lex"] => Driver.Lex.main; return 0
  | ["parse"] => Driver.Parse.main; return 0
  | ["query", mode] => Driver.Query.main mode; return 0
  | ["stmts"] => Driver.Stmts.main; return 0
  | ["fuzz"] => Driver.Fuzz.main; return 0
  | ["memo"] => Driver.Memo.main; return 0
  | ["conc"] => Driver.Conc.main; return 0
  | ["text"] => Driver.Text.main; return 0
  | ["hooks"] => Driver.Hooks.main; return 0
  | _ =>
    IO.eprintln "usage: bwdriver <protocol>"
    return 2
