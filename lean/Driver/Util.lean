/-! Shared helpers of the line-protocol driver (hex fields, splitting, PRNG-free). -/
namespace Driver

def hexDigit (c : Char) : Option Nat :=
  if '0' ≤ c ∧ c ≤ '9' then some (c.toNat - '0'.toNat)
  else if 'a' ≤ c ∧ c ≤ 'f' then some (c.toNat - 'a'.toNat + 10)
  else if 'A' ≤ c ∧ c ≤ 'F' then some (c.toNat - 'A'.toNat + 10)
  else none

/-- Decode a hex field ("-" is the empty string) into bytes. -/
def unhexBytes (s : String) : Option (List UInt8) :=
  if s = "-" then some [] else
  let rec go : List Char → List UInt8 → Option (List UInt8)
    | [], acc => some acc.reverse
    | [_], _ => none
    | a :: b :: rest, acc =>
      match hexDigit a, hexDigit b with
      | some x, some y => go rest (UInt8.ofNat (x * 16 + y) :: acc)
      | _, _ => none
  go s.toList []

def hexOfNibble (n : Nat) : Char :=
  if n < 10 then Char.ofNat ('0'.toNat + n) else Char.ofNat ('a'.toNat + n - 10)

def hexBytes (bs : List UInt8) : String :=
  if bs.isEmpty then "-" else
  String.ofList (bs.flatMap fun b => [hexOfNibble (b.toNat / 16), hexOfNibble (b.toNat % 16)])

def words (s : String) : List String :=
  (s.splitOn " ").filter (· ≠ "")

partial def forLines (h : IO.FS.Stream) (f : String → IO Unit) : IO Unit := do
  let line ← h.getLine
  if line.isEmpty then return ()
  f (line.dropRightWhile (fun c => c = '\n' || c = '\r'))
  forLines h f

end Driver
