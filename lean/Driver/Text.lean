import BW.Model.Text
import Driver.Proto

/-! `bwdriver text`: parsing (`X`) and printing (`W`) of nodes, predicates, literals, objects, triples and
    whole graph texts (`R`), with the results of the Go standard library's leaf codecs supplied per line. -/
namespace Driver.Text
open BW.Model BW.Model.Text Driver

structure Oracles where
  unq : List (Bytes × Option Bytes) := []
  tim : List (Bytes × Option Time) := []
  flt : List (Bytes × Option Nat) := []
  quo : List (Bytes × Bytes) := []
  fmtT : List (Int × Int × Bytes) := []
  fmtF : List (Nat × Bytes) := []

/-- A sentinel answer for a missing oracle entry (the correspondence check reports it). -/
def missing : Bytes := [0, 109, 105, 115, 115]

def leafOf (o : Oracles) (missRef : IO.Ref Bool) : Leaf := {
  quote := fun i => match o.quo.find? (·.1 == i) with | some p => p.2 | none => missing
  unquote := fun s => match o.unq.find? (·.1 == s) with | some p => p.2 | none => none
  fmtTime := fun t => match o.fmtT.find? (fun p => p.1 == t.nanos && p.2.1 == t.off) with | some p => p.2.2 | none => missing
  parseTime := fun s => match o.tim.find? (·.1 == s) with | some p => p.2 | none => none
  fmtFloat := fun b => match o.fmtF.find? (·.1 == b) with | some p => p.2 | none => missing
  parseFloat := fun s => match o.flt.find? (·.1 == s) with | some p => p.2 | none => none }

def parseOracles (s : String) : Option Oracles :=
  if s = "-" then some {} else
  (s.splitOn ",").foldlM (fun (o : Oracles) e =>
    match e.splitOn "~" with
    | ["U", a, b] => do pure { o with unq := (← unhexBytes a, if b = "!" then none else unhexBytes b) :: o.unq }
    | ["T", a, n, f] => do pure { o with tim := (← unhexBytes a, if n = "!" then none else (do pure ⟨← n.toInt?, ← f.toInt?⟩)) :: o.tim }
    | ["F", a, b] => do pure { o with flt := (← unhexBytes a, if b = "!" then none else b.toNat?) :: o.flt }
    | ["Q", a, b] => do pure { o with quo := (← unhexBytes a, ← unhexBytes b) :: o.quo }
    | ["M", n, f, b] => do pure { o with fmtT := (← n.toInt?, ← f.toInt?, ← unhexBytes b) :: o.fmtT }
    | ["G", n, b] => do pure { o with fmtF := (← n.toNat?, ← unhexBytes b) :: o.fmtF }
    | _ => none) {}

def showNode (n : Node) : String := s!"N,{hexBytes n.ty},{hexBytes n.id}"
def showPred : Pred → String
  | .imm i => s!"PI,{hexBytes i}"
  | .tmp i t => s!"PT,{hexBytes i},{t.nanos},{t.off}"
def showLit : Lit → String
  | .bool b => s!"LB,{if b then 1 else 0}"
  | .int i => s!"LI,{i}"
  | .float b => s!"LF,{b}"
  | .text s => s!"LT,{hexBytes s}"
  | .blob s => s!"LX,{hexBytes s}"
def showObj : Obj → String
  | .node n => showNode n
  | .pred p => showPred p
  | .lit l => showLit l
def showTriple (t : Triple) : String := s!"{showNode t.s}|{showPred t.p}|{showObj t.o}"

def kvOf (ws : List String) (k : String) : Option String :=
  (ws.find? (·.startsWith (k ++ "="))).map fun w => (w.drop (k.length + 1)).toString

def parseTripleEnc (s : String) : Option Triple :=
  match s.splitOn "|" with
  | [a, b, c] => do pure ⟨← parseNode (fields a), ← parsePred (fields b), ← parseObj (fields c)⟩
  | _ => none

def hasMissing (b : Bytes) : Bool := (BW.Model.Text.indexOf missing b).isSome

def answer (ws : List String) (dummy : IO.Ref Bool) : Option String := do
  let kind ← kvOf ws "kind"
  let o ← parseOracles (← kvOf ws "or")
  let L := leafOf o dummy
  match ws.head? with
  | some "X" =>
    let text ← unhexBytes (← kvOf ws "text")
    match kind with
    | "node" => pure (match Text.parseNode text with | some n => "ok " ++ showNode n | none => "err")
    | "pred" => pure (match Text.parsePred L text with | some p => "ok " ++ showPred p | none => "err")
    | "lit" => pure (match Text.parseLit L text with | some l => "ok " ++ showLit l | none => "err")
    | "obj" => pure (match Text.parseObject L text with | some x => "ok " ++ showObj x | none => "err")
    | "triple" => pure (match Text.parseTriple L text with | some t => "ok " ++ showTriple t | none => "err")
    | "litb" => pure (match Text.parseLitBounded L 3 text with | some l => "ok " ++ showLit l | none => "err")
    | "objb" => pure (match Text.parseObjectWith (Text.parseLitBounded L 3) L text with | some x => "ok " ++ showObj x | none => "err")
    | "tripleb" => pure (match Text.parseTripleWith (Text.parseLitBounded L 3) L text with | some t => "ok " ++ showTriple t | none => "err")
    | "graph" =>
      let (ts, n, stopped) := readLines L (splitLines text)
      pure s!"{if stopped then "err" else "ok"} n={n} {";".intercalate (ts.map showTriple)}"
    | _ => none
  | some "W" =>
    let v ← kvOf ws "value"
    let out : Option Bytes := match kind with
      | "node" => (parseNode (fields v)).map printNode
      | "pred" => (parsePred (fields v)).map (printPred L)
      | "lit" => (parseLit (fields v)).map (printLit L)
      | "obj" => (parseObj (fields v)).map (printObj L)
      | "triple" => (parseTripleEnc v).map (printTriple L)
      | _ => none
    let b ← out
    pure (if hasMissing b then "oracle-missing" else "ok " ++ hexBytes b)
  | _ => none

def main : IO Unit := do
  let stdin ← IO.getStdin
  let dummy ← IO.mkRef false
  forLines stdin fun line => do
    if line.startsWith "#" then IO.println line
    else if line.startsWith "K " then IO.println "-"
    else IO.println ((answer (words line) dummy).getD "bad-op")

end Driver.Text
