import BW.Model.BqlLex
import BW.Model.Grammar
import BW.Generated.Grammar
import Driver.Lex

/-! `bwdriver fuzz`: one statement text (classified runes) in; what the lexer model followed by the
    parser model decide: `accept` or `reject`. -/
namespace Driver.Fuzz
open BW.Model BW.Generated Driver Driver.Lex

/-- The bound `M` of the termination theorem (`BW.Props.C08.M`; `alts_bounded` re-checks it against the
    regenerated grammar table on every run). -/
def maxAlt : Nat := 12

def decide (runes : List Rune) : String :=
  let toks := (lex bqlLex runes).map (·.1)
  -- the LLk reads tokens up to and including the end-of-input token
  let kinds := toks.takeWhile (· != Tok.EOF)
  let fuel := kinds.length * (maxAlt + 1) + 2
  match parseKinds bql fuel kinds with
  | .accept rest _ => if rest.isEmpty then "accept" else "reject"
  | .reject _ => "reject"
  | .nofuel => "nofuel"

def main : IO Unit := do
  let stdin ← IO.getStdin
  forLines stdin fun line => do
    match words line with
    | "F" :: _ :: _ :: rs =>
      let runes? := if rs == ["-"] then some [] else rs.mapM parseRune
      match runes? with
      | none => IO.println "bad-op"
      | some runes => IO.println (decide runes)
    | _ => if line.startsWith "#" || line == "reset" then IO.println line else IO.println "bad-op"

end Driver.Fuzz
