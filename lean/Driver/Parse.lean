import BW.Model.Grammar
import BW.Generated.Grammar
import Driver.Util
import Driver.C17

/-! `bwdriver parse`: token-kind sequences through the model parser. -/
namespace Driver.Parse
open BW.Model BW.Generated Driver

def tokByName (n : String) : Option Tok := allToks.find? (fun t => tokName t == n)

def main : IO Unit := do
  let stdin ← IO.getStdin
  forLines stdin fun line => do
    match words line with
    | "P" :: names =>
      match names.mapM tokByName with
      | none => IO.println "bad-op"
      | some toks =>
        let fuel := 64 + 8 * toks.length * 16
        let r := parseKinds bql fuel toks
        let cls := match r with
          | .accept rest _ => if rest.isEmpty then "accept" else "reject"   -- Parse checks for EOF (D09 repaired)
          | .reject _ => "reject"
          | .nofuel => "nofuel"
        IO.println s!"{cls} [{Driver.C17.showFired (firedAlts r.events)}]"
    | "S" :: _ => IO.println "ok"
    | _ => IO.println "bad-op"

end Driver.Parse
