-- Root of the `BW` library: models, specifications, proofs and property theorems.
import BW.Model.Grammar
