/-
Reference reading of a HAVING expression: comparisons are atoms; `NOT` covers everything to its right;
`e AND e'` / `e OR e'` nest to the right, whether or not `e` is wrapped in parentheses. The engine's builder
(`BW.Model.newEvaluator`, the mirror of `semantic.NewEvaluator`) accepts fewer token lists (a comparison that
is not wrapped in parentheses must end the expression or be followed by `)`); where it accepts, it builds this
tree (`BW.Props.C13.evaluator_is_the_parse_tree`).
-/
import BW.Model.QueryPost

namespace BW.Spec
open BW.Model

def mirror : HOp → HOp
  | .lt => .gt
  | .gt => .lt
  | .eq => .eq

def specH : Nat → List HTok → Option (HExpr × List HTok)
  | 0, _ => none
  | f + 1, .not :: tail => (specH f tail).map fun (e, rest) => (.not e, rest)
  | f + 1, .binding l :: .op o :: x :: rest =>
    let atom : Option HExpr := match x with
      | .binding r => some (.cmpBinding o l r)
      | .lit c => some (.cmpLit o l c)
      | .node n => some (.cmpNode o l n)
      | .time t => some (.cmpTime o l t)
      | .pred t => some (.cmpPred o l t)
      | _ => none
    match atom with
    | none => none
    | some e =>
      match rest with
      | .and :: more => (specH f more).map fun (e2, r2) => (.and e e2, r2)
      | .or :: more => (specH f more).map fun (e2, r2) => (.or e e2, r2)
      | _ => some (e, rest)
  -- the constant first: `c < ?b` reads `?b > c` (the engine's builder refuses the spelling; an implementation that
  -- accepts it is held to this reading)
  | f + 1, .lit c :: .op o :: .binding l :: rest =>
    (match rest with
     | .and :: more => (specH f more).map fun (e2, r2) => (.and (.cmpLit (mirror o) l c) e2, r2)
     | .or :: more => (specH f more).map fun (e2, r2) => (.or (.cmpLit (mirror o) l c) e2, r2)
     | _ => some (.cmpLit (mirror o) l c, rest))
  | f + 1, .node n :: .op o :: .binding l :: rest =>
    (match rest with
     | .and :: more => (specH f more).map fun (e2, r2) => (.and (.cmpNode (mirror o) l n) e2, r2)
     | .or :: more => (specH f more).map fun (e2, r2) => (.or (.cmpNode (mirror o) l n) e2, r2)
     | _ => some (.cmpNode (mirror o) l n, rest))
  | f + 1, .time t :: .op o :: .binding l :: rest =>
    (match rest with
     | .and :: more => (specH f more).map fun (e2, r2) => (.and (.cmpTime (mirror o) l t) e2, r2)
     | .or :: more => (specH f more).map fun (e2, r2) => (.or (.cmpTime (mirror o) l t) e2, r2)
     | _ => some (.cmpTime (mirror o) l t, rest))
  | f + 1, .pred t :: .op o :: .binding l :: rest =>
    (match rest with
     | .and :: more => (specH f more).map fun (e2, r2) => (.and (.cmpPred (mirror o) l t) e2, r2)
     | .or :: more => (specH f more).map fun (e2, r2) => (.or (.cmpPred (mirror o) l t) e2, r2)
     | _ => some (.cmpPred (mirror o) l t, rest))
  | f + 1, .lpar :: tail =>
    match specH f tail with
    | some (e, .rpar :: rest) =>
      (match rest with
       | .and :: more => (specH f more).map fun (e2, r2) => (.and e e2, r2)
       | .or :: more => (specH f more).map fun (e2, r2) => (.or e e2, r2)
       | _ => some (e, rest))
    | _ => none
  | _ + 1, _ => none

/-- The whole token list is one expression. -/
def specEvaluator (toks : List HTok) : Option HExpr :=
  match specH (toks.length + 1) toks with
  | some (e, []) => some e
  | _ => none

end BW.Spec
