/-
Reference semantics of the conjunctive BQL fragment (DESIGN.md appendix A): the solutions of a graph
pattern are the natural join, clause by clause, of the rows each clause matches on a *scan* of the
queried graphs; OPTIONAL is a left outer join.  Nothing here mentions indexes, look-ups, strategies
or evaluation order beyond the left-to-right scope of OPTIONAL.
-/
import BW.Model.Query

namespace BW.Spec
open BW.Model

/-- Cells are the same value iff same kind and equal components; times (and predicate anchors) as
    instants, whatever the zone. -/
def predSame (a b : Pred) : Bool := a.id == b.id && a.anchor.map (·.nanos) == b.anchor.map (·.nanos)

def objSame : Obj → Obj → Bool
  | .node a, .node b => a == b
  | .pred a, .pred b => predSame a b
  | .lit a, .lit b => a == b
  | _, _ => false

def cellSame : Cell → Cell → Bool
  | .node a, .node b => a == b
  | .pred a, .pred b => predSame a b
  | .lit a, .lit b => a == b
  | .time a, .time b => a.nanos == b.nanos
  | .str a, .str b => a == b
  | .null, .null => true
  | _, _ => false

/-- The constants of a clause equal the triple's parts. -/
def constsMatch (c : Clause) (t : Triple) : Bool :=
  (match c.s with | some s => s == t.s | none => true) &&
  (match c.p with | some p => predSame p t.p | none => true) &&
  (match c.o with | some o => objSame o t.o | none => true)

/-- The window a clause puts on the predicate anchor: the global bounds intersected with the
    clause's own bounds and, for bound aliases, with the row's values. -/
structure Window where
  lower : Option Int := none
  upper : Option Int := none

def Window.tightenLower (w : Window) (l : Option Int) : Window :=
  match l, w.lower with
  | some l, some g => { w with lower := some (max l g) }
  | some l, none => { w with lower := some l }
  | none, _ => w

def Window.tightenUpper (w : Window) (u : Option Int) : Window :=
  match u, w.upper with
  | some u, some g => { w with upper := some (min u g) }
  | some u, none => { w with upper := some u }
  | none, _ => w

def Window.holds (w : Window) (p : Pred) : Bool :=
  match p with
  | .imm _ => true
  | .tmp _ t => (match w.lower with | some l => decide (l ≤ t.nanos) | none => true) &&
                (match w.upper with | some u => decide (t.nanos ≤ u) | none => true)

/-- Binding `k` (if named) must hold cell `c`; a name used twice needs the same value. -/
def bindSame (acc : Option Row) (k : Bytes) (c : Cell) : Option Row :=
  match acc with
  | none => none
  | some r =>
    if k = [] then some r else
    match r.get k with
    | none => some (r ++ [(k, c)])
    | some old => if cellSame old c then some (r.set k c) else none   -- same value; the later representation is shown

/-- What an extraction yields: `none` = it cannot apply to this triple (a mandatory clause then does
    not match; an OPTIONAL one shows NULL). -/
def extract (optional : Bool) (v : Option Cell) : Option Cell :=
  match v with
  | some c => some c
  | none => if optional then some .null else none

def anchorOf : Pred → Option Cell
  | .tmp _ t => some (.time t)
  | .imm _ => none

/-- One binding step of a clause: an unnamed position binds nothing; an extraction that cannot apply
    (`none`) fails the match. -/
def bindStep (acc : Option Row) (kv : Bytes × Option Cell) : Option Row :=
  if kv.1 = [] then acc else
  match kv.2 with
  | none => none
  | some cell => bindSame acc kv.1 cell

/-- What each position of a clause would bind on a triple, in the order the positions are read. -/
def clauseSteps (c : Clause) (t : Triple) : List (Bytes × Option Cell) :=
  [
    (c.sBinding, some (.node t.s)), (c.sAlias, some (.node t.s)), (c.sTypeAlias, some (.str t.s.ty)),
    (c.sIDAlias, some (.str t.s.id)), (c.pBinding, some (.pred t.p)), (c.pAlias, some (.pred t.p)),
    (c.pIDAlias, some (.str t.p.id)), (c.pAnchorBinding, extract c.optional (anchorOf t.p)),
    (c.pAnchorAlias, extract c.optional (anchorOf t.p)), (c.oBinding, some (objCell t.o)), (c.oAlias, some (objCell t.o)),
    (c.oTypeAlias, extract c.optional (match t.o with | .node n => some (.str n.ty) | _ => none)),
    (c.oIDAlias, extract c.optional (match t.o with | .node n => some (.str n.id) | .pred p => some (.str p.id) | _ => none)),
    (c.oAnchorBinding, extract c.optional (match t.o with | .pred p => anchorOf p | _ => none)),
    (c.oAnchorAlias, extract c.optional (match t.o with | .pred p => anchorOf p | _ => none))]

/-- The row a clause binds on a triple, or `none` when the clause does not match it. -/
def matchClause (c : Clause) (w : Window) (t : Triple) : Option Row :=
  if !constsMatch c t then none else
  -- partially specified predicate ("id"@[?t], "id"@[lo,hi]) and its own bounds
  if c.pID ≠ [] && (t.p.id ≠ c.pID) then none else
  -- "id"@[lo,hi] needs a temporal predicate; "id"@[?t] extracts the anchor (below), which in an OPTIONAL
  -- clause yields NULL on an immutable predicate instead of failing the match
  if c.pID ≠ [] && c.pTemporal && c.pAnchorBinding = [] && t.p.anchor.isNone then none else
  if !w.holds t.p then none else
  if c.oID ≠ [] && (match t.o with
      | .pred p => p.id ≠ c.oID || (c.oTemporal && c.oAnchorBinding = [] && p.anchor.isNone) ||
          (c.oAnchorBinding = [] && c.oTemporal && !(({ lower := c.oLower.map (·.nanos), upper := c.oUpper.map (·.nanos) } : Window).holds p))
      | _ => false) then none else
  (clauseSteps c t).foldl bindStep (some [])

def rowTime (r : Row) (k : Bytes) : Option Int :=
  match r.get k with
  | some (.time t) => some t.nanos
  | _ => none

/-- Window of a clause under a row (global bounds ∩ clause bounds ∩ bound aliases). -/
def clauseWindow (glo ghi : Option Int) (c : Clause) (r : Row) : Window :=
  let w : Window := { lower := glo, upper := ghi }
  let w := (w.tightenLower (c.pLower.map (·.nanos))).tightenUpper (c.pUpper.map (·.nanos))
  let w := if c.pLowerAlias ≠ [] then w.tightenLower (rowTime r c.pLowerAlias) else w
  if c.pUpperAlias ≠ [] then w.tightenUpper (rowTime r c.pUpperAlias) else w

/-- Two rows agree on every binding they share. -/
def compatible (a b : Row) : Bool := a.all fun (k, v) => match b.get k with | some v' => cellSame v v' | none => true

/-- One join step: every current row with every compatible match of the clause on the scan. A
    clause that binds nothing (fully specified) keeps a row iff some triple matches. -/
def joinClause (scan : List Triple) (glo ghi : Option Int) (rows : List Row) (c : Clause) : List Row :=
  rows.flatMap fun r =>
    let ms := (scan.filterMap (matchClause c (clauseWindow glo ghi c r))).filter (compatible r)
    if c.optional then
      if ms.isEmpty then [r.merge ((c.bindings.filter (fun k => !r.has k)).map fun k => (k, Cell.null))]
      else ms.map r.merge
    else ms.map r.merge

/-- The solutions of a pattern: one row per combination of matching triple occurrences. -/
def solutions (scan : List Triple) (glo ghi : Option Int) (cs : List Clause) : List Row :=
  cs.foldl (joinClause scan glo ghi) [[]]

/-! #### Object predicates bounded by bindings: `?s ?p "id"@[?lo,?hi]` -/

def rowTimeT (r : Row) (k : Bytes) : Option Time :=
  match r.get k with
  | some (.time t) => some t
  | _ => none

/-- The clause as a row sees it: the interval of its object predicate is given by the row's values of the
    bound aliases (as `clauseWindow` does for the predicate position). -/
def withRowObjBounds (c : Clause) (r : Row) : Clause :=
  if c.oLowerAlias = [] && c.oUpperAlias = [] then c
  else { c with oLower := if c.oLowerAlias ≠ [] then rowTimeT r c.oLowerAlias else c.oLower,
                oUpper := if c.oUpperAlias ≠ [] then rowTimeT r c.oUpperAlias else c.oUpper }

/-- `joinClause` with object intervals read from the row. -/
def joinClauseO (scan : List Triple) (glo ghi : Option Int) (rows : List Row) (c : Clause) : List Row :=
  rows.flatMap fun r =>
    let ms := (scan.filterMap (matchClause (withRowObjBounds c r) (clauseWindow glo ghi c r))).filter (compatible r)
    if c.optional then
      if ms.isEmpty then [r.merge ((c.bindings.filter (fun k => !r.has k)).map fun k => (k, Cell.null))]
      else ms.map r.merge
    else ms.map r.merge

def solutionsO (scan : List Triple) (glo ghi : Option Int) (cs : List Clause) : List Row :=
  cs.foldl (joinClauseO scan glo ghi) [[]]

theorem joinClauseO_eq (scan : List Triple) (glo ghi : Option Int) (rows : List Row) (c : Clause)
    (h : c.oLowerAlias = [] ∧ c.oUpperAlias = []) : joinClauseO scan glo ghi rows c = joinClause scan glo ghi rows c := by
  have e : ∀ r, withRowObjBounds c r = c := by
    intro r; unfold withRowObjBounds; simp [h.1, h.2]
  unfold joinClauseO joinClause
  simp only [e]

/-- Without object bound aliases (the domain of C03's planner theorems) this is `solutions`. -/
theorem solutionsO_eq (scan : List Triple) (glo ghi : Option Int) (cs : List Clause)
    (h : ∀ c ∈ cs, c.oLowerAlias = [] ∧ c.oUpperAlias = []) : solutionsO scan glo ghi cs = solutions scan glo ghi cs := by
  unfold solutionsO solutions
  generalize ([[]] : List Row) = rows
  induction cs generalizing rows with
  | nil => rfl
  | cons c cs ih =>
    simp only [List.foldl_cons]
    rw [joinClauseO_eq _ _ _ _ _ (h c List.mem_cons_self)]
    exact ih (fun x hx => h x (List.mem_cons_of_mem _ hx)) _

/-- Simultaneous projection onto the selected bindings. -/
def project (ps : List Proj) (r : Row) : Row :=
  ps.foldl (fun out p => if p.out = [] then out else out.set p.out ((r.get p.binding).getD .null)) []

end BW.Spec
