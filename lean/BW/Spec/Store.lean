/-
Specification the store properties (C01, C02, C09) are stated against: a store is a map from names to
*sets* of triples; a look-up is a filter over a scan of that set; options select by a declarative
window / filter / page definition.
-/
import BW.Model.Store

namespace BW.Spec
open BW.Model

/-- A graph is a duplicate-free (by identity key) list of triples. -/
abbrev SGraph := List TView

def SGraph.add (g : SGraph) (t : TView) : SGraph := t :: g.filter (fun x => x.key != t.key)
def SGraph.rem (g : SGraph) (t : TView) : SGraph := g.filter (fun x => x.key != t.key)
def SGraph.addAll (g : SGraph) (ts : List TView) : SGraph := ts.foldl SGraph.add g
def SGraph.remAll (g : SGraph) (ts : List TView) : SGraph := ts.foldl SGraph.rem g
def SGraph.has (g : SGraph) (k : TKey) : Bool := g.any fun x => x.key == k

/-- Components a look-up method fixes. -/
def fixedParts : Method → List KeyPart
  | .objects => [.s, .p]
  | .subjects => [.p, .o]
  | .predsForSO => [.s, .o]
  | .predsForS => [.s]
  | .predsForO => [.o]
  | .triplesForS => [.s]
  | .triplesForP => [.p]
  | .triplesForO => [.o]
  | .triplesForSP => [.s, .p]
  | .triplesForPO => [.p, .o]
  | .triples => []

def fixesPred (m : Method) : Bool := (fixedParts m).contains .p

/-- A predicate handed to a look-up matches stored predicates with the same identifier, the same
    kind and, when temporal, the same instant. -/
def predMatches (q : PQ) (t : TView) : Bool := q.pid == t.pid && q.pnano == t.pnano

/-- The stored triple's fixed components equal the given ones. -/
def matchesArgs (m : Method) (a : LArgs) (t : TView) : Bool :=
  (fixedParts m).all fun
    | .s => t.ks == a.s
    | .o => t.ko == a.o
    | .p => match a.p with
      | some q => predMatches q t
      | none => false

/-- Closed time window: immutable triples always pass, temporal ones iff lower ≤ anchor ≤ upper. -/
def inWindow (lo : LookupOpts) (t : TView) : Bool :=
  match t.pnano with
  | none => true
  | some a => (match lo.lower with | some l => decide (l ≤ a) | none => true) &&
              (match lo.upper with | some u => decide (a ≤ u) | none => true)

def kindOfField (f : FilterField) (t : TView) : Option (Option Instant) :=
  (filterPred f t).map (·.2)

/-- What a filter keeps among candidates `c`. -/
def filt (fo : FilterOpts) (c : List TView) : List TView :=
  match fo.op with
  | .isImmutable => c.filter fun t => kindOfField fo.field t == some none
  | .isTemporal => c.filter fun t => match kindOfField fo.field t with | some (some _) => true | _ => false
  | _ => latestOf fo.field c

/-- The k-th block (from zero) of n elements; everything when no page size is set. -/
def page (n k : Int) (l : List TView) : List TView :=
  if n ≤ 0 then l else (l.drop (n * k).toNat).take n.toNat

/-- The look-up a scan would compute. -/
def scanLookup (g : SGraph) (m : Method) (a : LArgs) (lo : LookupOpts) : Except LErr (List TView) :=
  let cands := (g.filter (matchesArgs m a)).filter (inWindow lo)
  if lo.latestAnchor && lo.filter.isSome then .error .latestWithFilter else
  let fo := if lo.latestAnchor then some ⟨.latest, .predicate⟩ else lo.filter
  match fo with
  | none => .ok (page lo.maxElements lo.offset (sortByStr cands))
  | some fo =>
    if fo.op == .unknown then .error .badOp
    else if fo.field != .predicate && fo.field != .object then .error .badField
    else .ok (page lo.maxElements lo.offset (sortByStr (filt fo cands)))

/-- The store specification: names ↦ sets. -/
abbrev SStore := List (Bytes × SGraph)

def SStore.get (s : SStore) (n : Bytes) : Option SGraph := (s.find? (·.1 == n)).map (·.2)
def SStore.newGraph (s : SStore) (n : Bytes) : Option SStore :=
  if (s.get n).isSome then none else some ((n, []) :: s)
def SStore.deleteGraph (s : SStore) (n : Bytes) : Option SStore :=
  if (s.get n).isSome then some (s.filter (·.1 != n)) else none
def SStore.names (s : SStore) : List Bytes := s.map (·.1)
def SStore.update (s : SStore) (n : Bytes) (f : SGraph → SGraph) : SStore :=
  s.map fun p => if p.1 == n then (p.1, f p.2) else p

def SStore.step (s : SStore) : Op → SStore × Out
  | .newGraph n => match s.newGraph n with
    | some s' => (s', .ok)
    | none => (s, .err)
  | .getGraph n => (s, if (s.get n).isSome then .ok else .err)
  | .deleteGraph n => match s.deleteGraph n with
    | some s' => (s', .ok)
    | none => (s, .err)
  | .names => (s, .names s.names)
  | .add n ts => if (s.get n).isSome then (s.update n (·.addAll ts), .ok) else (s, .err)
  | .rem n ts => if (s.get n).isSome then (s.update n (·.remAll ts), .ok) else (s, .err)
  | .exist n t => match s.get n with
    | some g => (s, .bool (g.has t.key))
    | none => (s, .err)
  | .lookup n m a lo => match s.get n with
    | some g => (s, .elems (scanLookup g m a lo))
    | none => (s, .err)

def SStore.run (s : SStore) : List Op → SStore × List Out
  | [] => (s, [])
  | op :: ops =>
    let (s', o) := s.step op
    let (s'', os) := SStore.run s' ops
    (s'', o :: os)

end BW.Spec
