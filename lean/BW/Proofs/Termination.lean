/-
The predictive parser terminates on every token sequence, within an explicit number of machine steps
(C08): every step either shortens the work stack, or consumes a token while growing the stack by at
most the length of the longest alternative.  Needs: no rule mentions the end-of-input token (so a
non-empty alternative can only be selected on a real token).
-/
import BW.Proofs.Parser

namespace BW.Proofs.Termination
open BW.Model BW.Proofs.Parser

variable {K S : Type} [DecidableEq K]

/-- Potential of a machine configuration. -/
def potential (M : Nat) (stack : List (Item K S)) (ts : List K) : Nat := stack.length + ts.length * (M + 1)

theorem run_terminates (g : Grammar K S) (hg : NoEofG g) (M : Nat)
    (hM : ∀ x, ∀ alt ∈ g.rules x, alt.length ≤ M) :
    ∀ (f : Nat) (stack : List (Item K S)) (ts : List K) (evs : List (Ev K S K)),
      potential M stack ts < f → run g id g.eof f stack ts evs ≠ .nofuel := by
  intro f
  induction f with
  | zero => intro stack ts evs h; exact absurd h (Nat.not_lt_zero _)
  | succ f ih =>
    intro stack ts evs h
    cases stack with
    | nil => simp [run]
    | cons it st =>
      have hlen : potential M st ts < f := by
        simp only [potential, List.length_cons] at h ⊢; omega
      cases it with
      | fin s i => simp only [run]; exact ih _ _ _ hlen
      | symDone o x => simp only [run]; exact ih _ _ _ hlen
      | el e o =>
        cases e with
        | t a =>
          simp only [run]
          split
          · have : potential M st ts.tail < f := by
              simp only [potential, List.length_cons, List.length_tail] at h ⊢
              have : (ts.length - 1) * (M + 1) ≤ ts.length * (M + 1) := Nat.mul_le_mul_right _ (Nat.sub_le _ _)
              omega
            cases o with
            | some p => obtain ⟨s, i⟩ := p; exact ih _ _ _ this
            | none => exact ih _ _ _ this
          · simp
        | s x =>
          simp only [run]
          cases hsel : selectAlt (peekK g id ts) (g.rules x) 0 with
          | none => simp
          | some p =>
            obtain ⟨i, alt⟩ := p
            cases alt with
            | nil => simp only; exact ih _ _ _ hlen
            | cons e rest =>
              simp only
              have hmem := selectAlt_mem _ _ _ _ _ hsel
              have hhead := selectAlt_head _ _ _ _ _ _ hsel
              have hlenalt := hM x _ hmem
              -- the input cannot be exhausted: the alternative would start with the end-of-input token
              cases ts with
              | nil =>
                exfalso
                simp only [peekK] at hhead
                exact hg x _ hmem e (by simp) hhead
              | cons t ts' =>
                apply ih
                simp only [potential, List.length_cons, List.length_append, List.length_map, List.tail_cons] at h ⊢
                simp only [List.length_cons] at hlenalt
                have : (ts'.length + 1) * (M + 1) = ts'.length * (M + 1) + (M + 1) := by
                  rw [Nat.add_mul]; simp
                omega

/-- Fuel that always suffices for `n` tokens. -/
def fuelFor (M n : Nat) : Nat := n * (M + 1) + 2

theorem parse_terminates (g : Grammar K S) (hg : NoEofG g) (M : Nat)
    (hM : ∀ x, ∀ alt ∈ g.rules x, alt.length ≤ M) (ts : List K) (f : Nat) (hf : fuelFor M ts.length ≤ f) :
    parseKinds g f ts ≠ .nofuel := by
  unfold parseKinds parseWith
  apply run_terminates g hg M hM
  simp only [potential, List.length_cons, List.length_nil, fuelFor] at hf ⊢
  omega

end BW.Proofs.Termination
