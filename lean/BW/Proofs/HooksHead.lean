/-
The head of a SELECT means what its tokens say: `varAccumulator` (+ the flush at the end of WHERE) over the
tokens of a list of projections collects exactly the projections written (`select_list_denote`);
`inputGraphAccumulator` the graphs written; `groupByBindings` the keys written; `collectGlobalBounds` the
bounds written; `limitCollection` the limit written.
-/
import BW.Model.Hooks
open BW.Model BW.Model.Hooks

namespace BW.Proofs.HooksHead

/-- A projection as written: `?b`, `?b as ?a`, `count(?b) as ?a`, `count(distinct ?b) as ?a`, `sum(?b) as ?a`. -/
inductive PAst where
  | plain (b : Bytes)
  | aliased (b a : Bytes)
  | count (b a : Bytes) (distinct : Bool)
  | sum (b a : Bytes)

def tk (k : HK) (text : Bytes := []) : HTk := { k := k, text := text }

def PAst.toks : PAst → List HTk
  | .plain b => [tk .binding b]
  | .aliased b a => [tk .binding b, tk .as_, tk .binding a]
  | .count b a d => [tk .count, tk .other] ++ (if d then [tk .distinct] else []) ++
      [tk .binding b, tk .other, tk .as_, tk .binding a]
  | .sum b a => [tk .sum, tk .other, tk .binding b, tk .other, tk .as_, tk .binding a]

def PAst.denote : PAst → Proj
  | .plain b => { binding := b }
  | .aliased b a => { binding := b, alias := a }
  | .count b a d => { binding := b, alias := a, op := .count, distinct := d }
  | .sum b a => { binding := b, alias := a, op := .sum }

/-- Bindings are never empty (the lexer's BINDING token starts with `?`). -/
def PAst.ok : PAst → Prop
  | .plain b => b ≠ []
  | .aliased b _ => b ≠ []
  | .count b _ _ => b ≠ []
  | .sum b _ => b ≠ []

/-- The tokens of a SELECT list: projections separated by commas. -/
def listToks : List PAst → List HTk
  | [] => []
  | [p] => p.toks
  | p :: q :: rest => p.toks ++ tk .comma :: listToks (q :: rest)

/-- The projection hook over a token list: the head built and the closure's `lastNopToken`. -/
def varRun : Head → Option HK → List HTk → Option (Head × Option HK)
  | h, l, [] => some (h, l)
  | h, l, t :: rest => match varStep h l t with
    | none => none
    | some (h', l') => varRun h' l' rest

theorem varRun_append (h : Head) (l : Option HK) (l1 l2 : List HTk) :
    varRun h l (l1 ++ l2) = (varRun h l l1).bind fun r => varRun r.1 r.2 l2 := by
  induction l1 generalizing h l with
  | nil => rfl
  | cons x l1 ih =>
    simp only [List.cons_append, varRun]
    cases varStep h l x with
    | none => rfl
    | some r => exact ih r.1 r.2

def emptyProj : Proj := { binding := [] }

/-- One projection, from a head with no working projection: afterwards, once flushed, the projection has
    been collected and nothing else has changed. -/
theorem one_proj (h : Head) (hw : h.wproj = emptyProj) (p : PAst) (hp : p.ok) :
    ∃ h', varRun h none p.toks = some (h', none) ∧ h'.flush = { h with projs := h.projs ++ [p.denote] } := by
  obtain ⟨projs, wproj, graphs, groupBy, order, limit, lower, upper, kind, graphNames, outputs, data, ccs⟩ := h
  simp only at hw
  subst hw
  cases p with
  | plain b =>
    simp only [PAst.ok] at hp
    refine ⟨{ projs := projs, wproj := { binding := b }, graphs := graphs, groupBy := groupBy, order := order, limit := limit, lower := lower, upper := upper, kind := kind, graphNames := graphNames, outputs := outputs, data := data, ccs := ccs }, by simp [PAst.toks, varRun, varStep, tk, emptyProj], ?_⟩
    simp [Head.flush, projIsEmpty, PAst.denote, hp, emptyProj]
  | aliased b a =>
    simp only [PAst.ok] at hp
    refine ⟨({ projs := projs, wproj := { binding := b, alias := a }, graphs := graphs, groupBy := groupBy, order := order,
               limit := limit, lower := lower, upper := upper, kind := kind, graphNames := graphNames, outputs := outputs, data := data, ccs := ccs } : Head).flush,
      by simp [PAst.toks, varRun, varStep, tk, hp, emptyProj], ?_⟩
    simp [Head.flush, projIsEmpty, PAst.denote, hp, emptyProj]
  | count b a d =>
    simp only [PAst.ok] at hp
    refine ⟨({ projs := projs, wproj := { binding := b, alias := a, op := .count, distinct := d }, graphs := graphs, groupBy := groupBy,
               order := order, limit := limit, lower := lower, upper := upper, kind := kind, graphNames := graphNames, outputs := outputs, data := data, ccs := ccs } : Head).flush,
      by cases d <;> simp [PAst.toks, varRun, varStep, tk, hp, emptyProj], ?_⟩
    simp [Head.flush, projIsEmpty, PAst.denote, hp, emptyProj]
  | sum b a =>
    simp only [PAst.ok] at hp
    refine ⟨({ projs := projs, wproj := { binding := b, alias := a, op := .sum }, graphs := graphs, groupBy := groupBy,
               order := order, limit := limit, lower := lower, upper := upper, kind := kind, graphNames := graphNames, outputs := outputs, data := data, ccs := ccs } : Head).flush,
      by simp [PAst.toks, varRun, varStep, tk, hp, emptyProj], ?_⟩
    simp [Head.flush, projIsEmpty, PAst.denote, hp, emptyProj]

theorem flush_clean (h : Head) (hw : h.wproj = emptyProj) : h.flush = h := by
  unfold Head.flush
  rw [hw]; simp [projIsEmpty, emptyProj]

/-- **The SELECT list means what its tokens say.** `varAccumulator` over the tokens of a list of projections
    (plain, aliased, count, count distinct, sum; separated by commas), followed by the flush the end of WHERE
    forces, collects exactly the projections written, in order, and leaves the rest of the statement alone. -/
theorem select_list_denote (ps : List PAst) (hps : ∀ p ∈ ps, p.ok) : ∀ (h : Head), h.wproj = emptyProj →
    ∃ h', varRun h none (listToks ps) = some (h', none) ∧
      h'.flush = { h with projs := h.projs ++ ps.map PAst.denote } := by
  induction ps with
  | nil =>
    intro h hw
    refine ⟨h, rfl, ?_⟩
    rw [flush_clean h hw]; simp
  | cons p ps ih =>
    intro h hw
    obtain ⟨h1, r1, f1⟩ := one_proj h hw p (hps p List.mem_cons_self)
    cases ps with
    | nil =>
      refine ⟨h1, by simpa [listToks] using r1, ?_⟩
      rw [f1]; simp
    | cons q rest =>
      have hclean : h1.flush.wproj = emptyProj := by rw [f1]; exact hw
      obtain ⟨h2, r2, f2⟩ := ih (fun x hx => hps x (List.mem_cons_of_mem _ hx)) h1.flush hclean
      refine ⟨h2, ?_, ?_⟩
      · simp only [listToks]
        rw [varRun_append, r1]
        simp only [Option.bind_some, varRun, varStep, tk]
        exact r2
      · rw [f2, f1]; simp

/-! ### FROM, GROUP BY, LIMIT, global time bounds -/

def optRun {σ : Type} (step : σ → HTk → Option σ) : σ → List HTk → Option σ
  | s, [] => some s
  | s, t :: rest => match step s t with
    | none => none
    | some s' => optRun step s' rest

/-- Bindings separated by commas. -/
def commaToks : List Bytes → List HTk
  | [] => []
  | [g] => [tk .binding g]
  | g :: g' :: rest => tk .binding g :: tk .comma :: commaToks (g' :: rest)

/-- **FROM means what it says**: the input graphs are the bindings listed, in order. -/
theorem from_denote (gs : List Bytes) : ∀ (h : Head),
    optRun graphStep h (commaToks gs) = some { h with graphs := h.graphs ++ gs } := by
  induction gs with
  | nil => intro h; simp [commaToks, optRun]
  | cons g gs ih =>
    intro h
    cases gs with
    | nil => simp [commaToks, optRun, graphStep, tk]
    | cons g' rest =>
      have := ih { h with graphs := h.graphs ++ [g] }
      simp only [commaToks, optRun, graphStep, tk] at this ⊢
      rw [this]; simp

/-- **GROUP BY means what it says**: the keys are the bindings listed, in order (`GROUP`, `BY` and the
    commas change nothing). -/
theorem group_by_denote (gs : List Bytes) (h : Head) :
    (tk .other :: tk .other :: commaToks gs).foldl groupStep h = { h with groupBy := h.groupBy ++ gs } := by
  have key : ∀ (gs : List Bytes) (h : Head), (commaToks gs).foldl groupStep h = { h with groupBy := h.groupBy ++ gs } := by
    intro gs
    induction gs with
    | nil => intro h; simp [commaToks]
    | cons g gs ih =>
      intro h
      cases gs with
      | nil => simp [commaToks, groupStep, tk]
      | cons g' rest =>
        have := ih { h with groupBy := h.groupBy ++ [g] }
        simp only [commaToks, List.foldl_cons, groupStep, tk] at this ⊢
        rw [this]; simp
  simp only [List.foldl_cons, groupStep, tk]
  exact key gs h

def intTk (n : Int) : HTk := { k := .literal, obj := some (.lit (.int n)) }

/-- **LIMIT means what it says**: a non-negative int64 literal becomes the limit and nothing else changes; a
    negative one is rejected. -/
theorem limit_denote (h : Head) (n : Int) :
    optRun limitStep h [tk .limit_, intTk n] = if n < 0 then none else some { h with limit := some n } := by
  simp only [optRun, limitStep, tk, intTk]
  by_cases hn : n < 0 <;> simp [hn]

def boundsRun : Head → BState → List HTk → Option (Head × BState)
  | h, b, [] => some (h, b)
  | h, b, t :: rest => match boundsStep h b t with
    | none => none
    | some (h', b') => boundsRun h' b' rest

def timeTk (t : Time) : HTk := { k := .time, time := some t }
def pairTk (lo hi : Time) : HTk := { k := .predicateBound, pair := some (lo, hi) }

/-- **The global time bound means what it says**, whatever an earlier statement left in the closure (it is
    reset on entering a new statement): `BEFORE t` sets the upper bound and only it, `AFTER t` the lower bound
    and only it, `BETWEEN t1, t2` both. -/
theorem global_bound_denote (h : Head) (cur : Nat) (t t' : Time) :
    (boundsRun h { cur := cur } [tk .before, timeTk t]).map (·.1) = some { h with upper := some t } ∧
    (boundsRun h { cur := cur } [tk .after, timeTk t]).map (·.1) = some { h with lower := some t } ∧
    (boundsRun h { cur := cur } [tk .between, pairTk t t']).map (·.1) = some { h with lower := some t, upper := some t' } := by
  refine ⟨?_, ?_, ?_⟩ <;> simp [boundsRun, boundsStep, tk, timeTk, pairTk]

end BW.Proofs.HooksHead
