/-
The predictive parser machine is sound and complete for "greedy" derivations (helper lemmas for C18).
-/
import BW.Model.Grammar

set_option linter.unusedSimpArgs false
set_option linter.unusedVariables false
set_option linter.unusedSectionVars false

namespace BW.Proofs.Parser
open BW.Model

variable {K S : Type} [DecidableEq K]

/-- Plain context-free derivation: a sentential form derives a token string. -/
inductive Derives (g : Grammar K S) : List (El K S) → List K → Prop
  | nil : Derives g [] []
  | tok (a : K) (es : List (El K S)) (ts : List K) : Derives g es ts → Derives g (El.t a :: es) (a :: ts)
  | sym (x : S) (alt es : List (El K S)) (ts₁ ts₂ : List K) :
      alt ∈ g.rules x → Derives g alt ts₁ → Derives g es ts₂ → Derives g (El.s x :: es) (ts₁ ++ ts₂)

/-- Greedy derivation of a prefix of `ts`, leaving `rest`: at every rule the alternative is the one
    `consume` selects from the next token — the first one starting with it, an empty alternative only
    when it is reached first ("each optional part is present whenever its first token is next"). -/
inductive GDerives (g : Grammar K S) : List (El K S) → List K → List K → Prop
  | nil (ts : List K) : GDerives g [] ts ts
  | tok (a : K) (es : List (El K S)) (ts rest : List K) :
      GDerives g es ts rest → GDerives g (El.t a :: es) (a :: ts) rest
  | symEmpty (x : S) (i : Nat) (es : List (El K S)) (ts rest : List K) :
      selectAlt (peekK g id ts) (g.rules x) 0 = some (i, []) →
      GDerives g es ts rest → GDerives g (El.s x :: es) ts rest
  | symTok (x : S) (i : Nat) (a : K) (r es : List (El K S)) (ts mid rest : List K) :
      selectAlt a (g.rules x) 0 = some (i, El.t a :: r) →
      GDerives g r ts mid → GDerives g es mid rest → GDerives g (El.s x :: es) (a :: ts) rest

def els : List (Item K S) → List (El K S)
  | [] => []
  | .el e _ :: st => e :: els st
  | .fin _ _ :: st => els st
  | .symDone _ _ :: st => els st

theorem els_append (a b : List (Item K S)) : els (a ++ b) = els a ++ els b := by
  induction a with
  | nil => rfl
  | cons x a ih => cases x <;> simp [els, ih]

theorem els_map_el (l : List (El K S)) (o : Option (S × Nat)) : els (l.map fun e => Item.el e o) = l := by
  induction l with
  | nil => rfl
  | cons e l ih => simp [els, ih]

/-- `selectAlt` returns an alternative of the rule; a non-empty one starts with the looked-ahead token. -/
theorem selectAlt_mem (k : K) (alts : List (List (El K S))) (i j : Nat) (alt : List (El K S))
    (h : selectAlt k alts i = some (j, alt)) : alt ∈ alts := by
  induction alts generalizing i with
  | nil => simp [selectAlt] at h
  | cons a alts ih =>
    cases a with
    | nil => simp [selectAlt] at h; simp [h.2]
    | cons e rest =>
      cases e with
      | t a' =>
        simp only [selectAlt] at h
        split at h
        · injection h with h; injection h with _ h; simp [← h]
        · exact List.mem_cons_of_mem _ (ih _ h)
      | s x => simp [selectAlt] at h

theorem selectAlt_head (k : K) (alts : List (List (El K S))) (i j : Nat) (e : El K S) (r : List (El K S))
    (h : selectAlt k alts i = some (j, e :: r)) : e = El.t k := by
  induction alts generalizing i with
  | nil => simp [selectAlt] at h
  | cons a alts ih =>
    cases a with
    | nil => simp [selectAlt] at h
    | cons e' rest =>
      cases e' with
      | t a' =>
        simp only [selectAlt] at h
        split at h
        · rename_i hk
          injection h with h; injection h with _ h; injection h with h1 _
          rw [← h1, hk]
        · exact ih _ h
      | s x => simp [selectAlt] at h

theorem gderives_append {g : Grammar K S} (a b : List (El K S)) (ts rest : List K)
    (h : GDerives g (a ++ b) ts rest) : ∃ mid, GDerives g a ts mid ∧ GDerives g b mid rest := by
  induction a generalizing ts with
  | nil => exact ⟨ts, .nil ts, h⟩
  | cons e a ih =>
    cases h with
    | tok k es ts' rest h' =>
      obtain ⟨mid, h1, h2⟩ := ih _ h'
      exact ⟨mid, .tok _ _ _ _ h1, h2⟩
    | symEmpty x i es ts rest hs h2 =>
      obtain ⟨mid, h3, h4⟩ := ih _ h2
      exact ⟨mid, .symEmpty x i a ts mid hs h3, h4⟩
    | symTok x i k r es ts m rest hs h1 h2 =>
      obtain ⟨mid, h3, h4⟩ := ih _ h2
      exact ⟨mid, .symTok x i k r a ts m mid hs h1 h3, h4⟩

theorem gderives_append' {g : Grammar K S} (a b : List (El K S)) (ts mid rest : List K)
    (h1 : GDerives g a ts mid) (h2 : GDerives g b mid rest) : GDerives g (a ++ b) ts rest := by
  induction h1 with
  | nil ts => exact h2
  | tok k es ts r h ih => exact .tok _ _ _ _ (ih h2)
  | symEmpty x i es ts r hs h4 ih4 => exact .symEmpty x i _ ts _ hs (ih4 h2)
  | symTok x i k r es ts m rr hs h3 h4 ih3 ih4 => exact .symTok x i k r _ ts m _ hs h3 (ih4 h2)

/-- No element of the stack is the end-of-input token, and no rule mentions it. -/
def NoEofEls (g : Grammar K S) (l : List (El K S)) : Prop := ∀ e ∈ l, e ≠ El.t g.eof
def NoEofG (g : Grammar K S) : Prop := ∀ x, ∀ alt ∈ g.rules x, NoEofEls g alt

/-- Soundness: whenever the machine accepts, the consumed prefix is greedily derivable. -/
theorem run_sound (g : Grammar K S) (hg : NoEofG g) (f : Nat) (stack : List (Item K S)) (ts : List K)
    (evs : List (Ev K S K)) (rest : List K) (evs' : List (Ev K S K)) (hst : NoEofEls g (els stack))
    (h : run g id g.eof f stack ts evs = .accept rest evs') : GDerives g (els stack) ts rest := by
  induction f generalizing stack ts evs with
  | zero => simp [run] at h
  | succ f ih =>
    cases stack with
    | nil =>
      simp only [run] at h
      injection h with h1 _
      subst h1
      exact .nil _
    | cons it st =>
      cases it with
      | fin s i => simp only [run] at h; exact ih st ts _ hst h
      | symDone o x => simp only [run] at h; exact ih st ts _ hst h
      | el e o =>
        cases e with
        | t a =>
          simp only [run] at h
          have hne : a ≠ g.eof := by
            intro e; exact hst (El.t a) (by simp [els]) (by rw [e])
          split at h
          · rename_i hpk
            cases ts with
            | nil => simp [peekK] at hpk; exact absurd hpk.symm hne
            | cons t ts' =>
              simp only [peekK, id] at hpk
              subst hpk
              have hst' : NoEofEls g (els st) := fun e he => hst e (by simp [els, he])
              cases o with
              | some p => exact .tok _ _ _ _ (ih st ts' _ hst' h)
              | none => exact .tok _ _ _ _ (ih st ts' _ hst' h)
          · cases h
        | s x =>
          simp only [run] at h
          have hst' : NoEofEls g (els st) := fun e he => hst e (by simp [els, he])
          split at h
          · cases h
          · rename_i i hsel
            exact .symEmpty x i _ ts rest hsel (ih st ts _ hst' h)
          · rename_i i e0 r hsel
            have he0 := selectAlt_head _ _ _ _ _ _ hsel
            have hmem := selectAlt_mem _ _ _ _ _ hsel
            have hne : peekK g id ts ≠ g.eof := by
              intro e
              exact hg x _ hmem e0 (by simp) (by rw [he0, e])
            cases ts with
            | nil => simp [peekK] at hne
            | cons t ts' =>
              simp only [peekK, id] at he0
              simp only [List.tail_cons] at h
              have hnew : NoEofEls g (els (r.map (fun e => Item.el e (some (x, i))) ++ (Item.fin x i :: Item.symDone o x :: st))) := by
                rw [els_append, els_map_el]
                intro e he
                rcases List.mem_append.mp he with he | he
                · exact hg x _ hmem e (List.mem_cons_of_mem _ he)
                · exact hst' e (by simpa [els] using he)
              have := ih _ ts' _ hnew h
              rw [els_append, els_map_el] at this
              simp only [els] at this
              obtain ⟨mid, h1, h2⟩ := gderives_append _ _ _ _ this
              subst he0
              simp only [peekK, id] at hsel
              exact .symTok x i t r _ ts' mid rest hsel h1 h2

/-- Greedy derivations are derivations of the grammar. -/
theorem gderives_derives {g : Grammar K S} (es : List (El K S)) (ts rest : List K) (h : GDerives g es ts rest) :
    ∃ pre, ts = pre ++ rest ∧ Derives g es pre := by
  induction h with
  | nil ts => exact ⟨[], rfl, .nil⟩
  | tok a es ts rest h ih =>
    obtain ⟨pre, hp, hd⟩ := ih
    exact ⟨a :: pre, by simp [hp], .tok _ _ _ hd⟩
  | symEmpty x i es ts rest hs h2 ih2 =>
    obtain ⟨p2, hp2, hd2⟩ := ih2
    refine ⟨p2, hp2, ?_⟩
    have := Derives.sym x [] es [] p2 (selectAlt_mem _ _ _ _ _ hs) .nil hd2
    simpa using this
  | symTok x i a r es ts mid rest hs h1 h2 ih1 ih2 =>
    obtain ⟨p1, hp1, hd1⟩ := ih1
    obtain ⟨p2, hp2, hd2⟩ := ih2
    refine ⟨a :: p1 ++ p2, by rw [hp1, hp2]; simp [List.append_assoc], ?_⟩
    have := Derives.sym x (El.t a :: r) es (a :: p1) p2 (selectAlt_mem _ _ _ _ _ hs) (.tok _ _ _ hd1) hd2
    simpa using this

/-! ### Completeness -/

theorem els_nil_skip (g : Grammar K S) (ms st : List (Item K S)) (ts : List K) (hm : els ms = []) :
    ∀ evs : List (Ev K S K), ∃ evs', ∀ f, run g id g.eof (f + ms.length) (ms ++ st) ts evs = run g id g.eof f st ts evs' := by
  induction ms with
  | nil => intro evs; exact ⟨evs, fun f => rfl⟩
  | cons m ms ih =>
    intro evs
    cases m with
    | el e o => simp [els] at hm
    | fin s i =>
      obtain ⟨evs', h⟩ := ih (by simpa [els] using hm) (.fin s i :: evs)
      refine ⟨evs', fun f => ?_⟩
      have : f + (Item.fin s i :: ms).length = (f + ms.length) + 1 := by simp only [List.length_cons]; omega
      rw [this]
      simp only [List.cons_append, run]
      exact h f
    | symDone o x =>
      obtain ⟨evs', h⟩ := ih (by simpa [els] using hm) (.elemSym o x :: evs)
      refine ⟨evs', fun f => ?_⟩
      have : f + (Item.symDone o x :: ms).length = (f + ms.length) + 1 := by simp only [List.length_cons]; omega
      rw [this]
      simp only [List.cons_append, run]
      exact h f

theorem els_cons_split (pre : List (Item K S)) (e : El K S) (es : List (El K S)) (h : els pre = e :: es) :
    ∃ ms o pre', pre = ms ++ Item.el e o :: pre' ∧ els ms = [] ∧ els pre' = es := by
  induction pre with
  | nil => simp [els] at h
  | cons m pre ih =>
    cases m with
    | el e' o =>
      simp only [els, List.cons.injEq] at h
      exact ⟨[], o, pre, by simp [h.1], rfl, h.2⟩
    | fin s i =>
      obtain ⟨ms, o, pre', h1, h2, h3⟩ := ih (by simpa [els] using h)
      exact ⟨.fin s i :: ms, o, pre', by simp [h1], by simpa [els] using h2, h3⟩
    | symDone o' x =>
      obtain ⟨ms, o, pre', h1, h2, h3⟩ := ih (by simpa [els] using h)
      exact ⟨.symDone o' x :: ms, o, pre', by simp [h1], by simpa [els] using h2, h3⟩

/-- Executing the stack items that spell `es` along a greedy derivation of `ts` down to `mid` takes
    finitely many steps and leaves the machine at `mid` with the rest of the stack untouched. -/
theorem run_follows (g : Grammar K S) (es : List (El K S)) (ts mid : List K) (h : GDerives g es ts mid) :
    ∀ (pre st : List (Item K S)) (evs : List (Ev K S K)), els pre = es →
      ∃ n evs', ∀ f, run g id g.eof (f + n) (pre ++ st) ts evs = run g id g.eof f st mid evs' := by
  induction h with
  | nil ts =>
    intro pre st evs hp
    obtain ⟨evs', h⟩ := els_nil_skip g pre st ts hp evs
    exact ⟨pre.length, evs', h⟩
  | tok a es ts rest h ih =>
    intro pre st evs hp
    obtain ⟨ms, o, pre', rfl, hm, hp'⟩ := els_cons_split pre _ _ hp
    obtain ⟨evs1, h1⟩ := els_nil_skip g ms (Item.el (El.t a) o :: (pre' ++ st)) (a :: ts) hm evs
    cases o with
    | none =>
      obtain ⟨n2, evs2, h2⟩ := ih pre' st evs1 hp'
      refine ⟨n2 + 1 + ms.length, evs2, fun f => ?_⟩
      have e : f + (n2 + 1 + ms.length) = (f + n2 + 1) + ms.length := by omega
      rw [e, List.append_assoc, List.cons_append, h1]
      simp only [run, peekK, id, if_true, List.tail_cons]
      exact h2 f
    | some p =>
      obtain ⟨n2, evs2, h2⟩ := ih pre' st (.elemTok p.1 p.2 a :: evs1) hp'
      refine ⟨n2 + 1 + ms.length, evs2, fun f => ?_⟩
      have e : f + (n2 + 1 + ms.length) = (f + n2 + 1) + ms.length := by omega
      rw [e, List.append_assoc, List.cons_append, h1]
      simp only [run, peekK, id, if_true, List.tail_cons, List.headD_cons]
      exact h2 f
  | symEmpty x i es ts rest hs h ih =>
    intro pre st evs hp
    obtain ⟨ms, o, pre', rfl, hm, hp'⟩ := els_cons_split pre _ _ hp
    obtain ⟨evs1, h1⟩ := els_nil_skip g ms (Item.el (El.s x) o :: (pre' ++ st)) ts hm evs
    obtain ⟨n2, evs2, h2⟩ := ih pre' st (.elemSym o x :: .empty x i :: evs1) hp'
    refine ⟨n2 + 1 + ms.length, evs2, fun f => ?_⟩
    have e : f + (n2 + 1 + ms.length) = (f + n2 + 1) + ms.length := by omega
    rw [e, List.append_assoc, List.cons_append, h1]
    simp only [run, hs]
    exact h2 f
  | symTok x i a r es ts mid rest hs h1d h2d ih1 ih2 =>
    intro pre st evs hp
    obtain ⟨ms, o, pre', rfl, hm, hp'⟩ := els_cons_split pre _ _ hp
    obtain ⟨evs1, h1⟩ := els_nil_skip g ms (Item.el (El.s x) o :: (pre' ++ st)) (a :: ts) hm evs
    obtain ⟨n2, evs2, h2⟩ := ih1 (r.map fun e => Item.el e (some (x, i)))
      (Item.fin x i :: Item.symDone o x :: (pre' ++ st)) (.elemTok x i a :: .start x i :: evs1) (els_map_el _ _)
    obtain ⟨n3, evs3, h3⟩ := ih2 pre' st (.elemSym o x :: .fin x i :: evs2) hp'
    refine ⟨n3 + 2 + n2 + 1 + ms.length, evs3, fun f => ?_⟩
    have e : f + (n3 + 2 + n2 + 1 + ms.length) = ((f + n3 + 2) + n2 + 1) + ms.length := by omega
    rw [e, List.append_assoc, List.cons_append, h1]
    simp only [run, peekK, id, hs, List.tail_cons, List.headD_cons]
    rw [h2]
    simp only [run]
    exact h3 f

/-- Completeness: every greedily derivable statement is accepted (with enough fuel), leaving
    exactly the underived rest. -/
theorem run_complete (g : Grammar K S) (ts rest : List K) (h : GDerives g [El.s g.start] ts rest) :
    ∃ n, ∀ f, n ≤ f → ∃ evs, parseKinds g f ts = .accept rest evs := by
  obtain ⟨n, evs', hn⟩ := run_follows g _ ts rest h [Item.el (El.s g.start) none] [] [] (by simp [els])
  refine ⟨n + 1, fun f hf => ⟨evs'.reverse, ?_⟩⟩
  have : f = (f - n - 1) + 1 + n := by omega
  unfold parseKinds parseWith
  rw [this]
  have := hn ((f - n - 1) + 1)
  simp only [List.append_nil] at this
  rw [this]
  simp [run]

/-! ### Fuel independence -/

theorem run_mono (g : Grammar K S) (f : Nat) (stack : List (Item K S)) (ts : List K) (evs : List (Ev K S K))
    (h : run g id g.eof f stack ts evs ≠ .nofuel) :
    run g id g.eof (f + 1) stack ts evs = run g id g.eof f stack ts evs := by
  induction f generalizing stack ts evs with
  | zero => simp [run] at h
  | succ f ih =>
    cases stack with
    | nil => simp [run]
    | cons it st =>
      cases it with
      | fin s i => simp only [run] at h ⊢; exact ih _ _ _ h
      | symDone o x => simp only [run] at h ⊢; exact ih _ _ _ h
      | el e o =>
        cases e with
        | t a =>
          simp only [run] at h ⊢
          split
          · rename_i hp
            simp only [hp, if_true] at h
            cases o with
            | some p => exact ih _ _ _ h
            | none => exact ih _ _ _ h
          · rfl
        | s x =>
          simp only [run] at h ⊢
          split
          · rfl
          · rename_i i hs
            simp only [hs] at h
            exact ih _ _ _ h
          · rename_i i e0 r hs
            simp only [hs] at h
            exact ih _ _ _ h

theorem run_mono' (g : Grammar K S) (f n : Nat) (stack : List (Item K S)) (ts : List K) (evs : List (Ev K S K))
    (h : run g id g.eof f stack ts evs ≠ .nofuel) :
    run g id g.eof (f + n) stack ts evs = run g id g.eof f stack ts evs := by
  induction n with
  | zero => rfl
  | succ n ih =>
    have : f + (n + 1) = (f + n) + 1 := by omega
    rw [this, run_mono g (f + n) stack ts evs (by rw [ih]; exact h), ih]

/-! ### One token chooses the alternative -/

theorem selectAlt_of_mem (k : K) (alts : List (List (El K S))) (i : Nat) (r : List (El K S))
    (hwf : altsWF alts = true) (hm : (El.t k :: r) ∈ alts) :
    ∃ j, selectAlt k alts i = some (j, El.t k :: r) := by
  induction alts generalizing i with
  | nil => cases hm
  | cons a alts ih =>
    simp only [altsWF, Bool.and_eq_true] at hwf
    obtain ⟨⟨hst, hnd⟩, hlast⟩ := hwf
    cases a with
    | nil =>
      -- an empty alternative that is not last contradicts well-formedness
      cases alts with
      | nil => simp at hm
      | cons b bs => simp [emptyOnlyLast] at hlast
    | cons e rest =>
      cases e with
      | s x => simp [startsWithToken] at hst
      | t a' =>
        simp only [selectAlt]
        rcases List.mem_cons.mp hm with heq | hmem
        · injection heq with h1 h2
          injection h1 with h1
          subst h1; subst h2
          exact ⟨i, by simp⟩
        · have hne : k ≠ a' := by
            intro e; subst e
            simp only [firstToks, nodupB, Bool.and_eq_true, Bool.not_eq_true'] at hnd
            have : (firstToks alts).contains k = true := by
              clear ih hst hnd hlast hm
              induction alts with
              | nil => cases hmem
              | cons b bs ihb =>
                rcases List.mem_cons.mp hmem with hb | hb
                · subst hb; simp [firstToks]
                · cases b with
                  | nil => simpa [firstToks] using ihb hb
                  | cons e0 r0 =>
                    cases e0 with
                    | t q => simp only [firstToks, List.contains_cons, Bool.or_eq_true]; exact Or.inr (ihb hb)
                    | s q => simpa [firstToks] using ihb hb
            rw [this] at hnd
            exact absurd hnd.1 (by simp)
          simp only [hne, if_false]
          have hwf' : altsWF alts = true := by
            simp only [altsWF, Bool.and_eq_true]
            simp only [List.all_cons, Bool.and_eq_true] at hst
            simp only [firstToks, nodupB, Bool.and_eq_true] at hnd
            refine ⟨⟨hst.2, hnd.2⟩, ?_⟩
            cases alts with
            | nil => rfl
            | cons b bs => simpa [emptyOnlyLast] using hlast
          exact ih (i + 1) hwf' hmem

end BW.Proofs.Parser
