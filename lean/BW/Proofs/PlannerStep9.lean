/-
Towards C03: clauses made of constants (existence test against the master index), helper facts for the
assembly of `processClause`.
-/
import BW.Proofs.PlannerStep8
set_option linter.unusedSimpArgs false
open BW.Model BW.Spec BW.Proofs.ClauseOrder BW.Proofs.Store BW.Proofs.Lookup

namespace BW.Proofs.Planner

variable {gs : List QGraph}

/-- A position of a clause is a constant or is open, not both. -/
def ConstWF (c : Clause) : Prop :=
  (c.s.isSome → c.sBinding = []) ∧
  (c.p.isSome → c.pBinding = [] ∧ c.pAnchorBinding = [] ∧ c.pID = []) ∧
  (c.o.isSome → c.oBinding = [] ∧ c.oAnchorBinding = [] ∧ c.oID = [])

def absRows (tbl : Tbl) : List Row := if tbl.bindings = [] then [[]] else tbl.rows

theorem joinClause_keys (scan : List Triple) (glo ghi : Option Int) (rows : List Row) (c : Clause) (x : Row)
    (hx : x ∈ joinClause scan glo ghi rows c) (k : Bytes) (hk : x.has k = true) :
    (∃ r ∈ rows, r.has k = true) ∨ k ∈ c.bindings := by
  rw [joinClause_eq] at hx
  obtain ⟨r, hr, hxr⟩ := List.mem_flatMap.mp hx
  have hmatch : ∀ m ∈ (scan.filterMap (matchClause c (clauseWindow glo ghi c r))).filter (compatible r),
      x = r.merge m → (∃ r ∈ rows, r.has k = true) ∨ k ∈ c.bindings := by
    intro m hm e
    obtain ⟨t, _, hmc⟩ := List.mem_filterMap.mp (List.mem_filter.mp hm).1
    subst e
    rcases merge_has r m k hk with h | h
    · exact Or.inl ⟨r, hr, h⟩
    · exact Or.inr (specBind_keys (matchClause_specBind hmc) k h)
  unfold specJoin at hxr
  simp only at hxr
  split at hxr
  · split at hxr
    · simp only [List.mem_singleton] at hxr
      subst hxr
      rcases merge_has _ _ k hk with h | h
      · exact Or.inl ⟨r, hr, h⟩
      · exact Or.inr (nullRow_has _ _ k h)
    · obtain ⟨m, hm, e⟩ := List.mem_map.mp hxr
      exact hmatch m hm e.symm
  · obtain ⟨m, hm, e⟩ := List.mem_map.mp hxr
    exact hmatch m hm e.symm

theorem existing_empty {tbl : Tbl} {c : Clause} (h : (c.bindings.filter tbl.hasBinding).isEmpty = true) :
    ∀ k ∈ c.bindings, k ∉ tbl.bindings := by
  intro k hk hkb
  have : k ∈ c.bindings.filter tbl.hasBinding :=
    List.mem_filter.mpr ⟨hk, by unfold Tbl.hasBinding; exact List.contains_iff_mem.mpr hkb⟩
  rw [List.isEmpty_iff.mp h] at this; cases this

/-- Names of a clause whose three positions are constants and that has no alias: none. -/
theorem spec3_names {c : Clause} (hc : ConstWF c) (hs : c.specificity = 3) (ha : c.hasAlias = false) :
    c.extractsNothing = true ∧ c.bindings = [] ∧ c.pLowerAlias = [] ∧ c.pUpperAlias = [] ∧ c.pID = [] ∧ c.oID = [] ∧
    c.s.isSome ∧ c.p.isSome ∧ c.o.isSome := by
  have h3 : c.s.isSome = true ∧ c.p.isSome = true ∧ c.o.isSome = true := by
    unfold Clause.specificity at hs
    cases h1 : c.s.isSome <;> cases h2 : c.p.isSome <;> cases h3 : c.o.isSome <;> simp [h1, h2, h3] at hs ⊢
  obtain ⟨c1, c2, c3⟩ := hc
  have a1 := c1 h3.1
  obtain ⟨a2, a3, a4⟩ := c2 h3.2.1
  obtain ⟨a5, a6, a7⟩ := c3 h3.2.2
  unfold Clause.hasAlias at ha
  simp only [Bool.or_eq_false_iff, decide_eq_false_iff_not, ne_eq, Classical.not_not] at ha
  obtain ⟨⟨⟨⟨⟨⟨⟨⟨⟨⟨⟨⟨⟨b1, b2⟩, b3⟩, b4⟩, b5⟩, b6⟩, b7⟩, b8⟩, b9⟩, b10⟩, b11⟩, b12⟩, b13⟩, b14⟩ := ha
  refine ⟨?_, ?_, b7, b8, a4, a7, h3.1, h3.2.1, h3.2.2⟩
  · unfold Clause.extractsNothing
    simp [a1, a2, a3, a5, a6, b1, b2, b3, b4, b5, b6, b9, b10, b11, b12]
  · unfold Clause.bindings
    simp [a1, a2, a3, a5, a6, b1, b2, b3, b4, b5, b6, b7, b8, b9, b10, b11, b12, b13, b14, dedup]

/-- Names of a clause without bindings: none. -/
theorem nobind_names {c : Clause} (hb : c.bindings = []) :
    c.extractsNothing = true ∧ c.pLowerAlias = [] ∧ c.pUpperAlias = [] := by
  have key : ∀ k, k ∈ [c.sBinding, c.sAlias, c.sTypeAlias, c.sIDAlias, c.pAlias, c.pAnchorBinding, c.pBinding, c.pLowerAlias,
      c.pUpperAlias, c.pIDAlias, c.pAnchorAlias, c.oBinding, c.oAlias, c.oTypeAlias, c.oIDAlias, c.oAnchorAlias,
      c.oAnchorBinding, c.oLowerAlias, c.oUpperAlias] → k = [] := by
    intro k hk
    apply Classical.byContradiction
    intro hne
    have : k ∈ c.bindings := by
      unfold Clause.bindings
      exact mem_dedup_of_mem _ _ (List.mem_filter.mpr ⟨hk, by simpa using hne⟩)
    rw [hb] at this; cases this
  refine ⟨?_, key _ (by simp), key _ (by simp)⟩
  apply (extractsNothing_iff c).mpr
  intro k hk
  apply key
  unfold extractNames at hk
  simp only [List.mem_cons, List.mem_nil_iff, or_false] at hk ⊢
  rcases hk with e | e | e | e | e | e | e | e | e | e | e | e | e | e | e <;> simp [e]

/-- The existence test of a fully specified clause: inside the window and stored in some listed graph,
    iff the reference has a match. -/
theorem spec3_exists {F : Facts} (hF : Facts.WF F = true) (hg : GraphsOK F gs) (U : Universe gs)
    {c : Clause} {lo : QOpts} (hcin : ClauseIn U c) (hfil : lo.filter = none)
    (hex : c.extractsNothing = true) (hpid : c.pID = []) (hoid : c.oID = [])
    (s : Node) (p : Pred) (o : Obj) (hs : c.s = some s) (hp : c.p = some p) (ho : c.o = some o)
    (ko : Bytes) (hko : preObj false o = some ko) :
    ((fetchWindow lo c).holds p &&
      gs.any fun q => q.g.exist { ks := preNode s, pid := p.id, pnano := p.anchor.map (·.nanos), ko := ko }) =
    !((gs.flatMap scanOf).filterMap (matchClause c (fetchWindow lo c))).isEmpty := by
  have hid'' : IdAliasPlain { c with sAlias := existsAlias } := Or.inl (names_nil hex).2.2.2.2.2.2.2.2.2.2.2.2.1
  obtain ⟨ko', hko', hf⟩ := simpleFetch_full F gs { c with sAlias := existsAlias } hid'' lo s p o hs hp ho
  rw [hko] at hko'; injection hko' with hko'; subst hko'
  have hpp := probe_plain hF hg U hcin hfil hex _ hf
  rw [← hpp]
  have hrow : fetchRow { c with sAlias := existsAlias } ⟨s, p, o⟩ = some [(existsAlias, Cell.node s)] := by
    unfold fetchRow
    have hi : shouldIgnore ⟨s, p, o⟩ { c with sAlias := existsAlias } = false := by
      unfold shouldIgnore; simp [hpid, hoid]
    rw [hi, specBind_probe hex]
    simp
  have hwin'' : fetchWindow lo { c with sAlias := existsAlias } = fetchWindow lo c := rfl
  rw [hwin'']
  by_cases hw : (fetchWindow lo c).holds p = true
  · simp only [hw, if_true, Bool.true_and]
    by_cases hany : (gs.any fun q => q.g.exist { ks := preNode s, pid := p.id, pnano := p.anchor.map (·.nanos), ko := ko }) = true
    · rw [hany]
      obtain ⟨q, hq, he⟩ := List.any_eq_true.mp hany
      have : (gs.flatMap fun q => if q.g.exist { ks := preNode s, pid := p.id, pnano := p.anchor.map (·.nanos), ko := ko } = true
          then [(⟨s, p, o⟩ : Triple)].filterMap (fetchRow { c with sAlias := existsAlias }) else []) ≠ [] := by
        intro hnil
        have := List.flatMap_eq_nil_iff.mp hnil q hq
        simp [he, hrow] at this
      cases hl : (gs.flatMap fun q => if q.g.exist { ks := preNode s, pid := p.id, pnano := p.anchor.map (·.nanos), ko := ko } = true
          then [(⟨s, p, o⟩ : Triple)].filterMap (fetchRow { c with sAlias := existsAlias }) else []) with
      | nil => exact absurd hl this
      | cons _ _ => rfl
    · have hany' : (gs.any fun q => q.g.exist { ks := preNode s, pid := p.id, pnano := p.anchor.map (·.nanos), ko := ko }) = false := by
        simpa using hany
      rw [hany']
      have : (gs.flatMap fun q => if q.g.exist { ks := preNode s, pid := p.id, pnano := p.anchor.map (·.nanos), ko := ko } = true
          then [(⟨s, p, o⟩ : Triple)].filterMap (fetchRow { c with sAlias := existsAlias }) else []) = [] := by
        apply List.flatMap_eq_nil_iff.mpr
        intro q hq
        have : q.g.exist { ks := preNode s, pid := p.id, pnano := p.anchor.map (·.nanos), ko := ko } = false := by
          cases he : q.g.exist { ks := preNode s, pid := p.id, pnano := p.anchor.map (·.nanos), ko := ko } with
          | false => rfl
          | true =>
            have : (gs.any fun q => q.g.exist { ks := preNode s, pid := p.id, pnano := p.anchor.map (·.nanos), ko := ko }) = true :=
              List.any_eq_true.mpr ⟨q, hq, he⟩
            rw [hany'] at this; cases this
        simp [this]
      rw [this]; rfl
  · have hw' : (fetchWindow lo c).holds p = false := by simpa using hw
    simp [hw']

end BW.Proofs.Planner
