/-
`specifyClauseWithTable` starts one goroutine per row; each computes the rows that replace its row and adds
them to the shared table through `Table.AddRow`, which holds the table's mutex. Small-step model: the threads'
rows are appended one at a time in any interleaving. Whatever the schedule, the table ends up holding a
permutation of what the sequential loop produces, each thread's rows in their own order.
-/
namespace BW.Proofs.Par

variable {α : Type}

/-- One atomic `AddRow`: some thread that still has rows appends its next one. -/
inductive Step : List α × List (List α) → List α × List (List α) → Prop
  | add (tbl : List α) (pre : List (List α)) (x : α) (xs : List α) (post : List (List α)) :
      Step (tbl, pre ++ (x :: xs) :: post) (tbl ++ [x], pre ++ xs :: post)

inductive Run : List α × List (List α) → List α × List (List α) → Prop
  | refl (s) : Run s s
  | step {s t u} : Step s t → Run t u → Run s u

/-- Every thread has added all its rows. -/
def Done (s : List α × List (List α)) : Prop := ∀ l ∈ s.2, l = []

theorem flatten_split (pre : List (List α)) (x : α) (xs : List α) (post : List (List α)) :
    (pre ++ (x :: xs) :: post).flatten.Perm (x :: (pre ++ xs :: post).flatten) := by
  simp only [List.flatten_append, List.flatten_cons, List.cons_append]
  exact List.perm_middle

/-- Invariant: what is in the table together with what is still to be added is a permutation of the whole. -/
theorem step_inv {s t : List α × List (List α)} (h : Step s t) : (t.1 ++ t.2.flatten).Perm (s.1 ++ s.2.flatten) := by
  cases h with
  | add tbl pre x xs post =>
    simp only
    have h1 := flatten_split pre x xs post
    calc (tbl ++ [x] ++ (pre ++ xs :: post).flatten).Perm (tbl ++ (x :: (pre ++ xs :: post).flatten)) := by
            simp
      _ |>.Perm (tbl ++ (pre ++ (x :: xs) :: post).flatten) := List.Perm.append_left tbl h1.symm

theorem run_inv {s t : List α × List (List α)} (h : Run s t) : (t.1 ++ t.2.flatten).Perm (s.1 ++ s.2.flatten) := by
  induction h with
  | refl s => exact List.Perm.refl _
  | step hs _ ih => exact ih.trans (step_inv hs)

theorem flatten_done (ls : List (List α)) (h : ∀ l ∈ ls, l = []) : ls.flatten = [] := by
  induction ls with
  | nil => rfl
  | cons l ls ih =>
    simp only [List.flatten_cons]
    rw [h l List.mem_cons_self, ih (fun x hx => h x (List.mem_cons_of_mem _ hx))]
    rfl

/-- **Schedule independence of the per-row join.** Whatever the interleaving of the goroutines' `AddRow`
    calls, once all are done the table holds a permutation of the rows the sequential loop would have added
    (the rows of thread 1, then of thread 2, …) after the rows it held before. -/
theorem schedule_independent (tbl0 : List α) (threads : List (List α)) (tbl : List α) (rest : List (List α))
    (h : Run (tbl0, threads) (tbl, rest)) (hd : Done (tbl, rest)) : tbl.Perm (tbl0 ++ threads.flatten) := by
  have := run_inv h
  simp only at this
  rw [flatten_done rest hd, List.append_nil] at this
  exact this

/-- Progress: while some thread has rows left a step exists, and every step consumes one row: every maximal
    run ends `Done` after exactly as many steps as there are rows. -/
theorem can_step (tbl : List α) (ls : List (List α)) (h : ¬ Done (tbl, ls)) : ∃ t, Step (tbl, ls) t := by
  unfold Done at h
  simp only [Classical.not_forall] at h
  obtain ⟨l, hl, hne⟩ := h
  obtain ⟨pre, post, e⟩ := List.append_of_mem hl
  cases l with
  | nil => exact absurd rfl hne
  | cons x xs => exact ⟨_, e ▸ Step.add tbl pre x xs post⟩

end BW.Proofs.Par
