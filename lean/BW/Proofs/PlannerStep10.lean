/-
Towards C03: `processClause` — whatever strategy it picks, the table it leaves is the reference's join of
the table with the clause (`processClause_spec`).
-/
import BW.Proofs.PlannerStep9b
set_option linter.unusedSimpArgs false
open BW.Model BW.Spec BW.Proofs.ClauseOrder BW.Proofs.Store BW.Proofs.Lookup

namespace BW.Proofs.Planner

variable {gs : List QGraph}

theorem fetchWindow_eq (lo : QOpts) (c : Clause) : fetchWindow lo c = clauseWindow (nl lo.lower) (nl lo.upper) c [] := rfl

theorem absRows_of_ne {tbl : Tbl} (h : tbl.bindings ≠ []) : absRows tbl = tbl.rows := by
  unfold absRows; simp [h]

/-- The per-row strategy as a table step. -/
theorem specify_table {F : Facts} (hF : Facts.WF F = true) (hg : GraphsOK F gs) (U : Universe gs)
    {tbl : Tbl} (ht : TblOK U tbl) (hB : tbl.bindings ≠ []) {c : Clause} {lo : QOpts} (hwf : ClauseWF c)
    (hcin : ClauseIn U c) (hfil : lo.filter = none) (out : List Row)
    (h : specifyAll F gs c lo 0 tbl.rows = .ok out) :
    let t : Tbl := { bindings := tbl.bindings, rows := out }
    let t' := if tbl.rows.isEmpty then t else t.addBindings c.bindings
    TblOK U t' ∧ t'.bindings ≠ [] ∧
      SetEq (absRows t') (joinClauseO (gs.flatMap scanOf) (nl lo.lower) (nl lo.upper) (absRows tbl) c) := by
  obtain ⟨hset, hok⟩ := specifyAll_spec hF hg U hwf hcin hfil tbl.rows out ht.rows h
  have hkeys : ∀ r' ∈ out, ∀ k, r'.has k = true → k ∈ tbl.bindings ∨ k ∈ c.bindings := by
    intro r' hr' k hk
    obtain ⟨x, hx, e⟩ := hset.1 r' hr'
    rw [rowEq_has e] at hk
    rcases joinClauseO_keys _ _ _ _ c x hx k hk with ⟨r, hr, hrk⟩ | h2
    · exact Or.inl (ht.keys r hr k hrk)
    · exact Or.inr h2
  simp only
  by_cases he : tbl.rows.isEmpty = true
  · simp only [he, if_true]
    have hrows : tbl.rows = [] := List.isEmpty_iff.mp he
    have hout : out = [] := by
      rw [hrows] at h; simp only [specifyAll, Except.ok.injEq] at h; exact h.symm
    refine ⟨⟨fun r hr => hok r hr, ?_, fun hb => absurd hb hB⟩, hB, ?_⟩
    · intro r hr; rw [hout] at hr; cases hr
    · rw [absRows_of_ne hB, absRows_of_ne (show ({ bindings := tbl.bindings, rows := out } : Tbl).bindings ≠ [] from hB)]
      exact hset
  · simp only [he, Bool.false_eq_true, if_false]
    have hne : (({ bindings := tbl.bindings, rows := out } : Tbl).addBindings c.bindings).bindings ≠ [] := by
      unfold Tbl.addBindings
      simp only
      intro hb
      cases hl : tbl.bindings with
      | nil => exact hB hl
      | cons b bs =>
        have : b ∈ dedup (tbl.bindings ++ c.bindings) := mem_dedup_of_mem _ _ (by rw [hl]; simp)
        rw [hb] at this; cases this
    refine ⟨⟨fun r hr => hok r hr, ?_, fun hb => absurd hb hne⟩, hne, ?_⟩
    · intro r hr k hk
      unfold Tbl.addBindings
      simp only
      apply mem_dedup_of_mem
      rcases hkeys r hr k hk with h1 | h1
      · exact List.mem_append_left _ h1
      · exact List.mem_append_right _ h1
    · rw [absRows_of_ne hB, absRows_of_ne hne]
      exact hset

theorem noAlias_objAliases {c : Clause} (h : c.hasAlias = false) : c.oLowerAlias = [] ∧ c.oUpperAlias = [] := by
  unfold Clause.hasAlias at h
  simp only [Bool.or_eq_false_iff, decide_eq_false_iff_not, ne_eq, Decidable.not_not] at h
  exact ⟨h.1.2, h.2⟩

theorem noBindings_objAliases {c : Clause} (h : c.bindings = []) : c.oLowerAlias = [] ∧ c.oUpperAlias = [] := by
  constructor
  · cases hl : c.oLowerAlias with
    | nil => rfl
    | cons a l =>
      have := (objAliases_in_bindings c).1 (by rw [hl]; simp)
      rw [h] at this; cases this
  · cases hl : c.oUpperAlias with
    | nil => rfl
    | cons a l =>
      have := (objAliases_in_bindings c).2 (by rw [hl]; simp)
      rw [h] at this; cases this

/-- The rows of a table that shares no name with the clause have none of the clause's names. -/
theorem absRows_lack {U : Universe gs} {tbl : Tbl} (ht : TblOK U tbl) {c : Clause} (hd : ∀ k ∈ c.bindings, k ∉ tbl.bindings) :
    ∀ r ∈ absRows tbl, ∀ k ∈ c.bindings, r.has k = false := by
  intro r hr k hk
  unfold absRows at hr
  split at hr
  · simp only [List.mem_singleton] at hr; subst hr; rfl
  · cases hh : r.has k with
    | false => rfl
    | true => exact absurd (ht.keys r hr k hh) (hd k hk)

/-- **One clause.** Whatever strategy `processClause` picks — existence test, probe, cross join, left outer
    join, first fetch, per-row specialisation — the table it leaves is the reference's join of the table with
    the clause; when it reports the pattern unresolvable the join is empty. -/
theorem processClause_spec {F : Facts} (hF : Facts.WF F = true) (hg : GraphsOK F gs) (U : Universe gs)
    {tbl tbl' : Tbl} {unres : Bool} (ht : TblOK U tbl) {c : Clause} {lo : QOpts} (hwf : ClauseWF c) (hcw : ConstWF c)
    (hcin : ClauseIn U c) (hfil : lo.filter = none)
    (hexO : (c.oLowerAlias ≠ [] → c.oLower = none) ∧ (c.oUpperAlias ≠ [] → c.oUpper = none))
    (hfirst : tbl.bindings = [] → c.optional = false ∧ c.extractsNothing = false)
    (halias : c.extractsNothing = true → c.bindings ≠ [] → (c.bindings.filter tbl.hasBinding).isEmpty = false)
    (h : processClause F gs tbl c lo 0 = .ok (tbl', unres)) :
    TblOK U tbl' ∧ (tbl'.bindings ≠ []) ∧
    (unres = false → SetEq (absRows tbl') (joinClauseO (gs.flatMap scanOf) (nl lo.lower) (nl lo.upper) (absRows tbl) c)) ∧
    (unres = true → joinClauseO (gs.flatMap scanOf) (nl lo.lower) (nl lo.upper) (absRows tbl) c = []) := by
  unfold processClause at h
  by_cases h1 : (c.specificity == 3 && !c.hasAlias) = true
  · -- three constants, no alias: existence test
    simp only [h1, if_true] at h
    simp only [Bool.and_eq_true, beq_iff_eq, Bool.not_eq_true'] at h1
    rw [joinClauseO_eq _ _ _ _ _ (noAlias_objAliases h1.2)]
    obtain ⟨hex, hb, hal1, hal2, hpid, hoid, i1, i2, i3⟩ := spec3_names hcw h1.1 h1.2
    have hB : tbl.bindings ≠ [] := by
      intro hb0; have := (hfirst hb0).2; rw [hex] at this; cases this
    obtain ⟨s, hs⟩ := Option.isSome_iff_exists.mp i1
    obtain ⟨p, hp⟩ := Option.isSome_iff_exists.mp i2
    obtain ⟨o, ho⟩ := Option.isSome_iff_exists.mp i3
    obtain ⟨ko, hko⟩ := preObj_false_some o
    have hj := join_nothing (gs.flatMap scanOf) (nl lo.lower) (nl lo.upper) c hex hb ⟨hal1, hal2⟩ tbl.rows
    rw [← fetchWindow_eq] at hj
    have hexs := spec3_exists hF hg U hcin hfil hex hpid hoid s p o hs hp ho ko hko
    rw [absRows_of_ne hB]
    by_cases hopt : c.optional = true
    · simp only [hopt, if_true, Except.ok.injEq, Prod.mk.injEq] at h
      obtain ⟨e1, e2⟩ := h; subst e1; subst e2
      exact ⟨ht, hB, fun _ => by rw [absRows_of_ne hB]; exact (hj.1 (Or.inr hopt)).symm, fun hh => by simp at hh⟩
    · have hopt' : c.optional = false := by simpa using hopt
      simp only [hopt', Bool.false_eq_true, if_false, hs, hp, ho, hko, inTimeBounds_holds] at h
      by_cases hw : (fetchWindow lo c).holds p = true
      · simp only [hw, Bool.not_true, Bool.false_eq_true, if_false, Except.ok.injEq, Prod.mk.injEq] at h
        obtain ⟨e1, e2⟩ := h; subst e1
        rw [hw, Bool.true_and] at hexs
        rw [hexs] at e2
        simp only [Bool.not_not] at e2
        refine ⟨ht, hB, ?_, ?_⟩
        · intro hu
          rw [absRows_of_ne hB]
          rw [hu] at e2
          exact (hj.1 (Or.inl e2)).symm
        · intro hu
          rw [hu] at e2
          exact hj.2 ⟨e2, hopt'⟩
      · have hw' : (fetchWindow lo c).holds p = false := by simpa using hw
        simp only [hw', Bool.not_false, if_true, Except.ok.injEq, Prod.mk.injEq] at h
        obtain ⟨e1, e2⟩ := h; subst e1; subst e2
        rw [hw', Bool.false_and] at hexs
        have : ((gs.flatMap scanOf).filterMap (matchClause c (fetchWindow lo c))).isEmpty = true := by
          cases hh : ((gs.flatMap scanOf).filterMap (matchClause c (fetchWindow lo c))).isEmpty <;> simp [hh] at hexs ⊢
        exact ⟨ht, hB, fun hh => by simp at hh, fun _ => hj.2 ⟨this, hopt'⟩⟩
  · have h1' : (c.specificity == 3 && !c.hasAlias) = false := by simpa using h1
    simp only [h1', Bool.false_eq_true, if_false] at h
    by_cases h2 : c.bindings.isEmpty = true
    · -- binds nothing: probe
      simp only [h2, if_true] at h
      have hb : c.bindings = [] := List.isEmpty_iff.mp h2
      rw [joinClauseO_eq _ _ _ _ _ (noBindings_objAliases hb)]
      obtain ⟨hex, hal1, hal2⟩ := nobind_names hb
      have hB : tbl.bindings ≠ [] := by
        intro hb0; have := (hfirst hb0).2; rw [hex] at this; cases this
      have hj := join_nothing (gs.flatMap scanOf) (nl lo.lower) (nl lo.upper) c hex hb ⟨hal1, hal2⟩ tbl.rows
      rw [← fetchWindow_eq] at hj
      rw [absRows_of_ne hB]
      by_cases hopt : c.optional = true
      · simp only [hopt, if_true, Except.ok.injEq, Prod.mk.injEq] at h
        obtain ⟨e1, e2⟩ := h; subst e1; subst e2
        exact ⟨ht, hB, fun _ => by rw [absRows_of_ne hB]; exact (hj.1 (Or.inr hopt)).symm, fun hh => by simp at hh⟩
      · have hopt' : c.optional = false := by simpa using hopt
        rw [if_neg hopt] at h
        cases hfe : simpleFetch F gs { c with sAlias := [63, 95, 95, 101, 120, 105, 115, 116, 115] } lo 0 with
        | error e => simp [hfe, bind, Except.bind] at h
        | ok rows =>
          simp only [hfe, bind, Except.bind, pure, Except.pure, Except.ok.injEq, Prod.mk.injEq] at h
          obtain ⟨e1, e2⟩ := h; subst e1
          have hpp := probe_plain hF hg U hcin hfil hex rows hfe
          rw [hpp] at e2
          refine ⟨ht, hB, ?_, ?_⟩
          · intro hu
            rw [absRows_of_ne hB]
            rw [hu] at e2
            exact (hj.1 (Or.inl e2)).symm
          · intro hu
            rw [hu] at e2
            exact hj.2 ⟨e2, hopt'⟩
    · have h2' : c.bindings.isEmpty = false := by simpa using h2
      simp only [h2', Bool.false_eq_true, if_false] at h
      by_cases h3 : (c.bindings.filter tbl.hasBinding).isEmpty = true
      · -- no shared binding: fetch once
        simp only [h3, if_true] at h
        have hd := existing_empty h3
        rw [joinClauseO_lacking _ _ _ _ c hexO (absRows_lack ht hd)]
        have hex : c.extractsNothing = false := by
          cases hh : c.extractsNothing with
          | false => rfl
          | true =>
            have := halias hh (by intro hb; rw [hb] at h2'; cases h2')
            rw [h3] at this; cases this
        cases hfe : simpleFetch F gs c lo 0 with
        | error e => simp [hfe, bind, Except.bind] at h
        | ok fetched =>
          simp only [hfe, bind, Except.bind] at h
          by_cases hB : tbl.bindings = []
          · have hBe : tbl.bindings.isEmpty = true := by rw [hB]; rfl
            simp only [hBe, Bool.not_true, Bool.false_eq_true, if_false] at h
            obtain ⟨t', ha, hb', hset, hok⟩ := append_spec hF hg U ht hB hwf hcin hfil hex (hfirst hB).1 fetched hfe
            simp only [ha, pure, Except.pure, Except.ok.injEq, Prod.mk.injEq] at h
            obtain ⟨e1, e2⟩ := h; subst e1; subst e2
            have hne : t'.bindings ≠ [] := by rw [hb']; exact bindings_ne_nil hex
            refine ⟨hok, hne, fun _ => ?_, fun hh => by simp at hh⟩
            rw [absRows_of_ne hne]
            have : absRows tbl = [[]] := by unfold absRows; simp [hB]
            rw [this]; exact hset
          · have hBe : tbl.bindings.isEmpty = false := by
              cases hl : tbl.bindings with
              | nil => exact absurd hl hB
              | cons _ _ => rfl
            simp only [hBe, Bool.not_false, if_true] at h
            by_cases hopt : c.optional = true
            · simp only [hopt, if_true] at h
              obtain ⟨t', ha, hb', hset, hok⟩ := leftOptional_spec hF hg U ht hB hwf hcin hfil hex hd hopt fetched hfe
              simp only [ha, pure, Except.pure, Except.ok.injEq, Prod.mk.injEq] at h
              obtain ⟨e1, e2⟩ := h; subst e1; subst e2
              have hne : t'.bindings ≠ [] := by
                rw [hb']; intro hb0
                cases hl : tbl.bindings with
                | nil => exact hB hl
                | cons b bs =>
                  have : b ∈ dedup (tbl.bindings ++ c.bindings) := mem_dedup_of_mem _ _ (by rw [hl]; simp)
                  rw [hb0] at this; cases this
              refine ⟨hok, hne, fun _ => ?_, fun hh => by simp at hh⟩
              rw [absRows_of_ne hne, absRows_of_ne hB]; exact hset
            · have hopt' : c.optional = false := by simpa using hopt
              simp only [hopt', Bool.false_eq_true, if_false] at h
              obtain ⟨t', ha, hb', hset, hok⟩ := dot_spec hF hg U ht hwf hcin hfil hex hd hopt' fetched hfe
              simp only [ha, pure, Except.pure, Except.ok.injEq, Prod.mk.injEq] at h
              obtain ⟨e1, e2⟩ := h; subst e1; subst e2
              have hne : t'.bindings ≠ [] := by
                rw [hb']; intro hb0
                cases hl : tbl.bindings with
                | nil => exact hB hl
                | cons b bs =>
                  have : b ∈ dedup (tbl.bindings ++ c.bindings) := mem_dedup_of_mem _ _ (by rw [hl]; simp)
                  rw [hb0] at this; cases this
              refine ⟨hok, hne, fun _ => ?_, fun hh => by simp at hh⟩
              rw [absRows_of_ne hne, absRows_of_ne hB]; exact hset
      · -- shared bindings: row by row
        have h3' : (c.bindings.filter tbl.hasBinding).isEmpty = false := by simpa using h3
        simp only [h3', Bool.false_eq_true, if_false] at h
        have hB : tbl.bindings ≠ [] := by
          intro hb0
          have : c.bindings.filter tbl.hasBinding = [] := by
            apply List.filter_eq_nil_iff.mpr
            intro k _; unfold Tbl.hasBinding; simp [hb0]
          rw [this] at h3'; cases h3'
        cases hsa : specifyAll F gs c lo 0 tbl.rows with
        | error e => simp [hsa, bind, Except.bind] at h
        | ok out =>
          simp only [hsa, bind, Except.bind, pure, Except.pure, Except.ok.injEq, Prod.mk.injEq] at h
          obtain ⟨e1, e2⟩ := h; subst e1; subst e2
          obtain ⟨a1, a2, a3⟩ := specify_table hF hg U ht hB hwf hcin hfil out hsa
          exact ⟨a1, a2, fun _ => a3, fun hh => by simp at hh⟩

end BW.Proofs.Planner
