import BW.Model.Linear

namespace BW.Proofs.Linear
open BW.Model.Linear

/-- The search only says "linearizable" when a linearization exists. -/
theorem search_sound : ∀ (f : Nat) (s : State) (pending : List HOp), search f s pending = true → Lin s pending := by
  intro f
  induction f with
  | zero =>
    intro s pending h
    cases pending with
    | nil => exact Lin.done s
    | cons p ps => simp [search] at h
  | succ f ih =>
    intro s pending h
    cases pending with
    | nil => exact Lin.done s
    | cons p ps =>
      simp only [search, List.any_eq_true, Bool.and_eq_true, beq_iff_eq] at h
      obtain ⟨o, hm, ⟨hmin, hres⟩, hrest⟩ := h
      exact Lin.pick s _ o hm hmin hres (ih _ _ hrest)

/-- With one lock at a time nobody waits in a cycle: if anybody waits, some unfinished thread holds
    what it waits for and is itself not waiting, so it can run on and release. -/
theorem no_lock_cycle (ts : List ThreadL) (hn : ∀ t ∈ ts, nonNested t) (hw : waitsForHeld ts)
    (t : ThreadL) (ht : t ∈ ts) (l : Nat) (hl : t.waiting = some l) :
    ∃ h ∈ ts, h.finished = false ∧ h.waiting = none := by
  obtain ⟨h, hh, hhold, hfin⟩ := hw t ht l hl
  exact ⟨h, hh, hfin, hn h hh (by simp [hhold])⟩

end BW.Proofs.Linear
