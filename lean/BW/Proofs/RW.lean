/-
C07: calls under one readers-writer lock, in small steps, are linearizable — for every number of calls, every
batch size and every interleaving (`linearizable`, `real_time`).  The model: a call is invoked, waits for the
lock (exclusive for updates, shared for look-ups), makes its micro-steps while holding it, returns.  The
invariant: the calls that got the lock so far, executed whole and one at a time in that order, give the
results already returned, the results readers are assembling, and — once the writer's pending micro-writes
are applied — the protected state.  Which lock each method of memory.go takes, and that it holds it for the
whole body, is `lockfacts` (regenerated); that `sync.RWMutex` excludes as modelled is trusted.
-/
namespace BW.Model.RW

/-! Operations under one readers-writer lock: small steps.

An update holds the lock exclusively while it applies its micro-writes one after the other (the loop of
`AddTriples` over the triples of a batch and over the indexes); a look-up holds it shared while it makes its
micro-reads (walking an index bucket, sending on the channel). `σ` is the protected state, `ρ` what a
micro-read observes. -/

inductive Op (σ ρ : Type) where
  | write (ws : List (σ → σ))
  | read (rs : List (σ → ρ))

/-- Life of one call. -/
inductive Th (σ ρ : Type) where
  | idle (op : Op σ ρ)                                  -- not invoked yet
  | waiting (op : Op σ ρ)                               -- invoked, wants the lock
  | writing (todo : List (σ → σ))                       -- holds the lock exclusively
  | reading (todo : List (σ → ρ)) (seen : List ρ)       -- holds it shared
  | done (result : List ρ)                              -- returned (an update returns nothing)

variable {σ ρ : Type}

structure Sys (σ ρ : Type) where
  st : σ
  ths : List (Th σ ρ)
  /-- ghost: the calls in the order in which they got the lock (index of the thread) -/
  order : List Nat := []

def holdsW : Th σ ρ → Bool
  | .writing _ => true
  | _ => false
def holdsR : Th σ ρ → Bool
  | .reading _ _ => true
  | _ => false

def Sys.writerIn (s : Sys σ ρ) : Bool := s.ths.any holdsW
def Sys.readerIn (s : Sys σ ρ) : Bool := s.ths.any holdsR

/-- One step of thread `i`; `none`: the thread cannot move (not enabled). -/
def Sys.step (s : Sys σ ρ) (i : Nat) : Option (Sys σ ρ) :=
  match s.ths[i]? with
  | none => none
  | some (.idle op) => some { s with ths := s.ths.set i (.waiting op) }
  | some (.waiting (.write ws)) =>
    if s.writerIn || s.readerIn then none
    else some { s with ths := s.ths.set i (.writing ws), order := s.order ++ [i] }
  | some (.waiting (.read rs)) =>
    if s.writerIn then none
    else some { s with ths := s.ths.set i (.reading rs []), order := s.order ++ [i] }
  | some (.writing []) => some { s with ths := s.ths.set i (.done []) }
  | some (.writing (w :: ws)) => some { s with st := w s.st, ths := s.ths.set i (.writing ws) }
  | some (.reading [] seen) => some { s with ths := s.ths.set i (.done seen) }
  | some (.reading (r :: rs) seen) => some { s with ths := s.ths.set i (.reading rs (seen ++ [r s.st])) }
  | some (.done _) => none

/-- Run a schedule; steps of threads that cannot move are skipped. -/
def Sys.run (s : Sys σ ρ) : List Nat → Sys σ ρ
  | [] => s
  | i :: is => match s.step i with
    | some s' => Sys.run s' is
    | none => Sys.run s is

/-- The sequential meaning of a call: the whole update at once, the whole look-up on one state. -/
def Op.apply : Op σ ρ → σ → σ × List ρ
  | .write ws, x => (ws.foldl (fun x w => w x) x, [])
  | .read rs, x => (x, rs.map fun r => r x)

end BW.Model.RW

namespace BW.Model.RW
variable {σ ρ : Type}

/-- The calls one after the other, in a given order: final state and the result of each. -/
def seqStep (ops : List (Op σ ρ)) (acc : σ × List (Nat × List ρ)) (i : Nat) : σ × List (Nat × List ρ) :=
  match ops[i]? with
  | some o => ((o.apply acc.1).1, acc.2 ++ [(i, (o.apply acc.1).2)])
  | none => acc

def seqRun (x0 : σ) (ops : List (Op σ ρ)) (order : List Nat) : σ × List (Nat × List ρ) :=
  order.foldl (seqStep ops) (x0, [])

theorem seqRun_append (x0 : σ) (ops : List (Op σ ρ)) (order : List Nat) (i : Nat) :
    seqRun x0 ops (order ++ [i]) = seqStep ops (seqRun x0 ops order) i := by
  unfold seqRun; rw [List.foldl_append]; rfl

def start (x0 : σ) (ops : List (Op σ ρ)) : Sys σ ρ := { st := x0, ths := ops.map Th.idle }

/-- Micro-writes the lock holder still has to make. -/
def pending : List (Th σ ρ) → List (σ → σ)
  | [] => []
  | .writing todo :: _ => todo
  | _ :: rest => pending rest

def Sys.abs (s : Sys σ ρ) : σ := (pending s.ths).foldl (fun x w => w x) s.st

/-- What holds of every reachable state. -/
structure Inv (x0 : σ) (ops : List (Op σ ρ)) (s : Sys σ ρ) : Prop where
  len : s.ths.length = ops.length
  idle : ∀ (i : Nat) o, s.ths[i]? = some (Th.idle o) → ops[i]? = some o ∧ i ∉ s.order
  waiting : ∀ (i : Nat) o, s.ths[i]? = some (Th.waiting o) → ops[i]? = some o ∧ i ∉ s.order
  writing : ∀ (i : Nat) (todo : List (σ → σ)), s.ths[i]? = some (Th.writing todo) → (∃ pre : List (σ → σ), ops[i]? = some (Op.write (pre ++ todo))) ∧
    (i, []) ∈ (seqRun x0 ops s.order).2 ∧
    (∀ (j : Nat) th, j ≠ i → s.ths[j]? = some th → holdsW th = false ∧ holdsR th = false)
  reading : ∀ (i : Nat) (todo : List (σ → ρ)) seen, s.ths[i]? = some (Th.reading todo seen) → ∃ pre : List (σ → ρ), ops[i]? = some (Op.read (pre ++ todo)) ∧
    seen = pre.map (fun r => r s.st) ∧ (i, (pre ++ todo).map fun r => r s.st) ∈ (seqRun x0 ops s.order).2
  done : ∀ (i : Nat) r, s.ths[i]? = some (Th.done r) → (i, r) ∈ (seqRun x0 ops s.order).2
  abs : (seqRun x0 ops s.order).1 = s.abs

theorem pending_none (ths : List (Th σ ρ)) (h : ∀ th ∈ ths, holdsW th = false) : pending ths = [] := by
  induction ths with
  | nil => rfl
  | cons t ts ih =>
    have ht := h t List.mem_cons_self
    cases t <;> simp [holdsW] at ht <;> simp only [pending] <;> exact ih (fun th hm => h th (List.mem_cons_of_mem _ hm))

/-- With one writer at position `i` and no other, the pending micro-writes are its own. -/
theorem pending_at (ths : List (Th σ ρ)) (i : Nat) (todo : List (σ → σ)) (hi : ths[i]? = some (Th.writing todo))
    (hothers : ∀ j th, j ≠ i → ths[j]? = some th → holdsW th = false) : pending ths = todo := by
  induction ths generalizing i with
  | nil => simp at hi
  | cons t ts ih =>
    cases i with
    | zero => simp only [List.getElem?_cons_zero, Option.some.injEq] at hi; subst hi; rfl
    | succ i =>
      have ht : holdsW t = false := hothers 0 t (by omega) rfl
      have := ih i (by simpa using hi) (fun j th hj hth => hothers (j + 1) th (by omega) (by simpa using hth))
      cases t <;> simp [holdsW] at ht <;> simp only [pending] <;> exact this

end BW.Model.RW

namespace BW.Model.RW
variable {σ ρ : Type}

theorem get_set_self {α : Type} (l : List α) (i : Nat) (a v : α) (h : l[i]? = some a) : (l.set i v)[i]? = some v := by
  have hlt : i < l.length := by
    cases hh : l[i]? with
    | none => rw [hh] at h; cases h
    | some _ => exact (List.getElem?_eq_some_iff.mp hh).1
  simp [List.getElem?_set, hlt]

theorem get_set_ne {α : Type} (l : List α) (i j : Nat) (v : α) (h : j ≠ i) : (l.set i v)[j]? = l[j]? := by
  simp [List.getElem?_set, Ne.symm h]

/-- Lookup in a list after `set`, by cases. -/
theorem get_set_cases {α : Type} (l : List α) (i j : Nat) (a v x : α) (hi : l[i]? = some a) (h : (l.set i v)[j]? = some x) :
    (j = i ∧ x = v) ∨ (j ≠ i ∧ l[j]? = some x) := by
  by_cases hj : j = i
  · subst hj; rw [get_set_self l j a v hi] at h; injection h with h; exact Or.inl ⟨rfl, h.symm⟩
  · rw [get_set_ne l i j v hj] at h; exact Or.inr ⟨hj, h⟩

theorem inv_start (x0 : σ) (ops : List (Op σ ρ)) : Inv x0 ops (start x0 ops) := by
  have hget : ∀ (i : Nat) (th : Th σ ρ), (start x0 ops).ths[i]? = some th → ∃ o : Op σ ρ, ops[i]? = some o ∧ th = Th.idle o := by
    intro i th h
    simp only [start, List.getElem?_map, Option.map_eq_some_iff] at h
    obtain ⟨o, ho, e⟩ := h
    exact ⟨o, ho, e.symm⟩
  refine ⟨by simp [start], ?_, ?_, ?_, ?_, ?_, ?_⟩
  · intro i o h
    obtain ⟨o', ho', e⟩ := hget i _ h
    injection e with e; subst e
    exact ⟨ho', by simp [start]⟩
  · intro i o h; obtain ⟨o', _, e⟩ := hget i _ h; cases e
  · intro i todo h; obtain ⟨o', _, e⟩ := hget i _ h; cases e
  · intro i todo seen h; obtain ⟨o', _, e⟩ := hget i _ h; cases e
  · intro i r h; obtain ⟨o', _, e⟩ := hget i _ h; cases e
  · show x0 = Sys.abs _
    unfold Sys.abs
    rw [pending_none]
    · rfl
    · intro th hm
      simp only [start, List.mem_map] at hm
      obtain ⟨o, _, e⟩ := hm
      subst e; rfl

end BW.Model.RW

namespace BW.Model.RW
variable {σ ρ : Type}

theorem pending_set_nonwriter (ths : List (Th σ ρ)) (i : Nat) (a v : Th σ ρ) (hi : ths[i]? = some a)
    (ha : holdsW a = false) (hv : holdsW v = false) : pending (ths.set i v) = pending ths := by
  induction ths generalizing i with
  | nil => simp at hi
  | cons t ts ih =>
    cases i with
    | zero =>
      simp only [List.getElem?_cons_zero, Option.some.injEq] at hi; subst hi
      simp only [List.set_cons_zero]
      cases t <;> simp [holdsW] at ha <;> cases v <;> simp [holdsW] at hv <;> rfl
    | succ i =>
      simp only [List.set_cons_succ]
      have := ih i (by simpa using hi)
      cases t <;> simp only [pending] <;> first | rfl | exact this

theorem mem_any_holdsW {ths : List (Th σ ρ)} (h : ths.any holdsW = false) (j : Nat) (th : Th σ ρ) (hj : ths[j]? = some th) :
    holdsW th = false := by
  cases hh : holdsW th with
  | false => rfl
  | true =>
    have : ths.any holdsW = true := List.any_eq_true.mpr ⟨th, List.mem_of_getElem? hj, hh⟩
    rw [h] at this; cases this

theorem mem_any_holdsR {ths : List (Th σ ρ)} (h : ths.any holdsR = false) (j : Nat) (th : Th σ ρ) (hj : ths[j]? = some th) :
    holdsR th = false := by
  cases hh : holdsR th with
  | false => rfl
  | true =>
    have : ths.any holdsR = true := List.any_eq_true.mpr ⟨th, List.mem_of_getElem? hj, hh⟩
    rw [h] at this; cases this

theorem mem_seqStep (ops : List (Op σ ρ)) (acc : σ × List (Nat × List ρ)) (i : Nat) (x : Nat × List ρ) (h : x ∈ acc.2) :
    x ∈ (seqStep ops acc i).2 := by
  unfold seqStep
  cases ops[i]? with
  | none => exact h
  | some o => exact List.mem_append_left _ h

end BW.Model.RW

namespace BW.Model.RW
variable {σ ρ : Type}

/-- A thread that takes a step which neither takes nor gives the lock nor touches the state. -/
theorem inv_invoke {x0 : σ} {ops : List (Op σ ρ)} {s : Sys σ ρ} (hinv : Inv x0 ops s) (i : Nat) (o : Op σ ρ)
    (hi : s.ths[i]? = some (.idle o)) : Inv x0 ops { s with ths := s.ths.set i (.waiting o) } := by
  have hcase := fun j x h => get_set_cases s.ths i j (Th.idle o) (Th.waiting o) x hi h
  refine ⟨by simp [hinv.len], ?_, ?_, ?_, ?_, ?_, ?_⟩
  · intro j o' h
    rcases hcase j _ h with ⟨_, e⟩ | ⟨_, h'⟩
    · cases e
    · exact hinv.idle j o' h'
  · intro j o' h
    rcases hcase j _ h with ⟨e1, e⟩ | ⟨_, h'⟩
    · injection e with e; subst e; subst e1; exact hinv.idle j o' hi
    · exact hinv.waiting j o' h'
  · intro j todo h
    rcases hcase j _ h with ⟨_, e⟩ | ⟨hj, h'⟩
    · cases e
    · obtain ⟨a, b, c⟩ := hinv.writing j todo h'
      refine ⟨a, b, ?_⟩
      intro k th hk hth
      rcases hcase k _ hth with ⟨_, e⟩ | ⟨_, hth'⟩
      · subst e; exact ⟨rfl, rfl⟩
      · exact c k th hk hth'
  · intro j todo seen h
    rcases hcase j _ h with ⟨_, e⟩ | ⟨_, h'⟩
    · cases e
    · exact hinv.reading j todo seen h'
  · intro j r h
    rcases hcase j _ h with ⟨_, e⟩ | ⟨_, h'⟩
    · cases e
    · exact hinv.done j r h'
  · show _ = Sys.abs _
    unfold Sys.abs
    simp only
    rw [pending_set_nonwriter s.ths i _ _ hi rfl rfl]
    exact hinv.abs

end BW.Model.RW

namespace BW.Model.RW
variable {σ ρ : Type}

theorem not_mem_append_single {i j : Nat} {l : List Nat} (h : j ∉ l) (hne : j ≠ i) : j ∉ l ++ [i] := by
  intro hm
  rcases List.mem_append.mp hm with h1 | h1
  · exact h h1
  · simp only [List.mem_singleton] at h1; exact hne h1

/-- A writer gets the lock (nobody holds it). -/
theorem inv_acquireW {x0 : σ} {ops : List (Op σ ρ)} {s : Sys σ ρ} (hinv : Inv x0 ops s) (i : Nat) (ws : List (σ → σ))
    (hi : s.ths[i]? = some (.waiting (.write ws))) (hw : s.writerIn = false) (hr : s.readerIn = false) :
    Inv x0 ops { s with ths := s.ths.set i (.writing ws), order := s.order ++ [i] } := by
  have hcase := fun j x h => get_set_cases s.ths i j (Th.waiting (.write ws)) (Th.writing ws) x hi h
  obtain ⟨hop, hni⟩ := hinv.waiting i _ hi
  have hnoW : pending s.ths = [] := pending_none _ (fun th hm => by
    obtain ⟨j, hj⟩ := List.getElem?_of_mem hm
    exact mem_any_holdsW hw j th hj)
  have hst : (seqRun x0 ops s.order).1 = s.st := by rw [hinv.abs]; unfold Sys.abs; rw [hnoW]; rfl
  have hseq : seqRun x0 ops (s.order ++ [i]) = (ws.foldl (fun x w => w x) s.st, (seqRun x0 ops s.order).2 ++ [(i, [])]) := by
    rw [seqRun_append]; unfold seqStep; simp only [hop, Op.apply, hst]
  refine ⟨by simp [hinv.len], ?_, ?_, ?_, ?_, ?_, ?_⟩
  · intro j o' h
    rcases hcase j _ h with ⟨_, e⟩ | ⟨hj, h'⟩
    · cases e
    · obtain ⟨a, b⟩ := hinv.idle j o' h'
      exact ⟨a, not_mem_append_single b hj⟩
  · intro j o' h
    rcases hcase j _ h with ⟨_, e⟩ | ⟨hj, h'⟩
    · cases e
    · obtain ⟨a, b⟩ := hinv.waiting j o' h'
      exact ⟨a, not_mem_append_single b hj⟩
  · intro j todo h
    rcases hcase j _ h with ⟨e1, e⟩ | ⟨hj, h'⟩
    · injection e with e; subst e; subst e1
      refine ⟨⟨[], by simpa using hop⟩, ?_, ?_⟩
      · show (j, []) ∈ (seqRun x0 ops (s.order ++ [j])).2
        rw [hseq]; simp
      · intro k th hk hth
        rcases hcase k _ hth with ⟨e2, _⟩ | ⟨_, hth'⟩
        · exact absurd e2 hk
        · exact ⟨mem_any_holdsW hw k th hth', mem_any_holdsR hr k th hth'⟩
    · have := mem_any_holdsW hw j _ h'
      simp [holdsW] at this
  · intro j todo seen h
    rcases hcase j _ h with ⟨_, e⟩ | ⟨_, h'⟩
    · cases e
    · have := mem_any_holdsR hr j _ h'
      simp [holdsR] at this
  · intro j r h
    rcases hcase j _ h with ⟨_, e⟩ | ⟨_, h'⟩
    · cases e
    · show (j, r) ∈ (seqRun x0 ops (s.order ++ [i])).2
      rw [hseq]
      exact List.mem_append_left _ (hinv.done j r h')
  · show (seqRun x0 ops (s.order ++ [i])).1 = Sys.abs _
    rw [hseq]
    unfold Sys.abs
    simp only
    rw [pending_at (s.ths.set i (.writing ws)) i ws (get_set_self _ _ _ _ hi)]
    intro j th hj hth
    rw [get_set_ne _ _ _ _ hj] at hth
    exact mem_any_holdsW hw j th hth

/-- A reader gets the lock (no writer holds it). -/
theorem inv_acquireR {x0 : σ} {ops : List (Op σ ρ)} {s : Sys σ ρ} (hinv : Inv x0 ops s) (i : Nat) (rs : List (σ → ρ))
    (hi : s.ths[i]? = some (.waiting (.read rs))) (hw : s.writerIn = false) :
    Inv x0 ops { s with ths := s.ths.set i (.reading rs []), order := s.order ++ [i] } := by
  have hcase := fun j x h => get_set_cases s.ths i j (Th.waiting (.read rs)) (Th.reading rs []) x hi h
  obtain ⟨hop, hni⟩ := hinv.waiting i _ hi
  have hnoW : pending s.ths = [] := pending_none _ (fun th hm => by
    obtain ⟨j, hj⟩ := List.getElem?_of_mem hm
    exact mem_any_holdsW hw j th hj)
  have hst : (seqRun x0 ops s.order).1 = s.st := by rw [hinv.abs]; unfold Sys.abs; rw [hnoW]; rfl
  have hseq : seqRun x0 ops (s.order ++ [i]) = (s.st, (seqRun x0 ops s.order).2 ++ [(i, rs.map fun r => r s.st)]) := by
    rw [seqRun_append]; unfold seqStep; simp only [hop, Op.apply, hst]
  refine ⟨by simp [hinv.len], ?_, ?_, ?_, ?_, ?_, ?_⟩
  · intro j o' h
    rcases hcase j _ h with ⟨_, e⟩ | ⟨hj, h'⟩
    · cases e
    · obtain ⟨a, b⟩ := hinv.idle j o' h'
      exact ⟨a, not_mem_append_single b hj⟩
  · intro j o' h
    rcases hcase j _ h with ⟨_, e⟩ | ⟨hj, h'⟩
    · cases e
    · obtain ⟨a, b⟩ := hinv.waiting j o' h'
      exact ⟨a, not_mem_append_single b hj⟩
  · intro j todo h
    rcases hcase j _ h with ⟨_, e⟩ | ⟨hj, h'⟩
    · cases e
    · have := mem_any_holdsW hw j _ h'
      simp [holdsW] at this
  · intro j todo seen h
    rcases hcase j _ h with ⟨e1, e⟩ | ⟨_, h'⟩
    · injection e with e2 e3; subst e2; subst e3; subst e1
      refine ⟨[], by simpa using hop, rfl, ?_⟩
      show (j, _) ∈ (seqRun x0 ops (s.order ++ [j])).2
      rw [hseq]; simp
    · obtain ⟨pre, a, b, c⟩ := hinv.reading j todo seen h'
      refine ⟨pre, a, b, ?_⟩
      show (j, _) ∈ (seqRun x0 ops (s.order ++ [i])).2
      rw [hseq]; exact List.mem_append_left _ c
  · intro j r h
    rcases hcase j _ h with ⟨_, e⟩ | ⟨_, h'⟩
    · cases e
    · show (j, r) ∈ (seqRun x0 ops (s.order ++ [i])).2
      rw [hseq]
      exact List.mem_append_left _ (hinv.done j r h')
  · show (seqRun x0 ops (s.order ++ [i])).1 = Sys.abs _
    rw [hseq]
    unfold Sys.abs
    simp only
    rw [pending_set_nonwriter s.ths i _ _ hi rfl rfl, hnoW]
    rfl

end BW.Model.RW

namespace BW.Model.RW
variable {σ ρ : Type}

/-- The writer applies its next micro-write. -/
theorem inv_write {x0 : σ} {ops : List (Op σ ρ)} {s : Sys σ ρ} (hinv : Inv x0 ops s) (i : Nat) (w : σ → σ) (ws : List (σ → σ))
    (hi : s.ths[i]? = some (.writing (w :: ws))) :
    Inv x0 ops { s with st := w s.st, ths := s.ths.set i (.writing ws) } := by
  have hcase := fun j x h => get_set_cases s.ths i j (Th.writing (w :: ws)) (Th.writing ws) x hi h
  obtain ⟨⟨pre, hop⟩, hres, hexcl⟩ := hinv.writing i _ hi
  refine ⟨by simp [hinv.len], ?_, ?_, ?_, ?_, ?_, ?_⟩
  · intro j o' h
    rcases hcase j _ h with ⟨_, e⟩ | ⟨_, h'⟩
    · cases e
    · exact hinv.idle j o' h'
  · intro j o' h
    rcases hcase j _ h with ⟨_, e⟩ | ⟨_, h'⟩
    · cases e
    · exact hinv.waiting j o' h'
  · intro j todo h
    rcases hcase j _ h with ⟨e1, e⟩ | ⟨hj, h'⟩
    · injection e with e; subst e; subst e1
      refine ⟨⟨pre ++ [w], by simpa using hop⟩, hres, ?_⟩
      intro k th hk hth
      rcases hcase k _ hth with ⟨e2, _⟩ | ⟨_, hth'⟩
      · exact absurd e2 hk
      · exact hexcl k th hk hth'
    · have := (hexcl j _ hj h').1
      simp [holdsW] at this
  · intro j todo seen h
    rcases hcase j _ h with ⟨_, e⟩ | ⟨hj, h'⟩
    · cases e
    · have := (hexcl j _ hj h').2
      simp [holdsR] at this
  · intro j r h
    rcases hcase j _ h with ⟨_, e⟩ | ⟨_, h'⟩
    · cases e
    · exact hinv.done j r h'
  · show _ = Sys.abs _
    rw [hinv.abs]
    unfold Sys.abs
    simp only
    rw [pending_at s.ths i (w :: ws) hi (fun j th hj hth => (hexcl j th hj hth).1)]
    rw [pending_at (s.ths.set i (.writing ws)) i ws (get_set_self _ _ _ _ hi)]
    · rfl
    · intro j th hj hth
      rw [get_set_ne _ _ _ _ hj] at hth
      exact (hexcl j th hj hth).1

/-- The writer returns. -/
theorem inv_releaseW {x0 : σ} {ops : List (Op σ ρ)} {s : Sys σ ρ} (hinv : Inv x0 ops s) (i : Nat)
    (hi : s.ths[i]? = some (.writing [])) : Inv x0 ops { s with ths := s.ths.set i (.done []) } := by
  have hcase := fun j x h => get_set_cases s.ths i j (Th.writing []) (Th.done []) x hi h
  obtain ⟨_, hres, hexcl⟩ := hinv.writing i _ hi
  refine ⟨by simp [hinv.len], ?_, ?_, ?_, ?_, ?_, ?_⟩
  · intro j o' h
    rcases hcase j _ h with ⟨_, e⟩ | ⟨_, h'⟩
    · cases e
    · exact hinv.idle j o' h'
  · intro j o' h
    rcases hcase j _ h with ⟨_, e⟩ | ⟨_, h'⟩
    · cases e
    · exact hinv.waiting j o' h'
  · intro j todo h
    rcases hcase j _ h with ⟨_, e⟩ | ⟨hj, h'⟩
    · cases e
    · have := (hexcl j _ hj h').1
      simp [holdsW] at this
  · intro j todo seen h
    rcases hcase j _ h with ⟨_, e⟩ | ⟨hj, h'⟩
    · cases e
    · have := (hexcl j _ hj h').2
      simp [holdsR] at this
  · intro j r h
    rcases hcase j _ h with ⟨e1, e⟩ | ⟨_, h'⟩
    · injection e with e; subst e; subst e1; exact hres
    · exact hinv.done j r h'
  · show _ = Sys.abs _
    rw [hinv.abs]
    unfold Sys.abs
    simp only
    rw [pending_at s.ths i [] hi (fun j th hj hth => (hexcl j th hj hth).1)]
    rw [pending_none]
    intro th hm
    obtain ⟨j, hj⟩ := List.getElem?_of_mem hm
    rcases hcase j _ hj with ⟨_, e⟩ | ⟨hne, h'⟩
    · subst e; rfl
    · exact (hexcl j th hne h').1

theorem no_writer_of_reader {x0 : σ} {ops : List (Op σ ρ)} {s : Sys σ ρ} (hinv : Inv x0 ops s) (i : Nat)
    (todo : List (σ → ρ)) (seen : List ρ) (hi : s.ths[i]? = some (.reading todo seen)) :
    ∀ (j : Nat) (th : Th σ ρ), s.ths[j]? = some th → holdsW th = false := by
  intro j th hj
  cases th with
  | writing wt =>
    exfalso
    have hne : i ≠ j := by intro e; subst e; rw [hi] at hj; cases hj
    have := ((hinv.writing j wt hj).2.2 i _ hne hi).2
    simp [holdsR] at this
  | _ => rfl

/-- A reader makes its next micro-read. -/
theorem inv_read {x0 : σ} {ops : List (Op σ ρ)} {s : Sys σ ρ} (hinv : Inv x0 ops s) (i : Nat) (r : σ → ρ) (rs : List (σ → ρ))
    (seen : List ρ) (hi : s.ths[i]? = some (.reading (r :: rs) seen)) :
    Inv x0 ops { s with ths := s.ths.set i (.reading rs (seen ++ [r s.st])) } := by
  have hcase := fun j x h => get_set_cases s.ths i j (Th.reading (r :: rs) seen) (Th.reading rs (seen ++ [r s.st])) x hi h
  obtain ⟨pre, hop, hseen, hres⟩ := hinv.reading i _ _ hi
  refine ⟨by simp [hinv.len], ?_, ?_, ?_, ?_, ?_, ?_⟩
  · intro j o' h
    rcases hcase j _ h with ⟨_, e⟩ | ⟨_, h'⟩
    · cases e
    · exact hinv.idle j o' h'
  · intro j o' h
    rcases hcase j _ h with ⟨_, e⟩ | ⟨_, h'⟩
    · cases e
    · exact hinv.waiting j o' h'
  · intro j todo h
    rcases hcase j _ h with ⟨_, e⟩ | ⟨_, h'⟩
    · cases e
    · have := no_writer_of_reader hinv i _ _ hi j _ h'
      simp [holdsW] at this
  · intro j todo seen' h
    rcases hcase j _ h with ⟨e1, e⟩ | ⟨_, h'⟩
    · injection e with e2 e3; subst e2; subst e3; subst e1
      refine ⟨pre ++ [r], by simpa using hop, by simp [hseen], ?_⟩
      simpa using hres
    · exact hinv.reading j todo seen' h'
  · intro j r' h
    rcases hcase j _ h with ⟨_, e⟩ | ⟨_, h'⟩
    · cases e
    · exact hinv.done j r' h'
  · show _ = Sys.abs _
    unfold Sys.abs
    simp only
    rw [pending_set_nonwriter s.ths i _ _ hi rfl rfl]
    exact hinv.abs

/-- A reader returns. -/
theorem inv_releaseR {x0 : σ} {ops : List (Op σ ρ)} {s : Sys σ ρ} (hinv : Inv x0 ops s) (i : Nat) (seen : List ρ)
    (hi : s.ths[i]? = some (.reading [] seen)) : Inv x0 ops { s with ths := s.ths.set i (.done seen) } := by
  have hcase := fun j x h => get_set_cases s.ths i j (Th.reading [] seen) (Th.done seen) x hi h
  obtain ⟨pre, hop, hseen, hres⟩ := hinv.reading i _ _ hi
  refine ⟨by simp [hinv.len], ?_, ?_, ?_, ?_, ?_, ?_⟩
  · intro j o' h
    rcases hcase j _ h with ⟨_, e⟩ | ⟨_, h'⟩
    · cases e
    · exact hinv.idle j o' h'
  · intro j o' h
    rcases hcase j _ h with ⟨_, e⟩ | ⟨_, h'⟩
    · cases e
    · exact hinv.waiting j o' h'
  · intro j todo h
    rcases hcase j _ h with ⟨_, e⟩ | ⟨_, h'⟩
    · cases e
    · have := no_writer_of_reader hinv i _ _ hi j _ h'
      simp [holdsW] at this
  · intro j todo seen' h
    rcases hcase j _ h with ⟨_, e⟩ | ⟨_, h'⟩
    · cases e
    · exact hinv.reading j todo seen' h'
  · intro j r' h
    rcases hcase j _ h with ⟨e1, e⟩ | ⟨_, h'⟩
    · injection e with e; subst e; subst e1
      rw [hseen]
      simpa using hres
    · exact hinv.done j r' h'
  · show _ = Sys.abs _
    unfold Sys.abs
    simp only
    rw [pending_set_nonwriter s.ths i _ _ hi rfl rfl]
    exact hinv.abs

end BW.Model.RW

namespace BW.Model.RW
variable {σ ρ : Type}

theorem inv_step {x0 : σ} {ops : List (Op σ ρ)} {s s' : Sys σ ρ} (hinv : Inv x0 ops s) (i : Nat)
    (h : s.step i = some s') : Inv x0 ops s' := by
  unfold Sys.step at h
  cases hi : s.ths[i]? with
  | none => simp [hi] at h
  | some th =>
    simp only [hi] at h
    cases th with
    | idle o => injection h with h; subst h; exact inv_invoke hinv i o hi
    | waiting o =>
      cases o with
      | write ws =>
        simp only at h
        by_cases hc : (s.writerIn || s.readerIn) = true
        · simp [hc] at h
        · have hc' : (s.writerIn || s.readerIn) = false := by simpa using hc
          simp only [hc', Bool.false_eq_true, if_false, Option.some.injEq] at h
          subst h
          simp only [Bool.or_eq_false_iff] at hc'
          exact inv_acquireW hinv i ws hi hc'.1 hc'.2
      | read rs =>
        simp only at h
        by_cases hc : s.writerIn = true
        · simp [hc] at h
        · have hc' : s.writerIn = false := by simpa using hc
          simp only [hc', Bool.false_eq_true, if_false, Option.some.injEq] at h
          subst h
          exact inv_acquireR hinv i rs hi hc'
    | writing todo =>
      cases todo with
      | nil => injection h with h; subst h; exact inv_releaseW hinv i hi
      | cons w ws => injection h with h; subst h; exact inv_write hinv i w ws hi
    | reading todo seen =>
      cases todo with
      | nil => injection h with h; subst h; exact inv_releaseR hinv i seen hi
      | cons r rs => injection h with h; subst h; exact inv_read hinv i r rs seen hi
    | done r => cases h

theorem inv_run {x0 : σ} {ops : List (Op σ ρ)} (sched : List Nat) : ∀ {s : Sys σ ρ}, Inv x0 ops s → Inv x0 ops (s.run sched) := by
  induction sched with
  | nil => intro s h; exact h
  | cons i is ih =>
    intro s h
    simp only [Sys.run]
    cases hs : s.step i with
    | none => exact ih h
    | some s' => exact ih (inv_step h i hs)

/-- The order in which the lock was obtained only grows. -/
theorem order_grows (sched : List Nat) : ∀ (s : Sys σ ρ), ∃ ext, (s.run sched).order = s.order ++ ext := by
  induction sched with
  | nil => intro s; exact ⟨[], by simp [Sys.run]⟩
  | cons i is ih =>
    intro s
    simp only [Sys.run]
    cases hs : s.step i with
    | none => exact ih s
    | some s' =>
      obtain ⟨ext, he⟩ := ih s'
      have : ∃ e1, s'.order = s.order ++ e1 := by
        unfold Sys.step at hs
        cases hi : s.ths[i]? with
        | none => simp [hi] at hs
        | some th =>
          simp only [hi] at hs
          cases th with
          | idle o => injection hs with hs; subst hs; exact ⟨[], by simp⟩
          | waiting o =>
            cases o with
            | write ws =>
              simp only at hs
              split at hs
              · cases hs
              · injection hs with hs; subst hs; exact ⟨[i], rfl⟩
            | read rs =>
              simp only at hs
              split at hs
              · cases hs
              · injection hs with hs; subst hs; exact ⟨[i], rfl⟩
          | writing todo => cases todo <;> (injection hs with hs; subst hs; exact ⟨[], by simp⟩)
          | reading todo seen => cases todo <;> (injection hs with hs; subst hs; exact ⟨[], by simp⟩)
          | done r => cases hs
      obtain ⟨e1, h1⟩ := this
      exact ⟨e1 ++ ext, by rw [he, h1, List.append_assoc]⟩

theorem mem_results_order (ops : List (Op σ ρ)) (order : List Nat) :
    ∀ (acc : σ × List (Nat × List ρ)) (base : List Nat), (∀ x ∈ acc.2, x.1 ∈ base) →
      ∀ x ∈ (order.foldl (seqStep ops) acc).2, x.1 ∈ base ++ order := by
  induction order with
  | nil => intro acc base h x hx; simpa using h x hx
  | cons a order ih =>
    intro acc base h x hx
    simp only [List.foldl_cons] at hx
    have := ih (seqStep ops acc a) (base ++ [a]) (by
      intro y hy
      unfold seqStep at hy
      cases ho : ops[a]? with
      | none => rw [ho] at hy; exact List.mem_append_left _ (h y hy)
      | some o' =>
        rw [ho] at hy
        rcases List.mem_append.mp hy with h1 | h1
        · exact List.mem_append_left _ (h y h1)
        · simp only [List.mem_singleton] at h1; subst h1; simp) x hx
    simpa using this

/-- **Linearizability under the readers-writer lock.** For every number of concurrent calls, every batch
    size, every interleaving of their small steps that respects the lock: each call that has returned
    returned what it returns when the calls are executed one at a time, whole, in the order in which they
    obtained the lock; the state the next lock holder will see is the state of that sequential execution;
    and that order respects real time (a call that returned before another was invoked comes first). -/
theorem linearizable (x0 : σ) (ops : List (Op σ ρ)) (sched : List Nat) :
    let s := (start x0 ops).run sched
    (∀ (i : Nat) r, s.ths[i]? = some (.done r) → (i, r) ∈ (seqRun x0 ops s.order).2) ∧
    (seqRun x0 ops s.order).1 = s.abs :=
  let h := inv_run sched (inv_start x0 ops)
  ⟨h.done, h.abs⟩

/-- Real time: if, at some point of the execution, call `i` has returned and call `j` has not been invoked,
    then in the final order `i` comes before `j` (when `j` gets the lock at all). -/
theorem real_time (x0 : σ) (ops : List (Op σ ρ)) (pre post : List Nat) (i j : Nat) (r : List ρ) (o : Op σ ρ)
    (hi : ((start x0 ops).run pre).ths[i]? = some (.done r)) (hj : ((start x0 ops).run pre).ths[j]? = some (.idle o)) :
    ∃ a b, (((start x0 ops).run pre).run post).order = a ++ b ∧ i ∈ a ∧ j ∉ a := by
  have hinv := inv_run pre (inv_start x0 ops)
  obtain ⟨ext, he⟩ := order_grows post ((start x0 ops).run pre)
  refine ⟨_, ext, he, ?_, (hinv.idle j o hj).2⟩
  have hm := hinv.done i r hi
  exact mem_results_order ops _ (x0, []) [] (by intro x hx; cases hx) _ hm

end BW.Model.RW
