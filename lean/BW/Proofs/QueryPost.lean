/-
Facts about the stages after the graph pattern (helper lemmas for C11, C12, C13).
-/
import BW.Model.QueryPost

set_option linter.unusedSimpArgs false
set_option linter.unusedVariables false

namespace BW.Proofs.QueryPost
open BW.Model

/-- ORDER BY returns a permutation of the rows. -/
theorem sortRows_perm (S : Strs) (cfg : List (Bytes × Bool)) (rows : List Row) : (sortRows S cfg rows).Perm rows := by
  unfold sortRows
  split
  · exact List.Perm.refl _
  · exact List.mergeSort_perm _ _

/-- int64 and float64 keys compare numerically, time anchors as instants, and values of different
    kinds do not compare. -/
theorem compare_int (S : Strs) (a b : Int) : compareCells S (.lit (.int a)) (.lit (.int b)) = some (compare a b) := rfl
theorem compare_time (S : Strs) (a b : Time) : compareCells S (.time a) (.time b) = some (compare a.nanos b.nanos) := rfl
theorem compare_text (S : Strs) (a b : Bytes) : compareCells S (.lit (.text a)) (.lit (.text b)) = some (bytesCmp a b) := rfl
theorem compare_kinds_differ_int_text (S : Strs) (a : Int) (b : Bytes) : compareCells S (.lit (.int a)) (.lit (.text b)) = none := rfl
theorem compare_kinds_differ_node_lit (S : Strs) (n : Node) (l : Lit) : compareCells S (.node n) (.lit l) = none := rfl
theorem compare_kinds_differ_time_lit (S : Strs) (t : Time) (l : Lit) : compareCells S (.time t) (.lit l) = none := rfl

/-- Sorting by a single int64-valued key: projected onto that key the result is non-decreasing
    (ascending) — stated through a total integer projection so that it holds for every table. -/
def intKey (k : Bytes) (r : Row) : Int :=
  match r.get k with
  | some (.lit (.int i)) => i
  | _ => 0

theorem sorted_by_projection (k : Bytes) (rows : List Row) :
    List.Pairwise (fun a b => intKey k a ≤ intKey k b) (rows.mergeSort fun a b => decide (intKey k a ≤ intKey k b)) := by
  have := List.pairwise_mergeSort (le := fun a b : Row => decide (intKey k a ≤ intKey k b))
    (by intro a b c h1 h2; simp only [decide_eq_true_eq] at *; omega)
    (by intro a b; simp only [Bool.or_eq_true, decide_eq_true_eq]; omega) rows
  simpa using this

/-- On rows whose key cell is an int64 literal, the model's comparator is exactly that integer order. -/
theorem rowLe_int_key (S : Strs) (k : Bytes) (a b : Row) (x y : Int)
    (ha : a.get k = some (.lit (.int x))) (hb : b.get k = some (.lit (.int y))) :
    rowLe S [(k, false)] a b = decide (intKey k a ≤ intKey k b) := by
  simp only [rowLe, compareRows, keyOrd, ha, hb, compareCells, Option.getD_some, intKey]
  by_cases h1 : x < y
  · have : compare x y = .lt := by simp [compare, compareOfLessAndEq, h1]
    have h2 : x ≤ y := by omega
    simp [this, h2]
  · by_cases h2 : x = y
    · subst h2
      have : compare x x = .eq := by simp [compare, compareOfLessAndEq]
      simp [this]
    · have : compare x y = .gt := by simp [compare, compareOfLessAndEq, h1, h2]
      have h3 : ¬ x ≤ y := by omega
      simp [this, h3]

/-! ### HAVING -/

/-- The connectives have their truth-functional meaning (with the errors of their operands). -/
theorem evalH_not (S : Strs) (r : Row) (e : HExpr) (b : Bool) (h : evalH S r e = .ok b) :
    evalH S r (.not e) = .ok (!b) := by
  simp [evalH, h, Except.map]

theorem evalH_and (S : Strs) (r : Row) (e₁ e₂ : HExpr) (a b : Bool) (h₁ : evalH S r e₁ = .ok a) (h₂ : evalH S r e₂ = .ok b) :
    evalH S r (.and e₁ e₂) = .ok (a && b) := by
  cases a <;> simp [evalH, h₁, h₂, bind, Except.bind, pure, Except.pure]

theorem evalH_or (S : Strs) (r : Row) (e₁ e₂ : HExpr) (a b : Bool) (h₁ : evalH S r e₁ = .ok a) (h₂ : evalH S r e₂ = .ok b) :
    evalH S r (.or e₁ e₂) = .ok (a || b) := by
  cases a <;> simp [evalH, h₁, h₂, bind, Except.bind, pure, Except.pure]

/-- The HAVING stage keeps exactly the rows for which the expression is true, unchanged, in order. -/
theorem havingFilter_spec (S : Strs) (e : HExpr) (rows : List Row) (f : Row → Bool)
    (hf : ∀ r ∈ rows, evalH S r e = .ok (f r)) : havingFilter S e rows = .ok (rows.filter f) := by
  induction rows with
  | nil => rfl
  | cons x xs ih =>
    have hx := hf x (by simp)
    have ih' := ih (fun r hr => hf r (List.mem_cons_of_mem _ hr))
    simp only [havingFilter, hx, ih', List.filter_cons]

/-- A comparison of a value with a constant of another kind never holds. -/
theorem cmpLit_other_kind (S : Strs) (r : Row) (o : HOp) (l : Bytes) (n : Node) (c : Lit)
    (h : r.get l = some (.node n)) : evalH S r (.cmpLit o l (some c)) = .ok false := by
  simp [evalH, h]

theorem cmpLit_int_vs_text (S : Strs) (r : Row) (o : HOp) (l : Bytes) (i : Int) (t : Bytes)
    (h : r.get l = some (.lit (.int i))) : evalH S r (.cmpLit o l (some (.text t))) = .ok false := by
  simp [evalH, h, compareCells, comparableCell, bind, Except.bind]

/-- Numbers compare numerically. -/
theorem cmpLit_int (S : Strs) (r : Row) (l : Bytes) (i j : Int) (h : r.get l = some (.lit (.int i))) :
    evalH S r (.cmpLit .lt l (some (.int j))) = .ok (decide (i < j)) := by
  simp only [evalH, h, compareCells, comparableCell, bind, Except.bind, applyOp]
  by_cases h1 : i < j
  · have : compare i j = .lt := by simp [compare, compareOfLessAndEq, h1]
    simp [this, h1]
  · by_cases h2 : i = j
    · subst h2; simp [compare, compareOfLessAndEq]
    · have : compare i j = .gt := by simp [compare, compareOfLessAndEq, h1, h2]
      simp [this, h1]

/-! ### GROUP BY -/

theorem mem_gather_ids (S : Strs) (keys : List Bytes) (ids : List (List Bytes)) (acc : List (List Bytes)) (x : List Bytes) :
    x ∈ ids.foldl (fun acc i => if acc.contains i then acc else acc ++ [i]) acc ↔ x ∈ acc ∨ x ∈ ids := by
  induction ids generalizing acc with
  | nil => simp
  | cons i is ih =>
    simp only [List.foldl_cons]
    rw [ih]
    by_cases h : acc.contains i = true
    · simp only [h, if_true, List.mem_cons]
      have hi : i ∈ acc := by simpa using h
      constructor
      · intro h1
        cases h1 with
        | inl h1 => exact Or.inl h1
        | inr h1 => exact Or.inr (Or.inr h1)
      · intro h1
        cases h1 with
        | inl h1 => exact Or.inl h1
        | inr h1 =>
          cases h1 with
          | inl h1 => subst h1; exact Or.inl hi
          | inr h1 => exact Or.inr h1
    · simp only [h, List.mem_append, List.mem_cons, List.not_mem_nil, or_false, Bool.false_eq_true, if_false]
      constructor
      · intro h1
        cases h1 with
        | inl h1 =>
          cases h1 with
          | inl h1 => exact Or.inl h1
          | inr h1 => exact Or.inr (Or.inl h1)
        | inr h1 => exact Or.inr (Or.inr h1)
      · intro h1
        cases h1 with
        | inl h1 => exact Or.inl (Or.inl h1)
        | inr h1 =>
          cases h1 with
          | inl h1 => exact Or.inl (Or.inr h1)
          | inr h1 => exact Or.inr h1

theorem nodup_gather_ids (ids : List (List Bytes)) (acc : List (List Bytes)) (h : acc.Nodup) :
    (ids.foldl (fun acc i => if acc.contains i then acc else acc ++ [i]) acc).Nodup := by
  induction ids generalizing acc with
  | nil => exact h
  | cons i is ih =>
    simp only [List.foldl_cons]
    apply ih
    by_cases hc : acc.contains i = true
    · simp only [hc, if_true]; exact h
    · simp only [hc]
      have : i ∉ acc := by simpa using hc
      exact List.nodup_append.mpr ⟨h, by simp, by intro a ha b hb; simp at hb; subst hb; intro e; subst e; exact this ha⟩

/-- Every row lands in exactly the group of its own id; groups are non-empty and their ids distinct:
    one result row per distinct combination of grouping values. -/
theorem gather_spec (S : Strs) (keys : List Bytes) (rows : List Row) :
    (∀ g ∈ gather S keys rows, g ≠ [] ∧ ∃ i, ∀ r ∈ g, r ∈ rows ∧ groupId S keys r = i) ∧
    (∀ r ∈ rows, ∃ g ∈ gather S keys rows, r ∈ g) := by
  unfold gather
  simp only
  constructor
  · intro g hg
    obtain ⟨i, hi, rfl⟩ := List.mem_map.mp hg
    have hi' := (mem_gather_ids S keys (rows.map (groupId S keys)) [] i).mp hi
    simp only [List.not_mem_nil, false_or, List.mem_map] at hi'
    obtain ⟨r0, hr0, hr0i⟩ := hi'
    constructor
    · intro he
      have : r0 ∈ rows.filter (fun r => groupId S keys r == i) := List.mem_filter.mpr ⟨hr0, by simp [hr0i]⟩
      rw [he] at this
      cases this
    · exact ⟨i, fun r hr => ⟨(List.mem_filter.mp hr).1, by simpa using (List.mem_filter.mp hr).2⟩⟩
  · intro r hr
    refine ⟨rows.filter (fun x => groupId S keys x == groupId S keys r), ?_, List.mem_filter.mpr ⟨hr, by simp⟩⟩
    apply List.mem_map.mpr
    refine ⟨groupId S keys r, ?_, rfl⟩
    apply (mem_gather_ids S keys _ [] _).mpr
    exact Or.inr (List.mem_map.mpr ⟨r, hr, rfl⟩)

theorem gather_one_per_group (S : Strs) (keys : List Bytes) (rows : List Row) :
    ((rows.map (groupId S keys)).foldl (fun acc i => if acc.contains i then acc else acc ++ [i]) []).Nodup :=
  nodup_gather_ids _ [] List.nodup_nil

/-- count is the number of solutions in the group. -/
theorem count_is_length (S : Strs) (fa : Nat → Nat → Nat) (first : Row) (b a : Bytes) (grp : List Row) :
    aggregate S fa first { binding := b, alias := a, op := .count, distinct := false } grp = .ok (.lit (.int grp.length)) := by
  simp [aggregate, aggregateWith]

/-- No solutions, no groups: the result is empty, not a failure. -/
theorem group_empty (S : Strs) (fa : Nat → Nat → Nat) (st : Stmt) : groupReduce S fa st [] = .ok [] := by
  simp [groupReduce, groupReduceWith]

/-! ### int64 sums -/

theorem foldl_add (xs : List Int) (acc : Int) : xs.foldl (· + ·) acc = acc + xs.foldl (· + ·) 0 := by
  induction xs generalizing acc with
  | nil => simp
  | cons x xs ih => simp only [List.foldl_cons]; rw [ih (acc + x), ih (0 + x)]; omega

/-- The engine's int64 sum: whenever it answers, the answer is the arithmetic sum. -/
theorem sumEngine_ok (xs : List Int) (v : Int) (h : sumEngine xs = .ok v) : v = xs.foldl (· + ·) 0 := by
  simp only [sumEngine] at h
  split at h
  · cases h; rfl
  · cases h

/-- … and it answers exactly when the arithmetic sum is an int64 — no condition on the running sums. -/
theorem sumEngine_defined (xs : List Int) (h : inInt64 (xs.foldl (· + ·) 0) = true) :
    sumEngine xs = .ok (xs.foldl (· + ·) 0) := by
  simp only [sumEngine, h, if_true]

theorem total_perm (xs ys : List Int) (h : xs.Perm ys) : xs.foldl (· + ·) 0 = ys.foldl (· + ·) 0 := by
  induction h with
  | nil => rfl
  | cons x _ ih => simp only [List.foldl_cons]; rw [foldl_add _ (0 + x), foldl_add _ (0 + x), ih]
  | swap x y l => simp only [List.foldl_cons]; rw [foldl_add _ (0 + y + x), foldl_add _ (0 + x + y)]; omega
  | trans _ _ ih1 ih2 => rw [ih1, ih2]

/-- The outcome — the sum or the overflow error — does not depend on the order of the values. -/
theorem sumEngine_perm (xs ys : List Int) (h : xs.Perm ys) : sumEngine xs = sumEngine ys := by
  simp only [sumEngine, total_perm xs ys h]

theorem pos_neg_total (xs : List Int) :
    (xs.filter (· > 0)).foldl (· + ·) 0 + (xs.filter (· < 0)).foldl (· + ·) 0 = xs.foldl (· + ·) 0 := by
  induction xs with
  | nil => rfl
  | cons x xs ih =>
    rw [List.foldl_cons, foldl_add xs (0 + x)]
    by_cases h1 : x > 0
    · have h2 : ¬ x < 0 := by omega
      simp only [List.filter_cons, h1, h2, decide_true, decide_false, if_true, List.foldl_cons, Bool.false_eq_true, if_false]
      rw [foldl_add _ (0 + x)]; omega
    · by_cases h2 : x < 0
      · simp only [List.filter_cons, h1, h2, decide_true, decide_false, if_true, List.foldl_cons, Bool.false_eq_true, if_false]
        rw [foldl_add _ (0 + x)]; omega
      · simp only [List.filter_cons, h1, h2, decide_false, Bool.false_eq_true, if_false]
        omega

/-- The reference's sum (positive and negative values apart) is the engine's. -/
theorem sumExact_eq_engine (xs : List Int) : sumExact xs = sumEngine xs := by
  simp only [sumExact, sumEngine, pos_neg_total]

end BW.Proofs.QueryPost
