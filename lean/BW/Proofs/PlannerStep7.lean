/-
Towards C03: clauses that bind nothing (existence tests).
-/
import BW.Proofs.PlannerStep6b
set_option linter.unusedSimpArgs false
open BW.Model BW.Spec BW.Proofs.ClauseOrder BW.Proofs.Store BW.Proofs.Lookup

namespace BW.Proofs.Planner

variable {gs : List QGraph}

/-- A probe (the clause with a synthetic alias) finds something iff the clause has a match. -/
theorem probe_plain {F : Facts} (hF : Facts.WF F = true) (hg : GraphsOK F gs) (U : Universe gs)
    {c : Clause} {lo : QOpts} (hcin : ClauseIn U c) (hfil : lo.filter = none) (hex : c.extractsNothing = true)
    (rows : List Row) (hfe : simpleFetch F gs { c with sAlias := existsAlias } lo 0 = .ok rows) :
    rows.isEmpty = ((gs.flatMap scanOf).filterMap (matchClause c (fetchWindow lo c))).isEmpty := by
  have hid'' : IdAliasPlain { c with sAlias := existsAlias } := Or.inl (names_nil hex).2.2.2.2.2.2.2.2.2.2.2.2.1
  have hcin'' : ClauseIn U { c with sAlias := existsAlias } := hcin
  obtain ⟨hap, hapA⟩ := clauseIn_apart U _ hcin''
  obtain ⟨rows', hrows, hset⟩ := simpleFetch_spec hF gs hg { c with sAlias := existsAlias } hid'' lo hfil hap hapA
  rw [hfe] at hrows; injection hrows with hrows; subst hrows
  have hwin'' : fetchWindow lo { c with sAlias := existsAlias } = fetchWindow lo c := rfl
  rw [hwin''] at hset
  have htight : Tight c (fetchWindow lo c) := tight_clauseWindow _ _ c []
  rw [setEq_isEmpty hset]
  have hex'' : ({ c with sAlias := existsAlias } : Clause).extractsNothing = false := by
    simp [Clause.extractsNothing, existsAlias]
  rw [specRows_all hex'']
  rw [Bool.eq_iff_iff, List.isEmpty_iff, List.isEmpty_iff, List.filterMap_eq_nil_iff, List.filterMap_eq_nil_iff]
  constructor
  · intro h t ht
    cases hmc : matchClause c _ t with
    | none => rfl
    | some m =>
      exfalso
      obtain ⟨m2, hm2⟩ := (probe_clause_match hex _ htight t).mpr ⟨m, hmc⟩
      rw [h t ht] at hm2; cases hm2
  · intro h t ht
    cases hmc : matchClause { c with sAlias := existsAlias } _ t with
    | none => rfl
    | some m =>
      exfalso
      obtain ⟨m2, hm2⟩ := (probe_clause_match hex _ htight t).mp ⟨m, hmc⟩
      rw [h t ht] at hm2; cases hm2

/-- The reference's join with a clause that extracts nothing and has no bound aliases: the rows are kept
    iff the clause has a match (always, when OPTIONAL). -/
theorem join_nothing (scan : List Triple) (glo ghi : Option Int) (c : Clause) (hex : c.extractsNothing = true)
    (hb : c.bindings = []) (hal : c.pLowerAlias = [] ∧ c.pUpperAlias = []) (rows : List Row) :
    (((scan.filterMap (matchClause c (clauseWindow glo ghi c []))).isEmpty = false ∨ c.optional = true) →
      SetEq (joinClause scan glo ghi rows c) rows) ∧
    (((scan.filterMap (matchClause c (clauseWindow glo ghi c []))).isEmpty = true ∧ c.optional = false) →
      joinClause scan glo ghi rows c = []) := by
  have hwin : ∀ r, clauseWindow glo ghi c r = clauseWindow glo ghi c [] := by
    intro r; unfold clauseWindow; simp [hal.1, hal.2]
  have hms : ∀ m ∈ scan.filterMap (matchClause c (clauseWindow glo ghi c [])), m = [] :=
    fun m hm => matches_of_nothing hex _ _ m hm
  have hfilt : ∀ r, (scan.filterMap (matchClause c (clauseWindow glo ghi c []))).filter (compatible r)
      = scan.filterMap (matchClause c (clauseWindow glo ghi c [])) := by
    intro r
    apply List.filter_eq_self.mpr
    intro m hm; rw [hms m hm]; exact compatible_nil r
  generalize hM : scan.filterMap (matchClause c (clauseWindow glo ghi c [])) = M at hms hfilt ⊢
  have hj : ∀ r, specJoin scan glo ghi c r =
      if c.optional then (if M.isEmpty then [r] else M.map r.merge) else M.map r.merge := by
    intro r
    unfold specJoin
    simp only [hwin r, hM, hfilt r, hb, List.filter_nil, List.map_nil, merge_nil]
  have hmap : ∀ r, ∀ x ∈ M.map (Row.merge r), x = r := by
    intro r x hx
    obtain ⟨m, hm, rfl⟩ := List.mem_map.mp hx
    rw [hms m hm, merge_nil]
  constructor
  · intro hcond
    rw [joinClause_eq]
    constructor
    · intro x hx
      obtain ⟨r, hr, hxr⟩ := List.mem_flatMap.mp hx
      rw [hj r] at hxr
      have : x = r := by
        split at hxr
        · split at hxr
          · simpa using hxr
          · exact hmap r x hxr
        · exact hmap r x hxr
      exact ⟨r, hr, this ▸ RowEq.refl x⟩
    · intro r hr
      refine ⟨r, List.mem_flatMap.mpr ⟨r, hr, ?_⟩, RowEq.refl r⟩
      rw [hj r]
      cases M with
      | nil =>
        rcases hcond with h | h
        · simp at h
        · simp [h]
      | cons m M =>
        have : r ∈ (m :: M).map r.merge := List.mem_map.mpr ⟨m, List.mem_cons_self, by rw [hms m List.mem_cons_self, merge_nil]⟩
        by_cases hopt : c.optional = true
        · simp only [hopt, if_true, List.isEmpty_cons, Bool.false_eq_true, if_false]; exact this
        · simp only [hopt, Bool.false_eq_true, if_false]; exact this
  · rintro ⟨he, hopt⟩
    rw [joinClause_eq]
    apply List.flatMap_eq_nil_iff.mpr
    intro r _
    rw [hj r]
    have : M = [] := List.isEmpty_iff.mp he
    simp [hopt, this]

end BW.Proofs.Planner
