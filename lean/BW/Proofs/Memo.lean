/-
The memoizer is transparent (C19): sequentially, and under every interleaving of readers and writers
at its internal steps — provided the key determines the answer, results are memoized only when no
reset happened since the lookup began, and updates reset again after they were forwarded.
-/
import BW.Model.Memo

set_option linter.unusedSectionVars false

namespace BW.Proofs.Memo
open BW.Model.Memo

variable {W Q A U K : Type} [DecidableEq K]

/-- The key says everything the wrapped store's answer depends on. -/
def KeyDetermines (E : Env W Q A U K) : Prop := ∀ w q q', E.key q = E.key q' → E.ans w q = E.ans w q'

/-! ### Sequential -/

def SeqInv (E : Env W Q A U K) (s : Seq W K A) : Prop :=
  ∀ k a, s.cache k = some a → ∀ q, E.key q = k → a = E.ans s.inner q

theorem seq_read (E : Env W Q A U K) (hk : KeyDetermines E) (s : Seq W K A) (hi : SeqInv E s) (q : Q) :
    (s.read E q).1 = E.ans s.inner q ∧ (s.read E q).2.inner = s.inner ∧ SeqInv E (s.read E q).2 := by
  unfold Seq.read
  cases hc : s.cache (E.key q) with
  | some a => exact ⟨hi _ _ hc q rfl, rfl, hi⟩
  | none =>
    refine ⟨rfl, rfl, ?_⟩
    intro k a hka q' hq'
    simp only at hka
    by_cases hkk : k = E.key q
    · simp only [hkk, if_true, Option.some.injEq] at hka
      rw [← hka]
      exact hk _ _ _ (hq'.trans hkk).symm
    · simp only [hkk, if_false] at hka
      exact hi k a hka q' hq'

theorem seq_write (E : Env W Q A U K) (s : Seq W K A) (u : U) : SeqInv E (s.write E u) := by
  intro k a h
  simp [Seq.write] at h

/-- Every history of reads and writes through the memoizer returns what the wrapped store would. -/
theorem seq_transparent (E : Env W Q A U K) (hk : KeyDetermines E) (ops : List (Op Q U)) (s : Seq W K A) (hi : SeqInv E s) :
    Seq.run E s ops = direct E s.inner ops := by
  induction ops generalizing s with
  | nil => rfl
  | cons op ops ih =>
    cases op with
    | read q =>
      obtain ⟨h1, h2, h3⟩ := seq_read E hk s hi q
      simp only [Seq.run, direct]
      rw [ih _ h3, h1, h2]
    | write u =>
      simp only [Seq.run, direct]
      rw [ih _ (seq_write E s u)]
      rfl

/-! ### Interleaved -/

def good : Policy := ⟨true, true⟩

/-- The invariant of the interleaved system. -/
structure Inv (E : Env W Q A U K) (s : Sys W Q A U K) : Prop where
  cache : s.settled = true → s.cacheCurrent E
  fetched : s.settled = true → ∀ q g a, Thread.reader q (.fetched g a) ∈ s.threads → g = s.gen → a = E.ans s.inner q
  genMissed : ∀ q g, Thread.reader (A := A) (U := U) q (.missed g) ∈ s.threads → g ≤ s.gen
  genFetched : ∀ q g a, Thread.reader (U := U) q (.fetched g a) ∈ s.threads → g ≤ s.gen

theorem mem_set {α : Type} (l : List α) (i : Nat) (x y : α) (h : y ∈ l.set i x) : y = x ∨ y ∈ l := by
  induction l generalizing i with
  | nil => simp at h
  | cons a l ih =>
    cases i with
    | zero =>
      simp only [List.set_cons_zero, List.mem_cons] at h
      rcases h with h | h
      · exact Or.inl h
      · exact Or.inr (List.mem_cons_of_mem _ h)
    | succ i =>
      simp only [List.set_cons_succ, List.mem_cons] at h
      rcases h with h | h
      · exact Or.inr (by simp [h])
      · rcases ih i h with h | h
        · exact Or.inl h
        · exact Or.inr (List.mem_cons_of_mem _ h)

theorem mem_of_getElem? {α : Type} (l : List α) (i : Nat) (x : α) (h : l[i]? = some x) : x ∈ l := by
  rw [List.getElem?_eq_some_iff] at h
  obtain ⟨hi, rfl⟩ := h
  exact List.getElem_mem hi

/-- If the moved thread was the only one in the middle of an update, the rest is settled. -/
theorem settled_set (l : List (Thread Q A U)) (i : Nat) (t' : Thread Q A U)
    (h : (l.set i t').all (fun t => !t.midUpdate) = true) (hold : ∀ t, l[i]? = some t → t.midUpdate = false) :
    l.all (fun t => !t.midUpdate) = true := by
  induction l generalizing i with
  | nil => rfl
  | cons a l ih =>
    cases i with
    | zero =>
      simp only [List.set_cons_zero, List.all_cons, Bool.and_eq_true] at h ⊢
      exact ⟨by simp [hold a (by simp)], h.2⟩
    | succ i =>
      simp only [List.set_cons_succ, List.all_cons, Bool.and_eq_true] at h ⊢
      exact ⟨h.1, ih i h.2 (fun t ht => hold t (by simpa using ht))⟩

theorem all_set (l : List (Thread Q A U)) (i : Nat) (t' : Thread Q A U)
    (h : l.all (fun t => !t.midUpdate) = true) (ht' : t'.midUpdate = false) :
    (l.set i t').all (fun t => !t.midUpdate) = true := by
  rw [List.all_eq_true] at h ⊢
  intro x hx
  rcases mem_set l i t' x hx with rfl | hx
  · simp [ht']
  · exact h x hx

theorem not_settled_of_mem (l : List (Thread Q A U)) (t : Thread Q A U) (hm : t ∈ l) (hmid : t.midUpdate = true) :
    l.all (fun t => !t.midUpdate) = false := by
  rw [List.all_eq_false]
  exact ⟨t, hm, by simp [hmid]⟩

theorem mem_set_self {α : Type} (l : List α) (i : Nat) (x y : α) (h : l[i]? = some y) : x ∈ l.set i x := by
  induction l generalizing i with
  | nil => simp at h
  | cons a l ih =>
    cases i with
    | zero => simp
    | succ i =>
      simp only [List.set_cons_succ, List.mem_cons]
      exact Or.inr (ih i (by simpa using h))

/-- Every step of every thread keeps the invariant (policy: generation check and closing reset). -/
theorem inv_step (E : Env W Q A U K) (hk : KeyDetermines E) (s s' : Sys W Q A U K) (i : Nat)
    (hi : Inv E s) (h : s.step good E i = some s') : Inv E s' := by
  unfold Sys.step at h
  cases hti : s.threads[i]? with
  | none => simp [hti] at h
  | some t =>
    have htm : t ∈ s.threads := mem_of_getElem? _ _ _ hti
    simp only [hti] at h
    cases t with
    | reader q ph =>
      cases ph with
      | init =>
        simp only [stepThread] at h
        cases hc : s.cache (E.key q) with
        | some a =>
          simp only [hc, Option.some.injEq] at h
          subst h
          have hset : ∀ (hs : (s.threads.set i (Thread.reader q (RPhase.done a))).all (fun t => !t.midUpdate) = true), s.settled = true :=
            fun hs => settled_set _ _ _ hs (fun t ht => by rw [hti] at ht; cases ht; rfl)
          refine ⟨fun hs => hi.cache (hset hs), ?_, ?_, ?_⟩
          · intro hs q' g a' hm hg
            rcases mem_set _ _ _ _ hm with he | hm
            · cases he
            · exact hi.fetched (hset hs) q' g a' hm hg
          · intro q' g hm
            rcases mem_set _ _ _ _ hm with he | hm
            · cases he
            · exact hi.genMissed q' g hm
          · intro q' g a' hm
            rcases mem_set _ _ _ _ hm with he | hm
            · cases he
            · exact hi.genFetched q' g a' hm
        | none =>
          simp only [hc, Option.some.injEq] at h
          subst h
          have hset : ∀ (hs : (s.threads.set i (Thread.reader q (RPhase.missed s.gen))).all (fun t => !t.midUpdate) = true), s.settled = true :=
            fun hs => settled_set _ _ _ hs (fun t ht => by rw [hti] at ht; cases ht; rfl)
          refine ⟨fun hs => hi.cache (hset hs), ?_, ?_, ?_⟩
          · intro hs q' g a' hm hg
            rcases mem_set _ _ _ _ hm with he | hm
            · cases he
            · exact hi.fetched (hset hs) q' g a' hm hg
          · intro q' g hm
            rcases mem_set _ _ _ _ hm with he | hm
            · cases he; exact Nat.le_refl _
            · exact hi.genMissed q' g hm
          · intro q' g a' hm
            rcases mem_set _ _ _ _ hm with he | hm
            · cases he
            · exact hi.genFetched q' g a' hm
      | missed g0 =>
        simp only [stepThread, Option.some.injEq] at h
        subst h
        have hset : ∀ (hs : (s.threads.set i (Thread.reader q (RPhase.fetched g0 (E.ans s.inner q)))).all (fun t => !t.midUpdate) = true), s.settled = true :=
          fun hs => settled_set _ _ _ hs (fun t ht => by rw [hti] at ht; cases ht; rfl)
        refine ⟨fun hs => hi.cache (hset hs), ?_, ?_, ?_⟩
        · intro hs q' g a' hm hg
          rcases mem_set _ _ _ _ hm with he | hm
          · cases he; rfl
          · exact hi.fetched (hset hs) q' g a' hm hg
        · intro q' g hm
          rcases mem_set _ _ _ _ hm with he | hm
          · cases he
          · exact hi.genMissed q' g hm
        · intro q' g a' hm
          rcases mem_set _ _ _ _ hm with he | hm
          · cases he; exact hi.genMissed q g0 htm
          · exact hi.genFetched q' g a' hm
      | fetched g0 a0 =>
        simp only [stepThread, good, Bool.not_true, Bool.false_or, Option.some.injEq] at h
        subst h
        have hset : ∀ (hs : (s.threads.set i (Thread.reader q (RPhase.done a0))).all (fun t => !t.midUpdate) = true), s.settled = true :=
          fun hs => settled_set _ _ _ hs (fun t ht => by rw [hti] at ht; cases ht; rfl)
        refine ⟨?_, ?_, ?_, ?_⟩
        · intro hs k a hka q' hq'
          have hsett := hset hs
          simp only at hka
          by_cases hg : (g0 == s.gen) = true
          · simp only [hg, if_true] at hka
            by_cases hkk : k = E.key q
            · simp only [hkk, if_true, Option.some.injEq] at hka
              have h1 := hi.fetched hsett q g0 a0 htm (by simpa using hg)
              rw [← hka, h1]
              exact hk _ _ _ (hq'.trans hkk).symm
            · simp only [hkk, if_false] at hka
              exact hi.cache hsett k a hka q' hq'
          · simp only [hg, Bool.false_eq_true, if_false] at hka
            exact hi.cache hsett k a hka q' hq'
        · intro hs q' g a' hm hg
          rcases mem_set _ _ _ _ hm with he | hm
          · cases he
          · exact hi.fetched (hset hs) q' g a' hm hg
        · intro q' g hm
          rcases mem_set _ _ _ _ hm with he | hm
          · cases he
          · exact hi.genMissed q' g hm
        · intro q' g a' hm
          rcases mem_set _ _ _ _ hm with he | hm
          · cases he
          · exact hi.genFetched q' g a' hm
      | done a => simp [stepThread] at h
    | writer u ph =>
      cases ph with
      | init =>
        simp only [stepThread, Option.some.injEq] at h
        subst h
        refine ⟨?_, ?_, ?_, ?_⟩
        · intro _ k a hka; simp at hka
        · intro _ q' g a' hm hg
          rcases mem_set _ _ _ _ hm with he | hm
          · cases he
          · have := hi.genFetched q' g a' hm
            simp only at hg
            omega
        · intro q' g hm
          rcases mem_set _ _ _ _ hm with he | hm
          · cases he
          · exact Nat.le_succ_of_le (hi.genMissed q' g hm)
        · intro q' g a' hm
          rcases mem_set _ _ _ _ hm with he | hm
          · cases he
          · exact Nat.le_succ_of_le (hi.genFetched q' g a' hm)
      | reset1 =>
        simp only [stepThread, Option.some.injEq] at h
        subst h
        have hns : (s.threads.set i (Thread.writer u WPhase.forwarded)).all (fun t => !t.midUpdate) = false :=
          not_settled_of_mem _ _ (mem_set_self _ _ _ _ hti) rfl
        refine ⟨?_, ?_, ?_, ?_⟩
        · intro hs; simp only [Sys.settled] at hs; rw [hns] at hs; cases hs
        · intro hs; simp only [Sys.settled] at hs; rw [hns] at hs; cases hs
        · intro q' g hm
          rcases mem_set _ _ _ _ hm with he | hm
          · cases he
          · exact hi.genMissed q' g hm
        · intro q' g a' hm
          rcases mem_set _ _ _ _ hm with he | hm
          · cases he
          · exact hi.genFetched q' g a' hm
      | forwarded =>
        simp only [stepThread, good, if_true, Option.some.injEq] at h
        subst h
        refine ⟨?_, ?_, ?_, ?_⟩
        · intro _ k a hka; simp at hka
        · intro _ q' g a' hm hg
          rcases mem_set _ _ _ _ hm with he | hm
          · cases he
          · have := hi.genFetched q' g a' hm
            simp only at hg
            omega
        · intro q' g hm
          rcases mem_set _ _ _ _ hm with he | hm
          · cases he
          · exact Nat.le_succ_of_le (hi.genMissed q' g hm)
        · intro q' g a' hm
          rcases mem_set _ _ _ _ hm with he | hm
          · cases he
          · exact Nat.le_succ_of_le (hi.genFetched q' g a' hm)
      | done => simp [stepThread] at h

/-- A fresh system: nothing memoized, no operation started yet. -/
def fresh (w : W) (ths : List (Thread Q A U)) : Sys W Q A U K := { inner := w, gen := 0, cache := fun _ => none, threads := ths }

def NotStarted : Thread Q A U → Prop
  | .reader _ .init => True
  | .writer _ .init => True
  | _ => False

theorem inv_fresh (E : Env W Q A U K) (w : W) (ths : List (Thread Q A U)) (h : ∀ t ∈ ths, NotStarted t) : Inv E (fresh (K := K) w ths) := by
  refine ⟨?_, ?_, ?_, ?_⟩
  · intro _ k a hka; simp [fresh] at hka
  · intro _ q g a hm; exact absurd (h _ hm) (by simp [NotStarted])
  · intro q g hm; exact absurd (h _ hm) (by simp [NotStarted])
  · intro q g a hm; exact absurd (h _ hm) (by simp [NotStarted])

theorem inv_reach (E : Env W Q A U K) (hk : KeyDetermines E) (s t : Sys W Q A U K) (hi : Inv E s) (h : Reach good E s t) : Inv E t := by
  induction h with
  | refl => exact hi
  | step t u i _ hs ih => exact inv_step E hk t u i ih hs

/-- For every number of readers and writers and every interleaving of their internal steps: whenever
    no update is between its forwarding and its closing reset, everything memoized is what the wrapped
    store answers now — so a lookup that starts then returns the current answer, hit or miss. -/
theorem interleaved_transparent (E : Env W Q A U K) (hk : KeyDetermines E) (w : W) (ths : List (Thread Q A U))
    (h0 : ∀ t ∈ ths, NotStarted t) (s : Sys W Q A U K) (h : Reach good E (fresh w ths) s) (hs : s.settled = true) :
    s.cacheCurrent E :=
  (inv_reach E hk _ s (inv_fresh E w ths h0) h).cache hs

/-- A lookup that finds its key while the system is settled returns the current answer. -/
theorem hit_is_current (E : Env W Q A U K) (hk : KeyDetermines E) (w : W) (ths : List (Thread Q A U))
    (h0 : ∀ t ∈ ths, NotStarted t) (s : Sys W Q A U K) (h : Reach good E (fresh w ths) s) (hs : s.settled = true)
    (q : Q) (a : A) (hit : s.cache (E.key q) = some a) : a = E.ans s.inner q :=
  interleaved_transparent E hk w ths h0 s h hs _ _ hit q rfl


/-- With one memoizer per graph, histories through any number of handles are transparent. -/
theorem multi_transparent (E : Env W Q A U K) (hk : KeyDetermines E) (ops : List (HOp Q U)) (s : Multi W K A)
    (hi : ∀ k a, s.caches 0 k = some a → ∀ q, E.key q = k → a = E.ans s.inner q) :
    Multi.run true E s ops = directH E s.inner ops := by
  induction ops generalizing s with
  | nil => rfl
  | cons op ops ih =>
    cases op with
    | read h q =>
      simp only [Multi.run, directH, slot, if_true]
      cases hc : s.caches 0 (E.key q) with
      | some a =>
        simp only
        rw [hi _ _ hc q rfl, ih s hi]
      | none =>
        simp only
        rw [ih]
        intro k a hka q' hq'
        simp only at hka
        by_cases hkk : k = E.key q
        · simp only [hkk, and_self, if_true, Option.some.injEq] at hka
          rw [← hka]; exact hk _ _ _ (hq'.trans hkk).symm
        · simp only [hkk, and_false, if_false] at hka
          exact hi k a hka q' hq'
    | write h u =>
      simp only [Multi.run, directH, slot, if_true]
      rw [ih]
      intro k a hka
      simp at hka

end BW.Proofs.Memo
