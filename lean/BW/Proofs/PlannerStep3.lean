/-
Towards C03: the values in play (`Universe`) and what is assumed of their UUID pre-images; rows and clauses
stay inside it (`specialise_in`, `specBind_in`), which is what makes the per-clause hypotheses of
`simpleFetch_spec` available for every clause the planner specialises.
-/
import BW.Proofs.PlannerStep2
set_option linter.unusedSimpArgs false
open BW.Model BW.Spec BW.Proofs.ClauseOrder BW.Proofs.Store BW.Proofs.Lookup

namespace BW.Proofs.Planner

/-! ### The values in play, and what is assumed of their UUID pre-images -/

/-- A set of cells containing everything the evaluation of the statement can put into a row or a clause,
    on which the UUID pre-images identify values (false for the known findings D02/D04: two nodes, or a
    text and a blob, with one pre-image). -/
structure Universe (gs : List QGraph) where
  cell : Cell → Prop
  ids : Bytes → Prop
  norm : ∀ v v', normCell v = normCell v' → cell v → cell v'
  stored : ∀ q ∈ gs, ∀ t ∈ scanOf q, cell (.node t.s) ∧ cell (.pred t.p) ∧ cell (objCell t.o)
  anchor : ∀ i ta, cell (.pred (.tmp i ta)) → cell (.time ta)
  built : ∀ i ta, ids i → cell (.time ta) → cell (.pred (.tmp i ta))
  injNode : ∀ n n', cell (.node n) → cell (.node n') → preNode n = preNode n' → n = n'
  injObj : ∀ o o', cell (objCell o) → cell (objCell o') → preObj false o = preObj false o' → objSame o o' = true
  injTime : ∀ a b : Time, cell (.time a) → cell (.time b) → wrap64 a.nanos = wrap64 b.nanos → a.nanos = b.nanos

variable {gs : List QGraph}

def CellOK (U : Universe gs) : Cell → Prop
  | .str _ => True
  | .null => True
  | v => U.cell v

def RowIn (U : Universe gs) (r : Row) : Prop := ∀ k v, r.get k = some v → CellOK U v

def ClauseIn (U : Universe gs) (c : Clause) : Prop :=
  (∀ s, c.s = some s → U.cell (.node s)) ∧ (∀ p, c.p = some p → U.cell (.pred p)) ∧
  (∀ o, c.o = some o → U.cell (objCell o)) ∧ (c.pID ≠ [] → U.ids c.pID) ∧ (c.oID ≠ [] → U.ids c.oID)

theorem cellOK_norm (U : Universe gs) {v v' : Cell} (h : normCell v = normCell v') (hv : CellOK U v) : CellOK U v' := by
  cases v <;> cases v' <;> simp [normCell] at h <;> first | exact trivial | exact U.norm _ _ (by simp [normCell, h]) hv

theorem rowIn_rowEq (U : Universe gs) {r r' : Row} (h : RowEq r r') (hr : RowIn U r) : RowIn U r' := by
  intro k v' hv'
  have := h k
  rw [hv'] at this
  cases hg : r.get k with
  | none => simp [hg] at this
  | some v =>
    rw [hg] at this
    simp only [Option.map_some, Option.some.injEq] at this
    exact cellOK_norm U this (hr k v hg)

theorem rowIn_merge (U : Universe gs) {a b : Row} (ha : RowIn U a) (hb : RowIn U b) : RowIn U (a.merge b) := by
  intro k v hv
  rw [get_merge] at hv
  cases hg : a.get k with
  | some x => rw [hg] at hv; simp only [Option.orElse] at hv; injection hv with hv; subst hv; exact ha k x hg
  | none => rw [hg] at hv; simp only [Option.orElse] at hv; exact hb k v hv

theorem clauseIn_apart (U : Universe gs) (c : Clause) (h : ClauseIn U c) : Apart gs c ∧ AnchorsApart gs c := by
  obtain ⟨h1, h2, h3, _, _⟩ := h
  refine ⟨⟨?_, ?_⟩, ?_⟩
  · intro s hs q hq t ht he
    exact U.injNode s t.s (h1 s hs) (U.stored q hq t ht).1 he
  · intro o ho q hq t ht he
    exact U.injObj o t.o (h3 o ho) (U.stored q hq t ht).2.2 he
  · intro p hp q hq t ht he
    have hcp := h2 p hp
    have hct := (U.stored q hq t ht).2.1
    cases p with
    | imm i => cases htp : t.p <;> rw [htp] at he <;> simp [Pred.anchor, htp] at he ⊢
    | tmp i a =>
      cases htp : t.p with
      | imm j => simp [Pred.anchor, htp] at he
      | tmp j b =>
        rw [htp] at hct he
        simp only [Pred.anchor, Option.map_some, Option.some.injEq] at he ⊢
        exact U.injTime a b (U.anchor i a hcp) (U.anchor j b hct) he

theorem boundValue_in (U : Universe gs) {r : Row} (hr : RowIn U r) {a b : Bytes} {v : Cell}
    (h : boundValue r [a, b] = some v) : CellOK U v := by
  rcases boundValue_mem r a b v h with ⟨_, hg⟩ | ⟨_, hg⟩ <;> exact hr _ _ hg

theorem clauseIn_of_strip (U : Universe gs) {c c' : Clause} (hs : strip c' = strip c) (h : ClauseIn U c)
    (h1 : ∀ s, c'.s = some s → U.cell (.node s)) (h2 : ∀ p, c'.p = some p → U.cell (.pred p))
    (h3 : ∀ o, c'.o = some o → U.cell (objCell o)) : ClauseIn U c' := by
  have e1 : c'.pID = c.pID := (strip_fields hs).2.2.2.2.2.2
  have e2 : c'.oID = c.oID := show (strip c').oID = (strip c).oID from congrArg Clause.oID hs
  exact ⟨h1, h2, h3, by rw [e1]; exact h.2.2.2.1, by rw [e2]; exact h.2.2.2.2⟩

theorem spS_in (U : Universe gs) {r : Row} (hr : RowIn U r) {c : Clause} (h : ClauseIn U c) : ClauseIn U (spS r c) := by
  apply clauseIn_of_strip U (strip_spS r c) h
  · intro s hs
    unfold spS at hs
    split at hs
    · split at hs
      · rename_i n hb
        simp only [Option.some.injEq] at hs; subst hs
        exact boundValue_in U hr hb
      · exact h.1 s hs
    · exact h.1 s hs
  · intro p hp
    have : (spS r c).p = c.p := (spS_p r c).1
    rw [this] at hp; exact h.2.1 p hp
  · intro o ho
    have : (spS r c).o = c.o := by unfold spS; split <;> (try split) <;> rfl
    rw [this] at ho; exact h.2.2.1 o ho

theorem spPA_in (U : Universe gs) {r : Row} (hr : RowIn U r) {c : Clause} (h : ClauseIn U c) : ClauseIn U (spPA r c) := by
  apply clauseIn_of_strip U (strip_spPA r c) h
  · intro s hs
    have : (spPA r c).s = c.s := by unfold spPA; split <;> (try split) <;> rfl
    rw [this] at hs; exact h.1 s hs
  · intro p hp
    unfold spPA at hp
    split at hp
    · rename_i hc
      simp only [Bool.and_eq_true, decide_eq_true_eq] at hc
      split at hp
      · rename_i t hg
        simp only [Option.some.injEq] at hp; subst hp
        exact U.built _ _ (h.2.2.2.1 hc.1.2) (hr _ _ hg)
      · exact h.2.1 p hp
    · exact h.2.1 p hp
  · intro o ho
    have : (spPA r c).o = c.o := by unfold spPA; split <;> (try split) <;> rfl
    rw [this] at ho; exact h.2.2.1 o ho

theorem spP_in (U : Universe gs) {r : Row} (hr : RowIn U r) {c : Clause} (h : ClauseIn U c) : ClauseIn U (spP r c) := by
  apply clauseIn_of_strip U (strip_spP r c) h
  · intro s hs
    have : (spP r c).s = c.s := by unfold spP; split <;> rfl
    rw [this] at hs; exact h.1 s hs
  · intro p hp
    unfold spP at hp
    split at hp
    · rename_i p' hb
      simp only [Option.some.injEq] at hp; subst hp
      exact boundValue_in U hr hb
    · exact h.2.1 p hp
  · intro o ho
    have : (spP r c).o = c.o := by unfold spP; split <;> rfl
    rw [this] at ho; exact h.2.2.1 o ho

theorem spOA_in (U : Universe gs) {r : Row} (hr : RowIn U r) {c : Clause} (h : ClauseIn U c) : ClauseIn U (spOA r c) := by
  apply clauseIn_of_strip U (strip_spOA r c) h
  · intro s hs
    have : (spOA r c).s = c.s := by unfold spOA; split <;> (try split) <;> rfl
    rw [this] at hs; exact h.1 s hs
  · intro p hp
    have : (spOA r c).p = c.p := by unfold spOA; split <;> (try split) <;> rfl
    rw [this] at hp; exact h.2.1 p hp
  · intro o ho
    unfold spOA at ho
    split at ho
    · rename_i hc
      simp only [Bool.and_eq_true, decide_eq_true_eq] at hc
      split at ho
      · rename_i t hg
        simp only [Option.some.injEq] at ho; subst ho
        exact U.built _ _ (h.2.2.2.2 hc.1.2) (hr _ _ hg)
      · exact h.2.2.1 o ho
    · exact h.2.2.1 o ho

theorem spO_in (U : Universe gs) {r : Row} (hr : RowIn U r) {c : Clause} (h : ClauseIn U c) : ClauseIn U (spO r c) := by
  apply clauseIn_of_strip U (strip_spO r c) h
  · intro s hs
    have : (spO r c).s = c.s := by unfold spO; split <;> rfl
    rw [this] at hs; exact h.1 s hs
  · intro p hp
    have : (spO r c).p = c.p := by unfold spO; split <;> rfl
    rw [this] at hp; exact h.2.1 p hp
  · intro o ho
    unfold spO at ho
    split at ho
    · rename_i o' hb
      simp only [Option.some.injEq] at ho; subst ho
      obtain ⟨v, hbv, hco⟩ := Option.bind_eq_some_iff.mp hb
      have hv := boundValue_in U hr hbv
      cases v <;> simp [cellToObj] at hco <;> subst hco <;> exact hv
    · exact h.2.2.1 o ho

theorem specialise_in (U : Universe gs) {r : Row} (hr : RowIn U r) {c c' : Clause} {lo lo' : QOpts}
    (hc : ClauseIn U c) (h : specialise r c lo = .ok (c', lo')) : ClauseIn U c' := by
  unfold specialise at h
  simp only at h
  have i2 := spPA_in U hr (spS_in U hr hc)
  split at h
  · cases h
  · rename_i c3 lo3 h3
    have i3 : ClauseIn U c3 := by
      split at h3
      · split at h3
        · injection h3 with h3; injection h3 with h3 _; rw [← h3]; exact spP_in U hr i2
        · cases h3
      · injection h3 with h3; injection h3 with h3 _; rw [← h3]; exact i2
    have i4 := spOA_in U hr i3
    split at h
    · split at h
      · injection h with h; injection h with h _; rw [← h]; exact spO_in U hr i4
      · cases h
    · injection h with h; injection h with h _; rw [← h]; exact i4

theorem extract_ok (U : Universe gs) (o : Bool) (e : Option Cell) (v : Cell) (he : ∀ x, e = some x → CellOK U x)
    (h : extract o e = some v) : CellOK U v := by
  cases e with
  | some x => simp only [extract, Option.some.injEq] at h; subst h; exact he x rfl
  | none => cases o <;> simp [extract] at h; subst h; exact trivial

theorem specBind_in (U : Universe gs) (c : Clause) (t : Triple)
    (ht : U.cell (.node t.s) ∧ U.cell (.pred t.p) ∧ U.cell (objCell t.o)) (m : Row) (h : specBind c t = some m) :
    RowIn U m := by
  obtain ⟨i1, _, _⟩ := foldl_bindStep_get (clauseSteps c t) [] m h
  intro k v hv
  rcases i1 k v hv with h0 | ⟨kv, hmem, _, _, hval⟩
  · simp [Row.get] at h0
  · have hanchor : ∀ p : Pred, U.cell (.pred p) → ∀ x, anchorOf p = some x → CellOK U x := by
      intro p hp x hx
      cases p with
      | imm i => simp [anchorOf] at hx
      | tmp i ta => simp only [anchorOf, Option.some.injEq] at hx; subst hx; exact U.anchor i ta hp
    unfold clauseSteps at hmem
    simp only [List.mem_cons, List.mem_nil_iff, or_false] at hmem
    rcases hmem with e | e | e | e | e | e | e | e | e | e | e | e | e | e | e <;> subst e <;> simp only at hval
    · injection hval with hval; subst hval; exact ht.1
    · injection hval with hval; subst hval; exact ht.1
    · injection hval with hval; subst hval; exact trivial
    · injection hval with hval; subst hval; exact trivial
    · injection hval with hval; subst hval; exact ht.2.1
    · injection hval with hval; subst hval; exact ht.2.1
    · injection hval with hval; subst hval; exact trivial
    · exact extract_ok U _ _ v (hanchor t.p ht.2.1) hval
    · exact extract_ok U _ _ v (hanchor t.p ht.2.1) hval
    · injection hval with hval; subst hval
      cases hto : t.o <;> simp only [objCell, hto] at ht ⊢ <;> exact ht.2.2
    · injection hval with hval; subst hval
      cases hto : t.o <;> simp only [objCell, hto] at ht ⊢ <;> exact ht.2.2
    · refine extract_ok U _ _ v ?_ hval
      intro x hx
      cases hto : t.o <;> simp [hto] at hx <;> subst hx <;> exact trivial
    · refine extract_ok U _ _ v ?_ hval
      intro x hx
      cases hto : t.o <;> simp [hto] at hx <;> subst hx <;> exact trivial
    · refine extract_ok U _ _ v ?_ hval
      intro x hx
      cases hto : t.o with
      | pred p => simp only [hto] at hx; exact hanchor p (by have := ht.2.2; rw [hto] at this; exact this) x hx
      | node n => simp [hto] at hx
      | lit l => simp [hto] at hx
    · refine extract_ok U _ _ v ?_ hval
      intro x hx
      cases hto : t.o with
      | pred p => simp only [hto] at hx; exact hanchor p (by have := ht.2.2; rw [hto] at this; exact this) x hx
      | node n => simp [hto] at hx
      | lit l => simp [hto] at hx

end BW.Proofs.Planner
