/-
Towards C03: the strategies for a clause that shares no binding with the table (`DotProduct`,
`LeftOptionalJoin`, `AppendTable` for the first clause) are the reference's join step; the invariant of
the working table (`TblOK`).
-/
import BW.Proofs.PlannerStep7
set_option linter.unusedSimpArgs false
open BW.Model BW.Spec BW.Proofs.ClauseOrder BW.Proofs.Store BW.Proofs.Lookup

namespace BW.Proofs.Planner

variable {gs : List QGraph}

theorem extractNames_sub_bindings (c : Clause) (k : Bytes) (hk : k ∈ extractNames c) (hne : k ≠ []) : k ∈ c.bindings := by
  unfold Clause.bindings
  apply mem_dedup_of_mem
  apply List.mem_filter.mpr
  refine ⟨?_, by simpa using hne⟩
  unfold extractNames at hk
  simp only [List.mem_cons, List.mem_nil_iff, or_false] at hk ⊢
  rcases hk with e | e | e | e | e | e | e | e | e | e | e | e | e | e | e <;> simp [e]

theorem specBind_keys {c : Clause} {t : Triple} {m : Row} (h : specBind c t = some m) (k : Bytes) (hk : m.has k = true) :
    k ∈ c.bindings := by
  obtain ⟨i1, _, _⟩ := foldl_bindStep_get (clauseSteps c t) [] m h
  rw [has_iff_get] at hk
  cases hg : m.get k with
  | none => simp [hg] at hk
  | some v =>
    rcases i1 k v hg with h0 | ⟨kv, hmem, hkk, hne, _⟩
    · simp [Row.get] at h0
    · have : kv.1 ∈ extractNames c := by rw [← steps_keys c t]; exact List.mem_map.mpr ⟨kv, hmem, rfl⟩
      exact extractNames_sub_bindings c k (hkk ▸ this) hne

theorem rowEq_has {r r' : Row} (h : RowEq r r') (k : Bytes) : r.has k = r'.has k := by
  rw [has_iff_get, has_iff_get]
  have := h k
  cases h1 : r.get k <;> cases h2 : r'.get k <;> simp [h1, h2] at this ⊢

theorem compatible_disjoint (r m : Row) (h : ∀ k, r.has k = true → m.has k = false) : compatible r m = true := by
  unfold compatible
  apply List.all_eq_true.mpr
  intro p hp
  have hh : r.has p.1 = true := by
    unfold Row.has; exact List.any_eq_true.mpr ⟨p, hp, by simp⟩
  have := h p.1 hh
  rw [has_iff_get] at this
  cases hg : m.get p.1 with
  | none => simp [hg]
  | some v => simp [hg] at this

theorem merge_nil_left (m : Row) : Row.merge [] m = m := by
  unfold Row.merge
  simp [Row.has]

/-- The working table, as the induction needs it. -/
structure TblOK (U : Universe gs) (tbl : Tbl) : Prop where
  rows : ∀ r ∈ tbl.rows, RowOK U r
  keys : ∀ r ∈ tbl.rows, ∀ k, r.has k = true → k ∈ tbl.bindings
  none : tbl.bindings = [] → tbl.rows = []

theorem window_no_alias (glo ghi : Option Int) (c : Clause) (r : Row)
    (h1 : c.pLowerAlias ≠ [] → r.has c.pLowerAlias = false) (h2 : c.pUpperAlias ≠ [] → r.has c.pUpperAlias = false) :
    clauseWindow glo ghi c r = clauseWindow glo ghi c [] := by
  have g : ∀ k, r.has k = false → rowTime r k = none := by
    intro k hk
    unfold rowTime
    rw [has_iff_get] at hk
    cases hg : r.get k with
    | none => rfl
    | some v => simp [hg] at hk
  have g0 : ∀ k, rowTime [] k = none := fun k => rfl
  unfold clauseWindow
  by_cases hL : c.pLowerAlias ≠ [] <;> by_cases hU : c.pUpperAlias ≠ []
  · simp only [hL, hU, if_true, g _ (h1 hL), g _ (h2 hU), g0]
  · simp only [hL, hU, if_true, if_false, g _ (h1 hL), g0]
  · simp only [hL, hU, if_true, if_false, g _ (h2 hU), g0]
  · simp only [hL, hU, if_false]

theorem aliases_in_bindings (c : Clause) :
    (c.pLowerAlias ≠ [] → c.pLowerAlias ∈ c.bindings) ∧ (c.pUpperAlias ≠ [] → c.pUpperAlias ∈ c.bindings) := by
  constructor <;> intro h <;> unfold Clause.bindings <;> apply mem_dedup_of_mem <;> apply List.mem_filter.mpr <;>
    exact ⟨by simp, by simpa using h⟩

/-- A row that shares no name with the clause: the reference joins it with every match. -/
theorem specJoin_disjoint (scan : List Triple) (glo ghi : Option Int) (c : Clause) (r : Row)
    (hd : ∀ k ∈ c.bindings, r.has k = false) :
    specJoin scan glo ghi c r =
      (let M := scan.filterMap (matchClause c (clauseWindow glo ghi c []))
       if c.optional then (if M.isEmpty then [r.merge (nullRow c.bindings r)] else M.map r.merge) else M.map r.merge) := by
  have hw : clauseWindow glo ghi c r = clauseWindow glo ghi c [] :=
    window_no_alias glo ghi c r (fun h => hd _ ((aliases_in_bindings c).1 h)) (fun h => hd _ ((aliases_in_bindings c).2 h))
  have hf : (scan.filterMap (matchClause c (clauseWindow glo ghi c []))).filter (compatible r) =
      scan.filterMap (matchClause c (clauseWindow glo ghi c [])) := by
    apply List.filter_eq_self.mpr
    intro m hm
    obtain ⟨t, _, hmc⟩ := List.mem_filterMap.mp hm
    apply compatible_disjoint
    intro k hk
    cases hmk : m.has k with
    | false => rfl
    | true =>
      have := hd k (specBind_keys (matchClause_specBind hmc) k hmk)
      rw [hk] at this; cases this
  unfold specJoin nullRow
  simp only [hw, hf]

/-- What the fetch of a clause (not specialised) gives, for the cross-join strategies. -/
theorem fetch_facts {F : Facts} (hF : Facts.WF F = true) (hg : GraphsOK F gs) (U : Universe gs)
    {c : Clause} {lo : QOpts} (hwf : ClauseWF c) (hcin : ClauseIn U c) (hfil : lo.filter = none)
    (hex : c.extractsNothing = false) (fetched : List Row) (hfe : simpleFetch F gs c lo 0 = .ok fetched) :
    SetEq fetched ((gs.flatMap scanOf).filterMap (matchClause c (clauseWindow (nl lo.lower) (nl lo.upper) c []))) ∧
    (∀ m ∈ fetched, RowOK U m) ∧ (∀ m ∈ fetched, ∀ k, m.has k = true → k ∈ c.bindings) := by
  obtain ⟨hap, hapA⟩ := clauseIn_apart U c hcin
  obtain ⟨rows, hrows, hset⟩ := simpleFetch_spec hF gs hg c hwf.idAlias lo hfil hap hapA
  rw [hfe] at hrows; injection hrows with hrows; subst hrows
  have hnod := simpleFetch_nodup hF gs (fun q hq => (hg q hq).1) c hwf.idAlias lo hfil fetched hfe
  rw [specRows_all hex] at hset
  refine ⟨hset, ?_, ?_⟩
  · intro m hm
    obtain ⟨m', hm', e⟩ := hset.1 m hm
    obtain ⟨t, ht, hmc⟩ := List.mem_filterMap.mp hm'
    exact ⟨hnod m hm, rowIn_rowEq U e.symm (match_in U ht hmc)⟩
  · intro m hm k hk
    obtain ⟨m', hm', e⟩ := hset.1 m hm
    obtain ⟨t, _, hmc⟩ := List.mem_filterMap.mp hm'
    rw [rowEq_has e] at hk
    exact specBind_keys (matchClause_specBind hmc) k hk

theorem merge_has (a b : Row) (k : Bytes) (h : (a.merge b).has k = true) : a.has k = true ∨ b.has k = true := by
  rw [has_iff_get, get_merge] at h
  rw [has_iff_get, has_iff_get]
  cases ha : a.get k with
  | some v => left; rfl
  | none => rw [ha] at h; simp only [Option.orElse] at h; right; exact h

theorem nullRow_has (bs : List Bytes) (r : Row) (k : Bytes) (h : (nullRow bs r).has k = true) : k ∈ bs := by
  unfold Row.has nullRow at h
  obtain ⟨p, hp, hk⟩ := List.any_eq_true.mp h
  obtain ⟨k', hk', rfl⟩ := List.mem_map.mp hp
  have : k' = k := by simpa using hk
  exact this ▸ (List.mem_filter.mp hk').1

/-- **Cross join.** A mandatory clause that shares no binding with the table: `DotProduct` of the table with
    the fetch is the reference's join. -/
theorem dot_spec {F : Facts} (hF : Facts.WF F = true) (hg : GraphsOK F gs) (U : Universe gs)
    {tbl : Tbl} (ht : TblOK U tbl) {c : Clause} {lo : QOpts} (hwf : ClauseWF c) (hcin : ClauseIn U c)
    (hfil : lo.filter = none) (hex : c.extractsNothing = false) (hd : ∀ k ∈ c.bindings, k ∉ tbl.bindings)
    (hopt : c.optional = false) (fetched : List Row) (hfe : simpleFetch F gs c lo 0 = .ok fetched) :
    ∃ t', tbl.dot c.bindings fetched = .ok t' ∧ t'.bindings = dedup (tbl.bindings ++ c.bindings) ∧
      SetEq t'.rows (joinClause (gs.flatMap scanOf) (nl lo.lower) (nl lo.upper) tbl.rows c) ∧ TblOK U t' := by
  obtain ⟨hset, hok, hkeys⟩ := fetch_facts hF hg U hwf hcin hfil hex fetched hfe
  have hdis : disjointSet tbl.bindings c.bindings = true := by
    unfold disjointSet
    apply List.all_eq_true.mpr
    intro x hx
    cases hcx : c.bindings.contains x with
    | false => rfl
    | true => exact absurd hx (hd x (List.contains_iff_mem.mp hcx))
  refine ⟨{ bindings := dedup (tbl.bindings ++ c.bindings), rows := tbl.rows.flatMap fun r1 => fetched.map fun r2 => r1.merge r2 },
    by unfold Tbl.dot; simp only [hdis, Bool.not_true, Bool.false_eq_true, if_false], rfl, ?_, ?_⟩
  · rw [joinClause_eq]
    apply SetEq.flatMap
    intro r hr
    have hdr : ∀ k ∈ c.bindings, r.has k = false := by
      intro k hk
      cases hh : r.has k with
      | false => rfl
      | true => exact absurd (ht.keys r hr k hh) (hd k hk)
    rw [specJoin_disjoint _ _ _ c r hdr]
    simp only [hopt, Bool.false_eq_true, if_false]
    exact setEq_map_merge r hset
  · refine ⟨?_, ?_, ?_⟩
    · intro r' hr'
      obtain ⟨r, hr, hx⟩ := List.mem_flatMap.mp hr'
      obtain ⟨m, hm, rfl⟩ := List.mem_map.mp hx
      exact merge_ok U (ht.rows r hr) (hok m hm)
    · intro r' hr' k hk
      obtain ⟨r, hr, hx⟩ := List.mem_flatMap.mp hr'
      obtain ⟨m, hm, rfl⟩ := List.mem_map.mp hx
      apply mem_dedup_of_mem
      rcases merge_has r m k hk with h | h
      · exact List.mem_append_left _ (ht.keys r hr k h)
      · exact List.mem_append_right _ (hkeys m hm k h)
    · intro hb
      have : tbl.bindings ++ c.bindings = [] := by
        cases hl : tbl.bindings ++ c.bindings with
        | nil => rfl
        | cons x l =>
          have : x ∈ dedup (tbl.bindings ++ c.bindings) := mem_dedup_of_mem _ _ (by rw [hl]; exact List.mem_cons_self)
          have hb' : dedup (tbl.bindings ++ c.bindings) = [] := hb
          rw [hb'] at this; cases this
      have h1 : tbl.bindings = [] := (List.append_eq_nil_iff.mp this).1
      simp [ht.none h1]

theorem bindings_ne_nil {c : Clause} (hex : c.extractsNothing = false) : c.bindings ≠ [] := by
  have : ∃ k ∈ extractNames c, k ≠ [] := by
    apply Classical.byContradiction
    intro hcon
    have : c.extractsNothing = true := (extractsNothing_iff c).mpr (by
      intro k hk
      apply Classical.byContradiction
      intro hne; exact hcon ⟨k, hk, hne⟩)
    rw [hex] at this; cases this
  obtain ⟨k, hk, hne⟩ := this
  intro h
  have := extractNames_sub_bindings c k hk hne
  rw [h] at this; cases this

/-- **Left outer join, no shared binding.** -/
theorem leftOptional_spec {F : Facts} (hF : Facts.WF F = true) (hg : GraphsOK F gs) (U : Universe gs)
    {tbl : Tbl} (ht : TblOK U tbl) (hB : tbl.bindings ≠ []) {c : Clause} {lo : QOpts} (hwf : ClauseWF c) (hcin : ClauseIn U c)
    (hfil : lo.filter = none) (hex : c.extractsNothing = false) (hd : ∀ k ∈ c.bindings, k ∉ tbl.bindings)
    (hopt : c.optional = true) (fetched : List Row) (hfe : simpleFetch F gs c lo 0 = .ok fetched) :
    ∃ t', tbl.leftOptional c.bindings fetched = .ok t' ∧ t'.bindings = dedup (tbl.bindings ++ c.bindings) ∧
      SetEq t'.rows (joinClause (gs.flatMap scanOf) (nl lo.lower) (nl lo.upper) tbl.rows c) ∧ TblOK U t' := by
  obtain ⟨hset, hok, hkeys⟩ := fetch_facts hF hg U hwf hcin hfil hex fetched hfe
  have hdis : disjointSet tbl.bindings c.bindings = true := by
    unfold disjointSet
    apply List.all_eq_true.mpr
    intro x hx
    cases hcx : c.bindings.contains x with
    | false => rfl
    | true => exact absurd hx (hd x (List.contains_iff_mem.mp hcx))
  have hss : sameSet tbl.bindings c.bindings = false := by
    unfold sameSet
    cases hb : tbl.bindings with
    | nil => exact absurd hb hB
    | cons b bs =>
      have hbm : b ∈ tbl.bindings := by rw [hb]; exact List.mem_cons_self
      have : c.bindings.contains b = false := by
        cases hcx : c.bindings.contains b with
        | false => rfl
        | true => exact absurd hbm (hd b (List.contains_iff_mem.mp hcx))
      simp only [List.all_cons, this, Bool.false_and, Bool.and_false]
  have hbe : c.bindings.isEmpty = false := by
    cases hb : c.bindings with
    | nil => exact absurd hb (bindings_ne_nil hex)
    | cons _ _ => rfl
  have hdr : ∀ r ∈ tbl.rows, ∀ k ∈ c.bindings, r.has k = false := by
    intro r hr k hk
    cases hh : r.has k with
    | false => rfl
    | true => exact absurd (ht.keys r hr k hh) (hd k hk)
  have hnone : dedup (tbl.bindings ++ c.bindings) = [] → tbl.rows = [] := by
    intro hb
    have : tbl.bindings ++ c.bindings = [] := by
      cases hl : tbl.bindings ++ c.bindings with
      | nil => rfl
      | cons x l =>
        have : x ∈ dedup (tbl.bindings ++ c.bindings) := mem_dedup_of_mem _ _ (by rw [hl]; exact List.mem_cons_self)
        rw [hb] at this; cases this
    exact ht.none (List.append_eq_nil_iff.mp this).1
  by_cases hfe0 : fetched.isEmpty = true
  · refine ⟨{ bindings := dedup (tbl.bindings ++ c.bindings), rows := tbl.rows.map fun r => r.merge (nullRow c.bindings r) },
      by unfold Tbl.leftOptional nullRow; simp only [hss, hbe, Bool.or_self, Bool.false_eq_true, if_false, hdis, hfe0, Bool.and_self, if_true],
      rfl, ?_, ?_⟩
    · rw [joinClause_eq]
      have hM : ((gs.flatMap scanOf).filterMap (matchClause c (clauseWindow (nl lo.lower) (nl lo.upper) c []))).isEmpty = true := by
        rw [← setEq_isEmpty hset]; exact hfe0
      constructor
      · intro x hx
        obtain ⟨r, hr, rfl⟩ := List.mem_map.mp hx
        refine ⟨_, List.mem_flatMap.mpr ⟨r, hr, ?_⟩, RowEq.refl _⟩
        rw [specJoin_disjoint _ _ _ c r (hdr r hr)]
        simp only [hopt, if_true, hM, List.mem_singleton]
      · intro x hx
        obtain ⟨r, hr, hxr⟩ := List.mem_flatMap.mp hx
        rw [specJoin_disjoint _ _ _ c r (hdr r hr)] at hxr
        simp only [hopt, if_true, hM, List.mem_singleton] at hxr
        exact ⟨_, List.mem_map.mpr ⟨r, hr, rfl⟩, hxr ▸ RowEq.refl _⟩
    · refine ⟨?_, ?_, fun hb => by simp [hnone hb]⟩
      · intro r' hr'
        obtain ⟨r, hr, rfl⟩ := List.mem_map.mp hr'
        exact merge_ok U (ht.rows r hr) (nullRow_ok U c r)
      · intro r' hr' k hk
        obtain ⟨r, hr, rfl⟩ := List.mem_map.mp hr'
        apply mem_dedup_of_mem
        rcases merge_has _ _ k hk with h | h
        · exact List.mem_append_left _ (ht.keys r hr k h)
        · exact List.mem_append_right _ (nullRow_has _ _ k h)
  · have hfe0' : fetched.isEmpty = false := by simpa using hfe0
    refine ⟨{ bindings := dedup (tbl.bindings ++ c.bindings), rows := tbl.rows.flatMap fun r1 => fetched.map fun r2 => r1.merge r2 },
      by unfold Tbl.leftOptional Tbl.dot; simp only [hss, hbe, Bool.or_self, Bool.false_eq_true, if_false, hdis, hfe0', Bool.and_false, Bool.not_true],
      rfl, ?_, ?_⟩
    · rw [joinClause_eq]
      apply SetEq.flatMap
      intro r hr
      rw [specJoin_disjoint _ _ _ c r (hdr r hr)]
      have hM : ((gs.flatMap scanOf).filterMap (matchClause c (clauseWindow (nl lo.lower) (nl lo.upper) c []))).isEmpty = false := by
        rw [← setEq_isEmpty hset]; exact hfe0'
      simp only [hopt, if_true, hM, Bool.false_eq_true, if_false]
      exact setEq_map_merge r hset
    · refine ⟨?_, ?_, fun hb => by simp [hnone hb]⟩
      · intro r' hr'
        obtain ⟨r, hr, hx⟩ := List.mem_flatMap.mp hr'
        obtain ⟨m, hm, rfl⟩ := List.mem_map.mp hx
        exact merge_ok U (ht.rows r hr) (hok m hm)
      · intro r' hr' k hk
        obtain ⟨r, hr, hx⟩ := List.mem_flatMap.mp hr'
        obtain ⟨m, hm, rfl⟩ := List.mem_map.mp hx
        apply mem_dedup_of_mem
        rcases merge_has r m k hk with h | h
        · exact List.mem_append_left _ (ht.keys r hr k h)
        · exact List.mem_append_right _ (hkeys m hm k h)

/-- **First clause.** The table is still untouched: the fetch becomes the table. -/
theorem append_spec {F : Facts} (hF : Facts.WF F = true) (hg : GraphsOK F gs) (U : Universe gs)
    {tbl : Tbl} (ht : TblOK U tbl) (hB : tbl.bindings = []) {c : Clause} {lo : QOpts} (hwf : ClauseWF c) (hcin : ClauseIn U c)
    (hfil : lo.filter = none) (hex : c.extractsNothing = false) (hopt : c.optional = false)
    (fetched : List Row) (hfe : simpleFetch F gs c lo 0 = .ok fetched) :
    ∃ t', tbl.append c.bindings fetched = .ok t' ∧ t'.bindings = c.bindings ∧
      SetEq t'.rows (joinClause (gs.flatMap scanOf) (nl lo.lower) (nl lo.upper) [[]] c) ∧ TblOK U t' := by
  obtain ⟨hset, hok, hkeys⟩ := fetch_facts hF hg U hwf hcin hfil hex fetched hfe
  refine ⟨{ bindings := c.bindings, rows := fetched }, by
      unfold Tbl.append; simp [hB, ht.none hB], rfl, ?_, ?_⟩
  · rw [joinClause_eq]
    simp only [List.flatMap_cons, List.flatMap_nil, List.append_nil]
    rw [specJoin_disjoint _ _ _ c [] (fun k _ => rfl)]
    simp only [hopt, Bool.false_eq_true, if_false]
    have : ((gs.flatMap scanOf).filterMap (matchClause c (clauseWindow (nl lo.lower) (nl lo.upper) c []))).map (Row.merge [])
        = (gs.flatMap scanOf).filterMap (matchClause c (clauseWindow (nl lo.lower) (nl lo.upper) c [])) := by
      conv => rhs; rw [← List.map_id ((gs.flatMap scanOf).filterMap _)]
      apply List.map_congr_left
      intro m _; exact merge_nil_left m
    rw [this]; exact hset
  · exact ⟨hok, hkeys, fun hb => absurd hb (bindings_ne_nil hex)⟩

end BW.Proofs.Planner
