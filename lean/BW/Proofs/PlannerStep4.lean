/-
Towards C03: helpers for the per-row step — the planner's `compatibleRows` is the reference's `compatible`,
one row of the reference's join (`specJoin`), matches of a specialised clause that agree with the row are the
matches of the clause itself, match rows bind exactly the extraction names, fetched rows repeat no key.
-/
import BW.Proofs.PlannerStep3
set_option linter.unusedSimpArgs false
open BW.Model BW.Spec BW.Proofs.ClauseOrder BW.Proofs.Store BW.Proofs.Lookup

namespace BW.Proofs.Planner

variable {gs : List QGraph}

theorem window_ext {w w' : Window} (h1 : w.lower = w'.lower) (h2 : w.upper = w'.upper) : w = w' := by
  cases w; cases w'; simp at h1 h2; simp [h1, h2]

/-- The planner's `compatibleRows` is the reference's `compatible` (on rows without repeated keys). -/
theorem compatibleRows_iff (r nr : Row) (hn : KeysNodup nr) :
    compatibleRows r nr = true ↔ ∀ k v v', r.get k = some v → nr.get k = some v' → cellSame v v' = true := by
  unfold compatibleRows
  rw [List.all_eq_true]
  constructor
  · intro h k v v' hrv hnv
    have := h (k, v') (mem_of_get nr k v' hnv)
    simp only [hrv, sameCell_eq] at this
    exact this
  · intro h p hp
    obtain ⟨k, v'⟩ := p
    have hnv := get_of_mem nr hn k v' hp
    show (match r.get k with | some ov => sameCell ov v' | none => true) = true
    cases hr : r.get k with
    | none => rfl
    | some v => simp only [sameCell_eq]; exact h k v v' hr hnv

theorem compatibleRows_eq (r nr : Row) (hr : KeysNodup r) (hn : KeysNodup nr) :
    compatibleRows r nr = compatible r nr := by
  rw [Bool.eq_iff_iff, compatibleRows_iff r nr hn, compatible_iff r nr hr]

/-- One row of the reference's join step. -/
def specJoin (scan : List Triple) (glo ghi : Option Int) (c : Clause) (r : Row) : List Row :=
  let ms := (scan.filterMap (matchClause c (clauseWindow glo ghi c r))).filter (compatible r)
  if c.optional then
    if ms.isEmpty then [r.merge ((c.bindings.filter (fun k => !r.has k)).map fun k => (k, Cell.null))]
    else ms.map r.merge
  else ms.map r.merge

theorem joinClause_eq (scan : List Triple) (glo ghi : Option Int) (rows : List Row) (c : Clause) :
    joinClause scan glo ghi rows c = rows.flatMap (specJoin scan glo ghi c) := rfl

theorem setEq_isEmpty {a b : List Row} (h : SetEq a b) : a.isEmpty = b.isEmpty := by
  cases a with
  | nil => cases b with
    | nil => rfl
    | cons x b => obtain ⟨_, hm, _⟩ := h.2 x List.mem_cons_self; cases hm
  | cons x a => cases b with
    | nil => obtain ⟨_, hm, _⟩ := h.1 x List.mem_cons_self; cases hm
    | cons y b => rfl

theorem setEq_map_merge (r : Row) {a b : List Row} (h : SetEq a b) : SetEq (a.map r.merge) (b.map r.merge) := by
  constructor
  · intro x hx
    obtain ⟨m, hm, rfl⟩ := List.mem_map.mp hx
    obtain ⟨m', hm', e⟩ := h.1 m hm
    exact ⟨r.merge m', List.mem_map.mpr ⟨m', hm', rfl⟩, merge_congr r r m m' (RowEq.refl r) e⟩
  · intro x hx
    obtain ⟨m, hm, rfl⟩ := List.mem_map.mp hx
    obtain ⟨m', hm', e⟩ := h.2 m hm
    exact ⟨r.merge m', List.mem_map.mpr ⟨m', hm', rfl⟩, merge_congr r r m' m (RowEq.refl r) e⟩

theorem setEq_filter_compat (r : Row) (hr : KeysNodup r) {a b : List Row} (h : SetEq a b)
    (ha : ∀ m ∈ a, KeysNodup m) (hb : ∀ m ∈ b, KeysNodup m) :
    SetEq (a.filter (compatibleRows r)) (b.filter (compatible r)) := by
  constructor
  · intro m hm
    obtain ⟨hma, hc⟩ := List.mem_filter.mp hm
    obtain ⟨m', hm', e⟩ := h.1 m hma
    refine ⟨m', List.mem_filter.mpr ⟨hm', ?_⟩, e⟩
    rw [← compatible_congr r r m m' hr hr (RowEq.refl r) e, ← compatibleRows_eq r m hr (ha m hma)]
    exact hc
  · intro m' hm'
    obtain ⟨hmb, hc⟩ := List.mem_filter.mp hm'
    obtain ⟨m, hm, e⟩ := h.2 m' hmb
    refine ⟨m, List.mem_filter.mpr ⟨hm, ?_⟩, e⟩
    rw [compatibleRows_eq r m hr (ha m hm), compatible_congr r r m m' hr hr (RowEq.refl r) e]
    exact hc

theorem tight_strip {c c' : Clause} (hs : strip c' = strip c) {w : Window} (h : Tight c w) : Tight c' w := by
  obtain ⟨f1, f2, _⟩ := strip_fields hs
  unfold Tight at *
  rw [f1, f2]; exact h

theorem matchClause_some_iff (c : Clause) (w : Window) (t : Triple) (ht : Tight c w) (m : Row) :
    matchClause c w t = some m ↔
      (constsMatch c t = true ∧ w.holds t.p = true ∧ shouldIgnore t c = false ∧ specBind c t = some m) := by
  rw [matchClause_eq c w t ht]
  by_cases hc : constsMatch c t = true <;> by_cases hw : w.holds t.p = true <;>
    by_cases hi : shouldIgnore t c = true <;> simp [hc, hw, hi]

theorem match_specialised {r : Row} {c c' : Clause} (hs : strip c' = strip c) (hi : Implied r c c') (hw : Weaker c c')
    {w : Window} (ht : Tight c w) (t : Triple) (m : Row) :
    (matchClause c' w t = some m ∧ compatible r m = true) ↔ (matchClause c w t = some m ∧ compatible r m = true) := by
  rw [matchClause_some_iff c' w t (tight_strip hs ht), matchClause_some_iff c w t ht]
  have e1 : shouldIgnore t c' = shouldIgnore t c := by rw [shouldIgnore_strip, hs, ← shouldIgnore_strip]
  have e2 : specBind c' t = specBind c t := by rw [specBind_strip, hs, ← specBind_strip]
  rw [e1, e2]
  constructor
  · rintro ⟨⟨h1, h2, h3, h4⟩, h5⟩; exact ⟨⟨hw t h1, h2, h3, h4⟩, h5⟩
  · rintro ⟨⟨h1, h2, h3, h4⟩, h5⟩; exact ⟨⟨hi t m h4 h5 h3 h1, h2, h3, h4⟩, h5⟩

/-- The names a clause extracts into. -/
def extractNames (c : Clause) : List Bytes :=
  [c.sBinding, c.sAlias, c.sTypeAlias, c.sIDAlias, c.pBinding, c.pAlias, c.pIDAlias, c.pAnchorBinding, c.pAnchorAlias,
   c.oBinding, c.oAlias, c.oTypeAlias, c.oIDAlias, c.oAnchorBinding, c.oAnchorAlias]

theorem steps_keys (c : Clause) (t : Triple) : (clauseSteps c t).map (·.1) = extractNames c := rfl

theorem extractsNothing_iff (c : Clause) : c.extractsNothing = true ↔ ∀ k ∈ extractNames c, k = [] := by
  unfold Clause.extractsNothing extractNames
  simp only [Bool.and_eq_true, decide_eq_true_eq, List.mem_cons, List.mem_nil_iff, or_false, forall_eq_or_imp, forall_eq, and_assoc]

theorem specBind_nothing {c : Clause} (h : c.extractsNothing = true) (t : Triple) (m : Row) (hm : specBind c t = some m) :
    m = [] := by
  obtain ⟨i1, _, _⟩ := foldl_bindStep_get (clauseSteps c t) [] m hm
  cases m with
  | nil => rfl
  | cons p m =>
    exfalso
    have hg : Row.get (p :: m) p.1 = some p.2 := by simp [Row.get, List.find?_cons]
    rcases i1 p.1 p.2 hg with h0 | ⟨kv, hmem, hk, hne, _⟩
    · simp [Row.get] at h0
    · have : kv.1 ∈ extractNames c := by rw [← steps_keys c t]; exact List.mem_map.mpr ⟨kv, hmem, rfl⟩
      exact hne (hk ▸ (extractsNothing_iff c).mp h kv.1 this)

theorem specBind_something {c : Clause} (h : c.extractsNothing = false) (t : Triple) (m : Row) (hm : specBind c t = some m) :
    m.isEmpty = false := by
  obtain ⟨_, _, i3⟩ := foldl_bindStep_get (clauseSteps c t) [] m hm
  have : ∃ k ∈ extractNames c, k ≠ [] := by
    apply Classical.byContradiction
    intro hcon
    have : c.extractsNothing = true := (extractsNothing_iff c).mpr (by
      intro k hk
      apply Classical.byContradiction
      intro hne; exact hcon ⟨k, hk, hne⟩)
    rw [h] at this; cases this
  obtain ⟨k, hk, hne⟩ := this
  rw [← steps_keys c t] at hk
  obtain ⟨kv, hmem, hkv⟩ := List.mem_map.mp hk
  obtain ⟨v, _, _, hg, _⟩ := i3 kv hmem (hkv ▸ hne)
  cases m with
  | nil => simp [Row.get] at hg
  | cons p m => rfl

theorem specBind_nodup {c : Clause} {t : Triple} {m : Row} (h : specBind c t = some m) : KeysNodup m :=
  foldl_bindStep_nodup (clauseSteps c t) (some []) m (fun r hr => by injection hr with hr; subst hr; exact List.nodup_nil) h

theorem fetchRow_nodup {c : Clause} {t : Triple} {m : Row} (h : fetchRow c t = some m) : KeysNodup m := by
  unfold fetchRow at h
  split at h
  · cases h
  · split at h
    · rename_i r hb
      split at h
      · cases h
      · injection h with h; subst h; exact specBind_nodup hb
    · cases h

theorem simpleFetch_nodup {F : Facts} (hF : Facts.WF F = true) (gs : List QGraph) (hinv : ∀ q ∈ gs, Inv F q.g)
    (c : Clause) (hid : IdAliasPlain c) (lo : QOpts) (hfil : lo.filter = none) (rows : List Row)
    (h : simpleFetch F gs c lo 0 = .ok rows) : ∀ m ∈ rows, KeysNodup m := by
  by_cases hfull : c.s.isSome ∧ c.p.isSome ∧ c.o.isSome
  · obtain ⟨h1, h2, h3⟩ := hfull
    obtain ⟨s, hs⟩ := Option.isSome_iff_exists.mp h1
    obtain ⟨p, hp⟩ := Option.isSome_iff_exists.mp h2
    obtain ⟨o, ho⟩ := Option.isSome_iff_exists.mp h3
    obtain ⟨ko, _, hf⟩ := simpleFetch_full F gs c hid lo s p o hs hp ho
    rw [hf] at h; injection h with h; subst h
    intro m hm
    split at hm
    · obtain ⟨q, _, hq⟩ := List.mem_flatMap.mp hm
      split at hq
      · obtain ⟨t, _, ht⟩ := List.mem_filterMap.mp hq
        exact fetchRow_nodup ht
      · cases hq
    · cases hm
  · obtain ⟨m', a, rb, _, _, _, hf⟩ := simpleFetch_partial hF gs hinv c hid lo hfil c.s c.p c.o rfl rfl rfl hfull
    rw [hf] at h; injection h with h; subst h
    intro m hm
    obtain ⟨q, _, hq⟩ := List.mem_flatMap.mp hm
    unfold graphRows at hq
    obtain ⟨t, _, ht⟩ := List.mem_filterMap.mp hq
    exact fetchRow_nodup ht

theorem specRows_mem {c : Clause} {w : Window} {scan : List Triple} {m : Row} (h : m ∈ specRows c w scan) :
    ∃ t ∈ scan, matchClause c w t = some m := by
  unfold specRows at h
  obtain ⟨h1, _⟩ := List.mem_filter.mp h
  exact List.mem_filterMap.mp h1

end BW.Proofs.Planner
