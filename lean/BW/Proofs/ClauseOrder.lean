/-
The order in which the clauses of a graph pattern are written does not change its solutions (C14):
rows as partial functions, lists of rows up to order and up to the representation of anchors, and
the commutation of two join steps, lifted to every permutation of the clause list.
-/
import BW.Spec.Query
import BW.Proofs.Query
import BW.Proofs.Rename

set_option linter.unusedSimpArgs false
set_option linter.unusedVariables false

namespace BW.Proofs.ClauseOrder
open BW.Model BW.Spec

/-! ### Cells up to the zone of an anchor -/

def normPredC : Pred → Pred
  | .imm i => .imm i
  | .tmp i t => .tmp i ⟨t.nanos, 0⟩

def normCell : Cell → Cell
  | .time t => .time ⟨t.nanos, 0⟩
  | .pred p => .pred (normPredC p)
  | c => c

theorem predSame_iff' (a b : Pred) : predSame a b = true ↔ normPredC a = normPredC b := by
  cases a <;> cases b <;> simp [predSame, normPredC, Pred.id, Pred.anchor]

theorem cellSame_iff (a b : Cell) : cellSame a b = true ↔ normCell a = normCell b := by
  cases a <;> cases b <;> simp [cellSame, normCell, predSame_iff']

theorem cellSame_symm (a b : Cell) : cellSame a b = cellSame b a := by
  have h1 := cellSame_iff a b
  have h2 := cellSame_iff b a
  cases ha : cellSame a b <;> cases hb : cellSame b a <;> simp_all

/-! ### Rows as partial functions -/

theorem has_iff_get (r : Row) (k : Bytes) : r.has k = (r.get k).isSome := by
  unfold Row.has Row.get
  induction r with
  | nil => rfl
  | cons p r ih =>
    simp only [List.any_cons, List.find?_cons]
    cases h : (p.1 == k) <;> simp [ih]

theorem get_merge (a b : Row) (k : Bytes) : (a.merge b).get k = (a.get k).orElse fun _ => b.get k := by
  by_cases ha : a.has k = true
  · rw [BW.Proofs.Query.merge_keeps a b k ha]
    rw [has_iff_get] at ha
    cases hg : a.get k with
    | none => simp [hg] at ha
    | some v => rfl
  · have ha' : a.has k = false := by simpa using ha
    have hn : a.get k = none := by
      rw [has_iff_get] at ha'
      cases hg : a.get k with
      | none => rfl
      | some v => simp [hg] at ha'
    rw [hn]
    simp only [Option.orElse]
    unfold Row.merge Row.get
    rw [List.find?_append]
    have h1 : List.find? (fun x => x.1 == k) a = none := by
      unfold Row.get at hn
      cases hf : List.find? (fun x => x.1 == k) a with
      | none => rfl
      | some p => simp [hf] at hn
    rw [h1]
    simp only [Option.none_or]
    congr 1
    -- entries of b with key k survive the filter
    induction b with
    | nil => rfl
    | cons p b ih =>
      simp only [List.filter_cons]
      by_cases hp : (p.1 == k) = true
      · have hk : p.1 = k := by simpa using hp
        have : (!a.has p.1) = true := by rw [hk, ha']; rfl
        simp [this, List.find?_cons, hp]
      · by_cases hf : (!a.has p.1) = true
        · simp only [hf, if_true, List.find?_cons, hp]
          exact ih
        · simp only [hf, Bool.false_eq_true, if_false, List.find?_cons, hp]
          exact ih

/-! ### Rows without repeated keys -/

def KeysNodup (r : Row) : Prop := (r.map (·.1)).Nodup

theorem get_of_mem (r : Row) (h : KeysNodup r) (k : Bytes) (v : Cell) (hm : (k, v) ∈ r) : r.get k = some v := by
  unfold Row.get
  induction r with
  | nil => cases hm
  | cons p r ih =>
    have hn : p.1 ∉ r.map (·.1) ∧ (r.map (·.1)).Nodup := by
      unfold KeysNodup at h
      rw [List.map_cons] at h
      exact List.nodup_cons.mp h
    simp only [List.find?_cons]
    rcases List.mem_cons.mp hm with rfl | hm
    · simp
    · have : p.1 ≠ k := by
        intro e
        apply hn.1
        rw [e]
        exact List.mem_map.mpr ⟨(k, v), hm, rfl⟩
      have hb : (p.1 == k) = false := by simpa using this
      simp only [hb]
      exact ih hn.2 hm

theorem mem_of_get (r : Row) (k : Bytes) (v : Cell) (h : r.get k = some v) : (k, v) ∈ r := by
  unfold Row.get at h
  cases hf : List.find? (fun x => x.1 == k) r with
  | none => simp [hf] at h
  | some p =>
    simp only [hf, Option.map_some, Option.some.injEq] at h
    have hm := List.mem_of_find?_eq_some hf
    have hk := List.find?_some hf
    have : p.1 = k := by simpa using hk
    have e : p = (k, v) := by cases p; simp_all
    rw [← e]; exact hm

/-- On rows without repeated keys `compatible` only looks at the partial functions. -/
theorem compatible_iff (a b : Row) (ha : KeysNodup a) :
    compatible a b = true ↔ ∀ k v v', a.get k = some v → b.get k = some v' → cellSame v v' = true := by
  unfold compatible
  rw [List.all_eq_true]
  constructor
  · intro h k v v' hav hbv
    have := h (k, v) (mem_of_get a k v hav)
    simp only [hbv] at this
    exact this
  · intro h p hp
    obtain ⟨k, v⟩ := p
    have hav := get_of_mem a ha k v hp
    show (match b.get k with | some v' => cellSame v v' | none => true) = true
    cases hb : b.get k with
    | none => rfl
    | some v' => exact h k v v' hav hb

theorem keysNodup_append_single (r : Row) (k : Bytes) (c : Cell) (h : KeysNodup r) (hk : r.get k = none) : KeysNodup (r ++ [(k, c)]) := by
  unfold KeysNodup at *
  simp only [List.map_append, List.map_cons, List.map_nil]
  rw [List.nodup_append]
  refine ⟨h, by simp, ?_⟩
  intro x hx y hy
  simp only [List.mem_singleton] at hy
  subst hy
  intro e
  subst e
  obtain ⟨p, hp, rfl⟩ := List.mem_map.mp hx
  have := get_of_mem r h p.1 p.2 (by cases p; exact hp)
  rw [hk] at this; cases this

theorem keys_set (r : Row) (k : Bytes) (c : Cell) (hk : r.has k = true) : (r.set k c).map (·.1) = r.map (·.1) := by
  unfold Row.set
  simp only [hk, if_true, List.map_map]
  apply List.map_congr_left
  intro p _
  simp only [Function.comp]
  split
  · rename_i h; have : p.1 = k := by simpa using h
    exact this.symm
  · rfl

theorem bindSame_nodup (acc : Option Row) (k : Bytes) (c : Cell) (r' : Row) (h : ∀ r, acc = some r → KeysNodup r)
    (hb : bindSame acc k c = some r') : KeysNodup r' := by
  cases acc with
  | none => simp [bindSame] at hb
  | some r =>
    have hr := h r rfl
    simp only [bindSame] at hb
    by_cases hk : k = []
    · simp only [hk, if_true, Option.some.injEq] at hb; subst hb; exact hr
    · simp only [hk, if_false] at hb
      cases hg : r.get k with
      | none =>
        simp only [hg, Option.some.injEq] at hb; subst hb
        exact keysNodup_append_single r k c hr hg
      | some old =>
        simp only [hg] at hb
        split at hb
        · simp only [Option.some.injEq] at hb; subst hb
          unfold KeysNodup
          rw [keys_set r k c (by rw [has_iff_get, hg]; rfl)]
          exact hr
        · cases hb

theorem bindStep_nodup (acc : Option Row) (kv : Bytes × Option Cell) (r' : Row) (h : ∀ r, acc = some r → KeysNodup r)
    (hb : bindStep acc kv = some r') : KeysNodup r' := by
  unfold bindStep at hb
  split at hb
  · exact h r' hb
  · split at hb
    · cases hb
    · exact bindSame_nodup acc kv.1 _ r' h hb

theorem foldl_bindStep_nodup (steps : List (Bytes × Option Cell)) (acc : Option Row) (r' : Row)
    (h : ∀ r, acc = some r → KeysNodup r) (hb : steps.foldl bindStep acc = some r') : KeysNodup r' := by
  induction steps generalizing acc with
  | nil => exact h r' hb
  | cons s steps ih =>
    simp only [List.foldl_cons] at hb
    exact ih (bindStep acc s) (fun r hr => bindStep_nodup acc s r h hr) hb

theorem ite_none_eq_some {α : Type} (b : Prop) [Decidable b] (v : Option α) (r : α) (h : (if b then none else v) = some r) : v = some r := by
  split at h
  · cases h
  · exact h

/-- What a clause binds on a triple never repeats a key. -/
theorem matchClause_nodup (c : Clause) (w : Window) (t : Triple) (r : Row) (h : matchClause c w t = some r) : KeysNodup r := by
  unfold matchClause at h
  have h := ite_none_eq_some _ _ _ (ite_none_eq_some _ _ _ (ite_none_eq_some _ _ _ (ite_none_eq_some _ _ _ (ite_none_eq_some _ _ _ h))))
  exact foldl_bindStep_nodup _ (some []) r (fun r hr => by cases hr; simp [KeysNodup]) h

theorem merge_nodup (a b : Row) (ha : KeysNodup a) (hb : KeysNodup b) : KeysNodup (a.merge b) := by
  unfold Row.merge KeysNodup at *
  simp only [List.map_append]
  rw [List.nodup_append]
  refine ⟨ha, ?_, ?_⟩
  · exact List.Nodup.sublist (List.Sublist.map _ (List.filter_sublist)) hb
  · intro x hx y hy e
    subst e
    obtain ⟨p, hp, rfl⟩ := List.mem_map.mp hy
    simp only [List.mem_filter, Bool.not_eq_true'] at hp
    obtain ⟨q, hq, hqe⟩ := List.mem_map.mp hx
    have : a.has p.1 = true := by
      unfold Row.has
      rw [List.any_eq_true]
      exact ⟨q, hq, by simpa using hqe⟩
    rw [hp.2] at this; cases this

/-! ### Rows up to representation -/

/-- The same partial function, anchors compared as instants. -/
def RowEq (r r' : Row) : Prop := ∀ k, (r.get k).map normCell = (r'.get k).map normCell

theorem RowEq.refl (r : Row) : RowEq r r := fun _ => rfl
theorem RowEq.symm {r r' : Row} (h : RowEq r r') : RowEq r' r := fun k => (h k).symm
theorem RowEq.trans {a b c : Row} (h1 : RowEq a b) (h2 : RowEq b c) : RowEq a c := fun k => (h1 k).trans (h2 k)

theorem merge_congr (a a' b b' : Row) (ha : RowEq a a') (hb : RowEq b b') : RowEq (a.merge b) (a'.merge b') := by
  intro k
  rw [get_merge, get_merge]
  have h1 := ha k
  have h2 := hb k
  cases hak : a.get k <;> cases hak' : a'.get k <;> simp_all [Option.orElse]

theorem compatible_congr (a a' b b' : Row) (hna : KeysNodup a) (hna' : KeysNodup a') (ha : RowEq a a') (hb : RowEq b b') :
    compatible a b = compatible a' b' := by
  have key : ∀ (x x' y y' : Row), KeysNodup x → KeysNodup x' → RowEq x x' → RowEq y y' → compatible x y = true → compatible x' y' = true := by
    intro x x' y y' hnx hnx' hx hy h
    rw [compatible_iff x' y' hnx']
    rw [compatible_iff x y hnx] at h
    intro k v v' hv hv'
    have h1 := hx k
    have h2 := hy k
    rw [hv] at h1
    rw [hv'] at h2
    cases hxk : x.get k with
    | none => simp [hxk] at h1
    | some w =>
      cases hyk : y.get k with
      | none => simp [hyk] at h2
      | some w' =>
        simp only [hxk, hyk, Option.map_some, Option.some.injEq] at h1 h2
        have := (cellSame_iff w w').mp (h k w w' hxk hyk)
        exact (cellSame_iff v v').mpr (by rw [← h1, ← h2]; exact this)
  cases h : compatible a b with
  | true => exact (key a a' b b' hna hna' ha hb h).symm
  | false =>
    cases h' : compatible a' b' with
    | false => rfl
    | true => rw [key a' a b' b hna' hna ha.symm hb.symm h'] at h; cases h

/-- Joining a row with two matches: the condition and the result do not depend on the order. -/
theorem two_matches_swap (r m1 m2 : Row) (hr : KeysNodup r) (h1 : KeysNodup m1) (h2 : KeysNodup m2) :
    (compatible r m1 && compatible (r.merge m1) m2) = (compatible r m2 && compatible (r.merge m2) m1) ∧
    ((compatible r m1 && compatible (r.merge m1) m2) = true → RowEq ((r.merge m1).merge m2) ((r.merge m2).merge m1)) := by
  have hn1 := merge_nodup r m1 hr h1
  have hn2 := merge_nodup r m2 hr h2
  -- both sides say: r agrees with m1, r agrees with m2, and m1 agrees with m2 outside r
  have char : ∀ (x y : Row) (hx : KeysNodup x) (hy : KeysNodup y),
      (compatible r x && compatible (r.merge x) y) = true ↔
        (∀ k v v', r.get k = some v → x.get k = some v' → cellSame v v' = true) ∧
        (∀ k v v', r.get k = some v → y.get k = some v' → cellSame v v' = true) ∧
        (∀ k v v', r.get k = none → x.get k = some v → y.get k = some v' → cellSame v v' = true) := by
    intro x y hx hy
    rw [Bool.and_eq_true, compatible_iff r x hr, compatible_iff (r.merge x) y (merge_nodup r x hr hx)]
    constructor
    · rintro ⟨ha, hb⟩
      refine ⟨ha, ?_, ?_⟩
      · intro k v v' hrk hyk
        exact hb k v v' (by rw [get_merge, hrk]; rfl) hyk
      · intro k v v' hrk hxk hyk
        exact hb k v v' (by rw [get_merge, hrk]; simpa [Option.orElse] using hxk) hyk
    · rintro ⟨ha, hb, hc⟩
      refine ⟨ha, ?_⟩
      intro k v v' hm hyk
      rw [get_merge] at hm
      cases hrk : r.get k with
      | some w => rw [hrk] at hm; simp only [Option.orElse, Option.some.injEq] at hm; subst hm; exact hb k w v' hrk hyk
      | none => rw [hrk] at hm; simp only [Option.orElse] at hm; exact hc k v v' hrk hm hyk
  have c12 := char m1 m2 h1 h2
  have c21 := char m2 m1 h2 h1
  have hiff : (compatible r m1 && compatible (r.merge m1) m2) = true ↔ (compatible r m2 && compatible (r.merge m2) m1) = true := by
    rw [c12, c21]
    constructor
    · rintro ⟨a, b, c⟩
      exact ⟨b, a, fun k v v' hrk h2k h1k => by rw [cellSame_symm]; exact c k v' v hrk h1k h2k⟩
    · rintro ⟨a, b, c⟩
      exact ⟨b, a, fun k v v' hrk h1k h2k => by rw [cellSame_symm]; exact c k v' v hrk h2k h1k⟩
  refine ⟨?_, ?_⟩
  · cases ha : (compatible r m1 && compatible (r.merge m1) m2) <;> cases hb : (compatible r m2 && compatible (r.merge m2) m1) <;> simp_all
  · intro hc
    obtain ⟨_, _, hagree⟩ := c12.mp hc
    intro k
    rw [get_merge, get_merge, get_merge, get_merge]
    cases hrk : r.get k with
    | some w => simp [Option.orElse]
    | none =>
      cases h1k : m1.get k with
      | none => cases h2k : m2.get k <;> simp [Option.orElse]
      | some v =>
        cases h2k : m2.get k with
        | none => simp [Option.orElse]
        | some v' =>
          simp only [Option.orElse, Option.map_some, Option.some.injEq]
          exact (cellSame_iff v v').mp (hagree k v v' hrk h1k h2k)

/-! ### Lists of rows up to order and representation -/

/-- Element by element the same rows up to representation. -/
inductive RelL : List Row → List Row → Prop
  | nil : RelL [] []
  | cons {a b : Row} {l l' : List Row} : RowEq a b → RelL l l' → RelL (a :: l) (b :: l')

def PermEq (l l' : List Row) : Prop := ∃ m : List Row, l.Perm m ∧ RelL m l'

theorem forall₂_refl (l : List Row) : RelL l l := by
  induction l with
  | nil => exact RelL.nil
  | cons a l ih => exact RelL.cons (RowEq.refl a) ih

theorem PermEq.refl (l : List Row) : PermEq l l := ⟨l, List.Perm.refl l, forall₂_refl l⟩
theorem PermEq.of_perm {l l' : List Row} (h : l.Perm l') : PermEq l l' := ⟨l', h, forall₂_refl l'⟩
theorem PermEq.of_forall₂ {l l' : List Row} (h : RelL l l') : PermEq l l' := ⟨l, List.Perm.refl l, h⟩

theorem forall₂_trans {a b c : List Row} (h1 : RelL a b) (h2 : RelL b c) : RelL a c := by
  induction h1 generalizing c with
  | nil => cases h2; exact RelL.nil
  | cons hab _ ih =>
    cases h2 with
    | cons hbc h2' => exact RelL.cons (RowEq.trans hab hbc) (ih h2')

/-- Element-wise relation and permutation commute. -/
theorem forall₂_perm_comm {l2 l3 : List Row} (hp : l2.Perm l3) : ∀ l1, RelL l1 l2 →
    ∃ l1', l1.Perm l1' ∧ RelL l1' l3 := by
  induction hp with
  | nil => intro l1 h; cases h; exact ⟨[], List.Perm.refl _, RelL.nil⟩
  | cons x _ ih =>
    intro l1 h
    cases h with
    | cons hax hst =>
      obtain ⟨s', hp', hf'⟩ := ih _ hst
      exact ⟨_ :: s', List.Perm.cons _ hp', RelL.cons hax hf'⟩
  | swap x y t =>
    intro l1 h
    cases h with
    | cons hay h' =>
      cases h' with
      | cons hbx hst => exact ⟨_ :: _ :: _, List.Perm.swap _ _ _, RelL.cons hbx (RelL.cons hay hst)⟩
  | trans _ _ ih1 ih2 =>
    intro l1 h
    obtain ⟨m, hp1, hf1⟩ := ih1 l1 h
    obtain ⟨m', hp2, hf2⟩ := ih2 m hf1
    exact ⟨m', hp1.trans hp2, hf2⟩

theorem PermEq.trans {a b c : List Row} (h1 : PermEq a b) (h2 : PermEq b c) : PermEq a c := by
  obtain ⟨m1, hp1, hf1⟩ := h1
  obtain ⟨m2, hp2, hf2⟩ := h2
  obtain ⟨m1', hp', hf'⟩ := forall₂_perm_comm hp2 m1 hf1
  exact ⟨m1', hp1.trans hp', forall₂_trans hf' hf2⟩

theorem forall₂_append {a b c d : List Row} (h1 : RelL a b) (h2 : RelL c d) : RelL (a ++ c) (b ++ d) := by
  induction h1 with
  | nil => exact h2
  | cons h _ ih => exact RelL.cons h ih

theorem PermEq.append {a b c d : List Row} (h1 : PermEq a b) (h2 : PermEq c d) : PermEq (a ++ c) (b ++ d) := by
  obtain ⟨m1, hp1, hf1⟩ := h1
  obtain ⟨m2, hp2, hf2⟩ := h2
  exact ⟨m1 ++ m2, List.Perm.append hp1 hp2, forall₂_append hf1 hf2⟩

theorem PermEq.flatMap {α : Type} (l : List α) (f g : α → List Row) (h : ∀ a ∈ l, PermEq (f a) (g a)) : PermEq (l.flatMap f) (l.flatMap g) := by
  induction l with
  | nil => exact PermEq.refl _
  | cons a l ih =>
    simp only [List.flatMap_cons]
    exact PermEq.append (h a (by simp)) (ih fun x hx => h x (List.mem_cons_of_mem _ hx))

/-! ### Swapping nested enumerations -/

theorem flatMap_append_perm {α β : Type} (l : List α) (f g : α → List β) :
    (l.flatMap fun a => f a ++ g a).Perm (l.flatMap f ++ l.flatMap g) := by
  induction l with
  | nil => exact List.Perm.refl _
  | cons a l ih =>
    simp only [List.flatMap_cons]
    -- (f a ++ g a) ++ rest  ~  (f a ++ F) ++ (g a ++ G)
    have h1 : (f a ++ g a ++ l.flatMap fun a => f a ++ g a).Perm (f a ++ g a ++ (l.flatMap f ++ l.flatMap g)) := List.Perm.append_left _ ih
    refine h1.trans ?_
    have e1 : f a ++ g a ++ (l.flatMap f ++ l.flatMap g) = f a ++ (g a ++ l.flatMap f ++ l.flatMap g) := by simp
    have e2 : f a ++ l.flatMap f ++ (g a ++ l.flatMap g) = f a ++ (l.flatMap f ++ g a ++ l.flatMap g) := by simp
    rw [e1, e2]
    apply List.Perm.append_left
    apply List.Perm.append_right
    exact List.perm_append_comm

theorem filterMap_eq_flatMap_toList {β γ : Type} (l : List β) (f : β → Option γ) : l.filterMap f = l.flatMap fun b => (f b).toList := by
  induction l with
  | nil => rfl
  | cons b l ih =>
    simp only [List.filterMap_cons, List.flatMap_cons]
    cases hg : f b <;> simp [hg, ih]

/-- Enumerating pairs row-major or column-major gives the same multiset. -/
theorem nested_swap {α β γ : Type} (l1 : List α) (l2 : List β) (g : α → β → Option γ) :
    (l1.flatMap fun a => l2.filterMap (g a)).Perm (l2.flatMap fun b => l1.filterMap fun a => g a b) := by
  induction l1 with
  | nil =>
    simp only [List.flatMap_nil, List.filterMap_nil]
    induction l2 with
    | nil => exact List.Perm.refl _
    | cons b l2 ih => simpa using ih
  | cons a l1 ih =>
    simp only [List.flatMap_cons]
    have h1 : (l2.filterMap (g a) ++ l1.flatMap fun a => l2.filterMap (g a)).Perm
        (l2.filterMap (g a) ++ l2.flatMap fun b => l1.filterMap fun a => g a b) := List.Perm.append_left _ ih
    refine h1.trans ?_
    -- the first column, element by element
    rw [filterMap_eq_flatMap_toList l2 (g a)]
    refine (flatMap_append_perm l2 (fun b => (g a b).toList) (fun b => l1.filterMap fun a => g a b)).symm.trans ?_
    apply BW.Proofs.Query.flatMap_perm_left
    intro b _
    simp only [List.filterMap_cons]
    cases hg : g a b <;> simp [hg]

/-- Pointwise related generators enumerate related lists. -/
theorem nested_forall₂ {α β : Type} (l1 : List α) (l2 : List β) (g g' : α → β → Option Row)
    (h : ∀ a ∈ l1, ∀ b ∈ l2, (g a b).isSome = (g' a b).isSome ∧ ∀ x y, g a b = some x → g' a b = some y → RowEq x y) :
    RelL (l2.flatMap fun b => l1.filterMap fun a => g a b) (l2.flatMap fun b => l1.filterMap fun a => g' a b) := by
  induction l2 with
  | nil => exact RelL.nil
  | cons b l2 ih =>
    simp only [List.flatMap_cons]
    apply forall₂_append
    · -- one column
      have hb : ∀ a ∈ l1, (g a b).isSome = (g' a b).isSome ∧ ∀ x y, g a b = some x → g' a b = some y → RowEq x y :=
        fun a ha => h a ha b (by simp)
      clear ih h
      induction l1 with
      | nil => exact RelL.nil
      | cons a l1 ih1 =>
        have ha := hb a (by simp)
        have ih1' := ih1 (fun x hx => hb x (List.mem_cons_of_mem _ hx))
        simp only [List.filterMap_cons]
        cases hg : g a b with
        | none =>
          have : g' a b = none := by
            have := ha.1; rw [hg] at this
            cases hg' : g' a b with
            | none => rfl
            | some y => rw [hg'] at this; cases this
          simp only [this]; exact ih1'
        | some x =>
          cases hg' : g' a b with
          | none => have := ha.1; rw [hg, hg'] at this; cases this
          | some y => exact RelL.cons (ha.2 x y hg hg') ih1'
    · exact ih (fun a ha b' hb' => h a ha b' (List.mem_cons_of_mem _ hb'))

/-! ### Join steps -/

/-- A clause whose order in the pattern cannot matter by construction: not OPTIONAL, and its
    predicate is not bounded by bindings of other clauses. -/
def Plain (c : Clause) : Prop := c.optional = false ∧ c.pLowerAlias = [] ∧ c.pUpperAlias = []

def AllNodup (rows : List Row) : Prop := ∀ r ∈ rows, KeysNodup r

/-- The matches of a plain clause on the scan do not depend on the row being extended. -/
def matchesOf (scan : List Triple) (glo ghi : Option Int) (c : Clause) : List Row :=
  scan.filterMap (matchClause c (clauseWindow glo ghi c []))

theorem window_plain (glo ghi : Option Int) (c : Clause) (h : Plain c) (r : Row) : clauseWindow glo ghi c r = clauseWindow glo ghi c [] := by
  unfold clauseWindow
  simp [h.2.1, h.2.2]

theorem joinClause_plain (scan : List Triple) (glo ghi : Option Int) (rows : List Row) (c : Clause) (h : Plain c) :
    joinClause scan glo ghi rows c = rows.flatMap fun r => ((matchesOf scan glo ghi c).filter (compatible r)).map r.merge := by
  unfold joinClause matchesOf
  apply BW.Proofs.Rename.flatMap_congr'
  intro r _
  simp only [h.1, Bool.false_eq_true, if_false, window_plain glo ghi c h r]

theorem matchesOf_nodup (scan : List Triple) (glo ghi : Option Int) (c : Clause) : AllNodup (matchesOf scan glo ghi c) := by
  intro m hm
  unfold matchesOf at hm
  obtain ⟨t, _, ht⟩ := List.mem_filterMap.mp hm
  exact matchClause_nodup c _ t m ht

theorem joinClause_nodup (scan : List Triple) (glo ghi : Option Int) (rows : List Row) (c : Clause) (h : Plain c) (hr : AllNodup rows) :
    AllNodup (joinClause scan glo ghi rows c) := by
  rw [joinClause_plain scan glo ghi rows c h]
  intro x hx
  obtain ⟨r, hrm, hx⟩ := List.mem_flatMap.mp hx
  obtain ⟨m, hm, rfl⟩ := List.mem_map.mp hx
  exact merge_nodup r m (hr r hrm) (matchesOf_nodup scan glo ghi c m (List.mem_filter.mp hm).1)

/-- A join step maps rows that are the same up to representation to results that are. -/
theorem step_congr (M : List Row) (r r' : Row) (hn : KeysNodup r) (hn' : KeysNodup r') (he : RowEq r r') :
    RelL ((M.filter (compatible r)).map r.merge) ((M.filter (compatible r')).map r'.merge) := by
  induction M with
  | nil => exact RelL.nil
  | cons m M ih =>
    simp only [List.filter_cons]
    rw [compatible_congr r r' m m hn hn' he (RowEq.refl m)]
    split
    · simp only [List.map_cons]
      exact RelL.cons (merge_congr r r' m m he (RowEq.refl m)) ih
    · exact ih

theorem relL_flatMap (rows rows' : List Row) (f g : Row → List Row) (h : RelL rows rows')
    (hfg : ∀ a b, RowEq a b → a ∈ rows → b ∈ rows' → RelL (f a) (g b)) : RelL (rows.flatMap f) (rows'.flatMap g) := by
  induction h with
  | nil => exact RelL.nil
  | cons hab _ ih =>
    simp only [List.flatMap_cons]
    exact forall₂_append (hfg _ _ hab (by simp) (by simp))
      (ih fun a b he ha hb => hfg a b he (List.mem_cons_of_mem _ ha) (List.mem_cons_of_mem _ hb))

theorem joinClause_relL (scan : List Triple) (glo ghi : Option Int) (rows rows' : List Row) (c : Clause) (h : Plain c)
    (hn : AllNodup rows) (hn' : AllNodup rows') (hr : RelL rows rows') :
    RelL (joinClause scan glo ghi rows c) (joinClause scan glo ghi rows' c) := by
  rw [joinClause_plain scan glo ghi rows c h, joinClause_plain scan glo ghi rows' c h]
  exact relL_flatMap rows rows' _ _ hr (fun a b he ha hb => step_congr _ a b (hn a ha) (hn' b hb) he)

theorem allNodup_perm {l m : List Row} (hp : l.Perm m) (h : AllNodup l) : AllNodup m :=
  fun r hr => h r (hp.symm.subset hr)

theorem relL_nodup_right {l m : List Row} (h : RelL l m) : True := trivial

theorem joinClause_permEq (scan : List Triple) (glo ghi : Option Int) (rows rows' : List Row) (c : Clause) (h : Plain c)
    (hn : AllNodup rows) (hn' : AllNodup rows') (hr : PermEq rows rows') :
    PermEq (joinClause scan glo ghi rows c) (joinClause scan glo ghi rows' c) := by
  obtain ⟨m, hp, hf⟩ := hr
  exact ⟨joinClause scan glo ghi m c, BW.Proofs.Query.joinClause_perm_rows scan glo ghi rows m c hp,
    joinClause_relL scan glo ghi m rows' c h (allNodup_perm hp hn) hn' hf⟩

/-! ### Two plain clauses commute -/

theorem filter_map_as_filterMap {α β : Type} (l : List α) (p : α → Bool) (f : α → β) :
    (l.filter p).map f = l.filterMap fun a => if p a then some (f a) else none := by
  induction l with
  | nil => rfl
  | cons a l ih =>
    simp only [List.filter_cons, List.filterMap_cons]
    cases hp : p a <;> simp [hp, ih]

theorem filter_flatMap_as_flatMap {α β : Type} (l : List α) (p : α → Bool) (f : α → List β) :
    (l.filter p).flatMap f = l.flatMap fun a => if p a then f a else [] := by
  induction l with
  | nil => rfl
  | cons a l ih =>
    simp only [List.filter_cons, List.flatMap_cons]
    cases hp : p a <;> simp [hp, ih]

/-- The two join orders, for one starting row, as one enumeration of pairs of matches. -/
def pairGen (r : Row) (m1 m2 : Row) : Option Row :=
  if compatible r m1 && compatible (r.merge m1) m2 then some ((r.merge m1).merge m2) else none

theorem two_steps_form (M1 M2 : List Row) (r : Row) :
    (((M1.filter (compatible r)).map r.merge).flatMap fun x => ((M2.filter (compatible x)).map x.merge)) =
      M1.flatMap fun m1 => M2.filterMap (pairGen r m1) := by
  rw [List.flatMap_map, filter_flatMap_as_flatMap]
  apply BW.Proofs.Rename.flatMap_congr'
  intro m1 _
  rw [filter_map_as_filterMap]
  unfold pairGen
  cases h : compatible r m1
  · simp only [Bool.false_eq_true, if_false, Bool.false_and]
    induction M2 with
    | nil => rfl
    | cons b M2 ih => simpa using ih
  · simp only [if_true, Bool.true_and]

theorem swap_one_row (M1 M2 : List Row) (hM1 : AllNodup M1) (hM2 : AllNodup M2) (r : Row) (hr : KeysNodup r) :
    PermEq (M1.flatMap fun m1 => M2.filterMap (pairGen r m1)) (M2.flatMap fun m2 => M1.filterMap (pairGen r m2)) := by
  refine ⟨M2.flatMap fun m2 => M1.filterMap fun m1 => pairGen r m1 m2, nested_swap M1 M2 (pairGen r), ?_⟩
  apply nested_forall₂ M1 M2 (fun m1 m2 => pairGen r m1 m2) (fun m1 m2 => pairGen r m2 m1)
  intro m1 h1 m2 h2
  have sw := two_matches_swap r m1 m2 hr (hM1 m1 h1) (hM2 m2 h2)
  unfold pairGen
  constructor
  · cases hc : (compatible r m1 && compatible (r.merge m1) m2) with
    | true => rw [sw.1] at hc; simp [hc, sw.1]
    | false => rw [sw.1] at hc; simp [hc, sw.1]
  · intro x y hx hy
    by_cases hc : (compatible r m1 && compatible (r.merge m1) m2) = true
    · simp only [hc, if_true, Option.some.injEq] at hx
      rw [sw.1] at hc
      simp only [hc, if_true, Option.some.injEq] at hy
      subst hx; subst hy
      exact sw.2 (by rw [sw.1]; exact hc)
    · simp [hc] at hx

theorem joinClause_swap (scan : List Triple) (glo ghi : Option Int) (rows : List Row) (c1 c2 : Clause)
    (h1 : Plain c1) (h2 : Plain c2) (hn : AllNodup rows) :
    PermEq (joinClause scan glo ghi (joinClause scan glo ghi rows c1) c2)
           (joinClause scan glo ghi (joinClause scan glo ghi rows c2) c1) := by
  rw [joinClause_plain scan glo ghi rows c1 h1, joinClause_plain scan glo ghi rows c2 h2,
    joinClause_plain scan glo ghi _ c2 h2, joinClause_plain scan glo ghi _ c1 h1]
  rw [List.flatMap_assoc, List.flatMap_assoc]
  apply PermEq.flatMap
  intro r hr
  rw [two_steps_form, two_steps_form]
  exact swap_one_row _ _ (matchesOf_nodup scan glo ghi c1) (matchesOf_nodup scan glo ghi c2) r (hn r hr)

/-! ### Any order of plain clauses -/

theorem foldl_permEq (scan : List Triple) (glo ghi : Option Int) (cs : List Clause) (hc : ∀ c ∈ cs, Plain c)
    (rows rows' : List Row) (hn : AllNodup rows) (hn' : AllNodup rows') (h : PermEq rows rows') :
    PermEq (cs.foldl (joinClause scan glo ghi) rows) (cs.foldl (joinClause scan glo ghi) rows') := by
  induction cs generalizing rows rows' with
  | nil => exact h
  | cons c cs ih =>
    simp only [List.foldl_cons]
    have hp := hc c (by simp)
    exact ih (fun x hx => hc x (List.mem_cons_of_mem _ hx)) _ _ (joinClause_nodup scan glo ghi rows c hp hn)
      (joinClause_nodup scan glo ghi rows' c hp hn') (joinClause_permEq scan glo ghi rows rows' c hp hn hn' h)

theorem foldl_nodup (scan : List Triple) (glo ghi : Option Int) (cs : List Clause) (hc : ∀ c ∈ cs, Plain c)
    (rows : List Row) (hn : AllNodup rows) : AllNodup (cs.foldl (joinClause scan glo ghi) rows) := by
  induction cs generalizing rows with
  | nil => exact hn
  | cons c cs ih =>
    simp only [List.foldl_cons]
    exact ih (fun x hx => hc x (List.mem_cons_of_mem _ hx)) _ (joinClause_nodup scan glo ghi rows c (hc c (by simp)) hn)

theorem foldl_clause_perm (scan : List Triple) (glo ghi : Option Int) (cs cs' : List Clause) (hp : cs.Perm cs')
    (hc : ∀ c ∈ cs, Plain c) : ∀ rows, AllNodup rows →
    PermEq (cs.foldl (joinClause scan glo ghi) rows) (cs'.foldl (joinClause scan glo ghi) rows) := by
  induction hp with
  | nil => intro rows _; exact PermEq.refl _
  | cons c _ ih =>
    intro rows hn
    simp only [List.foldl_cons]
    exact ih (fun x hx => hc x (List.mem_cons_of_mem _ hx)) _ (joinClause_nodup scan glo ghi rows c (hc c (by simp)) hn)
  | swap c1 c2 cs =>
    intro rows hn
    simp only [List.foldl_cons]
    have h2 := hc c2 (by simp)
    have h1 := hc c1 (by simp)
    apply foldl_permEq scan glo ghi cs (fun x hx => hc x (by simp [hx]))
    · exact joinClause_nodup _ _ _ _ _ h1 (joinClause_nodup _ _ _ _ _ h2 hn)
    · exact joinClause_nodup _ _ _ _ _ h2 (joinClause_nodup _ _ _ _ _ h1 hn)
    · exact joinClause_swap scan glo ghi rows c2 c1 h2 h1 hn
  | trans hp1 _ ih1 ih2 =>
    intro rows hn
    exact PermEq.trans (ih1 hc rows hn) (ih2 (fun x hx => hc x (hp1.symm.subset hx)) rows hn)

/-- What a result table shows of a row: the cells of the selected bindings, anchors as instants. -/
def obs (ks : List Bytes) (r : Row) : List (Option Cell) := ks.map fun k => (r.get k).map normCell

theorem obs_congr (ks : List Bytes) (r r' : Row) (h : RowEq r r') : obs ks r = obs ks r' := by
  unfold obs
  apply List.map_congr_left
  intro k _
  exact h k

theorem permEq_obs (ks : List Bytes) (l l' : List Row) (h : PermEq l l') : (l.map (obs ks)).Perm (l'.map (obs ks)) := by
  obtain ⟨m, hp, hf⟩ := h
  refine (hp.map _).trans ?_
  have : ∀ (a b : List Row), RelL a b → a.map (obs ks) = b.map (obs ks) := by
    intro a b hab
    induction hab with
    | nil => rfl
    | cons h _ ih => simp only [List.map_cons, obs_congr ks _ _ h, ih]
  rw [this m l' hf]

/-- The order in which the clauses of a pattern are written does not matter (no OPTIONAL, no predicate
    bounded by another clause's bindings): for every selection of bindings the result rows are the same
    multiset. -/
theorem solutions_clause_order (scan : List Triple) (glo ghi : Option Int) (cs cs' : List Clause) (hp : cs.Perm cs')
    (hc : ∀ c ∈ cs, Plain c) (ks : List Bytes) :
    ((solutions scan glo ghi cs).map (obs ks)).Perm ((solutions scan glo ghi cs').map (obs ks)) := by
  unfold solutions
  apply permEq_obs
  exact foldl_clause_perm scan glo ghi cs cs' hp hc [[]] (by intro r hr; simp at hr; subst hr; simp [KeysNodup])

end BW.Proofs.ClauseOrder
