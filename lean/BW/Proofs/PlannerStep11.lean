/-
C03, the whole pattern: `processGraphPattern` computes the solutions of the reference semantics
(`processPattern_spec`): congruence of the reference's join under equality of rows up to anchor
representation, the loop invariant, the first clause.
-/
import BW.Proofs.PlannerStep10
set_option linter.unusedSimpArgs false
open BW.Model BW.Spec BW.Proofs.ClauseOrder BW.Proofs.Store BW.Proofs.Lookup

namespace BW.Proofs.Planner

variable {gs : List QGraph}

theorem rowTime_congr {r r' : Row} (h : RowEq r r') (k : Bytes) : rowTime r k = rowTime r' k := by
  unfold rowTime
  have := h k
  cases h1 : r.get k <;> cases h2 : r'.get k <;> simp [h1, h2] at this ⊢
  rename_i v v'
  cases v <;> cases v' <;> simp [normCell] at this ⊢
  exact this

theorem clauseWindow_congr (glo ghi : Option Int) (c : Clause) {r r' : Row} (h : RowEq r r') :
    clauseWindow glo ghi c r = clauseWindow glo ghi c r' := by
  unfold clauseWindow
  simp only [rowTime_congr h]

theorem nullRow_congr (bs : List Bytes) {r r' : Row} (h : RowEq r r') : nullRow bs r = nullRow bs r' := by
  unfold nullRow
  congr 1
  apply List.filter_congr
  intro k _
  rw [rowEq_has h]

/-- The reference's join of one row respects equality of rows up to anchor representation. -/
theorem specJoin_congr (scan : List Triple) (glo ghi : Option Int) (c : Clause) {r r' : Row} (hn : KeysNodup r)
    (hn' : KeysNodup r') (h : RowEq r r') : SetEq (specJoin scan glo ghi c r) (specJoin scan glo ghi c r') := by
  have hf : (scan.filterMap (matchClause c (clauseWindow glo ghi c r))).filter (compatible r) =
      (scan.filterMap (matchClause c (clauseWindow glo ghi c r'))).filter (compatible r') := by
    rw [clauseWindow_congr glo ghi c h]
    apply List.filter_congr
    intro m _
    exact compatible_congr r r' m m hn hn' h (RowEq.refl m)
  have hmap : ∀ M : List Row, SetEq (M.map r.merge) (M.map r'.merge) := by
    intro M
    constructor
    · intro x hx
      obtain ⟨m, hm, rfl⟩ := List.mem_map.mp hx
      exact ⟨r'.merge m, List.mem_map.mpr ⟨m, hm, rfl⟩, merge_congr r r' m m h (RowEq.refl m)⟩
    · intro x hx
      obtain ⟨m, hm, rfl⟩ := List.mem_map.mp hx
      exact ⟨r.merge m, List.mem_map.mpr ⟨m, hm, rfl⟩, merge_congr r r' m m h (RowEq.refl m)⟩
  unfold specJoin
  simp only [hf]
  have hnull : RowEq (r.merge (nullRow c.bindings r)) (r'.merge (nullRow c.bindings r')) := by
    rw [nullRow_congr c.bindings h]
    exact merge_congr r r' _ _ h (RowEq.refl _)
  split
  · split
    · exact ⟨fun x hx => ⟨_, List.mem_singleton.mpr rfl, by simp only [List.mem_singleton] at hx; subst hx; exact hnull⟩,
        fun x hx => ⟨_, List.mem_singleton.mpr rfl, by simp only [List.mem_singleton] at hx; subst hx; exact hnull⟩⟩
    · exact hmap _
  · exact hmap _

theorem joinClause_setEq (scan : List Triple) (glo ghi : Option Int) (c : Clause) {rows rows' : List Row}
    (hn : ∀ r ∈ rows, KeysNodup r) (hn' : ∀ r ∈ rows', KeysNodup r) (h : SetEq rows rows') :
    SetEq (joinClause scan glo ghi rows c) (joinClause scan glo ghi rows' c) := by
  rw [joinClause_eq, joinClause_eq]
  constructor
  · intro x hx
    obtain ⟨r, hr, hxr⟩ := List.mem_flatMap.mp hx
    obtain ⟨r', hr', e⟩ := h.1 r hr
    obtain ⟨x', hx', e'⟩ := (specJoin_congr scan glo ghi c (hn r hr) (hn' r' hr') e).1 x hxr
    exact ⟨x', List.mem_flatMap.mpr ⟨r', hr', hx'⟩, e'⟩
  · intro x hx
    obtain ⟨r', hr', hxr⟩ := List.mem_flatMap.mp hx
    obtain ⟨r, hr, e⟩ := h.2 r' hr'
    obtain ⟨x', hx', e'⟩ := (specJoin_congr scan glo ghi c (hn r hr) (hn' r' hr') e).2 x hxr
    exact ⟨x', List.mem_flatMap.mpr ⟨r, hr, hx'⟩, e'⟩

theorem joinClause_allNodup (scan : List Triple) (glo ghi : Option Int) (c : Clause) {rows : List Row}
    (hn : ∀ r ∈ rows, KeysNodup r) : ∀ x ∈ joinClause scan glo ghi rows c, KeysNodup x := by
  intro x hx
  rw [joinClause_eq] at hx
  obtain ⟨r, hr, hxr⟩ := List.mem_flatMap.mp hx
  have hm : ∀ m ∈ (scan.filterMap (matchClause c (clauseWindow glo ghi c r))).filter (compatible r), KeysNodup (r.merge m) := by
    intro m hm
    obtain ⟨t, _, hmc⟩ := List.mem_filterMap.mp (List.mem_filter.mp hm).1
    exact merge_nodup r m (hn r hr) (matchClause_nodup _ _ _ _ hmc)
  unfold specJoin at hxr
  simp only at hxr
  split at hxr
  · split at hxr
    · simp only [List.mem_singleton] at hxr; subst hxr
      exact merge_nodup r _ (hn r hr) (nullRow_nodup _ (bindings_nodup c) r)
    · obtain ⟨m, hm', rfl⟩ := List.mem_map.mp hxr; exact hm m hm'
  · obtain ⟨m, hm', rfl⟩ := List.mem_map.mp hxr; exact hm m hm'

/-! ### The same for `joinClauseO` -/

/-- `matchClause` reads the object's interval as instants only. -/
def matchClauseN (c : Clause) (loN hiN : Option Int) (w : Window) (t : Triple) : Option Row :=
  if !constsMatch c t then none else
  if c.pID ≠ [] && (t.p.id ≠ c.pID) then none else
  if c.pID ≠ [] && c.pTemporal && c.pAnchorBinding = [] && t.p.anchor.isNone then none else
  if !w.holds t.p then none else
  if c.oID ≠ [] && (match t.o with
      | .pred p => p.id ≠ c.oID || (c.oTemporal && c.oAnchorBinding = [] && p.anchor.isNone) ||
          (c.oAnchorBinding = [] && c.oTemporal && !(({ lower := loN, upper := hiN } : Window).holds p))
      | _ => false) then none else
  (clauseSteps c t).foldl bindStep (some [])

theorem matchClause_setO (c : Clause) (lo hi : Option Time) (la ua : Bytes) (w : Window) (t : Triple) :
    matchClause (setO lo hi la ua c) w t = matchClauseN c (lo.map (·.nanos)) (hi.map (·.nanos)) w t := rfl

theorem rowBound_congr {r r' : Row} (h : RowEq r r') (alias : Bytes) (own : Option Time) :
    (rowBound r alias own).map (·.nanos) = (rowBound r' alias own).map (·.nanos) := by
  unfold rowBound
  by_cases ha : alias = []
  · simp [ha]
  · simp only [ha, if_false]
    unfold rowTimeT
    have := h alias
    cases h1 : r.get alias <;> cases h2 : r'.get alias <;> simp [h1, h2] at this ⊢
    rename_i v v'
    cases v <;> cases v' <;> simp [normCell] at this ⊢
    exact this

/-- The clause a row sees depends on the row only up to anchor representation, as far as matching goes. -/
theorem specJoin_rowBounds_congr (scan : List Triple) (glo ghi : Option Int) (c : Clause) {r r' : Row} (h : RowEq r r') (x : Row) :
    specJoin scan glo ghi (withRowObjBounds c r) x = specJoin scan glo ghi (withRowObjBounds c r') x := by
  unfold specJoin
  rw [withRowObjBounds_eq, withRowObjBounds_eq]
  have hm : ∀ w, matchClause (setO (rowBound r c.oLowerAlias c.oLower) (rowBound r c.oUpperAlias c.oUpper) c.oLowerAlias c.oUpperAlias c) w =
      matchClause (setO (rowBound r' c.oLowerAlias c.oLower) (rowBound r' c.oUpperAlias c.oUpper) c.oLowerAlias c.oUpperAlias c) w := by
    intro w; funext t
    rw [matchClause_setO, matchClause_setO, rowBound_congr h, rowBound_congr h]
  have hw : ∀ lo hi, clauseWindow glo ghi (setO lo hi c.oLowerAlias c.oUpperAlias c) x = clauseWindow glo ghi c x := fun _ _ => rfl
  have hb : ∀ lo hi, (setO lo hi c.oLowerAlias c.oUpperAlias c).bindings = c.bindings := fun _ _ => rfl
  have ho : ∀ lo hi, (setO lo hi c.oLowerAlias c.oUpperAlias c).optional = c.optional := fun _ _ => rfl
  simp only [hw, hb, ho, hm]

theorem specJoinO_congr (scan : List Triple) (glo ghi : Option Int) (c : Clause) {r r' : Row} (hn : KeysNodup r)
    (hn' : KeysNodup r') (h : RowEq r r') : SetEq (specJoinO scan glo ghi c r) (specJoinO scan glo ghi c r') := by
  rw [specJoinO_eq, specJoinO_eq, specJoin_rowBounds_congr scan glo ghi c h r]
  exact specJoin_congr scan glo ghi _ hn hn' h

theorem joinClauseO_setEq (scan : List Triple) (glo ghi : Option Int) (c : Clause) {rows rows' : List Row}
    (hn : ∀ r ∈ rows, KeysNodup r) (hn' : ∀ r ∈ rows', KeysNodup r) (h : SetEq rows rows') :
    SetEq (joinClauseO scan glo ghi rows c) (joinClauseO scan glo ghi rows' c) := by
  rw [joinClauseO_flat, joinClauseO_flat]
  constructor
  · intro x hx
    obtain ⟨r, hr, hxr⟩ := List.mem_flatMap.mp hx
    obtain ⟨r', hr', e⟩ := h.1 r hr
    obtain ⟨x', hx', e'⟩ := (specJoinO_congr scan glo ghi c (hn r hr) (hn' r' hr') e).1 x hxr
    exact ⟨x', List.mem_flatMap.mpr ⟨r', hr', hx'⟩, e'⟩
  · intro x hx
    obtain ⟨r', hr', hxr⟩ := List.mem_flatMap.mp hx
    obtain ⟨r, hr, e⟩ := h.2 r' hr'
    obtain ⟨x', hx', e'⟩ := (specJoinO_congr scan glo ghi c (hn r hr) (hn' r' hr') e).2 x hxr
    exact ⟨x', List.mem_flatMap.mpr ⟨r, hr, hx'⟩, e'⟩

theorem joinClauseO_allNodup (scan : List Triple) (glo ghi : Option Int) (c : Clause) {rows : List Row}
    (hn : ∀ r ∈ rows, KeysNodup r) : ∀ x ∈ joinClauseO scan glo ghi rows c, KeysNodup x := by
  intro x hx
  rw [joinClauseO_flat] at hx
  obtain ⟨r, hr, hxr⟩ := List.mem_flatMap.mp hx
  rw [specJoinO_eq, ← joinClause_single] at hxr
  exact joinClause_allNodup scan glo ghi _ (rows := [r]) (fun r' hr' => by
    simp only [List.mem_singleton] at hr'; subst hr'; exact hn r' hr) x hxr

/-- What is assumed of every clause of the pattern. -/
structure PatClause (U : Universe gs) (c : Clause) : Prop where
  wf : ClauseWF c
  consts : ConstWF c
  inU : ClauseIn U c
  noBareAliases : c.extractsNothing = true → c.bindings = []
  /-- a bound alias of the object's interval stands in place of a constant bound -/
  objBoundExcl : (c.oLowerAlias ≠ [] → c.oLower = none) ∧ (c.oUpperAlias ≠ [] → c.oUpper = none)

theorem foldl_join_nil (scan : List Triple) (glo ghi : Option Int) (cs : List Clause) :
    cs.foldl (joinClauseO scan glo ghi) [] = [] := by
  induction cs with
  | nil => rfl
  | cons c cs ih => simp only [List.foldl_cons]; rw [show joinClauseO scan glo ghi [] c = [] from rfl]; exact ih

theorem foldl_join_setEq (scan : List Triple) (glo ghi : Option Int) (cs : List Clause) :
    ∀ {rows rows' : List Row}, (∀ r ∈ rows, KeysNodup r) → (∀ r ∈ rows', KeysNodup r) → SetEq rows rows' →
    SetEq (cs.foldl (joinClauseO scan glo ghi) rows) (cs.foldl (joinClauseO scan glo ghi) rows') := by
  induction cs with
  | nil => intro rows rows' _ _ h; exact h
  | cons c cs ih =>
    intro rows rows' hn hn' h
    simp only [List.foldl_cons]
    exact ih (joinClauseO_allNodup _ _ _ c hn) (joinClauseO_allNodup _ _ _ c hn') (joinClauseO_setEq _ _ _ c hn hn' h)

/-- The loop of `processGraphPattern`, from a table that already has bindings. -/
theorem go_spec {F : Facts} (hF : Facts.WF F = true) (hg : GraphsOK F gs) (U : Universe gs) (lo : QOpts) :
    ∀ (cs : List Clause), (∀ c ∈ cs, PatClause U c) → ∀ (tbl out : Tbl), TblOK U tbl → tbl.bindings ≠ [] →
      processPattern.go F gs lo 0 (fun _ => none) tbl cs = .ok out →
      SetEq out.rows (cs.foldl (joinClauseO (gs.flatMap scanOf) (nl lo.lower) (nl lo.upper)) tbl.rows) := by
  intro cs
  induction cs with
  | nil =>
    intro _ tbl out _ _ h
    simp only [processPattern.go, Except.ok.injEq] at h
    subst h; exact SetEq.refl _
  | cons c cs ih =>
    intro hcs tbl out ht hB h
    have hc := hcs c List.mem_cons_self
    simp only [processPattern.go, bind, Except.bind] at h
    cases hp : processClause F gs tbl c { lo with filter := none } 0 with
    | error e => simp [hp] at h
    | ok res =>
      obtain ⟨t, unres⟩ := res
      simp only [hp] at h
      obtain ⟨a1, a2, a3, a4⟩ := processClause_spec hF hg U ht hc.wf hc.consts hc.inU (lo := { lo with filter := none }) rfl hc.objBoundExcl
        (fun hb => absurd hb hB) (fun he hb => absurd (hc.noBareAliases he) hb) hp
      simp only [List.foldl_cons]
      rw [absRows_of_ne hB] at a3 a4
      cases unres with
      | true =>
        simp only [if_true, pure, Except.pure, Except.ok.injEq] at h
        subst h
        have := a4 rfl
        have e : joinClauseO (gs.flatMap scanOf) (nl lo.lower) (nl lo.upper) tbl.rows c = [] := this
        rw [e, foldl_join_nil]
        exact SetEq.refl _
      | false =>
        simp only [Bool.false_eq_true, if_false] at h
        have hset := a3 rfl
        rw [absRows_of_ne a2] at hset
        have := ih (fun c' hc' => hcs c' (List.mem_cons_of_mem _ hc')) t out a1 a2 h
        refine this.trans (foldl_join_setEq _ _ _ cs (fun r hr => (a1.rows r hr).1) ?_ hset)
        exact joinClauseO_allNodup _ _ _ c (fun r hr => (ht.rows r hr).1)

theorem tblOK_empty (U : Universe gs) : TblOK U {} := by
  have e : ({} : Tbl).rows = [] := rfl
  refine ⟨?_, ?_, fun _ => rfl⟩
  · intro r hr; rw [e] at hr; cases hr
  · intro r hr; rw [e] at hr; cases hr

/-- **The planner's table is the set of solutions.** For every conjunctive pattern whose first clause is
    mandatory and extracts something, whenever `processGraphPattern` succeeds its table holds — as a set of
    rows, up to the zone in which an anchor is written — exactly the solutions of the reference semantics:
    the join, clause by clause, of the matches of each clause on a scan of the listed graphs. -/
theorem processPattern_spec {F : Facts} (hF : Facts.WF F = true) (hg : GraphsOK F gs) (U : Universe gs) (lo : QOpts)
    (c0 : Clause) (cs : List Clause) (h0 : PatClause U c0) (hrest : ∀ c ∈ cs, PatClause U c)
    (hopt : c0.optional = false) (hex : c0.extractsNothing = false) (out : Tbl)
    (h : processPattern F gs (c0 :: cs) lo 0 (fun _ => none) = .ok out) :
    SetEq out.rows (solutionsO (gs.flatMap scanOf) (nl lo.lower) (nl lo.upper) (c0 :: cs)) := by
  unfold processPattern at h
  simp only [processPattern.go, bind, Except.bind] at h
  unfold solutionsO
  simp only [List.foldl_cons]
  cases hp : processClause F gs {} c0 { lo with filter := none } 0 with
  | error e => simp [hp] at h
  | ok res =>
    obtain ⟨t, unres⟩ := res
    simp only [hp] at h
    obtain ⟨a1, a2, a3, a4⟩ := processClause_spec hF hg U (tblOK_empty U) h0.wf h0.consts h0.inU
      (lo := { lo with filter := none }) rfl h0.objBoundExcl (fun _ => ⟨hopt, hex⟩) (fun he hb => absurd (h0.noBareAliases he) hb) hp
    have habs : absRows ({} : Tbl) = [[]] := rfl
    rw [habs] at a3 a4
    have hn1 : ∀ r ∈ ([[]] : List Row), KeysNodup r := by
      intro r hr; simp only [List.mem_singleton] at hr; subst hr; exact List.nodup_nil
    cases unres with
    | true =>
      simp only [if_true, pure, Except.pure, Except.ok.injEq] at h
      subst h
      have e : joinClauseO (gs.flatMap scanOf) (nl lo.lower) (nl lo.upper) [[]] c0 = [] := a4 rfl
      rw [e, foldl_join_nil]
      exact SetEq.refl _
    | false =>
      simp only [Bool.false_eq_true, if_false] at h
      have hset := a3 rfl
      rw [absRows_of_ne a2] at hset
      have := go_spec hF hg U lo cs hrest t out a1 a2 h
      exact this.trans (foldl_join_setEq _ _ _ cs (fun r hr => (a1.rows r hr).1)
        (joinClauseO_allNodup _ _ _ c0 hn1) hset)

/-- The same for patterns without object intervals bounded by bindings: the plain `solutions`. -/
theorem processPattern_spec_plain {F : Facts} (hF : Facts.WF F = true) (hg : GraphsOK F gs) (U : Universe gs) (lo : QOpts)
    (c0 : Clause) (cs : List Clause) (h0 : PatClause U c0) (hrest : ∀ c ∈ cs, PatClause U c)
    (hno : ∀ c ∈ c0 :: cs, c.oLowerAlias = [] ∧ c.oUpperAlias = [])
    (hopt : c0.optional = false) (hex : c0.extractsNothing = false) (out : Tbl)
    (h : processPattern F gs (c0 :: cs) lo 0 (fun _ => none) = .ok out) :
    SetEq out.rows (solutions (gs.flatMap scanOf) (nl lo.lower) (nl lo.upper) (c0 :: cs)) := by
  rw [← solutionsO_eq _ _ _ _ hno]
  exact processPattern_spec hF hg U lo c0 cs h0 hrest hopt hex out h

end BW.Proofs.Planner
