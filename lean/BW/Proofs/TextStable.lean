/-
C15, "whatever they accept prints to text that they accept again as an equal value": what the node, literal
and object parsers accept satisfies the premises of the round-trip theorems of C05 (`parseNode_ok`,
`parseLit_ok`, `parseObject_ok`), hence is stable under print-and-parse; predicates are stable outright.
-/
import BW.Proofs.Text
open BW.Model BW.Model.Text BW.Proofs.Text

namespace BW.Proofs.TextStable

theorem indexOf_single_take (c : UInt8) : ∀ (l : Bytes) (idx : Nat), indexOf [c] l = some idx → c ∉ l.take idx := by
  intro l
  induction l with
  | nil => intro idx h; simp [indexOf] at h
  | cons x xs ih =>
    intro idx h
    unfold indexOf at h
    by_cases hp : [c].isPrefixOf (x :: xs) = true
    · simp only [hp, if_true, Option.some.injEq] at h
      subst h; simp
    · simp only [hp, Bool.false_eq_true, if_false] at h
      cases hr : indexOf [c] xs with
      | none => simp [hr] at h
      | some j =>
        simp only [hr, Option.map_some, Option.some.injEq] at h
        subst h
        simp only [List.take_succ_cons, List.mem_cons, not_or]
        refine ⟨?_, ih j hr⟩
        intro e; subst e
        simp [List.isPrefixOf] at hp

end BW.Proofs.TextStable

namespace BW.Proofs.TextStable

/-- What the node parser accepts satisfies the premises of the node round trip. -/
theorem parseNode_ok (s : Bytes) (n : Node) (h : parseNode s = some n) : NodeOK n := by
  unfold parseNode at h
  simp only at h
  by_cases hlen : (trim s).length < 2
  · simp [hlen] at h
  · simp only [hlen, if_false] at h
    cases hr : trim s with
    | nil => simp [hr] at h
    | cons c rest =>
      rw [hr] at h
      simp only at h
      by_cases hc : (c == slash) = true
      · simp only [hc, if_true] at h
        cases hidx : indexOf [lt] (c :: rest) with
        | none => simp [hidx] at h
        | some idx =>
          simp only [hidx] at h
          by_cases hty : validType (List.take idx (c :: rest)) = true
          · simp only [hty, Bool.not_true, Bool.false_eq_true, if_false] at h
            by_cases hl : ((c :: rest).getLast? != some gt) = true
            · simp [hl] at h
            · simp only [hl, Bool.false_eq_true, if_false] at h
              by_cases hid : validID (List.take ((c :: rest).length - 1 - (idx + 1)) (List.drop (idx + 1) (c :: rest))) = true
              · simp only [hid, Bool.not_true, Bool.false_eq_true, if_false, Option.some.injEq] at h
                subst h
                exact ⟨hty, indexOf_single_take lt _ _ hidx, hid⟩
              · have hid' := (Bool.not_eq_true _).mp hid
                simp only [hid', Bool.not_false, if_true] at h
                cases h
          · simp [hty] at h
      · simp only [hc, Bool.false_eq_true, if_false] at h
        by_cases hu : (c == underscore) = true
        · simp only [hu, if_true] at h
          by_cases hid : validID (List.drop 2 (c :: rest)) = true
          · simp only [hid, Bool.not_true, Bool.false_eq_true, if_false, Option.some.injEq] at h
            subst h
            refine ⟨?_, ?_, hid⟩
            · show validType [slash, underscore] = true; decide
            · show lt ∉ [slash, underscore]; decide
          · have hid' := (Bool.not_eq_true _).mp hid
            simp only [hid', Bool.not_false, if_true] at h
            cases h
        · simp [hu] at h

theorem parseInt64_range (s : Bytes) (i : Int) (h : parseInt64 s = some i) : IsI64 i := by
  unfold parseInt64 at h
  simp only at h
  generalize (if (s.head? == some 45 || s.head? == some 43) = true then s.drop 1 else s) = ds at h
  by_cases h1 : (ds.isEmpty || !ds.all isDigit) = true
  · rw [if_pos h1] at h; cases h
  · rw [if_neg h1] at h
    by_cases hneg : (s.head? == some 45) = true
    · rw [if_pos hneg] at h
      by_cases hb : natOfDigits ds ≤ 9223372036854775808
      · rw [if_pos hb] at h; injection h with h; subst h; unfold IsI64; omega
      · rw [if_neg hb] at h; cases h
    · rw [if_neg hneg] at h
      by_cases hb : natOfDigits ds ≤ 9223372036854775807
      · rw [if_pos hb] at h; injection h with h; subst h; unfold IsI64; omega
      · rw [if_neg hb] at h; cases h

theorem parseLit_ok (L : Leaf) (hL : LeafLaws L) (s : Bytes) (l : Lit) (h : parseLit L s = some l) : LitOK L l := by
  cases l with
  | float b =>
    unfold parseLit at h
    simp only at h
    repeat' (split at h)
    all_goals first
      | (cases h; done)
      | skip
    all_goals
      first
        | (simp only [Option.map_eq_some_iff] at h
           obtain ⟨a, ha, e⟩ := h
           first
             | (injection e with e; subst e; exact hL.float_parsed_ok _ _ ha)
             | cases e)
        | (injection h with h; cases h)
        | trivial
  | int i =>
    unfold parseLit at h
    simp only at h
    repeat' (split at h)
    all_goals first
      | (cases h; done)
      | skip
    all_goals
      first
        | (simp only [Option.map_eq_some_iff] at h
           obtain ⟨a, ha, e⟩ := h
           first
             | (injection e with e; subst e; exact parseInt64_range _ _ ha)
             | cases e)
        | (injection h with h; cases h)
        | trivial
  | _ => trivial

end BW.Proofs.TextStable

namespace BW.Proofs.TextStable

/-- What the node parser accepts prints to text it accepts again as the same node. -/
theorem node_stable (s : Bytes) (n : Node) (h : parseNode s = some n) : parseNode (printNode n) = some n :=
  parseNode_printNode n (parseNode_ok s n h)

/-- What the predicate parser yields has an anchor the format can write (the time parser yields no other). -/
theorem parsePred_ok (L : Leaf) (hL : LeafLaws L) (s : Bytes) (p : Pred) (h : parsePred L s = some p) : PredOK L p := by
  unfold parsePred at h
  simp only at h
  split at h
  · cases h
  · split at h
    · cases h
    · split at h
      · cases h
      · split at h
        · cases h
        · split at h
          · cases h
          · split at h
            · cases h; trivial
            · simp only [Option.map_eq_some_iff] at h
              obtain ⟨t, ht, e⟩ := h
              subst e
              exact hL.time_parsed_ok _ t ht

/-- Predicates: what the parser accepts prints to text that parses back to it. -/
theorem pred_stable (L : Leaf) (hL : LeafLaws L) (s : Bytes) (p : Pred) (h : parsePred L s = some p) :
    parsePred L (printPred L p) = some p := parsePred_printPred L hL p (parsePred_ok L hL s p h)

theorem lit_stable (L : Leaf) (hL : LeafLaws L) (s : Bytes) (l : Lit) (h : parseLit L s = some l) :
    parseLit L (printLit L l) = some l := by
  exact parseLit_printLit L hL l (parseLit_ok L hL s l h)

theorem parseObject_ok (L : Leaf) (hL : LeafLaws L) (s : Bytes) (o : Obj) (h : parseObject L s = some o) : ObjOK L o := by
  unfold parseObject parseObjectWith at h
  cases hn : parseNode s with
  | some n =>
    simp only [hn, Option.some.injEq] at h; subst h
    exact parseNode_ok s n hn
  | none =>
    simp only [hn] at h
    cases hl : parseLit L s with
    | some l =>
      simp only [hl, Option.some.injEq] at h; subst h
      exact parseLit_ok L hL s l hl
    | none =>
      simp only [hl, Option.map_eq_some_iff] at h
      obtain ⟨p, hp, e⟩ := h
      subst e; exact parsePred_ok L hL s p hp

theorem obj_stable (L : Leaf) (hL : LeafLaws L) (s : Bytes) (o : Obj) (h : parseObject L s = some o) :
    parseObject L (printObj L o) = some o :=
  parseObject_printObj L hL o (parseObject_ok L hL s o h)

end BW.Proofs.TextStable
