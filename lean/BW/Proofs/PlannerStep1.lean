/-
Towards C03, the per-row strategy of the planner (`specifyClauseWithTable`): facts about the binding
steps of a clause on a triple, and about `specialise` — it changes nothing but the constants of the
clause, and every constant it adds is one that any match compatible with the row has anyway.
-/
import BW.Proofs.PlannerFetch3
open BW.Model BW.Spec BW.Proofs.ClauseOrder BW.Proofs.Store BW.Proofs.Lookup

namespace BW.Proofs.Planner

/-! ### What the binding steps leave in a row -/

theorem bindSame_get {r r' : Row} {k : Bytes} {c : Cell} (hk : k ≠ []) (h : bindSame (some r) k c = some r') (k' : Bytes) :
    r'.get k' = if k' = k then some c else r.get k' := by
  unfold bindSame at h
  simp only [hk, if_false] at h
  cases hg : r.get k with
  | none =>
    simp only [hg, Option.some.injEq] at h
    subst h
    rw [get_append_single]
    by_cases hkk : k' = k
    · subst hkk; simp [hg]
    · have : (k == k') = false := by simpa using fun e => hkk e.symm
      cases r.get k' <;> simp [hkk, this]
  | some old =>
    simp only [hg] at h
    split at h
    · simp only [Option.some.injEq] at h
      subst h
      exact get_set_has r k c k' (by rw [has_iff_get, hg]; rfl)
    · cases h

theorem bindStep_get {r r' : Row} {kv : Bytes × Option Cell} (h : bindStep (some r) kv = some r') (k' : Bytes) :
    r'.get k' = if k' = kv.1 ∧ kv.1 ≠ [] then kv.2 else r.get k' := by
  unfold bindStep at h
  by_cases hk : kv.1 = []
  · simp only [hk, if_true, Option.some.injEq] at h
    subst h; simp [hk]
  · simp only [hk, if_false] at h
    cases he : kv.2 with
    | none => simp [he] at h
    | some c =>
      simp only [he] at h
      rw [bindSame_get hk h k']
      by_cases hkk : k' = kv.1 <;> simp [hkk, hk]

/-- A value found in the row after the binding steps was already there or is the value of one of the
    steps; and every named step's key is present, holding a value that is the same value (`normCell`) as
    the step's. -/
theorem foldl_bindStep_get (L : List (Bytes × Option Cell)) (r0 m : Row) (h : L.foldl bindStep (some r0) = some m) :
    (∀ k v, m.get k = some v → r0.get k = some v ∨ ∃ kv ∈ L, kv.1 = k ∧ k ≠ [] ∧ kv.2 = some v) ∧
    (∀ k v0, r0.get k = some v0 → ∃ v, m.get k = some v ∧ normCell v = normCell v0) ∧
    (∀ kv ∈ L, kv.1 ≠ [] → ∃ v c, kv.2 = some c ∧ m.get kv.1 = some v ∧ normCell v = normCell c) := by
  induction L generalizing r0 with
  | nil =>
    simp only [List.foldl_nil, Option.some.injEq] at h
    subst h
    exact ⟨fun k v hv => Or.inl hv, fun k v0 hv => ⟨v0, hv, rfl⟩, fun kv hkv => by simp at hkv⟩
  | cons kv L ih =>
    simp only [List.foldl_cons] at h
    cases hb : bindStep (some r0) kv with
    | none => rw [hb, foldl_bindStep_none] at h; cases h
    | some r1 =>
      rw [hb] at h
      obtain ⟨i1, i2, i3⟩ := ih r1 h
      have hg := bindStep_get hb
      -- same-value fact for the step itself: when the key was present the old value is the same value
      have hsame : ∀ v0, kv.1 ≠ [] → r0.get kv.1 = some v0 → ∀ c, kv.2 = some c → normCell v0 = normCell c := by
        intro v0 hk hv0 c hc
        unfold bindStep at hb
        simp only [hk, if_false, hc] at hb
        unfold bindSame at hb
        simp only [hk, if_false, hv0] at hb
        split at hb
        · rename_i hcs; exact (cellSame_iff _ _).mp hcs
        · cases hb
      refine ⟨?_, ?_, ?_⟩
      · intro k v hv
        rcases i1 k v hv with h1 | ⟨kv', hm, h1, h2, h3⟩
        · rw [hg k] at h1
          by_cases hc : k = kv.1 ∧ kv.1 ≠ []
          · rw [if_pos hc] at h1
            exact Or.inr ⟨kv, List.mem_cons_self, hc.1.symm, by rw [hc.1]; exact hc.2, h1⟩
          · rw [if_neg hc] at h1; exact Or.inl h1
        · exact Or.inr ⟨kv', List.mem_cons_of_mem _ hm, h1, h2, h3⟩
      · intro k v0 hv0
        by_cases hc : k = kv.1 ∧ kv.1 ≠ []
        · have h1 := hg k
          rw [if_pos hc] at h1
          cases he : kv.2 with
          | none =>
            unfold bindStep at hb; simp [hc.2, he] at hb
          | some c =>
            rw [he] at h1
            obtain ⟨v, hv, hn⟩ := i2 k c h1
            refine ⟨v, hv, hn.trans ?_⟩
            exact (hsame v0 hc.2 (by rw [← hc.1]; exact hv0) c he).symm
        · have h1 := hg k
          rw [if_neg hc] at h1
          exact i2 k v0 (by rw [h1]; exact hv0)
      · intro kv' hm hk
        rcases List.mem_cons.mp hm with e | hm'
        · subst e
          cases he : kv'.2 with
          | none => unfold bindStep at hb; simp [hk, he] at hb
          | some c =>
            have h1 := hg kv'.1
            rw [if_pos ⟨rfl, hk⟩, he] at h1
            obtain ⟨v, hv, hn⟩ := i2 kv'.1 c h1
            exact ⟨v, c, rfl, hv, hn⟩
        · exact i3 kv' hm' hk

/-! ### `specialise` only fixes constants -/

def strip (c : Clause) : Clause := { c with s := none, p := none, o := none }

theorem strip_spS (r : Row) (c : Clause) : strip (spS r c) = strip c := by
  unfold spS; split
  · split <;> rfl
  · rfl
theorem strip_spPA (r : Row) (c : Clause) : strip (spPA r c) = strip c := by
  unfold spPA; split
  · split <;> rfl
  · rfl
theorem strip_spP (r : Row) (c : Clause) : strip (spP r c) = strip c := by
  unfold spP; split <;> rfl
theorem strip_spOA (r : Row) (c : Clause) : strip (spOA r c) = strip c := by
  unfold spOA; split
  · split <;> rfl
  · rfl
theorem strip_spO (r : Row) (c : Clause) : strip (spO r c) = strip c := by
  unfold spO; split <;> rfl

theorem clauseSteps_strip (c : Clause) (t : Triple) : clauseSteps c t = clauseSteps (strip c) t := rfl
theorem shouldIgnore_strip (c : Clause) (t : Triple) : shouldIgnore t c = shouldIgnore t (strip c) := rfl
theorem bindings_strip (c : Clause) : c.bindings = (strip c).bindings := rfl
theorem extractsNothing_strip (c : Clause) : c.extractsNothing = (strip c).extractsNothing := rfl

theorem specialise_strip {r : Row} {c c' : Clause} {lo lo' : QOpts} (h : specialise r c lo = .ok (c', lo')) :
    strip c' = strip c := by
  unfold specialise at h
  simp only at h
  split at h
  · cases h
  · rename_i c3 lo3 h3
    have e3 : strip c3 = strip c := by
      split at h3
      · split at h3
        · injection h3 with h3; injection h3 with h3 _; rw [← h3, strip_spP, strip_spPA, strip_spS]
        · cases h3
      · injection h3 with h3; injection h3 with h3 _; rw [← h3, strip_spPA, strip_spS]
    split at h
    · split at h
      · injection h with h; injection h with h _; rw [← h, strip_spO, strip_spOA, e3]
      · cases h
    · injection h with h; injection h with h _; rw [← h, strip_spOA, e3]

/-! ### The constants `specialise` adds are implied by compatibility with the row -/

theorem boundValue_mem (r : Row) (a b : Bytes) (v : Cell) (h : boundValue r [a, b] = some v) :
    (a ≠ [] ∧ r.get a = some v) ∨ (b ≠ [] ∧ r.get b = some v) := by
  unfold boundValue at h
  by_cases ha : a = [] <;> by_cases hb : b = [] <;>
    simp only [ha, hb, List.filter_cons, List.filter_nil, ne_eq, not_true_eq_false, decide_false, decide_true,
      not_false_eq_true, Bool.false_eq_true, if_false, if_true, List.filterMap_cons, List.filterMap_nil] at h
  · cases h
  · cases hg : r.get b with
    | none => simp [hg] at h
    | some x => simp only [hg, Option.some.injEq] at h; exact Or.inr ⟨hb, by rw [h]⟩
  · cases hg : r.get a with
    | none => simp [hg] at h
    | some x => simp only [hg, Option.some.injEq] at h; exact Or.inl ⟨ha, by rw [h]⟩
  · cases hga : r.get a with
    | none =>
      cases hgb : r.get b with
      | none => simp [hga, hgb] at h
      | some y => simp only [hga, hgb, Option.some.injEq] at h; exact Or.inr ⟨hb, by rw [h]⟩
    | some x =>
      cases hgb : r.get b with
      | none => simp only [hga, hgb, Option.some.injEq] at h; exact Or.inl ⟨ha, by rw [h]⟩
      | some y =>
        simp only [hga, hgb] at h
        split at h
        · simp only [Option.some.injEq] at h; exact Or.inl ⟨ha, by rw [h]⟩
        · cases h

theorem compat_value {r m : Row} {k : Bytes} {v0 v' : Cell} (hc : compatible r m = true)
    (h0 : r.get k = some v0) (h1 : m.get k = some v') : normCell v0 = normCell v' := by
  unfold compatible at hc
  have := List.all_eq_true.mp hc (k, v0) (mem_of_get r k v0 h0)
  simp only [h1] at this
  exact (cellSame_iff _ _).mp this

/-- The value a named step leaves is, for a row compatible with the result, the row's value. -/
theorem step_value {c : Clause} {t : Triple} {m r : Row} (hm : specBind c t = some m) (hc : compatible r m = true)
    (k : Bytes) (e : Option Cell) (hmem : (k, e) ∈ clauseSteps c t) (hk : k ≠ []) (v0 : Cell) (h0 : r.get k = some v0) :
    ∃ c0, e = some c0 ∧ normCell v0 = normCell c0 := by
  obtain ⟨_, _, i3⟩ := foldl_bindStep_get (clauseSteps c t) [] m hm
  obtain ⟨v, c0, he, hv, hn⟩ := i3 (k, e) hmem hk
  exact ⟨c0, he, (compat_value hc h0 hv).trans hn⟩

def Implied (r : Row) (c c' : Clause) : Prop :=
  ∀ t m, specBind c t = some m → compatible r m = true → shouldIgnore t c = false →
    constsMatch c t = true → constsMatch c' t = true

def Weaker (c c' : Clause) : Prop := ∀ t, constsMatch c' t = true → constsMatch c t = true

theorem specBind_strip (c : Clause) (t : Triple) : specBind c t = specBind (strip c) t := rfl

theorem Implied.trans {r : Row} {c c2 c3 : Clause} (hs : strip c2 = strip c) (h1 : Implied r c c2) (h2 : Implied r c2 c3) :
    Implied r c c3 := by
  intro t m hm hc hi hcm
  apply h2 t m
  · rw [specBind_strip, hs, ← specBind_strip]; exact hm
  · exact hc
  · rw [shouldIgnore_strip, hs, ← shouldIgnore_strip]; exact hi
  · exact h1 t m hm hc hi hcm

theorem Implied.refl (r : Row) (c : Clause) : Implied r c c := fun _ _ _ _ _ h => h
theorem Weaker.refl (c : Clause) : Weaker c c := fun _ h => h
theorem Weaker.trans {c c2 c3 : Clause} (h1 : Weaker c c2) (h2 : Weaker c2 c3) : Weaker c c3 := fun t h => h1 t (h2 t h)

theorem mem_steps (c : Clause) (t : Triple) :
    (c.sBinding, some (Cell.node t.s)) ∈ clauseSteps c t ∧ (c.sAlias, some (Cell.node t.s)) ∈ clauseSteps c t ∧
    (c.pBinding, some (Cell.pred t.p)) ∈ clauseSteps c t ∧ (c.pAlias, some (Cell.pred t.p)) ∈ clauseSteps c t ∧
    (c.pAnchorBinding, extract c.optional (anchorOf t.p)) ∈ clauseSteps c t ∧
    (c.oBinding, some (objCell t.o)) ∈ clauseSteps c t ∧ (c.oAlias, some (objCell t.o)) ∈ clauseSteps c t := by
  unfold clauseSteps
  simp

theorem mem_steps_oanchor (c : Clause) (t : Triple) :
    ∃ e, (c.oAnchorBinding, e) ∈ clauseSteps c t ∧
      (∀ p, t.o = .pred p → e = extract c.optional (anchorOf p)) ∧
      ((∀ p, t.o ≠ .pred p) → e = extract c.optional none) := by
  unfold clauseSteps
  refine ⟨_, by
    iterate 13 apply List.mem_cons_of_mem
    exact List.mem_cons_self, ?_, ?_⟩
  · intro p hp; simp only [hp]
  · intro hp
    cases ho : t.o with
    | pred p => exact absurd ho (hp p)
    | node n => rfl
    | lit l => rfl

theorem spS_implied (r : Row) (c : Clause) : Implied r c (spS r c) ∧ Weaker c (spS r c) := by
  unfold spS
  by_cases hs : c.s.isNone = true
  · simp only [hs, if_true]
    have hsn : c.s = none := by cases h : c.s <;> simp [h] at hs ⊢
    cases hb : boundValue r [c.sBinding, c.sAlias] with
    | none => exact ⟨Implied.refl r c, Weaker.refl c⟩
    | some v =>
      cases v with
      | node n =>
        simp only
        constructor
        · intro t m hm hc hi hcm
          have hn : n = t.s := by
            rcases boundValue_mem r _ _ _ hb with ⟨hk, hg⟩ | ⟨hk, hg⟩
            · obtain ⟨c0, he, hn⟩ := step_value hm hc _ _ (mem_steps c t).1 hk _ hg
              injection he with he; subst he; simpa [normCell] using hn
            · obtain ⟨c0, he, hn⟩ := step_value hm hc _ _ (mem_steps c t).2.1 hk _ hg
              injection he with he; subst he; simpa [normCell] using hn
          unfold constsMatch at hcm ⊢
          simp only [hsn] at hcm
          simp only [hn, beq_self_eq_true, Bool.true_and]
          simpa using hcm
        · intro t h
          unfold constsMatch at h ⊢
          simp only [hsn, Bool.true_and]
          simp only [Bool.and_eq_true] at h ⊢
          exact ⟨h.1.2, h.2⟩
      | _ => exact ⟨Implied.refl r c, Weaker.refl c⟩
  · simp only [hs, Bool.false_eq_true, if_false]; exact ⟨Implied.refl r c, Weaker.refl c⟩

theorem not_ignored_pid {c : Clause} {t : Triple} (hi : shouldIgnore t c = false) (hp : c.pID ≠ []) : t.p.id = c.pID := by
  unfold shouldIgnore at hi
  simp only [Bool.or_eq_false_iff, Bool.and_eq_false_iff] at hi
  rcases hi.1 with h | h
  · simp [hp] at h
  · unfold predIgnored at h
    by_cases he : t.p.id = c.pID
    · exact he
    · simp [he] at h

theorem not_ignored_oid {c : Clause} {t : Triple} {p : Pred} (hi : shouldIgnore t c = false) (ho : t.o = .pred p)
    (hp : c.oID ≠ []) : p.id = c.oID := by
  unfold shouldIgnore at hi
  simp only [Bool.or_eq_false_iff, Bool.and_eq_false_iff, ho] at hi
  rcases hi.2 with h | h
  · simp [hp] at h
  · unfold predIgnored at h
    by_cases he : p.id = c.oID
    · exact he
    · simp [he] at h

theorem spPA_implied (r : Row) (c : Clause) : Implied r c (spPA r c) ∧ Weaker c (spPA r c) := by
  unfold spPA
  by_cases hs : (c.p.isNone && decide (c.pID ≠ []) && decide (c.pAnchorBinding ≠ [])) = true
  · simp only [hs, if_true]
    simp only [Bool.and_eq_true, decide_eq_true_eq] at hs
    obtain ⟨⟨h1, h2⟩, h3⟩ := hs
    have hpn : c.p = none := by cases h : c.p <;> simp [h] at h1 ⊢
    cases hg : r.get c.pAnchorBinding with
    | none => exact ⟨Implied.refl r c, Weaker.refl c⟩
    | some v =>
      cases v with
      | time tr =>
        simp only
        constructor
        · intro t m hm hc hi hcm
          obtain ⟨c0, he, hn⟩ := step_value hm hc _ _ (mem_steps c t).2.2.2.2.1 h3 _ hg
          have hid := not_ignored_pid hi h2
          have hps : predSame (.tmp c.pID tr) t.p = true := by
            cases htp : t.p with
            | imm i =>
              rw [htp] at he
              cases hopt : c.optional <;> simp [extract, anchorOf, hopt] at he
              subst he; simp [normCell] at hn
            | tmp i ta =>
              rw [htp] at he hid
              simp only [extract, anchorOf, Option.some.injEq] at he
              subst he
              simp only [normCell, Cell.time.injEq, Time.mk.injEq] at hn
              simp only [Pred.id] at hid
              simp [predSame, Pred.id, Pred.anchor, hid, hn.1]
          unfold constsMatch at hcm ⊢
          simp only [hpn] at hcm
          simp only [hps, Bool.and_true]
          simpa using hcm
        · intro t h
          unfold constsMatch at h ⊢
          simp only [hpn, Bool.and_true]
          simp only [Bool.and_eq_true] at h ⊢
          exact ⟨h.1.1, h.2⟩
      | _ => exact ⟨Implied.refl r c, Weaker.refl c⟩
  · simp only [hs, Bool.false_eq_true, if_false]; exact ⟨Implied.refl r c, Weaker.refl c⟩

theorem spP_implied (r : Row) (c : Clause) (hpn : c.p = none) : Implied r c (spP r c) ∧ Weaker c (spP r c) := by
  unfold spP
  cases hb : boundValue r [c.pBinding, c.pAlias] with
  | none => exact ⟨Implied.refl r c, Weaker.refl c⟩
  | some v =>
    cases v with
    | pred p =>
      simp only
      constructor
      · intro t m hm hc hi hcm
        have hps : predSame p t.p = true := by
          rcases boundValue_mem r _ _ _ hb with ⟨hk, hg⟩ | ⟨hk, hg⟩
          · obtain ⟨c0, he, hn⟩ := step_value hm hc _ _ (mem_steps c t).2.2.1 hk _ hg
            injection he with he; subst he
            have := (cellSame_iff _ _).mpr hn
            simpa [cellSame] using this
          · obtain ⟨c0, he, hn⟩ := step_value hm hc _ _ (mem_steps c t).2.2.2.1 hk _ hg
            injection he with he; subst he
            have := (cellSame_iff _ _).mpr hn
            simpa [cellSame] using this
        unfold constsMatch at hcm ⊢
        simp only [hpn] at hcm
        simp only [hps, Bool.and_true]
        simpa using hcm
      · intro t h
        unfold constsMatch at h ⊢
        simp only [hpn, Bool.and_true]
        simp only [Bool.and_eq_true] at h ⊢
        exact ⟨h.1.1, h.2⟩
    | _ => exact ⟨Implied.refl r c, Weaker.refl c⟩

theorem spOA_implied (r : Row) (c : Clause) : Implied r c (spOA r c) ∧ Weaker c (spOA r c) := by
  unfold spOA
  by_cases hs : (c.o.isNone && decide (c.oID ≠ []) && decide (c.oAnchorBinding ≠ [])) = true
  · simp only [hs, if_true]
    simp only [Bool.and_eq_true, decide_eq_true_eq] at hs
    obtain ⟨⟨h1, h2⟩, h3⟩ := hs
    have hon : c.o = none := by cases h : c.o <;> simp [h] at h1 ⊢
    cases hg : r.get c.oAnchorBinding with
    | none => exact ⟨Implied.refl r c, Weaker.refl c⟩
    | some v =>
      cases v with
      | time tr =>
        simp only
        constructor
        · intro t m hm hc hi hcm
          obtain ⟨e, hmem, hpred, hnot⟩ := mem_steps_oanchor c t
          obtain ⟨c0, he, hn⟩ := step_value hm hc _ _ hmem h3 _ hg
          have hos : objSame (.pred (.tmp c.oID tr)) t.o = true := by
            cases hto : t.o with
            | pred p =>
              have he' := hpred p hto
              rw [he'] at he
              have hid := not_ignored_oid hi hto h2
              cases p with
              | imm i =>
                cases hopt : c.optional <;> simp [extract, anchorOf, hopt] at he
                subst he; simp [normCell] at hn
              | tmp i ta =>
                simp only [extract, anchorOf, Option.some.injEq] at he
                subst he
                simp only [normCell, Cell.time.injEq, Time.mk.injEq] at hn
                simp only [Pred.id] at hid
                simp [objSame, predSame, Pred.id, Pred.anchor, hid, hn.1]
            | node n =>
              have he' := hnot (by intro p hp; rw [hto] at hp; cases hp)
              rw [he'] at he
              cases hopt : c.optional <;> simp [extract, hopt] at he
              subst he; simp [normCell] at hn
            | lit l =>
              have he' := hnot (by intro p hp; rw [hto] at hp; cases hp)
              rw [he'] at he
              cases hopt : c.optional <;> simp [extract, hopt] at he
              subst he; simp [normCell] at hn
          unfold constsMatch at hcm ⊢
          simp only [hon] at hcm
          simp only [hos, Bool.and_true]
          simpa using hcm
        · intro t h
          unfold constsMatch at h ⊢
          simp only [hon, Bool.and_true]
          simp only [Bool.and_eq_true] at h ⊢
          exact h.1
      | _ => exact ⟨Implied.refl r c, Weaker.refl c⟩
  · simp only [hs, Bool.false_eq_true, if_false]; exact ⟨Implied.refl r c, Weaker.refl c⟩

theorem spO_implied (r : Row) (c : Clause) (hon : c.o = none) : Implied r c (spO r c) ∧ Weaker c (spO r c) := by
  unfold spO
  cases hb : (boundValue r [c.oBinding, c.oAlias]).bind cellToObj with
  | none => exact ⟨Implied.refl r c, Weaker.refl c⟩
  | some o =>
    simp only
    obtain ⟨v, hbv, hco⟩ := Option.bind_eq_some_iff.mp hb
    constructor
    · intro t m hm hc hi hcm
      have hos : objSame o t.o = true := by
        have hn : normCell v = normCell (objCell t.o) := by
          rcases boundValue_mem r _ _ _ hbv with ⟨hk, hg⟩ | ⟨hk, hg⟩
          · obtain ⟨c0, he, hn⟩ := step_value hm hc _ _ (mem_steps c t).2.2.2.2.2.1 hk _ hg
            injection he with he; subst he; exact hn
          · obtain ⟨c0, he, hn⟩ := step_value hm hc _ _ (mem_steps c t).2.2.2.2.2.2 hk _ hg
            injection he with he; subst he; exact hn
        have hcs := (cellSame_iff _ _).mpr hn
        cases v <;> simp [cellToObj] at hco <;> subst hco <;> cases hto : t.o <;>
          simp [hto, objCell, cellSame] at hcs <;> simp [objSame, hcs]
      unfold constsMatch at hcm ⊢
      simp only [hon] at hcm
      simp only [hos, Bool.and_true]
      simpa using hcm
    · intro t h
      unfold constsMatch at h ⊢
      simp only [hon, Bool.and_true]
      simp only [Bool.and_eq_true] at h ⊢
      exact h.1

theorem isNone_eq {α : Type} {o : Option α} (h : o.isNone = true) : o = none := by cases o <;> simp at h ⊢

/-- `specialise` adds only constants that every match compatible with the row has anyway. -/
theorem specialise_implied {r : Row} {c c' : Clause} {lo lo' : QOpts} (h : specialise r c lo = .ok (c', lo')) :
    Implied r c c' ∧ Weaker c c' := by
  unfold specialise at h
  simp only at h
  have s1 := spS_implied r c
  have s2 := spPA_implied r (spS r c)
  have i2 : Implied r c (spPA r (spS r c)) := Implied.trans (strip_spS r c) s1.1 s2.1
  have w2 : Weaker c (spPA r (spS r c)) := Weaker.trans s1.2 s2.2
  have e2 : strip (spPA r (spS r c)) = strip c := by rw [strip_spPA, strip_spS]
  split at h
  · cases h
  · rename_i c3 lo3 h3
    have k3 : strip c3 = strip c ∧ Implied r c c3 ∧ Weaker c c3 := by
      split at h3
      · rename_i hpn
        split at h3
        · injection h3 with h3; injection h3 with h3 _
          have s3 := spP_implied r (spPA r (spS r c)) (isNone_eq hpn)
          rw [← h3]
          exact ⟨by rw [strip_spP, e2], Implied.trans e2 i2 s3.1, Weaker.trans w2 s3.2⟩
        · cases h3
      · injection h3 with h3; injection h3 with h3 _; rw [← h3]; exact ⟨e2, i2, w2⟩
    obtain ⟨e3, i3, w3⟩ := k3
    have s4 := spOA_implied r c3
    have i4 : Implied r c (spOA r c3) := Implied.trans e3 i3 s4.1
    have w4 : Weaker c (spOA r c3) := Weaker.trans w3 s4.2
    have e4 : strip (spOA r c3) = strip c := by rw [strip_spOA, e3]
    split at h
    · rename_i hon
      split at h
      · injection h with h; injection h with h _
        have s5 := spO_implied r (spOA r c3) (isNone_eq hon)
        rw [← h]
        exact ⟨Implied.trans e4 i4 s5.1, Weaker.trans w4 s5.2⟩
      · cases h
    · injection h with h; injection h with h _; rw [← h]; exact ⟨i4, w4⟩

end BW.Proofs.Planner
