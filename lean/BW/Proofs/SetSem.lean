/-
Set semantics of the specification graph and name map (helper lemmas for C01).
-/
import BW.Spec.Store

namespace BW.Proofs.SetSem
open BW.Model BW.Spec

theorem has_add (g : SGraph) (t : TView) (k : TKey) : (g.add t).has k = (t.key == k || g.has k) := by
  unfold SGraph.add SGraph.has
  simp only [List.any_cons, List.any_filter]
  by_cases h : t.key = k
  · simp [h]
  · have hf : (t.key == k) = false := by simp [h]
    simp only [hf, Bool.false_or]
    congr 1
    funext x
    by_cases hx : x.key = k
    · subst hx
      have hne : ¬ x.key = t.key := fun e => h e.symm
      have : (x.key != t.key) = true := by simp [bne_iff_ne, hne]
      simp [this]
    · simp [hx]

theorem has_rem (g : SGraph) (t : TView) (k : TKey) : (g.rem t).has k = (!(t.key == k) && g.has k) := by
  unfold SGraph.rem SGraph.has
  simp only [List.any_filter]
  by_cases h : t.key = k
  · subst h
    simp only [beq_self_eq_true, Bool.not_true, Bool.false_and]
    apply List.any_eq_false.mpr
    intro x _
    by_cases hx : x.key = t.key <;> simp [hx]
  · have hf : (t.key == k) = false := by simp [h]
    simp only [hf, Bool.not_false, Bool.true_and]
    congr 1
    funext x
    by_cases hx : x.key = k
    · subst hx
      have hne : ¬ x.key = t.key := fun e => h e.symm
      have : (x.key != t.key) = true := by simp [bne_iff_ne, hne]
      simp [this]
    · simp [hx]

theorem has_addAll (g : SGraph) (ts : List TView) (k : TKey) :
    (g.addAll ts).has k = (ts.any (·.key == k) || g.has k) := by
  induction ts generalizing g with
  | nil => simp [SGraph.addAll]
  | cons t ts ih =>
    simp only [SGraph.addAll, List.foldl_cons, List.any_cons] at *
    rw [ih, has_add]
    cases (t.key == k) <;> cases (ts.any (·.key == k)) <;> simp

theorem has_remAll (g : SGraph) (ts : List TView) (k : TKey) :
    (g.remAll ts).has k = (!(ts.any (·.key == k)) && g.has k) := by
  induction ts generalizing g with
  | nil => simp [SGraph.remAll]
  | cons t ts ih =>
    simp only [SGraph.remAll, List.foldl_cons, List.any_cons] at *
    rw [ih, has_rem]
    cases (t.key == k) <;> cases (ts.any (·.key == k)) <;> simp

/-- Each triple (identity key) is held at most once. -/
def KeysNodup (g : SGraph) : Prop := (g.map TView.key).Nodup

theorem keysNodup_nil : KeysNodup [] := List.nodup_nil

theorem keysNodup_filter {g : SGraph} (h : KeysNodup g) (p : TView → Bool) : KeysNodup (g.filter p) := by
  unfold KeysNodup at *
  exact List.Nodup.sublist (List.Sublist.map _ List.filter_sublist) h

theorem keysNodup_add {g : SGraph} (h : KeysNodup g) (t : TView) : KeysNodup (g.add t) := by
  unfold SGraph.add KeysNodup
  simp only [List.map_cons, List.nodup_cons]
  refine ⟨?_, keysNodup_filter h _⟩
  intro hmem
  obtain ⟨x, hx, hk⟩ := List.mem_map.mp hmem
  have := (List.mem_filter.mp hx).2
  simp [hk] at this

theorem keysNodup_rem {g : SGraph} (h : KeysNodup g) (t : TView) : KeysNodup (g.rem t) :=
  keysNodup_filter h _

theorem keysNodup_addAll {g : SGraph} (h : KeysNodup g) (ts : List TView) : KeysNodup (g.addAll ts) := by
  induction ts generalizing g with
  | nil => exact h
  | cons t ts ih => exact ih (keysNodup_add h t)

theorem keysNodup_remAll {g : SGraph} (h : KeysNodup g) (ts : List TView) : KeysNodup (g.remAll ts) := by
  induction ts generalizing g with
  | nil => exact h
  | cons t ts ih => exact ih (keysNodup_rem h t)

/-- Removing an absent triple changes nothing. -/
theorem rem_absent (g : SGraph) (t : TView) (h : g.has t.key = false) : g.rem t = g := by
  unfold SGraph.rem
  apply List.filter_eq_self.mpr
  intro x hx
  unfold SGraph.has at h
  have := List.any_eq_false.mp h x hx
  simp only [bne_iff_ne, ne_eq]
  intro e
  simp [e] at this

/-- Re-adding a stored triple leaves the same set (the same elements, each once). -/
theorem readd_perm {g : SGraph} (hn : KeysNodup g) (t : TView) (ht : t ∈ g) : (g.add t).Perm g := by
  unfold SGraph.add
  induction g with
  | nil => cases ht
  | cons x g ih =>
    unfold KeysNodup at hn
    simp only [List.map_cons, List.nodup_cons] at hn
    rcases List.mem_cons.mp ht with rfl | hmem
    · -- t is the head: nothing else has its key
      have : (t :: g).filter (fun x => x.key != t.key) = g := by
        simp only [List.filter_cons, bne_self_eq_false, Bool.false_eq_true, if_false]
        apply List.filter_eq_self.mpr
        intro y hy
        simp only [bne_iff_ne, ne_eq]
        intro e
        exact hn.1 (e ▸ List.mem_map_of_mem hy)
      rw [this]
    · have hx : (x.key != t.key) = true := by
        simp only [bne_iff_ne, ne_eq]
        intro e
        exact hn.1 (e ▸ List.mem_map_of_mem hmem)
      simp only [List.filter_cons, hx, if_true]
      have := ih hn.2 hmem
      exact (List.Perm.swap x t _).trans (List.Perm.cons x this)

/-! ### The name map -/

theorem get_update_ne (s : SStore) (n n' : Bytes) (f : SGraph → SGraph) (h : n' ≠ n) :
    (s.update n f).get n' = s.get n' := by
  unfold SStore.update SStore.get
  induction s with
  | nil => rfl
  | cons p s ih =>
    simp only [List.map_cons, List.find?_cons]
    by_cases hk : (p.1 == n) = true
    · have hkn : p.1 = n := by simpa using hk
      have hne : ¬ n = n' := fun e => h e.symm
      have : (p.1 == n') = false := by simp [hkn, hne]
      simp only [hk, if_true, this]
      exact ih
    · simp only [hk, Bool.false_eq_true, if_false]
      by_cases hk' : (p.1 == n') = true
      · simp [hk']
      · simp only [hk']; exact ih

theorem get_update_eq (s : SStore) (n : Bytes) (f : SGraph → SGraph) :
    (s.update n f).get n = (s.get n).map f := by
  unfold SStore.update SStore.get
  induction s with
  | nil => rfl
  | cons p s ih =>
    simp only [List.map_cons, List.find?_cons]
    by_cases hk : (p.1 == n) = true
    · simp [hk]
    · simp only [hk, Bool.false_eq_true, if_false]; exact ih

theorem get_new (s s' : SStore) (n : Bytes) (h : s.newGraph n = some s') :
    s'.get n = some [] ∧ ∀ n', n' ≠ n → s'.get n' = s.get n' := by
  unfold SStore.newGraph at h
  by_cases hs : (s.get n).isSome = true
  · simp [hs] at h
  · simp only [hs] at h
    injection h with h
    subst h
    constructor
    · simp [SStore.get]
    · intro n' hne
      have hne' : ¬ n = n' := fun e => hne e.symm
      have : (n == n') = false := by simp [hne']
      simp [SStore.get, List.find?_cons, this]

theorem get_filter_ne (s : SStore) (n n' : Bytes) (h : n' ≠ n) :
    SStore.get (s.filter (·.1 != n)) n' = s.get n' := by
  unfold SStore.get
  induction s with
  | nil => rfl
  | cons p s ih =>
    simp only [List.filter_cons]
    by_cases hp : (p.1 != n) = true
    · simp only [hp, if_true, List.find?_cons]
      by_cases hk : (p.1 == n') = true
      · simp [hk]
      · simp only [hk]; exact ih
    · have hpn : p.1 = n := by simpa using hp
      have hne : ¬ n = n' := fun e => h e.symm
      have : (p.1 == n') = false := by simp [hpn, hne]
      simp only [hp, List.find?_cons, this]
      exact ih

theorem get_filter_eq (s : SStore) (n : Bytes) : SStore.get (s.filter (·.1 != n)) n = none := by
  unfold SStore.get
  induction s with
  | nil => rfl
  | cons p s ih =>
    simp only [List.filter_cons]
    by_cases hp : (p.1 != n) = true
    · have : (p.1 == n) = false := by simpa using hp
      simp only [hp, if_true, List.find?_cons, this]
      exact ih
    · simp only [hp]
      exact ih

theorem get_delete (s s' : SStore) (n : Bytes) (h : s.deleteGraph n = some s') :
    s'.get n = none ∧ ∀ n', n' ≠ n → s'.get n' = s.get n' := by
  unfold SStore.deleteGraph at h
  by_cases hs : (s.get n).isSome = true
  · simp only [hs, if_true] at h
    injection h with h
    subst h
    exact ⟨get_filter_eq s n, fun n' hne => get_filter_ne s n n' hne⟩
  · simp [hs] at h

/-- Names are listed once each. -/
def NamesNodup (s : SStore) : Prop := (s.map (·.1)).Nodup

theorem mem_names_iff (s : SStore) (n : Bytes) : n ∈ s.names ↔ (s.get n).isSome = true := by
  unfold SStore.names SStore.get
  induction s with
  | nil => simp
  | cons p s ih =>
    simp only [List.map_cons, List.mem_cons, List.find?_cons]
    by_cases hk : (p.1 == n) = true
    · have : p.1 = n := by simpa using hk
      simp [hk, this]
    · have hne : ¬ n = p.1 := by
        intro e; apply hk; simp [e]
      simp only [hk, hne, false_or]
      exact ih

end BW.Proofs.SetSem
