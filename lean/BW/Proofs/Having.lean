/-
The HAVING evaluator the engine builds (`newEvaluator`, mirror of `semantic.NewEvaluator`) is the reference
reading of the expression's tokens (`BW.Spec.specH`).
-/
import BW.Spec.Having
open BW.Model BW.Spec

namespace BW.Proofs.Having

/-- What is left after an expression ends it: nothing, or a closing parenthesis first. -/
def Closed : List HTok → Prop
  | [] => True
  | .rpar :: _ => True
  | _ => False

theorem build_spec (f : Nat) : ∀ (toks : List HTok) (e : HExpr) (rest : List HTok),
    buildH f toks = some (e, rest) → Closed rest → specH f toks = some (e, rest) := by
  induction f with
  | zero => intro toks e rest h; simp [buildH] at h
  | succ f ih =>
    intro toks e rest h hc
    match toks, h with
    | [], h => simp [buildH] at h
    | .not :: tail, h =>
      simp only [buildH] at h
      cases hb : buildH f tail with
      | none => simp [hb] at h
      | some r =>
        obtain ⟨e1, rest1⟩ := r
        simp only [hb, Option.map_some, Option.some.injEq, Prod.mk.injEq] at h
        obtain ⟨he, hr⟩ := h
        subst he; subst hr
        simp only [specH, ih tail e1 rest1 hb hc, Option.map_some]
    | .lpar :: tail, h =>
      simp only [buildH] at h
      cases hb : buildH f tail with
      | none => simp [hb] at h
      | some r =>
        obtain ⟨e1, r1⟩ := r
        rw [hb] at h
        cases r1 with
        | nil => simp at h
        | cons x rest1 =>
          cases x
          all_goals first | (simp at h; done) | skip
          have hs1 : specH f tail = some (e1, HTok.rpar :: rest1) := ih tail e1 _ hb trivial
          simp only [specH, hs1]
          match rest1, h with
          | [], h =>
            simp only [Option.some.injEq, Prod.mk.injEq] at h
            obtain ⟨he, hr⟩ := h; subst he; subst hr; rfl
          | [t], h =>
            simp only [Option.some.injEq, Prod.mk.injEq] at h
            obtain ⟨he, hr⟩ := h; subst he; subst hr
            cases t <;> first | rfl | exact absurd hc (by simp [Closed])
          | t1 :: t2 :: more, h =>
            cases t1
            all_goals first
              | (simp at h; done)
              | (cases hb2 : buildH f (t2 :: more) with
                 | none => simp [hb2] at h
                 | some r2 =>
                   obtain ⟨e2, rest2⟩ := r2
                   simp only [hb2, Option.map_some, Option.some.injEq, Prod.mk.injEq] at h
                   obtain ⟨he, hr⟩ := h
                   subst hr
                   simp only [ih (t2 :: more) e2 rest2 hb2 hc, Option.map_some]
                   rw [← he]; simp)
    | .binding l :: ts, h =>
      match ts, h with
      | .op o :: x :: rest', h =>
        cases x
        all_goals first
          | (simp [buildH] at h; done)
          | (simp only [buildH, Option.some.injEq, Prod.mk.injEq] at h
             obtain ⟨he, hr⟩ := h
             subst he; subst hr
             simp only [specH]
             match rest', hc with
             | [], _ => rfl
             | .rpar :: _, _ => rfl)
      | [], h => simp [buildH] at h
      | [_], h => simp [buildH] at h
      | .binding _ :: _ :: _, h => simp [buildH] at h
      | .not :: _ :: _, h => simp [buildH] at h
      | .and :: _ :: _, h => simp [buildH] at h
      | .or :: _ :: _, h => simp [buildH] at h
      | .lpar :: _ :: _, h => simp [buildH] at h
      | .rpar :: _ :: _, h => simp [buildH] at h
      | .lit _ :: _ :: _, h => simp [buildH] at h
      | .node _ :: _ :: _, h => simp [buildH] at h
      | .time _ :: _ :: _, h => simp [buildH] at h
      | .pred _ :: _ :: _, h => simp [buildH] at h
      | .other :: _ :: _, h => simp [buildH] at h
    | .op _ :: _, h => simp [buildH] at h
    | .and :: _, h => simp [buildH] at h
    | .or :: _, h => simp [buildH] at h
    | .rpar :: _, h => simp [buildH] at h
    | .lit _ :: _, h => simp [buildH] at h
    | .node _ :: _, h => simp [buildH] at h
    | .time _ :: _, h => simp [buildH] at h
    | .pred _ :: _, h => simp [buildH] at h
    | .other :: _, h => simp [buildH] at h


/-- **The evaluator the engine builds is the parse tree of the expression.** Whenever `NewEvaluator` accepts
    the tokens of a HAVING clause, the expression it builds is the reference reading of those tokens
    (comparisons are atoms, `NOT` covers everything to its right, `AND` / `OR` nest to the right) — of all of
    them, or of all but the one closing parenthesis `NewEvaluator` tolerates at the end. -/
theorem evaluator_is_parse_tree (toks : List HTok) (e : HExpr) (h : newEvaluator toks = some e) :
    specEvaluator toks = some e ∨ specH (toks.length + 1) toks = some (e, [.rpar]) := by
  unfold newEvaluator at h
  cases hb : buildH (toks.length + 1) toks with
  | none => simp [hb] at h
  | some r =>
    obtain ⟨e', rest⟩ := r
    rw [hb] at h
    match rest, h, hb with
    | [], h, hb =>
      simp only [Option.some.injEq] at h; subst h
      left
      unfold specEvaluator
      rw [build_spec _ toks e' [] hb trivial]
    | [.rpar], h, hb =>
      simp only [Option.some.injEq] at h; subst h
      right
      exact build_spec _ toks e' [.rpar] hb trivial
    | [.binding _], h, _ => simp at h
    | [.op _], h, _ => simp at h
    | [.not], h, _ => simp at h
    | [.and], h, _ => simp at h
    | [.or], h, _ => simp at h
    | [.lpar], h, _ => simp at h
    | [.lit _], h, _ => simp at h
    | [.node _], h, _ => simp at h
    | [.time _], h, _ => simp at h
    | [.pred _], h, _ => simp at h
    | [.other], h, _ => simp at h
    | _ :: _ :: _, h, _ => simp at h

end BW.Proofs.Having
