/-
Towards C03: the planner's per-row strategy is the reference's join step.  `probe_spec` (a specialised clause
that extracts nothing keeps the row iff it holds), `addSpecifiedData_spec` (one row), `specifyAll_spec`
(`specifyClauseWithTable` = `joinClause`, as sets of rows up to anchor representation).
-/
import BW.Proofs.PlannerStep5
set_option linter.unusedSimpArgs false
open BW.Model BW.Spec BW.Proofs.ClauseOrder BW.Proofs.Store BW.Proofs.Lookup

namespace BW.Proofs.Planner

variable {gs : List QGraph}

def existsAlias : Bytes := [63, 95, 95, 101, 120, 105, 115, 116, 115]

theorem names_nil {c : Clause} (h : c.extractsNothing = true) :
    c.sBinding = [] ∧ c.sAlias = [] ∧ c.sTypeAlias = [] ∧ c.sIDAlias = [] ∧ c.pBinding = [] ∧ c.pAlias = [] ∧
    c.pIDAlias = [] ∧ c.pAnchorBinding = [] ∧ c.pAnchorAlias = [] ∧ c.oBinding = [] ∧ c.oAlias = [] ∧
    c.oTypeAlias = [] ∧ c.oIDAlias = [] ∧ c.oAnchorBinding = [] ∧ c.oAnchorAlias = [] := by
  have := (extractsNothing_iff c).mp h
  unfold extractNames at this
  simp only [List.mem_cons, List.mem_nil_iff, or_false, forall_eq_or_imp, forall_eq] at this
  exact this

theorem specBind_nothing_some {c : Clause} (h : c.extractsNothing = true) (t : Triple) : specBind c t = some [] := by
  obtain ⟨h1, h2, h3, h4, h5, h6, h7, h8, h9, h10, h11, h12, h13, h14, h15⟩ := names_nil h
  unfold specBind clauseSteps
  simp only [List.foldl_cons, List.foldl_nil, bindStep, h1, h2, h3, h4, h5, h6, h7, h8, h9, h10, h11, h12, h13, h14, h15, if_true]

theorem specBind_probe {c : Clause} (h : c.extractsNothing = true) (t : Triple) :
    specBind { c with sAlias := existsAlias } t = some [(existsAlias, Cell.node t.s)] := by
  obtain ⟨h1, h2, h3, h4, h5, h6, h7, h8, h9, h10, h11, h12, h13, h14, h15⟩ := names_nil h
  unfold specBind clauseSteps
  simp only [List.foldl_cons, List.foldl_nil, bindStep, h1, h3, h4, h5, h6, h7, h8, h9, h10, h11, h12, h13, h14, h15, if_true]
  simp [existsAlias, bindSame, Row.get]

theorem boundStep_present {r : Row} {l0 l1 : QOpts} {alias : Bytes} {b : Bool} (h : boundStep r l0 alias b = .ok l1) :
    alias = [] ∨ r.has alias = true := by
  unfold boundStep at h
  by_cases ha : alias = []
  · exact Or.inl ha
  · simp only [ha, if_false] at h
    cases hg : r.get alias with
    | none => simp [hg] at h
    | some v => exact Or.inr (by rw [has_iff_get, hg]; rfl)

theorem boundsForRow_present {lo lo1 : QOpts} {c : Clause} {r : Row} (h : boundsForRow lo c r = .ok lo1) :
    (c.pLowerAlias = [] ∨ r.has c.pLowerAlias = true) ∧ (c.pUpperAlias = [] ∨ r.has c.pUpperAlias = true) := by
  unfold boundsForRow at h
  split at h
  · cases h
  · rename_i la hla
    split at h
    · cases h
    · rename_i lb hlb
      exact ⟨boundStep_present hla, boundStep_present hlb⟩

theorem specialise_present {r : Row} {c c' : Clause} {lo lo' : QOpts} (h : specialise r c lo = .ok (c', lo'))
    (hwf : AliasWF c) :
    (c.pLowerAlias = [] ∨ r.has c.pLowerAlias = true) ∧ (c.pUpperAlias = [] ∨ r.has c.pUpperAlias = true) := by
  unfold specialise at h
  simp only at h
  have e2 : strip (spPA r (spS r c)) = strip c := by rw [strip_spPA, strip_spS]
  split at h
  · cases h
  · rename_i c3 lo3 h3
    split at h3
    · split at h3
      · rename_i lo3' hb
        have e3' : strip (spP r (spPA r (spS r c))) = strip c := by rw [strip_spP, e2]
        obtain ⟨_, _, g3, g4, _⟩ := strip_fields e3'
        have := boundsForRow_present hb
        rw [g3, g4] at this
        exact this
      · cases h3
    · rename_i hps
      injection h3 with h3; injection h3 with h3c h3l
      have e3 : strip c3 = strip c := by rw [← h3c, e2]
      split at h
      · split at h
        · rename_i lo5 hb5
          have e5 : strip (spO r (spOA r c3)) = strip c := by rw [strip_spO, strip_spOA, e3]
          obtain ⟨_, _, g3, g4, _⟩ := strip_fields e5
          have := boundsForRow_present hb5
          rw [g3, g4] at this
          exact this
        · cases h
      · have hsome : (spPA r (spS r c)).p.isSome = true := by
          cases hh : (spPA r (spS r c)).p <;> simp [hh] at hps ⊢
        have := spPA_p_some hsome
        rw [(spS_p r c).1, (spS_p r c).2] at this
        obtain ⟨a1, a2⟩ := hwf this
        exact ⟨Or.inl a1, Or.inl a2⟩

theorem dedup_fold_mem (k : Bytes) (l : List Bytes) : ∀ (acc : List Bytes),
    k ∈ l.foldl (fun acc b => if acc.contains b then acc else acc ++ [b]) acc ↔ (k ∈ acc ∨ k ∈ l) := by
  induction l with
  | nil => intro acc; simp
  | cons b l ih =>
    intro acc
    simp only [List.foldl_cons]
    rw [ih]
    by_cases hc : acc.contains b = true
    · simp only [hc, if_true, List.mem_cons]
      have hb : b ∈ acc := List.contains_iff_mem.mp hc
      constructor
      · rintro (h | h)
        · exact Or.inl h
        · exact Or.inr (Or.inr h)
      · rintro (h | h | h)
        · exact Or.inl h
        · subst h; exact Or.inl hb
        · exact Or.inr h
    · simp only [hc, Bool.false_eq_true, if_false, List.mem_append, List.mem_singleton, List.mem_cons, List.mem_nil_iff, or_false]
      constructor
      · rintro ((h | h) | h)
        · exact Or.inl h
        · exact Or.inr (Or.inl h)
        · exact Or.inr (Or.inr h)
      · rintro (h | h | h)
        · exact Or.inl (Or.inl h)
        · exact Or.inl (Or.inr h)
        · exact Or.inr h

theorem mem_dedup (l : List Bytes) (k : Bytes) : k ∈ dedup l ↔ k ∈ l := by
  unfold dedup
  rw [dedup_fold_mem]
  simp

theorem mem_of_mem_dedup (l : List Bytes) (k : Bytes) (h : k ∈ dedup l) : k ∈ l := (mem_dedup l k).mp h
theorem mem_dedup_of_mem (l : List Bytes) (k : Bytes) (h : k ∈ l) : k ∈ dedup l := (mem_dedup l k).mpr h

/-- For a clause that extracts nothing, the only names it has are the bound aliases. -/
theorem bindings_of_nothing {c : Clause} (h : c.extractsNothing = true) (hno : c.oLowerAlias = [] ∧ c.oUpperAlias = [])
    (k : Bytes) (hk : k ∈ c.bindings) : k ≠ [] ∧ (k = c.pLowerAlias ∨ k = c.pUpperAlias) := by
  obtain ⟨h1, h2, h3, h4, h5, h6, h7, h8, h9, h10, h11, h12, h13, h14, h15⟩ := names_nil h
  unfold Clause.bindings at hk
  have := mem_of_mem_dedup _ _ hk
  simp only [h1, h2, h3, h4, h5, h6, h7, h8, h9, h10, h11, h12, h13, h14, h15, hno.1, hno.2, List.mem_filter,
    List.mem_cons, List.mem_nil_iff, or_false, decide_eq_true_eq] at this
  obtain ⟨hm, hne⟩ := this
  refine ⟨hne, ?_⟩
  rcases hm with e | e | e | e | e | e | e | e | e | e | e | e | e | e | e | e | e | e | e <;>
    first | exact absurd e hne | exact Or.inl e | exact Or.inr e

theorem compatible_nil (r : Row) : compatible r [] = true := by
  unfold compatible
  apply List.all_eq_true.mpr
  intro p _
  simp [Row.get]

theorem merge_nil (r : Row) : r.merge [] = r := by simp [Row.merge]

/-- Matches of a clause that extracts nothing: the empty row, once per matching triple. -/
theorem matches_of_nothing {c : Clause} (h : c.extractsNothing = true) (w : Window) (scan : List Triple) (m : Row)
    (hm : m ∈ scan.filterMap (matchClause c w)) : m = [] := by
  obtain ⟨t, _, hmc⟩ := List.mem_filterMap.mp hm
  exact specBind_nothing h t m (matchClause_specBind hmc)

theorem probe_clause_match {c : Clause} (h : c.extractsNothing = true) (w : Window) (ht : Tight c w) (t : Triple) :
    (∃ m, matchClause { c with sAlias := existsAlias } w t = some m) ↔ (∃ m, matchClause c w t = some m) := by
  have ht' : Tight { c with sAlias := existsAlias } w := ht
  constructor
  · rintro ⟨m, hm⟩
    obtain ⟨h1, h2, h3, _⟩ := (matchClause_some_iff _ w t ht' m).mp hm
    exact ⟨[], (matchClause_some_iff c w t ht []).mpr ⟨h1, h2, h3, specBind_nothing_some h t⟩⟩
  · rintro ⟨m, hm⟩
    obtain ⟨h1, h2, h3, _⟩ := (matchClause_some_iff c w t ht m).mp hm
    exact ⟨_, (matchClause_some_iff _ w t ht' _).mpr ⟨h1, h2, h3, specBind_probe h t⟩⟩

/-- **One row, probe.** A specialised clause that extracts nothing keeps the row iff it holds (or is
    OPTIONAL) — which is the reference's join of the row with the clause. -/
theorem probe_spec {F : Facts} (hF : Facts.WF F = true) (hg : GraphsOK F gs) (U : Universe gs)
    {c c' : Clause} {lo lo' : QOpts} {r : Row} (hr : RowOK U r) (hwf : ClauseWF c) (hcin : ClauseIn U c)
    (hno : c.oLowerAlias = [] ∧ c.oUpperAlias = [])
    (hfil : lo.filter = none) (hsp : specialise r c lo = .ok (c', lo')) (hex : c'.extractsNothing = true)
    (rows : List Row) (hfe : simpleFetch F gs { c' with sAlias := existsAlias } lo' 0 = .ok rows) :
    SetEq (if (!rows.isEmpty || c.optional) = true then [r] else [])
      (specJoin (gs.flatMap scanOf) (nl lo.lower) (nl lo.upper) c r) := by
  obtain ⟨hs, hi, hw, hwin, hfil', hid', hap, hapA, _⟩ := specialise_facts U hr.2 hwf hcin hfil hsp
  have hexc : c.extractsNothing = true := by rw [extractsNothing_strip, ← hs, ← extractsNothing_strip]; exact hex
  have hid'' : IdAliasPlain { c' with sAlias := existsAlias } := Or.inl (names_nil hex).2.2.2.2.2.2.2.2.2.2.2.2.1
  obtain ⟨rows', hrows, hset⟩ := simpleFetch_spec hF gs hg { c' with sAlias := existsAlias } hid'' lo' hfil' hap hapA
  rw [hfe] at hrows; injection hrows with hrows; subst hrows
  have hwin'' : fetchWindow lo' { c' with sAlias := existsAlias } = clauseWindow (nl lo.lower) (nl lo.upper) c r := hwin
  rw [hwin''] at hset
  have htight : Tight c (clauseWindow (nl lo.lower) (nl lo.upper) c r) := tight_clauseWindow _ _ c r
  have htight' : Tight c' (clauseWindow (nl lo.lower) (nl lo.upper) c r) := tight_strip hs htight
  -- the probe finds something iff the clause has a match
  have hne : rows.isEmpty = ((gs.flatMap scanOf).filterMap (matchClause c (clauseWindow (nl lo.lower) (nl lo.upper) c r))).isEmpty := by
    rw [setEq_isEmpty hset]
    have hex'' : ({ c' with sAlias := existsAlias } : Clause).extractsNothing = false := by
      simp [Clause.extractsNothing, existsAlias]
    rw [specRows_all hex'']
    rw [Bool.eq_iff_iff, List.isEmpty_iff, List.isEmpty_iff, List.filterMap_eq_nil_iff, List.filterMap_eq_nil_iff]
    constructor
    · intro h t ht
      cases hmc : matchClause c _ t with
      | none => rfl
      | some m =>
        exfalso
        have hm0 : m = [] := specBind_nothing hexc t m (matchClause_specBind hmc)
        subst hm0
        have := (match_specialised hs hi hw htight t []).mpr ⟨hmc, compatible_nil r⟩
        obtain ⟨m2, hm2⟩ := (probe_clause_match hex _ htight' t).mpr ⟨[], this.1⟩
        rw [h t ht] at hm2; cases hm2
    · intro h t ht
      cases hmc : matchClause { c' with sAlias := existsAlias } _ t with
      | none => rfl
      | some m =>
        exfalso
        obtain ⟨m2, hm2⟩ := (probe_clause_match hex _ htight' t).mp ⟨m, hmc⟩
        have hm0 : m2 = [] := specBind_nothing hex t m2 (matchClause_specBind hm2)
        subst hm0
        have := (match_specialised hs hi hw htight t []).mp ⟨hm2, compatible_nil r⟩
        rw [h t ht] at this; cases this.1
  -- the reference side
  have hms : ∀ m ∈ (gs.flatMap scanOf).filterMap (matchClause c (clauseWindow (nl lo.lower) (nl lo.upper) c r)), m = [] :=
    fun m hm => matches_of_nothing hexc _ _ m hm
  have hfilt : ((gs.flatMap scanOf).filterMap (matchClause c (clauseWindow (nl lo.lower) (nl lo.upper) c r))).filter (compatible r)
      = (gs.flatMap scanOf).filterMap (matchClause c (clauseWindow (nl lo.lower) (nl lo.upper) c r)) := by
    apply List.filter_eq_self.mpr
    intro m hm; rw [hms m hm]; exact compatible_nil r
  have hnull : nullRow c.bindings r = [] := by
    unfold nullRow
    have : c.bindings.filter (fun k => !r.has k) = [] := by
      apply List.filter_eq_nil_iff.mpr
      intro k hk
      obtain ⟨hne', hor⟩ := bindings_of_nothing hexc hno k hk
      obtain ⟨p1, p2⟩ := specialise_present hsp hwf.alias
      rcases hor with e | e
      · rcases p1 with q | q
        · exact absurd (e.trans q) hne'
        · simp [e, q]
      · rcases p2 with q | q
        · exact absurd (e.trans q) hne'
        · simp [e, q]
    rw [this]; rfl
  unfold specJoin
  simp only [hfilt]
  rw [hne]
  have hnull' : (c.bindings.filter (fun k => !r.has k)).map (fun k => (k, Cell.null)) = [] := hnull
  generalize hM : (gs.flatMap scanOf).filterMap (matchClause c (clauseWindow (nl lo.lower) (nl lo.upper) c r)) = M at hms ⊢
  have hmap : ∀ x ∈ M.map r.merge, x = r := by
    intro x hx
    obtain ⟨m, hm, rfl⟩ := List.mem_map.mp hx
    rw [hms m hm, merge_nil]
  cases M with
  | nil =>
    by_cases hopt : c.optional = true
    · simp only [hopt, List.isEmpty_nil, Bool.not_true, Bool.false_or, if_true, hnull', merge_nil]
      exact SetEq.refl _
    · simp only [hopt, List.isEmpty_nil, Bool.not_true, Bool.false_or, Bool.false_eq_true, if_false, List.map_nil]
      exact SetEq.refl _
  | cons m M =>
    have hres : SetEq [r] ((m :: M).map r.merge) := by
      constructor
      · intro x hx
        simp only [List.mem_singleton] at hx; subst hx
        exact ⟨x.merge m, List.mem_map.mpr ⟨m, List.mem_cons_self, rfl⟩, by
          rw [hmap (x.merge m) (List.mem_map.mpr ⟨m, List.mem_cons_self, rfl⟩)]; exact RowEq.refl x⟩
      · intro x hx
        exact ⟨r, List.mem_singleton.mpr rfl, by rw [hmap x hx]; exact RowEq.refl r⟩
    by_cases hopt : c.optional = true
    · simp only [hopt, List.isEmpty_cons, Bool.not_false, Bool.true_or, if_true, Bool.false_eq_true, if_false]
      exact hres
    · simp only [hopt, List.isEmpty_cons, Bool.not_false, Bool.true_or, if_true, Bool.false_eq_true, if_false]
      exact hres

/-- Without object bound aliases the object's interval is the clause's own. -/
theorem specialiseO_eq {c : Clause} (h : c.oLowerAlias = [] ∧ c.oUpperAlias = []) (r : Row) (lo : QOpts) :
    specialiseO r c lo = specialise r c lo := by
  unfold specialiseO
  cases hs : specialise r c lo with
  | error e => rfl
  | ok p =>
    obtain ⟨c', lo'⟩ := p
    have hst := specialise_strip hs
    have e1 : c'.oLowerAlias = c.oLowerAlias := show (strip c').oLowerAlias = (strip c).oLowerAlias from congrArg Clause.oLowerAlias hst
    have e2 : c'.oUpperAlias = c.oUpperAlias := show (strip c').oUpperAlias = (strip c).oUpperAlias from congrArg Clause.oUpperAlias hst
    have hob : objBoundsForRow r c' = .ok c' := by
      have a1 : c'.oLowerAlias = [] := e1.trans h.1
      have a2 : c'.oUpperAlias = [] := e2.trans h.2
      unfold objBoundsForRow objBound
      rw [if_pos a1, if_pos a2]
    simp only [hob]

/-- **One row of `specifyClauseWithTable`.** Specialising the clause with a row, fetching and joining
    (or probing) gives the reference's join of that row with the clause. -/
theorem addSpecifiedData_spec {F : Facts} (hF : Facts.WF F = true) (hg : GraphsOK F gs) (U : Universe gs)
    {c : Clause} {lo : QOpts} {r : Row} (hr : RowOK U r) (hwf : ClauseWF c) (hno : c.oLowerAlias = [] ∧ c.oUpperAlias = [])
    (hcin : ClauseIn U c)
    (hfil : lo.filter = none) (out : List Row) (h : addSpecifiedData F gs r c lo 0 = .ok out) :
    SetEq out (specJoin (gs.flatMap scanOf) (nl lo.lower) (nl lo.upper) c r) ∧ ∀ r' ∈ out, RowOK U r' := by
  unfold addSpecifiedData at h
  rw [specialiseO_eq hno] at h
  cases hsp : specialise r c lo with
  | error e => simp [hsp, bind, Except.bind] at h
  | ok p =>
    obtain ⟨c', lo'⟩ := p
    simp only [hsp, bind, Except.bind] at h
    by_cases hex : c'.extractsNothing = true
    · simp only [hex, if_true] at h
      cases hfe : simpleFetch F gs { c' with sAlias := [63, 95, 95, 101, 120, 105, 115, 116, 115] } lo' 0 with
      | error e => simp [hfe] at h
      | ok rows =>
        simp only [hfe, pure, Except.pure, Except.ok.injEq] at h
        subst h
        refine ⟨probe_spec hF hg U hr hwf hcin hno hfil hsp hex rows hfe, ?_⟩
        intro r' hr'
        split at hr'
        · simp only [List.mem_singleton] at hr'; subst hr'; exact hr
        · cases hr'
    · have hex' : c'.extractsNothing = false := by simpa using hex
      simp only [hex', Bool.false_eq_true, if_false] at h
      cases hfe : simpleFetch F gs c' lo' 0 with
      | error e => simp [hfe] at h
      | ok fetched =>
        simp only [hfe, pure, Except.pure, Except.ok.injEq] at h
        subst h
        exact joinRow_spec hF hg U hr hwf hcin hfil hsp hex' fetched hfe

end BW.Proofs.Planner
