/-
The key `Table.Reduce` builds for a group (bql/table/table.go, 7f64a50): every grouping value written as
`<length>:<value>;`. It identifies the list of component keys (`encKey_inj`), which is what the model's `groupId` is.
-/
import BW.Model.QueryPost
open BW.Model

namespace BW.Proofs.GroupKey

/-- Decimal digits of a number, as bytes (`%d`). -/
def natDec (n : Nat) : Bytes := (Nat.toDigits 10 n).map fun c => c.toNat.toUInt8

/-- The key `Table.Reduce` builds for a group (7f64a50): every component written as `<length>:<value>;`. -/
def encKey (ks : List Bytes) : Bytes := ks.flatMap fun k => natDec k.length ++ [58] ++ k ++ [59]

theorem split_at_sep {α : Type} (s : α) (l1 l2 a b : List α) (h1 : s ∉ l1) (h2 : s ∉ l2)
    (h : l1 ++ s :: a = l2 ++ s :: b) : l1 = l2 ∧ a = b := by
  induction l1 generalizing l2 with
  | nil =>
    cases l2 with
    | nil => simp at h; exact ⟨rfl, h⟩
    | cons y l2 =>
      simp only [List.nil_append, List.cons_append, List.cons.injEq] at h
      exact absurd (h.1 ▸ List.mem_cons_self) h2
  | cons x l1 ih =>
    cases l2 with
    | nil =>
      simp only [List.nil_append, List.cons_append, List.cons.injEq] at h
      exact absurd (h.1 ▸ List.mem_cons_self) h1
    | cons y l2 =>
      simp only [List.cons_append, List.cons.injEq] at h
      obtain ⟨e1, e2⟩ := ih l2 (fun hm => h1 (List.mem_cons_of_mem _ hm)) (fun hm => h2 (List.mem_cons_of_mem _ hm)) h.2
      exact ⟨by rw [h.1, e1], e2⟩

theorem digit_byte (c : Char) (h : c.isDigit = true) : c.toNat.toUInt8 ≠ 58 ∧ c.toNat < 256 := by
  simp only [Char.isDigit, Bool.and_eq_true, decide_eq_true_eq] at h
  have h1 : 48 ≤ c.val.toNat := by have := h.1; exact UInt32.le_iff_toNat_le.mp this
  have h2 : c.val.toNat ≤ 57 := by have := h.2; exact UInt32.le_iff_toNat_le.mp this
  have e : c.toNat = c.val.toNat := rfl
  refine ⟨?_, by omega⟩
  intro hc
  have : (c.toNat.toUInt8).toNat = 58 := by rw [hc]; rfl
  simp only [Nat.toUInt8, UInt8.toNat_ofNat'] at this
  omega

theorem sep_not_in_natDec (n : Nat) : (58 : UInt8) ∉ natDec n := by
  unfold natDec
  intro h
  obtain ⟨c, hc, e⟩ := List.mem_map.mp h
  exact (digit_byte c (Nat.isDigit_of_mem_toDigits (by decide) (by decide) hc)).1 e

theorem digits_map_inj : ∀ (l1 l2 : List Char), (∀ c ∈ l1, c.isDigit = true) → (∀ c ∈ l2, c.isDigit = true) →
    l1.map (fun c => c.toNat.toUInt8) = l2.map (fun c => c.toNat.toUInt8) → l1 = l2
  | [], [], _, _, _ => rfl
  | [], _ :: _, _, _, h => by simp at h
  | _ :: _, [], _, _, h => by simp at h
  | a :: l1, b :: l2, h1, h2, h => by
    simp only [List.map_cons, List.cons.injEq] at h
    have ha := (digit_byte a (h1 a List.mem_cons_self)).2
    have hb := (digit_byte b (h2 b List.mem_cons_self)).2
    have e : a.toNat = b.toNat := by
      have := congrArg UInt8.toNat h.1
      simp only [Nat.toUInt8, UInt8.toNat_ofNat'] at this
      omega
    have eab : a = b := Char.ext (UInt32.toNat_inj.mp e)
    rw [eab, digits_map_inj l1 l2 (fun c hc => h1 c (List.mem_cons_of_mem _ hc)) (fun c hc => h2 c (List.mem_cons_of_mem _ hc)) h.2]

theorem natDec_inj (n m : Nat) (h : natDec n = natDec m) : n = m := by
  unfold natDec at h
  have hd : Nat.toDigits 10 n = Nat.toDigits 10 m :=
    digits_map_inj _ _ (fun c hc => Nat.isDigit_of_mem_toDigits (by decide) (by decide) hc)
      (fun c hc => Nat.isDigit_of_mem_toDigits (by decide) (by decide) hc) h
  have := congrArg (fun l => Nat.ofDigitChars 10 l 0) hd
  simpa [Nat.ofDigitChars_toDigits] using this

/-- **The composite key identifies the grouping values**: two rows get the same key exactly when their
    grouping values have the same component keys — whatever bytes the values hold (`;`, `:` and digits
    included). The model's `groupId` is that list of component keys. -/
theorem encKey_inj : ∀ (ks ks' : List Bytes), encKey ks = encKey ks' → ks = ks'
  | [], [], _ => rfl
  | [], k :: ks', h => by
    simp only [encKey, List.flatMap_nil, List.flatMap_cons] at h
    have := congrArg List.length h
    simp at this
  | k :: ks, [], h => by
    simp only [encKey, List.flatMap_nil, List.flatMap_cons] at h
    have := congrArg List.length h
    simp at this
  | k :: ks, k' :: ks', h => by
    simp only [encKey, List.flatMap_cons, List.append_assoc, List.cons_append, List.nil_append] at h
    obtain ⟨hd, hrest⟩ := split_at_sep 58 _ _ _ _ (sep_not_in_natDec _) (sep_not_in_natDec _) h
    have hlen : k.length = k'.length := natDec_inj _ _ hd
    obtain ⟨e1, e2⟩ := List.append_inj hrest hlen
    simp only [List.cons.injEq, true_and] at e2
    have : ks = ks' := encKey_inj ks ks' (by simpa [encKey, List.append_assoc] using e2)
    rw [e1, this]

end BW.Proofs.GroupKey
