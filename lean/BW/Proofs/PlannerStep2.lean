/-
Towards C03: the window `specialise` hands to the fetch is the reference's window of the clause under the
row (bounds as optional integers: join of lower bounds, meet of upper bounds; `boundsForRow` applied once
or twice gives the same bounds).
-/
import BW.Proofs.PlannerStep1
set_option linter.unusedSimpArgs false
open BW.Model BW.Spec BW.Proofs.ClauseOrder BW.Proofs.Store BW.Proofs.Lookup

namespace BW.Proofs.Planner

/-! ### Bounds as optional integers: join of lower bounds, meet of upper bounds -/

def olo : Option Int → Option Int → Option Int
  | some x, some y => some (max x y)
  | some x, none => some x
  | none, b => b

def ohi : Option Int → Option Int → Option Int
  | some x, some y => some (min x y)
  | some x, none => some x
  | none, b => b

theorem olo_comm (a b : Option Int) : olo a b = olo b a := by
  cases a <;> cases b <;> simp [olo] <;> omega
theorem olo_assoc (a b c : Option Int) : olo (olo a b) c = olo a (olo b c) := by
  cases a <;> cases b <;> cases c <;> simp [olo] <;> omega
theorem olo_idem (a : Option Int) : olo a a = a := by cases a <;> simp [olo]
theorem olo_left_idem (a b : Option Int) : olo a (olo a b) = olo a b := by rw [← olo_assoc, olo_idem]
theorem olo_left_comm (a b c : Option Int) : olo a (olo b c) = olo b (olo a c) := by
  rw [← olo_assoc, olo_comm a b, olo_assoc]
theorem olo_none_left (b : Option Int) : olo none b = b := rfl
theorem ohi_none_left (b : Option Int) : ohi none b = b := rfl
theorem olo_none (a : Option Int) : olo a none = a := by cases a <;> rfl
theorem ohi_comm (a b : Option Int) : ohi a b = ohi b a := by
  cases a <;> cases b <;> simp [ohi] <;> omega
theorem ohi_assoc (a b c : Option Int) : ohi (ohi a b) c = ohi a (ohi b c) := by
  cases a <;> cases b <;> cases c <;> simp [ohi] <;> omega
theorem ohi_idem (a : Option Int) : ohi a a = a := by cases a <;> simp [ohi]
theorem ohi_left_idem (a b : Option Int) : ohi a (ohi a b) = ohi a b := by rw [← ohi_assoc, ohi_idem]
theorem ohi_left_comm (a b c : Option Int) : ohi a (ohi b c) = ohi b (ohi a c) := by
  rw [← ohi_assoc, ohi_comm a b, ohi_assoc]
theorem ohi_none (a : Option Int) : ohi a none = a := by cases a <;> rfl

theorem tightenLower_eq (w : Window) (l : Option Int) : (w.tightenLower l).lower = olo l w.lower := by
  cases l <;> cases h : w.lower <;> simp [Window.tightenLower, olo, h]
theorem tightenUpper_eq (w : Window) (u : Option Int) : (w.tightenUpper u).upper = ohi u w.upper := by
  cases u <;> cases h : w.upper <;> simp [Window.tightenUpper, ohi, h]

def nl (t : Option Time) : Option Int := t.map (·.nanos)

theorem updateTimeBounds_lower (lo : QOpts) (c : Clause) :
    nl (updateTimeBounds lo c).lower = olo (nl c.pLower) (nl lo.lower) := by
  unfold updateTimeBounds nl
  cases c.pLower <;> cases lo.lower <;> simp [olo, timeAfter]
  split <;> simp <;> omega

theorem updateTimeBounds_upper (lo : QOpts) (c : Clause) :
    nl (updateTimeBounds lo c).upper = ohi (nl c.pUpper) (nl lo.upper) := by
  unfold updateTimeBounds nl
  cases c.pUpper <;> cases lo.upper <;> simp [ohi, timeBefore]
  split <;> simp <;> omega

/-- The window of a clause under a row, in closed form. -/
def aliasLo (c : Clause) (r : Row) : Option Int := if c.pLowerAlias ≠ [] then rowTime r c.pLowerAlias else none
def aliasHi (c : Clause) (r : Row) : Option Int := if c.pUpperAlias ≠ [] then rowTime r c.pUpperAlias else none

theorem clauseWindow_closed (glo ghi : Option Int) (c : Clause) (r : Row) :
    (clauseWindow glo ghi c r).lower = olo (aliasLo c r) (olo (nl c.pLower) glo) ∧
    (clauseWindow glo ghi c r).upper = ohi (aliasHi c r) (ohi (nl c.pUpper) ghi) := by
  unfold clauseWindow aliasLo aliasHi nl
  simp only
  by_cases hL : c.pLowerAlias ≠ [] <;> by_cases hU : c.pUpperAlias ≠ []
  · rw [if_pos hU, if_pos hL, if_pos hL, if_pos hU]
    simp only [tightenLower_eq, tightenUpper_eq, tightenUpper_lower, tightenLower_upper]
    exact ⟨trivial, trivial⟩
  · rw [if_neg hU, if_pos hL, if_pos hL, if_neg hU]
    simp only [tightenLower_eq, tightenUpper_eq, tightenUpper_lower, tightenLower_upper]
    exact ⟨trivial, by simp [ohi]⟩
  · rw [if_pos hU, if_neg hL, if_neg hL, if_pos hU]
    simp only [tightenLower_eq, tightenUpper_eq, tightenUpper_lower, tightenLower_upper]
    exact ⟨by simp [olo], trivial⟩
  · rw [if_neg hU, if_neg hL, if_neg hL, if_neg hU]
    simp only [tightenLower_eq, tightenUpper_eq, tightenUpper_lower, tightenLower_upper]
    exact ⟨by simp [olo], by simp [ohi]⟩

theorem boundStep_lower {r : Row} {l0 lo1 : QOpts} {alias : Bytes} (h : boundStep r l0 alias true = .ok lo1) :
    nl lo1.lower = olo (if alias ≠ [] then rowTime r alias else none) (nl l0.lower) ∧ lo1.upper = l0.upper ∧
      lo1.filter = l0.filter := by
  unfold boundStep at h
  by_cases ha : alias = []
  · simp only [ha, if_true, Except.ok.injEq] at h
    subst h; simp [olo, ha]
  · simp only [ha, if_false] at h
    cases hg : r.get alias with
    | none => simp [hg] at h
    | some v =>
      cases v <;> simp only [hg] at h <;> try (cases h; done)
      rename_i t
      simp only [if_true] at h
      injection h with h
      subst h
      simp only [ne_eq, ha, not_false_eq_true, if_true, rowTime, hg, nl, and_self, and_true]
      cases l0.lower <;> simp [olo, timeAfter]
      split <;> simp <;> omega

theorem boundStep_upper {r : Row} {l0 lo1 : QOpts} {alias : Bytes} (h : boundStep r l0 alias false = .ok lo1) :
    nl lo1.upper = ohi (if alias ≠ [] then rowTime r alias else none) (nl l0.upper) ∧ lo1.lower = l0.lower ∧
      lo1.filter = l0.filter := by
  unfold boundStep at h
  by_cases ha : alias = []
  · simp only [ha, if_true, Except.ok.injEq] at h
    subst h; simp [ohi, ha]
  · simp only [ha, if_false] at h
    cases hg : r.get alias with
    | none => simp [hg] at h
    | some v =>
      cases v <;> simp only [hg] at h <;> try (cases h; done)
      rename_i t
      simp only [Bool.false_eq_true, if_false] at h
      injection h with h
      subst h
      simp only [ne_eq, ha, not_false_eq_true, if_true, rowTime, hg, nl, and_self, and_true]
      cases l0.upper <;> simp [ohi, timeBefore]
      split <;> simp <;> omega

theorem updateTimeBounds_filter (lo : QOpts) (c : Clause) : (updateTimeBounds lo c).filter = lo.filter := rfl

theorem boundsForRow_ok {lo lo1 : QOpts} {c : Clause} {r : Row} (h : boundsForRow lo c r = .ok lo1) :
    nl lo1.lower = olo (nl c.pLower) (olo (aliasLo c r) (olo (nl c.pLower) (nl lo.lower))) ∧
    nl lo1.upper = ohi (nl c.pUpper) (ohi (aliasHi c r) (ohi (nl c.pUpper) (nl lo.upper))) ∧
    lo1.filter = lo.filter := by
  unfold boundsForRow at h
  split at h
  · cases h
  · rename_i la hla
    split at h
    · cases h
    · rename_i lb hlb
      injection h with h
      subst h
      obtain ⟨a1, a2, a3⟩ := boundStep_lower hla
      obtain ⟨b1, b2, b3⟩ := boundStep_upper hlb
      refine ⟨?_, ?_, ?_⟩
      · rw [updateTimeBounds_lower, b2, a1, updateTimeBounds_lower]; rfl
      · rw [updateTimeBounds_upper, b1, a2, updateTimeBounds_upper]; rfl
      · rw [updateTimeBounds_filter, b3, a3, updateTimeBounds_filter]

/-- Bound aliases come only with the `"id"@[?lo,?hi]` form: no constant predicate, no anchor binding. -/
def AliasWF (c : Clause) : Prop :=
  (c.p.isSome ∨ c.pAnchorBinding ≠ []) → c.pLowerAlias = [] ∧ c.pUpperAlias = []

theorem strip_fields {c c' : Clause} (h : strip c' = strip c) :
    c'.pLower = c.pLower ∧ c'.pUpper = c.pUpper ∧ c'.pLowerAlias = c.pLowerAlias ∧ c'.pUpperAlias = c.pUpperAlias ∧
    c'.optional = c.optional ∧ c'.pAnchorBinding = c.pAnchorBinding ∧ c'.pID = c.pID :=
  ⟨show (strip c').pLower = (strip c).pLower from congrArg Clause.pLower h,
   show (strip c').pUpper = (strip c).pUpper from congrArg Clause.pUpper h,
   show (strip c').pLowerAlias = (strip c).pLowerAlias from congrArg Clause.pLowerAlias h,
   show (strip c').pUpperAlias = (strip c).pUpperAlias from congrArg Clause.pUpperAlias h,
   show (strip c').optional = (strip c).optional from congrArg Clause.optional h,
   show (strip c').pAnchorBinding = (strip c).pAnchorBinding from congrArg Clause.pAnchorBinding h,
   show (strip c').pID = (strip c).pID from congrArg Clause.pID h⟩

theorem aliasLo_strip {c c' : Clause} (h : strip c' = strip c) (r : Row) : aliasLo c' r = aliasLo c r := by
  unfold aliasLo; rw [(strip_fields h).2.2.1]
theorem aliasHi_strip {c c' : Clause} (h : strip c' = strip c) (r : Row) : aliasHi c' r = aliasHi c r := by
  unfold aliasHi; rw [(strip_fields h).2.2.2.1]

theorem aliasLo_nil (c : Clause) : aliasLo c [] = none := by unfold aliasLo; split <;> rfl
theorem aliasHi_nil (c : Clause) : aliasHi c [] = none := by unfold aliasHi; split <;> rfl

theorem spPA_p_some {r : Row} {c : Clause} (h : (spPA r c).p.isSome = true) : c.p.isSome = true ∨ c.pAnchorBinding ≠ [] := by
  unfold spPA at h
  by_cases hc : (c.p.isNone && decide (c.pID ≠ []) && decide (c.pAnchorBinding ≠ [])) = true
  · simp only [Bool.and_eq_true, decide_eq_true_eq] at hc
    exact Or.inr hc.2
  · simp only [hc, Bool.false_eq_true, if_false] at h
    exact Or.inl h

theorem spS_p (r : Row) (c : Clause) : (spS r c).p = c.p ∧ (spS r c).pAnchorBinding = c.pAnchorBinding := by
  unfold spS; split
  · split <;> exact ⟨rfl, rfl⟩
  · exact ⟨rfl, rfl⟩

/-- The window `specialise` hands to the fetch is the reference's window of the clause under the row. -/
theorem specialise_window {r : Row} {c c' : Clause} {lo lo' : QOpts} (h : specialise r c lo = .ok (c', lo'))
    (hwf : AliasWF c) :
    (fetchWindow lo' c').lower = (clauseWindow (nl lo.lower) (nl lo.upper) c r).lower ∧
    (fetchWindow lo' c').upper = (clauseWindow (nl lo.lower) (nl lo.upper) c r).upper ∧
    lo'.filter = lo.filter := by
  have hst := specialise_strip h
  obtain ⟨f1, f2, _⟩ := strip_fields hst
  have ⟨cw1, cw2⟩ := clauseWindow_closed (nl lo.lower) (nl lo.upper) c r
  have ⟨fw1, fw2⟩ := clauseWindow_closed (nl lo'.lower) (nl lo'.upper) c' []
  unfold fetchWindow
  show (clauseWindow (nl lo'.lower) (nl lo'.upper) c' []).lower = _ ∧ (clauseWindow (nl lo'.lower) (nl lo'.upper) c' []).upper = _ ∧ _
  rw [fw1, fw2, cw1, cw2, aliasLo_nil, aliasHi_nil, f1, f2]
  unfold specialise at h
  simp only at h
  have e2 : strip (spPA r (spS r c)) = strip c := by rw [strip_spPA, strip_spS]
  split at h
  · cases h
  · rename_i c3 lo3 h3
    split at h3
    · -- the predicate was still open: the row's bounds were applied
      split at h3
      · rename_i lo3' hb
        injection h3 with h3; injection h3 with h3c h3l
        have e3 : strip c3 = strip c := by rw [← h3c, strip_spP, e2]
        obtain ⟨b1, b2, b3⟩ := boundsForRow_ok hb
        have e3' : strip (spP r (spPA r (spS r c))) = strip c := by rw [strip_spP, e2]
        obtain ⟨g1, g2, _⟩ := strip_fields e3'
        rw [g1, aliasLo_strip e3'] at b1
        rw [g2, aliasHi_strip e3'] at b2
        subst h3l
        split at h
        · split at h
          · rename_i lo5 hb5
            injection h with h; injection h with _ hl
            subst hl
            obtain ⟨d1, d2, d3⟩ := boundsForRow_ok hb5
            have e5 : strip (spO r (spOA r c3)) = strip c := by rw [strip_spO, strip_spOA, e3]
            obtain ⟨k1, k2, _⟩ := strip_fields e5
            rw [k1, aliasLo_strip e5, b1] at d1
            rw [k2, aliasHi_strip e5, b2] at d2
            refine ⟨?_, ?_, by rw [d3, b3]⟩
            · rw [d1]; simp only [olo_none_left, olo_none, olo_assoc, olo_left_idem, olo_idem, olo_comm, olo_left_comm]
            · rw [d2]; simp only [ohi_none_left, ohi_none, ohi_assoc, ohi_left_idem, ohi_idem, ohi_comm, ohi_left_comm]
          · cases h
        · injection h with h; injection h with _ hl
          subst hl
          refine ⟨?_, ?_, b3⟩
          · rw [b1]; simp only [olo_none_left, olo_none, olo_assoc, olo_left_idem, olo_idem, olo_comm, olo_left_comm]
          · rw [b2]; simp only [ohi_none_left, ohi_none, ohi_assoc, ohi_left_idem, ohi_idem, ohi_comm, ohi_left_comm]
      · cases h3
    · rename_i hps
      injection h3 with h3; injection h3 with h3c h3l
      subst h3l
      have e3 : strip c3 = strip c := by rw [← h3c, e2]
      split at h
      · split at h
        · rename_i lo5 hb5
          injection h with h; injection h with _ hl
          subst hl
          obtain ⟨d1, d2, d3⟩ := boundsForRow_ok hb5
          have e5 : strip (spO r (spOA r c3)) = strip c := by rw [strip_spO, strip_spOA, e3]
          obtain ⟨k1, k2, _⟩ := strip_fields e5
          rw [k1, aliasLo_strip e5] at d1
          rw [k2, aliasHi_strip e5] at d2
          refine ⟨?_, ?_, d3⟩
          · rw [d1]; simp only [olo_none_left, olo_none, olo_assoc, olo_left_idem, olo_idem, olo_comm, olo_left_comm]
          · rw [d2]; simp only [ohi_none_left, ohi_none, ohi_assoc, ohi_left_idem, ohi_idem, ohi_comm, ohi_left_comm]
        · cases h
      · injection h with h; injection h with _ hl
        subst hl
        -- no bounds applied: the predicate is a constant or comes from an anchor binding, so there are no aliases
        have hsome : (spPA r (spS r c)).p.isSome = true := by
          cases hh : (spPA r (spS r c)).p <;> simp [hh] at hps ⊢
        have := spPA_p_some hsome
        rw [(spS_p r c).1, (spS_p r c).2] at this
        obtain ⟨a1, a2⟩ := hwf this
        have al : aliasLo c r = none := by unfold aliasLo; simp [a1]
        have ah : aliasHi c r = none := by unfold aliasHi; simp [a2]
        rw [al, ah]
        exact ⟨by simp only [olo_none_left], by simp only [ohi_none_left], rfl⟩

end BW.Proofs.Planner
