import BW.Model.Chan2

/-! Two locks (the store's, a graph's): with one lock at a time nothing halts; a `DeleteGraph` that waits for the graph's
    lock while holding the store's does (C07). -/
namespace BW.Model.Chan2

/-- The seeded variant halts: two results, the consumer asks the store for a graph, `DeleteGraph` holds the store
    and waits for the look-up. -/
theorem nested_delete_deadlocks :
    let s := run (start 2 true) [.p, .p, .d]
    s.stuck = true ∧ s.finished = false := by decide

def Inv (s : Sys) : Prop := s.c = .done → s.p = .done

theorem inv_step (s : Sys) (h : Inv s) (t : Tid) (s' : Sys) (hs : step s t = some s') : Inv s' ∧ s'.nested = s.nested := by
  cases t <;> simp only [step] at hs
  · split at hs
    · cases hs; exact ⟨fun hc => by have := h hc; simp_all, rfl⟩
    · cases hs; exact ⟨fun _ => rfl, rfl⟩
    · split at hs
      · cases hs; exact ⟨fun hc => (by cases hc), rfl⟩
      · cases hs
    · cases hs
  · split at hs
    · split at hs
      · cases hs; rename_i hp; exact ⟨fun _ => hp, rfl⟩
      · cases hs
    · split at hs
      · cases hs
      · cases hs; exact ⟨fun hc => (by cases hc), rfl⟩
    · cases hs
  · split at hs
    · cases hs; exact ⟨h, rfl⟩
    · split at hs
      · split at hs
        · cases hs
        · cases hs; exact ⟨h, rfl⟩
      · cases hs; exact ⟨h, rfl⟩
    · cases hs

theorem inv_run (s : Sys) (h : Inv s) (ts : List Tid) : Inv (run s ts) ∧ (run s ts).nested = s.nested := by
  induction ts generalizing s with
  | nil => exact ⟨h, rfl⟩
  | cons t ts ih =>
    simp only [run]
    cases hs : step s t with
    | none => simpa using ih s h
    | some s' =>
      obtain ⟨hi, hb⟩ := inv_step s h t s' hs
      obtain ⟨hi', hb'⟩ := ih s' hi
      exact ⟨by simpa using hi', by simpa [hb] using hb'⟩

/-- With one lock at a time (the code as it is) nothing halts. -/
theorem flat_progress_inv (s : Sys) (h : Inv s) (hn : s.nested = false) : s.finished = true ∨ s.stuck = false := by
  rcases hd : s.d with _ | _ | _
  · right; simp [Sys.stuck, step, hd]
  · right; simp [Sys.stuck, step, hd, hn]
  · rcases hc : s.c with _ | _ | _
    · right
      rcases hp : s.p with _ | k | _
      · simp [Sys.stuck, step, hp]
      · cases k <;> simp [Sys.stuck, step, hp, hc]
      · simp [Sys.stuck, step, hp, hc]
    · right; simp [Sys.stuck, step, hc, hd]
    · have hp := h hc
      left; simp [Sys.finished, hp, hc, hd]

theorem store_use_never_deadlocks (n : Nat) (sched : List Tid) :
    (run (start n false) sched).finished = true ∨ (run (start n false) sched).stuck = false := by
  obtain ⟨hi, hb⟩ := inv_run (start n false) (by intro h; cases h) sched
  exact flat_progress_inv _ hi (by simpa [start] using hb)

end BW.Model.Chan2
