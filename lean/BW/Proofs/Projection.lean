/-
Projection without GROUP BY (`projectAndGroupBy`, plain case): the planner reads every projected binding of
a row and then writes the aliases; every output column shows what the reference's simultaneous projection
shows, whatever the aliases are called (an alias may be spelled like a pattern binding: 1cfe61b).
-/
import BW.Proofs.PlannerStep11
set_option linter.unusedSimpArgs false
open BW.Model BW.Spec BW.Proofs.ClauseOrder BW.Proofs.Planner

namespace BW.Proofs.Projection

theorem get_set (r : Row) (k : Bytes) (v : Cell) (k' : Bytes) :
    (r.set k v).get k' = if k' = k then some v else r.get k' := by
  by_cases h : r.has k = true
  · exact get_set_has r k v k' h
  · have h' : r.has k = false := by simpa using h
    unfold Row.set
    simp only [h', Bool.false_eq_true, if_false]
    rw [get_append_single]
    have hn : r.get k = none := by
      rw [has_iff_get] at h'
      cases hg : r.get k with
      | none => rfl
      | some x => simp [hg] at h'
    by_cases hk : k' = k
    · subst hk; simp [hn]
    · have : (k == k') = false := by simpa using fun e => hk e.symm
      cases r.get k' <;> simp [hk, this]

theorem get_filter_ne (r : Row) (a k : Bytes) (h : k ≠ a) :
    Row.get (r.filter fun kv => kv.1 != a) k = r.get k := by
  unfold Row.get
  congr 1
  induction r with
  | nil => rfl
  | cons x r ih =>
    by_cases hx : x.1 = a
    · have hf : (x.1 != a) = false := by simp [hx]
      have hne : (x.1 == k) = false := by
        rw [hx]; exact beq_false_of_ne (fun e => h e.symm)
      rw [List.filter_cons_of_neg (p := fun kv : Bytes × Cell => kv.1 != a) (by simp [hf]), List.find?_cons_of_neg (by simp [hne])]
      exact ih
    · have hf : (x.1 != a) = true := by simp [hx]
      rw [List.filter_cons_of_pos (p := fun kv : Bytes × Cell => kv.1 != a) (by exact hf)]
      by_cases hk : (x.1 == k) = true
      · rw [List.find?_cons_of_pos (by exact hk), List.find?_cons_of_pos (by exact hk)]
      · rw [List.find?_cons_of_neg (by exact hk), List.find?_cons_of_neg (by exact hk)]
        exact ih

theorem projectPlain_rows (ps : List Proj) (rows : List Row) :
    (rows.map (projectRow ps)) = rows.map fun r => ps.foldl (projStep r) r := rfl

theorem sim_get_other (ps : List Proj) (r out : Row) (k : Bytes) (hk : ∀ p ∈ ps, p.alias ≠ k) :
    (ps.foldl (projStep r) out).get k = out.get k := by
  induction ps generalizing out with
  | nil => rfl
  | cons p ps ih =>
    simp only [List.foldl_cons]
    rw [ih _ (fun q hq => hk q (List.mem_cons_of_mem _ hq))]
    have hne : k ≠ p.alias := fun e => hk p List.mem_cons_self e.symm
    unfold projStep
    cases r.get p.binding with
    | none => exact get_filter_ne out p.alias k hne
    | some c =>
      simp only
      rw [get_set]
      simp [hne]

def specStep (r : Row) (out : Row) (p : Proj) : Row :=
  if p.out = [] then out else out.set p.out ((r.get p.binding).getD .null)

theorem project_eq (ps : List Proj) (r : Row) : project ps r = ps.foldl (specStep r) [] := rfl

theorem spec_get_other (ps : List Proj) (r out0 : Row) (k : Bytes) (hk : ∀ p ∈ ps, p.out ≠ k) :
    (ps.foldl (specStep r) out0).get k = out0.get k := by
  induction ps generalizing out0 with
  | nil => rfl
  | cons p ps ih =>
    simp only [List.foldl_cons]
    rw [ih _ (fun q hq => hk q (List.mem_cons_of_mem _ hq))]
    unfold specStep
    split
    · rfl
    · rw [get_set]
      have : k ≠ p.out := fun e => hk p List.mem_cons_self e.symm
      simp [this]

theorem spec_get (ps : List Proj) (r : Row) (hn : (ps.map Proj.out).Nodup) :
    ∀ out0, ∀ p ∈ ps, p.out ≠ [] → (ps.foldl (specStep r) out0).get p.out = some ((r.get p.binding).getD .null) := by
  induction ps with
  | nil => intro _ p hp; cases hp
  | cons q ps ih =>
    intro out0 p hp hne
    simp only [List.map_cons, List.nodup_cons] at hn
    simp only [List.foldl_cons]
    rcases List.mem_cons.mp hp with e | hp'
    · subst e
      rw [spec_get_other ps r _ p.out (fun q' hq' e => hn.1 (e ▸ List.mem_map.mpr ⟨q', hq', rfl⟩))]
      unfold specStep
      simp only [hne, if_false]
      rw [get_set]; simp
    · exact ih hn.2 _ p hp' hne

theorem out_of_alias (p : Proj) (h : p.alias ≠ []) : p.out = p.alias := by unfold Proj.out; simp [h]
theorem out_of_noalias (p : Proj) (h : p.alias = []) : p.out = p.binding := by unfold Proj.out; simp [h]

/-- Distinct output names: two projections with the same output name are the same projection. -/
theorem out_inj (ps : List Proj) (hn : (ps.map Proj.out).Nodup) :
    ∀ p ∈ ps, ∀ q ∈ ps, p.out = q.out → p = q := by
  induction ps with
  | nil => intro p hp; cases hp
  | cons a l ih =>
    simp only [List.map_cons, List.nodup_cons] at hn
    intro p hp q hq e
    rcases List.mem_cons.mp hp with ep | hp'
    · rcases List.mem_cons.mp hq with eq | hq'
      · rw [ep, eq]
      · exact absurd (List.mem_map.mpr ⟨q, hq', (ep ▸ e).symm⟩) hn.1
    · rcases List.mem_cons.mp hq with eq | hq'
      · exact absurd (List.mem_map.mpr ⟨p, hp', eq ▸ e⟩) hn.1
      · exact ih hn.2 p hp' q hq' e

theorem sim_get_alias (ps : List Proj) (r : Row) (hn : (ps.map Proj.out).Nodup) :
    ∀ out0, ∀ p ∈ ps, p.alias ≠ [] → ∀ c, r.get p.binding = some c → (ps.foldl (projStep r) out0).get p.alias = some c := by
  induction ps with
  | nil => intro _ p hp; cases hp
  | cons q ps ih =>
    intro out0 p hp hpa c hc
    simp only [List.map_cons, List.nodup_cons] at hn
    simp only [List.foldl_cons]
    rcases List.mem_cons.mp hp with e | hp'
    · subst e
      have hother : ∀ q' ∈ ps, q'.alias ≠ p.alias := by
        intro q' hq' e
        have : q'.out = p.out := by rw [out_of_alias p hpa, out_of_alias q' (e ▸ hpa), e]
        exact hn.1 (this ▸ List.mem_map.mpr ⟨q', hq', rfl⟩)
      rw [sim_get_other ps r _ p.alias hother]
      unfold projStep
      simp only [hc]
      rw [get_set]; simp
    · exact ih hn.2 _ p hp' hpa c hc

/-- **Projection.** The planner's projection of a row (read every projected binding, then write the aliases)
    shows, in every output column, what the simultaneous projection of the reference shows — for any
    statement whose output names are distinct, whatever the aliases are called. -/
theorem projection_spec (ps : List Proj) (r : Row) (hb : ∀ p ∈ ps, p.binding ≠ [])
    (hn : (ps.map Proj.out).Nodup) (hr : ∀ p ∈ ps, r.has p.binding = true) :
    ∀ p ∈ ps, (projectRow ps r).get p.out = (project ps r).get p.out := by
  intro p hp
  obtain ⟨c, hc⟩ : ∃ c, r.get p.binding = some c := by
    have := hr p hp
    rw [has_iff_get] at this
    cases hg : r.get p.binding with
    | none => simp [hg] at this
    | some c => exact ⟨c, rfl⟩
  have hone : p.out ≠ [] := by
    by_cases ha : p.alias = []
    · rw [out_of_noalias p ha]; exact hb p hp
    · rw [out_of_alias p ha]; exact ha
  rw [project_eq, spec_get ps r hn [] p hp hone, hc]
  simp only [Option.getD_some]
  unfold projectRow
  by_cases ha : p.alias = []
  · rw [out_of_noalias p ha]
    rw [sim_get_other ps r r p.binding]
    · exact hc
    · intro q hq e
      have hqa : q.alias ≠ [] := by rw [e]; exact hb p hp
      have : q = p := out_inj ps hn q hq p hp (by rw [out_of_alias q hqa, out_of_noalias p ha, e])
      rw [this] at hqa
      exact hqa ha
  · rw [out_of_alias p ha]
    exact sim_get_alias ps r hn r p hp ha c hc

/-- The reference's projection does not depend on the order of the SELECT list: every column shows the same
    cell (output names distinct, bindings non-empty). -/
theorem project_perm (ps ps' : List Proj) (hp : ps.Perm ps') (hn : (ps.map Proj.out).Nodup)
    (hb : ∀ p ∈ ps, p.binding ≠ []) (r : Row) (k : Bytes) :
    (project ps r).get k = (project ps' r).get k := by
  have hn' : (ps'.map Proj.out).Nodup := (hp.map Proj.out).nodup_iff.mp hn
  have hone : ∀ p ∈ ps, p.out ≠ [] := by
    intro p hpm
    by_cases ha : p.alias = []
    · rw [out_of_noalias p ha]; exact hb p hpm
    · rw [out_of_alias p ha]; exact ha
  by_cases hk : ∃ p ∈ ps, p.out = k
  · obtain ⟨p, hpm, e⟩ := hk
    subst e
    rw [project_eq, project_eq, spec_get ps r hn [] p hpm (hone p hpm),
      spec_get ps' r hn' [] p (hp.mem_iff.mp hpm) (hone p hpm)]
  · have h1 : ∀ p ∈ ps, p.out ≠ k := fun p hpm e => hk ⟨p, hpm, e⟩
    have h2 : ∀ p ∈ ps', p.out ≠ k := fun p hpm e => hk ⟨p, hp.mem_iff.mpr hpm, e⟩
    rw [project_eq, project_eq, spec_get_other ps r [] k h1, spec_get_other ps' r [] k h2]

end BW.Proofs.Projection
