/-
Projection without GROUP BY (`projectAndGroupBy`, plain case): the planner copies aliases one after the
other; with fresh alias names every output column shows what the reference's simultaneous projection shows.
-/
import BW.Proofs.PlannerStep11
set_option linter.unusedSimpArgs false
open BW.Model BW.Spec BW.Proofs.ClauseOrder BW.Proofs.Planner

namespace BW.Proofs.Projection

theorem get_set (r : Row) (k : Bytes) (v : Cell) (k' : Bytes) :
    (r.set k v).get k' = if k' = k then some v else r.get k' := by
  by_cases h : r.has k = true
  · exact get_set_has r k v k' h
  · have h' : r.has k = false := by simpa using h
    unfold Row.set
    simp only [h', Bool.false_eq_true, if_false]
    rw [get_append_single]
    have hn : r.get k = none := by
      rw [has_iff_get] at h'
      cases hg : r.get k with
      | none => rfl
      | some x => simp [hg] at h'
    by_cases hk : k' = k
    · subst hk; simp [hn]
    · have : (k == k') = false := by simpa using fun e => hk e.symm
      cases r.get k' <;> simp [hk, this]

/-- The model's projection of one row: aliases are copied one after the other. -/
def seqStep (r : Row) (p : Proj) : Row :=
  match r.get p.binding with
  | some c => r.set p.alias c
  | none => r

def seqProj (ps : List Proj) (r : Row) : Row := ps.foldl seqStep r

theorem projectPlain_rows (ps : List Proj) (rows : List Row) :
    ps.foldl (fun rows p => rows.map fun r => match r.get p.binding with
        | some c => r.set p.alias c
        | none => r) rows = rows.map (seqProj ps) := by
  induction ps generalizing rows with
  | nil => simp only [List.foldl_nil]; rw [show seqProj [] = id from rfl, List.map_id]
  | cons p ps ih =>
    simp only [List.foldl_cons]
    rw [ih]
    simp only [List.map_map]
    apply List.map_congr_left
    intro r _
    simp [seqProj, seqStep]

/-- Aliases are fresh names: no alias is the input of a projection or the output of another one. -/
def FreshAliases (ps : List Proj) : Prop :=
  (∀ p ∈ ps, ∀ q ∈ ps, p.alias ≠ [] → q.binding ≠ p.alias) ∧ (ps.map Proj.out).Nodup

theorem seqProj_get_other (ps : List Proj) (r : Row) (k : Bytes) (hk : ∀ p ∈ ps, p.alias ≠ k) :
    (seqProj ps r).get k = r.get k := by
  induction ps generalizing r with
  | nil => rfl
  | cons p ps ih =>
    simp only [seqProj, List.foldl_cons]
    have := ih (seqStep r p) (fun q hq => hk q (List.mem_cons_of_mem _ hq))
    simp only [seqProj] at this
    rw [this]
    unfold seqStep
    cases r.get p.binding with
    | none => rfl
    | some c =>
      simp only
      rw [get_set]
      have : k ≠ p.alias := fun e => hk p List.mem_cons_self e.symm
      simp [this]

def specStep (r : Row) (out : Row) (p : Proj) : Row :=
  if p.out = [] then out else out.set p.out ((r.get p.binding).getD .null)

theorem project_eq (ps : List Proj) (r : Row) : project ps r = ps.foldl (specStep r) [] := rfl

theorem spec_get_other (ps : List Proj) (r out0 : Row) (k : Bytes) (hk : ∀ p ∈ ps, p.out ≠ k) :
    (ps.foldl (specStep r) out0).get k = out0.get k := by
  induction ps generalizing out0 with
  | nil => rfl
  | cons p ps ih =>
    simp only [List.foldl_cons]
    rw [ih _ (fun q hq => hk q (List.mem_cons_of_mem _ hq))]
    unfold specStep
    split
    · rfl
    · rw [get_set]
      have : k ≠ p.out := fun e => hk p List.mem_cons_self e.symm
      simp [this]

theorem spec_get (ps : List Proj) (r : Row) (hn : (ps.map Proj.out).Nodup) :
    ∀ out0, ∀ p ∈ ps, p.out ≠ [] → (ps.foldl (specStep r) out0).get p.out = some ((r.get p.binding).getD .null) := by
  induction ps with
  | nil => intro _ p hp; cases hp
  | cons q ps ih =>
    intro out0 p hp hne
    simp only [List.map_cons, List.nodup_cons] at hn
    simp only [List.foldl_cons]
    rcases List.mem_cons.mp hp with e | hp'
    · subst e
      rw [spec_get_other ps r _ p.out (fun q' hq' e => hn.1 (e ▸ List.mem_map.mpr ⟨q', hq', rfl⟩))]
      unfold specStep
      simp only [hne, if_false]
      rw [get_set]; simp
    · exact ih hn.2 _ p hp' hne

theorem out_of_alias (p : Proj) (h : p.alias ≠ []) : p.out = p.alias := by unfold Proj.out; simp [h]
theorem out_of_noalias (p : Proj) (h : p.alias = []) : p.out = p.binding := by unfold Proj.out; simp [h]

theorem seq_get_alias (ps : List Proj) (hb : ∀ p ∈ ps, p.binding ≠ [])
    (hf : ∀ p ∈ ps, ∀ q ∈ ps, p.alias ≠ [] → q.binding ≠ p.alias) (hn : (ps.map Proj.out).Nodup) :
    ∀ r, ∀ p ∈ ps, p.alias ≠ [] → ∀ c, r.get p.binding = some c → (seqProj ps r).get p.alias = some c := by
  induction ps with
  | nil => intro _ p hp; cases hp
  | cons q ps ih =>
    intro r p hp hpa c hc
    simp only [List.map_cons, List.nodup_cons] at hn
    simp only [seqProj, List.foldl_cons]
    rcases List.mem_cons.mp hp with e | hp'
    · subst e
      have hother : ∀ q' ∈ ps, q'.alias ≠ p.alias := by
        intro q' hq' e
        have : q'.out = p.out := by rw [out_of_alias p hpa, out_of_alias q' (e ▸ hpa), e]
        exact hn.1 (this ▸ List.mem_map.mpr ⟨q', hq', rfl⟩)
      have := seqProj_get_other ps (seqStep r p) p.alias hother
      simp only [seqProj] at this
      rw [this]
      unfold seqStep
      simp only [hc]
      rw [get_set]; simp
    · have ih' := ih (fun p hp => hb p (List.mem_cons_of_mem _ hp))
        (fun a ha b hb' => hf a (List.mem_cons_of_mem _ ha) b (List.mem_cons_of_mem _ hb')) hn.2
      have hkeep : (seqStep r q).get p.binding = some c := by
        unfold seqStep
        cases hq : r.get q.binding with
        | none => exact hc
        | some c' =>
          simp only
          rw [get_set]
          have : p.binding ≠ q.alias := by
            by_cases hqa : q.alias = []
            · rw [hqa]; exact hb p hp
            · exact hf q List.mem_cons_self p hp hqa
          simp [this, hc]
      have := ih' (seqStep r q) p hp' hpa c hkeep
      simp only [seqProj] at this
      exact this

/-- **Projection.** With fresh alias names, copying the aliases one after the other (the planner) shows, in
    every output column, what the simultaneous projection of the reference shows. -/
theorem projection_spec (ps : List Proj) (r : Row) (hb : ∀ p ∈ ps, p.binding ≠ []) (hf : FreshAliases ps)
    (hr : ∀ p ∈ ps, r.has p.binding = true) :
    ∀ p ∈ ps, (seqProj ps r).get p.out = (project ps r).get p.out := by
  intro p hp
  obtain ⟨c, hc⟩ : ∃ c, r.get p.binding = some c := by
    have := hr p hp
    rw [has_iff_get] at this
    cases hg : r.get p.binding with
    | none => simp [hg] at this
    | some c => exact ⟨c, rfl⟩
  have hone : p.out ≠ [] := by
    by_cases ha : p.alias = []
    · rw [out_of_noalias p ha]; exact hb p hp
    · rw [out_of_alias p ha]; exact ha
  rw [project_eq, spec_get ps r hf.2 [] p hp hone, hc]
  simp only [Option.getD_some]
  by_cases ha : p.alias = []
  · rw [out_of_noalias p ha]
    rw [seqProj_get_other ps r p.binding]
    · exact hc
    · intro q hq e
      by_cases hqa : q.alias = []
      · rw [hqa] at e; exact hb p hp e.symm
      · exact hf.1 q hq p hp hqa e.symm
  · rw [out_of_alias p ha]
    exact seq_get_alias ps hb hf.1 hf.2 r p hp ha c hc

end BW.Proofs.Projection
