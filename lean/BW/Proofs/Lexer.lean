/-
Structural facts about the lexer model (helper lemmas for C16): every sub-lexer consumes a non-empty
prefix of the remaining input and returns exactly the rest.
-/
import BW.Model.Lexer

set_option linter.unusedSimpArgs false
set_option linter.unusedVariables false
set_option linter.unusedSectionVars false

namespace BW.Proofs.Lexer
open BW.Model

variable {K : Type} [DecidableEq K]

/-- What a sub-lexer may return on `rest`: a token whose text is a non-empty prefix, with the exact
    remainder; or an error whose text is a prefix. -/
def Good (rest : List Rune) : LStep K → Prop
  | .tok _ text rest' => text ++ rest' = rest ∧ text ≠ []
  | .err text => ∃ tail, text ++ tail = rest

/-- Variant for the scanning loops with an accumulator (consumed text, reversed). -/
def GoodAcc (acc rest : List Rune) : LStep K → Prop
  | .tok _ text rest' => text ++ rest' = acc.reverse ++ rest ∧ acc.length < text.length
  | .err text => ∃ tail, text ++ tail = acc.reverse ++ rest

theorem tw_dw {α : Type} (p : α → Bool) (l : List α) : l.takeWhile p ++ l.dropWhile p = l :=
  List.takeWhile_append_dropWhile

theorem lexBinding_good (T : LexTables K) (r : Rune) (t : List Rune) : Good (r :: t) (lexBinding T (r :: t)) := by
  simp [lexBinding, Good, tw_dw]

theorem lexKeyword_good (T : LexTables K) (r : Rune) (t : List Rune) (h : r.letter = true) :
    Good (r :: t) (lexKeyword T (r :: t)) := by
  unfold lexKeyword
  simp only
  split
  · refine ⟨tw_dw _ _, ?_⟩
    simp [List.takeWhile_cons, h]
  · exact ⟨_, tw_dw _ _⟩

theorem lexFilterFunction_good (T : LexTables K) (r : Rune) (t : List Rune) :
    Good (r :: t) (lexFilterFunction T (r :: t)) := by
  unfold lexFilterFunction
  simp only
  have h := tw_dw (fun x : Rune => x.letter) t
  split
  · rename_i heq
    rw [heq, List.append_nil] at h
    exact ⟨[], by simp [h]⟩
  · rename_i n after heq
    rw [heq] at h
    split
    · refine ⟨by simp [h], by simp⟩
    · exact ⟨after, by simp only [List.cons_append, List.append_assoc, List.nil_append]; rw [h]⟩

theorem lexNodeGo_good (T : LexTables K) (acc rest : List Rune) (lt : Bool) :
    GoodAcc acc rest (lexNodeGo T acc rest lt) := by
  fun_induction lexNodeGo T acc rest lt <;> simp_all [GoodAcc] <;> try omega
  all_goals first
    | (rename_i ih; cases h : lexNodeGo T _ _ _ <;> simp_all [GoodAcc] <;> omega)
    | skip

theorem good_of_goodAcc_nil {rest : List Rune} {s : LStep K} (h : GoodAcc [] rest s) : Good rest s := by
  cases s with
  | tok k text rest' =>
    simp only [GoodAcc, List.reverse_nil, List.nil_append, List.length_nil] at h
    exact ⟨h.1, by intro e; simp [e] at h⟩
  | err text => simpa [GoodAcc, Good] using h

theorem good_of_goodAcc_one {q : Rune} {t : List Rune} {s : LStep K} (h : GoodAcc [q] t s) : Good (q :: t) s := by
  cases s with
  | tok k text rest' =>
    simp only [GoodAcc, List.reverse_cons, List.reverse_nil, List.nil_append, List.singleton_append,
      List.length_cons, List.length_nil] at h
    exact ⟨h.1, by intro e; simp [e] at h⟩
  | err text => simpa [GoodAcc, Good] using h

theorem lexNode_good (T : LexTables K) (rest : List Rune) : Good rest (lexNode T rest) :=
  good_of_goodAcc_nil (lexNodeGo_good T [] rest false)

theorem lexBlankNode_good (T : LexTables K) (r : Rune) (t : List Rune) :
    Good (r :: t) (lexBlankNode T (r :: t)) := by
  unfold lexBlankNode
  cases t with
  | nil => exact ⟨[], rfl⟩
  | cons c t1 =>
    simp only
    by_cases hc : (c.cp != 58) = true
    · simp only [hc, if_true]; exact ⟨t1, rfl⟩
    · simp only [hc, Bool.false_eq_true, if_false]
      cases t1 with
      | nil => exact ⟨[], rfl⟩
      | cons l t2 =>
        simp only
        by_cases hl : (!l.letter) = true
        · simp only [hl, if_true]; exact ⟨t2, rfl⟩
        · simp only [hl, Bool.false_eq_true, if_false]
          refine ⟨?_, by simp⟩
          simp [tw_dw]

theorem consumePat_spec (pat : List Nat) (acc rest : List Rune) :
    (consumePat pat acc rest).2.1.reverse ++ (consumePat pat acc rest).2.2 = acc.reverse ++ rest ∧
    acc.length ≤ (consumePat pat acc rest).2.1.length := by
  induction pat generalizing acc rest with
  | nil => simp [consumePat]
  | cons c cs ih =>
    cases rest with
    | nil => simp [consumePat]
    | cons r t =>
      unfold consumePat
      by_cases h : (r.lower == asciiLower c) = true
      · simp only [h, if_true]
        have := ih (r :: acc) t
        simp only [List.reverse_cons, List.append_assoc, List.singleton_append, List.length_cons] at this
        exact ⟨this.1, by omega⟩
      · simp [h]

theorem goodAcc_shift {x : Rune} {acc t : List Rune} {s : LStep K} (h : GoodAcc (x :: acc) t s) :
    GoodAcc acc (x :: t) s := by
  cases s with
  | tok k text rest' =>
    simp only [GoodAcc, List.reverse_cons, List.append_assoc, List.singleton_append, List.length_cons] at *
    exact ⟨h.1, by omega⟩
  | err text =>
    simp only [GoodAcc, List.reverse_cons, List.append_assoc, List.singleton_append] at *
    exact h

theorem goodAcc_tok {k : K} {acc rest : List Rune} (x : Rune) :
    GoodAcc acc (x :: rest) (.tok k (x :: acc).reverse rest) := by
  simp [GoodAcc]

theorem goodAcc_err {acc rest : List Rune} : GoodAcc (K := K) acc rest (.err acc.reverse) := ⟨rest, rfl⟩

theorem goodAcc_err1 {acc rest : List Rune} (x : Rune) : GoodAcc (K := K) acc (x :: rest) (.err (x :: acc).reverse) :=
  ⟨rest, by simp⟩

theorem predTail_good (T : LexTables K) (acc rest : List Rune) (c : Nat) :
    GoodAcc acc rest (predTail T acc rest c) := by
  induction rest generalizing acc c with
  | nil => exact goodAcc_err
  | cons r t ih =>
    unfold predTail
    simp only
    generalize (if (r.cp == 44) = true then c + 1 else c) = c'
    by_cases h93 : (r.cp == 93) = true
    · simp only [h93, if_true]
      by_cases hc : c' > 1
      · simp only [hc, if_true]; exact goodAcc_err1 (K := K) r
      · simp only [hc, if_false]; exact goodAcc_tok (K := K) r
    · simp only [h93, Bool.false_eq_true, if_false]
      exact goodAcc_shift (ih (r :: acc) _)

theorem consume_then {pat : List Nat} {acc rest : List Rune} {s : LStep K}
    (h : GoodAcc (consumePat pat acc rest).2.1 (consumePat pat acc rest).2.2 s) : GoodAcc acc rest s := by
  have hc := consumePat_spec pat acc rest
  cases s with
  | tok k text rest' =>
    simp only [GoodAcc] at *
    exact ⟨h.1.trans hc.1, by omega⟩
  | err text =>
    simp only [GoodAcc] at *
    obtain ⟨tail, ht⟩ := h
    exact ⟨tail, ht.trans hc.1⟩

theorem lexPredicateGo_good (T : LexTables K) (acc rest : List Rune) :
    GoodAcc acc rest (lexPredicateGo T acc rest) := by
  fun_induction lexPredicateGo T acc rest
  case case1 => exact goodAcc_err
  case case2 ih => exact goodAcc_shift (goodAcc_shift ih)
  case case3 ih => exact goodAcc_shift ih
  case case4 ih => exact goodAcc_shift ih
  case case5 acc r t h1 h2 acc' rest' heq =>
    apply consume_then (pat := [34, 64, 91])
    rw [heq]
    exact predTail_good T acc' rest' 0
  case case6 acc r t h1 h2 acc' x heq =>
    apply consume_then (pat := [34, 64, 91])
    rw [heq]
    exact goodAcc_err
  case case7 ih => exact goodAcc_shift ih

theorem lexPredicate_good (T : LexTables K) (q : Rune) (t : List Rune) : Good (q :: t) (lexPredicate T (q :: t)) :=
  good_of_goodAcc_one (lexPredicateGo_good T [q] t)

theorem consumePat_true_len (pat : List Nat) (acc rest : List Rune)
    (h : (consumePat pat acc rest).1 = true) : (consumePat pat acc rest).2.1.length = acc.length + pat.length := by
  induction pat generalizing acc rest with
  | nil => simp [consumePat]
  | cons c cs ih =>
    cases rest with
    | nil => simp [consumePat] at h
    | cons r t =>
      unfold consumePat at h ⊢
      by_cases hh : (r.lower == asciiLower c) = true
      · simp only [hh, if_true] at h ⊢
        rw [ih (r :: acc) t h]
        simp only [List.length_cons]; omega
      · simp [hh] at h

theorem lexLiteralGo_good (T : LexTables K) (acc rest : List Rune) :
    GoodAcc acc rest (lexLiteralGo T acc rest) := by
  fun_induction lexLiteralGo T acc rest
  case case1 => exact goodAcc_err
  case case2 ih => exact goodAcc_shift (goodAcc_shift ih)
  case case3 ih => exact goodAcc_shift ih
  case case4 ih => exact goodAcc_shift ih
  case case5 acc r t h1 h2 acc' rest' heq ty after hty =>
    have hc := consumePat_spec [34, 94, 94, 116, 121, 112, 101, 58] acc (r :: t)
    have hl := consumePat_true_len [34, 94, 94, 116, 121, 112, 101, 58] acc (r :: t) (by rw [heq])
    rw [heq] at hc hl
    have hs : ty ++ after = rest' := tw_dw _ _
    simp only at hc hl
    refine ⟨?_, ?_⟩
    · rw [List.append_assoc, hs]; exact hc.1
    · simp only [List.length_append, List.length_reverse, hl, List.length_cons, List.length_nil]; omega
  case case6 acc r t h1 h2 acc' rest' heq ty after hty hafter =>
    have hc := consumePat_spec [34, 94, 94, 116, 121, 112, 101, 58] acc (r :: t)
    rw [heq] at hc
    have hs : ty ++ after = rest' := tw_dw _ _
    refine ⟨[], ?_⟩
    simp only [List.append_nil]
    rw [← hc.1, ← hs, hafter, List.append_nil]
  case case7 acc r t h1 h2 acc' rest' heq ty after hty x xs hafter =>
    have hc := consumePat_spec [34, 94, 94, 116, 121, 112, 101, 58] acc (r :: t)
    rw [heq] at hc
    have hs : ty ++ after = rest' := tw_dw _ _
    refine ⟨xs, ?_⟩
    rw [← hc.1, ← hs, hafter]
    simp
  case case8 acc r t h1 h2 acc' x heq =>
    apply consume_then (pat := [34, 94, 94, 116, 121, 112, 101, 58])
    rw [heq]
    exact goodAcc_err
  case case9 ih => exact goodAcc_shift ih

theorem lexLiteral_good (T : LexTables K) (q : Rune) (t : List Rune) : Good (q :: t) (lexLiteral T (q :: t)) :=
  good_of_goodAcc_one (lexLiteralGo_good T [q] t)

theorem lexPredicateOrLiteral_good (T : LexTables K) (q : Rune) (t : List Rune) :
    Good (q :: t) (lexPredicateOrLiteral T (q :: t)) := by
  unfold lexPredicateOrLiteral
  simp only
  split
  · exact ⟨q :: t, rfl⟩
  · exact lexPredicate_good T q t
  · split
    · exact lexPredicate_good T q t
    · exact lexLiteral_good T q t
  · exact lexLiteral_good T q t

theorem globalTimeGo_good (T : LexTables K) (acc rest : List Rune) (c : Nat) (hacc : acc ≠ []) :
    (match globalTimeGo T acc rest c with
     | .tok _ text rest' => text ++ rest' = acc.reverse ++ rest ∧ text ≠ []
     | .err text => ∃ tail, text ++ tail = acc.reverse ++ rest) := by
  fun_induction globalTimeGo T acc rest c
  case case1 => simp [hacc]
  case case2 acc r t c h1 h2 => exact ⟨t, by simp⟩
  case case3 acc r t c h1 h2 ih =>
    have := ih (by simp)
    have hs := tw_dw (fun x : Rune => x.space) t
    cases hg : globalTimeGo T ((List.takeWhile (fun x => x.space) t).reverse ++ r :: acc)
        (List.dropWhile (fun x => x.space) t) (c + 1) with
    | tok k text rest' =>
      rw [hg] at this
      simp only [List.reverse_append, List.reverse_reverse, List.reverse_cons, List.append_assoc,
        List.singleton_append] at this
      refine ⟨?_, this.2⟩
      rw [this.1]
      simp only [List.cons_append, List.nil_append]
      rw [hs]
    | err text =>
      rw [hg] at this
      simp only [List.reverse_append, List.reverse_reverse, List.reverse_cons, List.append_assoc,
        List.singleton_append] at this
      obtain ⟨tail, ht⟩ := this
      refine ⟨tail, ?_⟩
      rw [ht]
      simp only [List.cons_append, List.nil_append]
      rw [hs]
  case case4 acc r t c h1 h2 => simp [hacc]
  case case5 acc r t c h1 h2 h3 => simp
  case case6 acc r t c h1 h2 h3 ih =>
    have := ih (by simp)
    cases hg : globalTimeGo T (r :: acc) t c with
    | tok k text rest' => rw [hg] at this; simpa using this
    | err text => rw [hg] at this; simpa using this

theorem lexGlobalTime_good (T : LexTables K) (d : Rune) (t : List Rune) : Good (d :: t) (lexGlobalTime T (d :: t)) := by
  have := globalTimeGo_good T [d] t 0 (by simp)
  simp only [lexGlobalTime]
  cases h : globalTimeGo T [d] t 0 <;> rw [h] at this <;> simp only [Good] <;> simpa using this

theorem localTimeGo_good (T : LexTables K) (acc rest : List Rune) (hacc : acc ≠ []) :
    (match localTimeGo T acc rest with
     | .tok _ text rest' => text ++ rest' = acc.reverse ++ rest ∧ text ≠ []
     | .err text => ∃ tail, text ++ tail = acc.reverse ++ rest) := by
  induction rest generalizing acc with
  | nil => simp [localTimeGo, hacc]
  | cons r t ih =>
    unfold localTimeGo
    by_cases h1 : (r.cp == 59 || r.cp == 41) = true
    · simp [h1, hacc]
    · simp only [h1, Bool.false_eq_true, if_false]
      by_cases h2 : r.space = true
      · simp [h2]
      · simp only [h2, Bool.false_eq_true, if_false]
        have := ih (r :: acc) (by simp)
        cases hg : localTimeGo T (r :: acc) t with
        | tok k text rest' => rw [hg] at this; simpa using this
        | err text => rw [hg] at this; simpa using this

theorem lexLocalTime_good (T : LexTables K) (d : Rune) (t : List Rune) : Good (d :: t) (lexLocalTime T (d :: t)) := by
  have := localTimeGo_good T [d] t (by simp)
  simp only [lexLocalTime]
  cases h : localTimeGo T [d] t <;> rw [h] at this <;> simp only [Good] <;> simpa using this

/-- Whatever lexToken dispatches to consumes a non-empty prefix and hands back the exact rest. -/
theorem dispatch_good (T : LexTables K) (last : K) (r : Rune) (t : List Rune) (s : LStep K)
    (h : dispatch T last r (r :: t) = some s) : Good (r :: t) s := by
  unfold dispatch at h
  split at h
  · injection h with h; subst h; exact lexGlobalTime_good T r t
  split at h
  · injection h with h; subst h; exact lexLocalTime_good T r t
  split at h
  · injection h with h; subst h; exact lexBinding_good T r t
  split at h
  · injection h with h; subst h; exact lexNode_good T (r :: t)
  split at h
  · injection h with h; subst h; exact lexBlankNode_good T r t
  split at h
  · injection h with h; subst h; exact lexPredicateOrLiteral_good T r t
  split at h
  · rename_i hl
    injection h with h; subst h
    split
    · exact lexFilterFunction_good T r t
    · exact lexKeyword_good T r t hl
  split at h
  · injection h with h; subst h; simp [Good]
  · cases h

/-! ### The main loop -/

/-- Token texts are substrings of the input in left-to-right order, without overlap. -/
inductive Ordered : List (List Rune) → List Rune → Prop
  | nil (input : List Rune) : Ordered [] input
  | cons (gap text rest : List Rune) (ts : List (List Rune)) :
      Ordered ts rest → Ordered (text :: ts) (gap ++ text ++ rest)

theorem Ordered.weaken {ts : List (List Rune)} {input : List Rune} (pre : List Rune) (h : Ordered ts input) :
    Ordered ts (pre ++ input) := by
  cases h with
  | nil => exact .nil _
  | cons gap text rest ts h =>
    have : pre ++ (gap ++ text ++ rest) = (pre ++ gap) ++ text ++ rest := by simp [List.append_assoc]
    rw [this]
    exact .cons _ _ _ _ h

theorem ordered_single (pre text tail : List Rune) : Ordered [text] (pre ++ text ++ tail) :=
  .cons pre text tail [] (.nil _)

theorem lexLoop_ordered (T : LexTables K) (f : Nat) (last : K) (pend rest : List Rune) (hf : rest.length < f) :
    Ordered ((lexLoop T f last pend rest).map (·.2)) (pend ++ rest) := by
  induction f generalizing last pend rest with
  | zero => omega
  | succ f ih =>
    cases rest with
    | nil =>
      simp only [lexLoop, List.map_cons, List.map_nil, List.append_nil]
      simpa using ordered_single [] pend []
    | cons r t =>
      simp only [lexLoop]
      cases hd : dispatch T last r (r :: t) with
      | some s =>
        have hg := dispatch_good T last r t s hd
        cases s with
        | tok k text rest' =>
          simp only [List.map_cons]
          obtain ⟨hsplit, _⟩ := hg
          have hlen : (rest'.dropWhile (·.space)).length < f := by
            have h1 := dropWhile_length_le (fun x : Rune => x.space) rest'
            have h2 : text.length + rest'.length = (r :: t).length := by rw [← hsplit]; simp
            have h3 : text.length ≠ 0 := by
              intro e; rename_i hne; exact hne (List.length_eq_zero_iff.mp e)
            simp only [List.length_cons] at hf h2
            omega
          have := ih k [] (rest'.dropWhile (·.space)) hlen
          simp only [List.nil_append] at this
          have hw : Ordered ((lexLoop T f k [] (rest'.dropWhile (·.space))).map (·.2)) rest' := by
            have := Ordered.weaken (rest'.takeWhile (·.space)) this
            rwa [tw_dw] at this
          have e : pend ++ r :: t = [] ++ (pend ++ text) ++ rest' := by
            rw [← hsplit]; simp [List.append_assoc]
          rw [e]
          exact .cons _ _ _ _ hw
        | err text =>
          obtain ⟨tail, ht⟩ := hg
          simp only [List.map_cons, List.map_nil]
          have e : pend ++ r :: t = [] ++ (pend ++ text) ++ tail := by
            rw [← ht]; simp [List.append_assoc]
          rw [e]
          exact ordered_single _ _ _
      | none =>
        simp only
        by_cases hs : r.space = true
        · simp only [hs, if_true]
          have := ih last [] t (by simp only [List.length_cons] at hf; omega)
          simp only [List.nil_append] at this
          have := Ordered.weaken (pend ++ [r]) this
          simpa [List.append_assoc] using this
        · simp only [hs, Bool.false_eq_true, if_false]
          cases t with
          | nil =>
            simp only [List.map_cons, List.map_nil]
            simpa using ordered_single [] (pend ++ [r]) []
          | cons r2 t2 =>
            have := ih last (pend ++ [r, r2]) t2 (by simp only [List.length_cons] at hf; omega)
            simpa [List.append_assoc] using this

/-! ### Exactly one terminal token, at the end -/

/-- Every kind a sub-lexer can emit as a regular token. -/
def tokKinds (T : LexTables K) : List K :=
  T.keywords.map (·.2) ++ T.singles.map (·.2) ++
    [T.tBinding, T.tNode, T.tBlank, T.tLiteral, T.tPredicate, T.tPredBound, T.tTime, T.tFilterFn]

/-- The tables never name the end-of-input or error kinds as regular tokens. -/
def TablesWF (T : LexTables K) : Prop := ∀ k ∈ tokKinds T, k ≠ T.tEOF ∧ k ≠ T.tError

def KindIn (T : LexTables K) : LStep K → Prop
  | .tok k _ _ => k ∈ tokKinds T
  | .err _ => True

theorem mem_named (T : LexTables K) (k : K)
    (h : k = T.tBinding ∨ k = T.tNode ∨ k = T.tBlank ∨ k = T.tLiteral ∨ k = T.tPredicate ∨ k = T.tPredBound ∨
      k = T.tTime ∨ k = T.tFilterFn) : k ∈ tokKinds T := by
  unfold tokKinds
  apply List.mem_append_right
  simp only [List.mem_cons, List.mem_nil_iff, or_false]
  exact h

theorem findKeyword_mem (word : List Rune) (kws : List (List Nat × K)) (k : K)
    (h : findKeyword word kws = some k) : k ∈ kws.map (·.2) := by
  induction kws with
  | nil => simp [findKeyword] at h
  | cons p kws ih =>
    obtain ⟨kw, k'⟩ := p
    unfold findKeyword at h
    split at h
    · injection h with h; subst h; simp
    · simp only [List.map_cons, List.mem_cons]; exact Or.inr (ih h)

theorem lookupSingle_mem (cp : Nat) (l : List (Nat × K)) (k : K) (h : lookupSingle cp l = some k) :
    k ∈ l.map (·.2) := by
  induction l with
  | nil => simp [lookupSingle] at h
  | cons p l ih =>
    obtain ⟨c, k'⟩ := p
    unfold lookupSingle at h
    split at h
    · injection h with h; subst h; simp
    · simp only [List.map_cons, List.mem_cons]; exact Or.inr (ih h)

theorem lexNodeGo_kind (T : LexTables K) (acc rest : List Rune) (lt : Bool) : KindIn T (lexNodeGo T acc rest lt) := by
  fun_induction lexNodeGo T acc rest lt <;> simp_all [KindIn]
  all_goals exact mem_named T _ (by simp)

theorem predTail_kind (T : LexTables K) (acc rest : List Rune) (c : Nat) : KindIn T (predTail T acc rest c) := by
  induction rest generalizing acc c with
  | nil => simp [predTail, KindIn]
  | cons r t ih =>
    unfold predTail
    simp only
    generalize (if (r.cp == 44) = true then c + 1 else c) = c'
    by_cases h93 : (r.cp == 93) = true
    · simp only [h93, if_true]
      by_cases hc : c' > 1
      · simp [hc, KindIn]
      · simp only [hc, if_false, KindIn]
        by_cases h0 : (c' == 0) = true
        · simp only [h0, if_true]; exact mem_named T _ (by simp)
        · simp only [h0]; exact mem_named T _ (by simp)
    · simp only [h93, Bool.false_eq_true, if_false]
      exact ih _ _

theorem lexPredicateGo_kind (T : LexTables K) (acc rest : List Rune) : KindIn T (lexPredicateGo T acc rest) := by
  fun_induction lexPredicateGo T acc rest <;> simp_all [KindIn]
  all_goals exact predTail_kind T _ _ 0

theorem lexLiteralGo_kind (T : LexTables K) (acc rest : List Rune) : KindIn T (lexLiteralGo T acc rest) := by
  fun_induction lexLiteralGo T acc rest <;> simp_all [KindIn]
  all_goals exact mem_named T _ (by simp)

theorem globalTimeGo_kind (T : LexTables K) (acc rest : List Rune) (c : Nat) : KindIn T (globalTimeGo T acc rest c) := by
  fun_induction globalTimeGo T acc rest c <;> simp_all [KindIn]
  all_goals (split <;> exact mem_named T _ (by simp))

theorem localTimeGo_kind (T : LexTables K) (acc rest : List Rune) : KindIn T (localTimeGo T acc rest) := by
  induction rest generalizing acc with
  | nil => exact mem_named T _ (by simp)
  | cons r t ih =>
    unfold localTimeGo
    by_cases h1 : (r.cp == 59 || r.cp == 41) = true
    · simp only [h1, if_true]; exact mem_named T _ (by simp)
    · simp only [h1, Bool.false_eq_true, if_false]
      by_cases h2 : r.space = true
      · simp only [h2, if_true]; exact mem_named T _ (by simp)
      · simp only [h2, Bool.false_eq_true, if_false]; exact ih _

theorem dispatch_kind (T : LexTables K) (last : K) (r : Rune) (rest : List Rune) (s : LStep K)
    (h : dispatch T last r rest = some s) : KindIn T s := by
  unfold dispatch at h
  split at h
  · injection h with h; subst h
    unfold lexGlobalTime; split
    · trivial
    · exact globalTimeGo_kind T _ _ _
  split at h
  · injection h with h; subst h
    unfold lexLocalTime; split
    · trivial
    · exact localTimeGo_kind T _ _
  split at h
  · injection h with h; subst h
    unfold lexBinding; split
    · trivial
    · exact mem_named T _ (by simp)
  split at h
  · injection h with h; subst h; exact lexNodeGo_kind T _ _ _
  split at h
  · injection h with h; subst h
    unfold lexBlankNode
    repeat' split
    all_goals first | trivial | exact mem_named T _ (by simp)
  split at h
  · injection h with h; subst h
    unfold lexPredicateOrLiteral
    simp only
    have hp : ∀ l, KindIn T (lexPredicate T l) := by
      intro l; unfold lexPredicate; split
      · trivial
      · exact lexPredicateGo_kind T _ _
    have hl : ∀ l, KindIn T (lexLiteral T l) := by
      intro l; unfold lexLiteral; split
      · trivial
      · exact lexLiteralGo_kind T _ _
    repeat' split
    all_goals first | trivial | exact hp _ | exact hl _
  split at h
  · injection h with h; subst h
    split
    · unfold lexFilterFunction
      repeat' split
      all_goals first | trivial | exact mem_named T _ (by simp)
    · unfold lexKeyword
      simp only
      split
      · rename_i k hk
        show k ∈ tokKinds T
        unfold tokKinds
        exact List.mem_append_left _ (List.mem_append_left _ (findKeyword_mem _ _ _ hk))
      · trivial
  split at h
  · rename_i k hk
    injection h with h; subst h
    show k ∈ tokKinds T
    unfold tokKinds
    exact List.mem_append_left _ (List.mem_append_right _ (lookupSingle_mem _ _ _ hk))
  · cases h

/-- The emitted sequence is a body without end-of-input or error tokens followed by exactly one of them. -/
def OneTerminal (T : LexTables K) (out : List (K × List Rune)) : Prop :=
  ∃ body last, out = body ++ [last] ∧ (last.1 = T.tEOF ∨ last.1 = T.tError) ∧
    ∀ b ∈ body, b.1 ≠ T.tEOF ∧ b.1 ≠ T.tError

theorem oneTerminal_cons {T : LexTables K} {x : K × List Rune} {out : List (K × List Rune)}
    (hx : x.1 ≠ T.tEOF ∧ x.1 ≠ T.tError) (h : OneTerminal T out) : OneTerminal T (x :: out) := by
  obtain ⟨body, last, rfl, hl, hb⟩ := h
  refine ⟨x :: body, last, rfl, hl, ?_⟩
  intro b hbm
  rcases List.mem_cons.mp hbm with rfl | hbm
  · exact hx
  · exact hb b hbm

theorem lexLoop_oneTerminal (T : LexTables K) (hT : TablesWF T) (f : Nat) (last : K) (pend rest : List Rune)
    (hf : rest.length < f) : OneTerminal T (lexLoop T f last pend rest) := by
  induction f generalizing last pend rest with
  | zero => omega
  | succ f ih =>
    cases rest with
    | nil => exact ⟨[], (T.tEOF, pend), by simp [lexLoop], Or.inl rfl, by simp⟩
    | cons r t =>
      simp only [lexLoop]
      cases hd : dispatch T last r (r :: t) with
      | some s =>
        have hg := dispatch_good T last r t s hd
        have hk := dispatch_kind T last r (r :: t) s hd
        cases s with
        | tok k text rest' =>
          simp only
          obtain ⟨hsplit, hne⟩ := hg
          have hlen : (rest'.dropWhile (·.space)).length < f := by
            have h1 := dropWhile_length_le (fun x : Rune => x.space) rest'
            have h2 : text.length + rest'.length = (r :: t).length := by rw [← hsplit]; simp
            have h3 : text.length ≠ 0 := fun e => hne (List.length_eq_zero_iff.mp e)
            simp only [List.length_cons] at hf h2
            omega
          exact oneTerminal_cons (hT k hk) (ih k [] _ hlen)
        | err text => exact ⟨[], (T.tError, pend ++ text), by simp, Or.inr rfl, by simp⟩
      | none =>
        simp only
        by_cases hs : r.space = true
        · simp only [hs, if_true]
          exact ih last [] t (by simp only [List.length_cons] at hf; omega)
        · simp only [hs, Bool.false_eq_true, if_false]
          cases t with
          | nil => exact ⟨[], (T.tEOF, pend ++ [r]), by simp, Or.inl rfl, by simp⟩
          | cons r2 t2 => exact ih last _ t2 (by simp only [List.length_cons] at hf; omega)

end BW.Proofs.Lexer
