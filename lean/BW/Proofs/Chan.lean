import BW.Model.Chan

/-! Deadlock analysis of a look-up that sends under the read lock (C07). -/
namespace BW.Model.Chan

/-- The witness: two results, the consumer tests (one read of the same graph) what it has received, a
    writer arrives in between. The look-up waits for the consumer, the consumer for the read lock, which
    the waiting writer bars, and the writer for the look-up. -/
theorem nested_read_deadlocks :
    let s := run (start 2 1) [.p, .p, .w]
    s.stuck = true ∧ s.finished = false := by decide

/-- What holds in every reachable state. -/
def Inv (s : Sys) : Prop :=
  (s.c = .done → s.p = .done) ∧ (s.b = 0 → s.c = .waitRecv ∨ s.c = .done)

theorem inv_start (n b : Nat) : Inv (start n b) := by
  refine ⟨?_, ?_⟩ <;> simp [start]

theorem inv_step (s : Sys) (h : Inv s) (t : Tid) (s' : Sys) (hs : step s t = some s') : Inv s' ∧ s'.b = s.b := by
  obtain ⟨h1, h2⟩ := h
  cases t
  · -- p
    simp only [step] at hs
    split at hs
    · split at hs
      · cases hs; refine ⟨⟨?_, h2⟩, rfl⟩
        intro hc; have := h1 hc; simp_all
      · cases hs
    · cases hs; exact ⟨⟨fun _ => rfl, h2⟩, rfl⟩
    · split at hs
      · cases hs
        refine ⟨⟨?_, ?_⟩, rfl⟩
        · intro hc; simp only at hc; split at hc <;> cases hc
        · intro hb; simp only at hb ⊢; simp [hb]
      · cases hs
    · cases hs
  · -- c
    simp only [step] at hs
    split at hs
    · split at hs
      · cases hs; rename_i hp; exact ⟨⟨fun _ => hp, fun _ => Or.inr rfl⟩, rfl⟩
      · cases hs
    · rename_i r hc
      split at hs
      · cases hs
        refine ⟨⟨fun hc' => (by cases hc'), ?_⟩, rfl⟩
        intro hb; have := h2 hb; simp_all
      · cases hs
    · rename_i r hc
      cases hs
      refine ⟨⟨?_, ?_⟩, rfl⟩
      · intro hc'; simp only at hc'; split at hc' <;> cases hc'
      · intro hb; have := h2 hb; simp_all
    · cases hs
  · -- w
    simp only [step] at hs
    split at hs
    · cases hs; exact ⟨⟨h1, h2⟩, rfl⟩
    · split at hs
      · cases hs; exact ⟨⟨h1, h2⟩, rfl⟩
      · cases hs
    · cases hs; exact ⟨⟨h1, h2⟩, rfl⟩
    · cases hs

theorem inv_run (s : Sys) (h : Inv s) (ts : List Tid) : Inv (run s ts) ∧ (run s ts).b = s.b := by
  induction ts generalizing s with
  | nil => exact ⟨h, rfl⟩
  | cons t ts ih =>
    simp only [run]
    cases hs : step s t with
    | none => simpa using ih s h
    | some s' =>
      obtain ⟨hi, hb⟩ := inv_step s h t s' hs
      obtain ⟨hi', hb'⟩ := ih s' hi
      exact ⟨by simpa using hi', by simpa [hb] using hb'⟩

/-- A consumer that only drains (b = 0) never brings the system to a halt: in every state satisfying the
    invariant either everybody has finished or somebody can move. -/
theorem drain_progress_inv (s : Sys) (h : Inv s) (hb : s.b = 0) : s.finished = true ∨ s.stuck = false := by
  obtain ⟨h1, h2⟩ := h
  rcases h2 hb with hc | hc
  · -- consumer waits to receive
    right
    rcases hp : s.p with _ | k | _
    · -- look-up not started: it can start unless a writer holds or waits, and then the writer can move
      rcases hw : s.w with _ | _ | _ | _ <;>
        simp [Sys.stuck, step, hp, hc, hw, Sys.canRead, Sys.canWrite, Sys.readers, Sys.writerHolds, Sys.writerWaits]
    · cases k <;> simp [Sys.stuck, step, hp, hc]
    · simp [Sys.stuck, step, hp, hc]
  · have hp := h1 hc
    rcases hw : s.w with _ | _ | _ | _
    · right; simp [Sys.stuck, step, hp, hc, hw]
    · right; simp [Sys.stuck, step, hp, hc, hw, Sys.canWrite, Sys.readers, Sys.writerHolds]
    · right; simp [Sys.stuck, step, hp, hc, hw]
    · left; simp [Sys.finished, hp, hc, hw]

/-- For every number of results and every schedule. -/
theorem drain_never_deadlocks (n : Nat) (sched : List Tid) :
    (run (start n 0) sched).finished = true ∨ (run (start n 0) sched).stuck = false := by
  obtain ⟨hi, hb⟩ := inv_run (start n 0) (inv_start n 0) sched
  exact drain_progress_inv _ hi (by simpa [start] using hb)

/-- … and without a writer nothing halts either, whatever the consumer does in between. -/
theorem no_writer_progress_inv (s : Sys) (h : Inv s) (hw : s.w = .done) : s.finished = true ∨ s.stuck = false := by
  obtain ⟨h1, _⟩ := h
  rcases hc : s.c with _ | r | r | _
  · right
    rcases hp : s.p with _ | k | _
    · simp [Sys.stuck, step, hp, hc, hw, Sys.canRead, Sys.writerHolds, Sys.writerWaits]
    · cases k <;> simp [Sys.stuck, step, hp, hc]
    · simp [Sys.stuck, step, hp, hc]
  · right; simp [Sys.stuck, step, hc, hw, Sys.canRead, Sys.writerHolds, Sys.writerWaits]
  · right; simp [Sys.stuck, step, hc]
  · have hp := h1 hc
    left; simp [Sys.finished, hp, hc, hw]

/-- A writer that has finished (or was never there) stays so. -/
theorem step_w_done (s : Sys) (t : Tid) (s' : Sys) (hs : step s t = some s') (hw : s.w = .done) : s'.w = .done := by
  cases t <;> simp only [step] at hs
  · split at hs
    · split at hs <;> cases hs; exact hw
    · cases hs; exact hw
    · split at hs <;> cases hs; exact hw
    · cases hs
  · split at hs
    · split at hs <;> cases hs; exact hw
    · split at hs <;> cases hs; exact hw
    · cases hs; exact hw
    · cases hs
  · rw [hw] at hs; cases hs

theorem run_w_done (s : Sys) (hw : s.w = .done) (ts : List Tid) : (run s ts).w = .done := by
  induction ts generalizing s with
  | nil => exact hw
  | cons t ts ih =>
    simp only [run]
    cases hs : step s t with
    | none => simpa using ih s hw
    | some s' => simpa using ih s' (step_w_done s t s' hs hw)

/-- Without a writer: for every number of results, every number of reads in between, every schedule. -/
theorem no_writer_never_deadlocks (n b : Nat) (sched : List Tid) :
    let s := run ⟨n, b, .idle, .waitRecv, .done⟩ sched
    s.finished = true ∨ s.stuck = false := by
  have hi : Inv ⟨n, b, .idle, .waitRecv, .done⟩ := by
    refine ⟨?_, ?_⟩ <;> simp
  exact no_writer_progress_inv _ (inv_run _ hi sched).1 (run_w_done _ rfl sched)

/-- The search is sound: when it says a halt is reachable, there is a schedule from one of the frontier's states to a
    halted, unfinished state. -/
theorem canHalt_sound (fuel : Nat) (fr : List Sys) (h : canHalt fuel fr = true) :
    ∃ s ∈ fr, ∃ sched, (run s sched).stuck = true ∧ (run s sched).finished = false := by
  induction fuel generalizing fr with
  | zero => simp [canHalt] at h
  | succ f ih =>
    simp only [canHalt, Bool.or_eq_true, List.any_eq_true, Bool.and_eq_true, Bool.not_eq_true'] at h
    rcases h with ⟨s, hs, h1, h2⟩ | h
    · exact ⟨s, hs, [], h1, h2⟩
    · obtain ⟨s', hs', sched, hr⟩ := ih _ h
      have hm : s' ∈ fr.flatMap successors := by
        have := List.mem_eraseDups.mp hs'; exact this
      obtain ⟨s, hs, hsucc⟩ := List.mem_flatMap.mp hm
      simp only [successors, List.mem_filterMap] at hsucc
      obtain ⟨t, _, ht⟩ := hsucc
      refine ⟨s, hs, t :: sched, ?_⟩
      simpa [run, ht] using hr

end BW.Model.Chan
