/-
Sorting by a comparison that is a total order *on the rows at hand* yields one sequence, whatever
order the rows arrive in (C14: "a query whose ORDER BY determines a total order returns the same row
sequence every time").  `rowLe` is not transitive on arbitrary rows (cells of different kinds compare
as equal), so the order properties are only demanded of the members of the list.
-/
import BW.Model.QueryPost

namespace BW.Proofs.Determinism
open BW.Model

variable {α : Type} [DecidableEq α]

/-- Extension of `le` on the members of `l` to a relation that is total and transitive everywhere:
    everything outside `l` is placed above (and equal to each other). -/
def ext (le : α → α → Bool) (l : List α) (a b : α) : Bool :=
  !decide (b ∈ l) || (decide (a ∈ l) && le a b)

theorem ext_agrees (le : α → α → Bool) (l : List α) (a b : α) (ha : a ∈ l) (hb : b ∈ l) : le a b = ext le l a b := by
  simp [ext, ha, hb]

theorem ext_trans (le : α → α → Bool) (l : List α)
    (trans : ∀ a ∈ l, ∀ b ∈ l, ∀ c ∈ l, le a b = true → le b c = true → le a c = true) :
    ∀ a b c, ext le l a b = true → ext le l b c = true → ext le l a c = true := by
  intro a b c hab hbc
  simp only [ext, Bool.or_eq_true, Bool.not_eq_true', decide_eq_false_iff_not, Bool.and_eq_true, decide_eq_true_eq] at *
  by_cases hc : c ∈ l
  · right
    rcases hbc with hbc | ⟨hb, hbc⟩
    · exact absurd hc hbc
    · rcases hab with hab | ⟨ha, hab⟩
      · exact absurd hb hab
      · exact ⟨ha, trans a ha b hb c hc hab hbc⟩
  · exact Or.inl hc

theorem ext_total (le : α → α → Bool) (l : List α)
    (total : ∀ a ∈ l, ∀ b ∈ l, (le a b || le b a) = true) : ∀ a b, (ext le l a b || ext le l b a) = true := by
  intro a b
  simp only [ext, Bool.or_eq_true, Bool.not_eq_true', decide_eq_false_iff_not, Bool.and_eq_true, decide_eq_true_eq]
  by_cases ha : a ∈ l <;> by_cases hb : b ∈ l
  · have := total a ha b hb
    simp only [Bool.or_eq_true] at this
    rcases this with h | h
    · exact Or.inl (Or.inr ⟨ha, h⟩)
    · exact Or.inr (Or.inr ⟨hb, h⟩)
  · exact Or.inl (Or.inl hb)
  · exact Or.inr (Or.inl ha)
  · exact Or.inl (Or.inl hb)

omit [DecidableEq α] in
theorem mergeSort_congr (r s : α → α → Bool) (l : List α) (h : ∀ a ∈ l, ∀ b ∈ l, r a b = s a b) :
    l.mergeSort r = l.mergeSort s := by
  have := List.map_mergeSort (f := id) (r := r) (s := s) (l := l) (by simpa using h)
  simpa using this

/-- Two arrival orders of the same rows sort to the same sequence when the comparison is a total
    order on them (total, transitive, antisymmetric). -/
theorem mergeSort_deterministic (le : α → α → Bool) (l l' : List α) (hp : l.Perm l')
    (trans : ∀ a ∈ l, ∀ b ∈ l, ∀ c ∈ l, le a b = true → le b c = true → le a c = true)
    (total : ∀ a ∈ l, ∀ b ∈ l, (le a b || le b a) = true)
    (anti : ∀ a ∈ l, ∀ b ∈ l, le a b = true → le b a = true → a = b) :
    l.mergeSort le = l'.mergeSort le := by
  have e1 : l.mergeSort le = l.mergeSort (ext le l) := mergeSort_congr _ _ _ (fun a ha b hb => ext_agrees le l a b ha hb)
  have e2 : l'.mergeSort le = l'.mergeSort (ext le l) :=
    mergeSort_congr _ _ _ (fun a ha b hb => ext_agrees le l a b (hp.symm.subset ha) (hp.symm.subset hb))
  rw [e1, e2]
  have p1 := List.pairwise_mergeSort (le := ext le l) (ext_trans le l trans) (ext_total le l total) l
  have p2 := List.pairwise_mergeSort (le := ext le l) (ext_trans le l trans) (ext_total le l total) l'
  have pm : (l.mergeSort (ext le l)).Perm (l'.mergeSort (ext le l)) :=
    (List.mergeSort_perm l _).trans (hp.trans (List.mergeSort_perm l' _).symm)
  refine List.Perm.eq_of_pairwise (le := fun a b => ext le l a b = true) ?_ p1 p2 pm
  intro a b ha hb hab hba
  have ha' : a ∈ l := (List.mergeSort_perm l _).subset ha
  have hb' : b ∈ l := hp.symm.subset ((List.mergeSort_perm l' _).subset hb)
  rw [← ext_agrees le l a b ha' hb'] at hab
  rw [← ext_agrees le l b a hb' ha'] at hba
  exact anti a ha' b hb' hab hba

/-- ORDER BY: the same rows in any arrival order give the same sequence, provided the keys determine
    a total order on them. -/
theorem sortRows_deterministic (S : Strs) (cfg : List (Bytes × Bool)) (rows rows' : List Row) (hp : rows.Perm rows')
    (hcfg : cfg ≠ [])
    (trans : ∀ a ∈ rows, ∀ b ∈ rows, ∀ c ∈ rows, rowLe S cfg a b = true → rowLe S cfg b c = true → rowLe S cfg a c = true)
    (total : ∀ a ∈ rows, ∀ b ∈ rows, (rowLe S cfg a b || rowLe S cfg b a) = true)
    (anti : ∀ a ∈ rows, ∀ b ∈ rows, rowLe S cfg a b = true → rowLe S cfg b a = true → a = b) :
    sortRows S cfg rows = sortRows S cfg rows' := by
  unfold sortRows
  have : cfg.isEmpty = false := by cases cfg <;> simp_all
  simp only [this, Bool.false_eq_true, if_false]
  exact mergeSort_deterministic _ _ _ hp trans total anti

/-- ORDER BY: whenever the keys compare the rows at hand as a total preorder (total and transitive
    on them), the result is sorted: every earlier row is ≤ every later row. -/
theorem sortRows_sorted (S : Strs) (cfg : List (Bytes × Bool)) (rows : List Row) (hcfg : cfg ≠ [])
    (trans : ∀ a ∈ rows, ∀ b ∈ rows, ∀ c ∈ rows, rowLe S cfg a b = true → rowLe S cfg b c = true → rowLe S cfg a c = true)
    (total : ∀ a ∈ rows, ∀ b ∈ rows, (rowLe S cfg a b || rowLe S cfg b a) = true) :
    (sortRows S cfg rows).Pairwise fun a b => rowLe S cfg a b = true := by
  unfold sortRows
  have : cfg.isEmpty = false := by cases cfg <;> simp_all
  simp only [this, Bool.false_eq_true, if_false]
  rw [mergeSort_congr (rowLe S cfg) (ext (rowLe S cfg) rows) rows (fun a ha b hb => ext_agrees _ rows a b ha hb)]
  have p := List.pairwise_mergeSort (le := ext (rowLe S cfg) rows) (ext_trans _ rows trans) (ext_total _ rows total) rows
  -- on members the extension is the comparison itself
  refine List.Pairwise.imp_of_mem ?_ p
  intro a b ha hb hab
  have ha' : a ∈ rows := (List.mergeSort_perm rows _).subset ha
  have hb' : b ∈ rows := (List.mergeSort_perm rows _).subset hb
  rw [ext_agrees (rowLe S cfg) rows a b ha' hb']
  exact hab

end BW.Proofs.Determinism
