/-
The look-up pipeline equals its declarative definition (helper lemmas for C02, C09).
-/
import BW.Proofs.Store

namespace BW.Proofs.Lookup
open BW.Model BW.Spec BW.Proofs.Store

/-! ### `CheckLimitAndUpdate` is drop/take -/

theorem emit_max (ps pad : Int) (l : List TView) :
    emit ⟨true, ps, pad⟩ l = if ps ≤ 0 then [] else (l.drop pad.toNat).take ps.toNat := by
  induction l generalizing ps pad with
  | nil => simp [emit]
  | cons t ts ih =>
    unfold emit Pager.step
    by_cases hps : ps ≤ 0
    · simp only [hps, decide_true, Bool.and_self, if_true]
      have := ih ps pad
      simp only [hps, if_true] at this
      exact this
    · simp only [hps, decide_false, Bool.and_false, Bool.false_eq_true, if_false]
      by_cases hpad : pad > 0
      · simp only [hpad, if_true, Bool.false_eq_true, if_false]
        rw [ih]
        simp only [hps, if_false]
        have : pad.toNat = (pad - 1).toNat + 1 := by omega
        rw [this, List.drop_succ_cons]
      · simp only [hpad, if_false, if_true]
        rw [ih]
        have h0 : pad.toNat = 0 := by omega
        by_cases h1 : ps - 1 ≤ 0
        · have h2 : ps.toNat = 1 := by omega
          rw [h0, h2]
          simp only [h1, if_true, List.drop_zero, List.take_succ_cons, List.take_zero]
        · have h2 : ps.toNat = (ps - 1).toNat + 1 := by omega
          rw [h0, h2]
          simp only [h1, if_false, List.drop_zero, List.take_succ_cons]

theorem emit_nomax (ps pad : Int) (l : List TView) :
    emit ⟨false, ps, pad⟩ l = l.drop pad.toNat := by
  induction l generalizing ps pad with
  | nil => simp [emit]
  | cons t ts ih =>
    unfold emit Pager.step
    simp only [Bool.false_and, Bool.false_eq_true, if_false]
    by_cases hpad : pad > 0
    · simp only [hpad, if_true, Bool.false_eq_true, if_false]
      rw [ih]
      have : pad.toNat = (pad - 1).toNat + 1 := by omega
      rw [this, List.drop_succ_cons]
    · simp only [hpad, if_false, if_true]
      rw [ih]
      have h0 : pad.toNat = 0 := by omega
      simp [h0]

/-- The paging state machine of `checker` emits exactly the `k`-th block of `n` elements (everything
    when no page size is set).  The excluded corner — page size and offset both negative — is the one
    where the Go code skips `n*k` elements of an unpaged result. -/
theorem checker_is_page (lo : LookupOpts) (l : List TView)
    (h : 0 < lo.maxElements ∨ lo.maxElements * lo.offset ≤ 0) :
    emit (Pager.new lo) l = page lo.maxElements lo.offset l := by
  unfold Pager.new page
  by_cases hn : lo.maxElements > 0
  · have : ¬ lo.maxElements ≤ 0 := by omega
    simp only [hn, decide_true, this, if_false]
    rw [emit_max]
    simp [this]
  · have hle : lo.maxElements ≤ 0 := by omega
    simp only [hn, decide_false, hle, if_true]
    rw [emit_nomax]
    have : lo.maxElements * lo.offset ≤ 0 := by
      rcases h with h | h
      · omega
      · exact h
    have h0 : (lo.maxElements * lo.offset).toNat = 0 := by omega
    simp [h0]

/-! ### Bucket selection + bounds check = fixed components + window -/

theorem not_lt_eq_le (a l : Int) : (!decide (a < l)) = decide (l ≤ a) := by
  by_cases h : a < l
  · have : ¬ l ≤ a := by omega
    simp [h, this]
  · have : l ≤ a := by omega
    simp [h, this]

theorem not_gt_eq_le (a u : Int) : (!decide (a > u)) = decide (a ≤ u) := by
  by_cases h : a > u
  · have : ¬ a ≤ u := by omega
    simp [h, this]
  · have : a ≤ u := by omega
    simp [h, this]

theorem checkBounds_none (lo : LookupOpts) (t : TView) : checkBounds none lo t = inWindow lo t := by
  unfold checkBounds inWindow
  cases t.pnano with
  | none => simp
  | some a =>
    simp only [Bool.true_and]
    cases lo.lower <;> cases lo.upper <;> simp [not_lt_eq_le]

theorem checkBounds_some (q : PQ) (lo : LookupOpts) (t : TView) (hpid : q.pid = t.pid) :
    checkBounds (some q) lo t = (predMatches q t && inWindow lo t) := by
  unfold checkBounds inWindow predMatches
  obtain ⟨qpid, qn, qs⟩ := q
  simp only at hpid
  subst hpid
  cases ht : t.pnano with
  | none => cases qn <;> simp
  | some a =>
    cases qn with
    | none => simp
    | some qa =>
      simp only [Option.isSome_some, beq_self_eq_true, Bool.true_and]
      by_cases hqa : qa = a
      · subst hqa
        cases lo.lower <;> cases lo.upper <;> simp [not_lt_eq_le]
      · have hf : (qa == a) = false := by simp [hqa]
        simp [hf]

theorem beq1 (x y : Bytes) : ([x] == [y]) = (x == y) := by
  by_cases h : x = y <;> simp [h]

theorem beq2 (x1 x2 y1 y2 : Bytes) : ([x1, x2] == [y1, y2]) = (x1 == y1 && x2 == y2) := by
  by_cases h1 : x1 = y1 <;> by_cases h2 : x2 = y2 <;> simp [h1, h2]

theorem pred_case (q : PQ) (lo : LookupOpts) (t : TView) :
    ((t.pid == q.pid) && checkBounds (some q) lo t) = (predMatches q t && inWindow lo t) := by
  by_cases h : q.pid = t.pid
  · rw [checkBounds_some q lo t h]; simp [h]
  · have h' : ¬ t.pid = q.pid := fun e => h e.symm
    have e1 : (t.pid == q.pid) = false := by simp [h']
    have e2 : (q.pid == t.pid) = false := by simp [h]
    simp [predMatches, e1, e2]

/-- Arguments are well formed for a method when a predicate is supplied wherever one is fixed. -/
def argsOK (m : Method) (a : LArgs) : Bool := !fixesPred m || a.p.isSome

theorem bucket_bounds_pointwise (m : Method) (a : LArgs) (lo : LookupOpts) (t : TView)
    (ha : argsOK m a = true) :
    ((keyOf (fixedParts m) t == (fixedParts m).map a.part) &&
      checkBounds (if fixesPred m then a.p else none) lo t)
    = (matchesArgs m a t && inWindow lo t) := by
  cases m <;>
    simp only [fixedParts, fixesPred, keyOf, List.map, KeyPart.of, LArgs.part, matchesArgs, List.all_cons,
      List.all_nil, Bool.and_true, List.contains_cons, List.contains_nil, Bool.or_false, Bool.or_true,
      Bool.true_or, if_true, if_false, checkBounds_none, beq_self_eq_true, Bool.true_and,
      show (KeyPart.s == KeyPart.p) = false from rfl, show (KeyPart.o == KeyPart.p) = false from rfl,
      show (KeyPart.p == KeyPart.p) = true from rfl, Bool.false_eq_true]
  all_goals first
    | (simp only [show (KeyPart.p == KeyPart.s) = false from rfl, show (KeyPart.p == KeyPart.o) = false from rfl,
        Bool.or_false, Bool.false_eq_true, if_false, checkBounds_none, beq1, beq2, Bool.and_assoc]; done)
    | (simp only [argsOK, fixesPred, fixedParts, List.contains_cons, List.contains_nil, Bool.or_false, Bool.or_true,
        show (KeyPart.p == KeyPart.p) = true from rfl, show (KeyPart.s == KeyPart.p) = false from rfl,
        Bool.true_or, Bool.not_true, Bool.false_or, Option.isSome_iff_exists] at ha
       obtain ⟨q, hq⟩ := ha
       simp only [hq, Option.map_some, Option.getD_some, beq1, beq2]
       have := pred_case q lo t
       revert this
       generalize (t.pid == q.pid) = A
       generalize checkBounds (some q) lo t = B
       generalize predMatches q t = C
       generalize inWindow lo t = D
       try generalize (t.ks == a.s) = E
       try generalize (t.ko == a.o) = E'
       intro this
       cases A <;> cases B <;> cases C <;> cases D <;> simp_all)

/-! ### The whole look-up -/

theorem bucket_eq {F : Facts} (hF : Facts.WF F = true) {g : Graph} (hg : Inv F g) (m : Method) (a : LArgs) :
    g.bucket F m a = g.master.filter (fun t => keyOf (fixedParts m) t == (fixedParts m).map a.part) := by
  unfold Graph.bucket
  cases hr : F.read m with
  | none =>
    have := wf_touch hF m
    unfold touchOK at this
    rw [hr] at this
    simp only [beq_iff_eq] at this
    rw [this]
    simp only [keyOf, List.map_nil, beq_self_eq_true]
    exact (List.filter_eq_self.mpr (fun _ _ => rfl)).symm
  | some tc =>
    obtain ⟨hp, _, _, _⟩ := read_facts hF hr
    simp only
    rw [hg m tc hr, hp]

theorem matchesArgs_pred {m : Method} {a : LArgs} {t : TView} (h : matchesArgs m a t = true)
    (hm : fixesPred m = true) : ∃ q, a.p = some q ∧ predMatches q t = true := by
  cases m <;> simp [fixesPred, fixedParts] at hm <;>
    simp only [matchesArgs, fixedParts, List.all_cons, List.all_nil, Bool.and_true, Bool.and_eq_true] at h
  all_goals
    cases hp : a.p with
    | none => simp [hp] at h
    | some q => exact ⟨q, rfl, by simp [hp] at h; first | exact h | exact h.1 | exact h.2⟩

theorem filterQueryOk_of_matches {m : Method} {a : LArgs} {t : TView} (h : matchesArgs m a t = true) :
    filterQueryOk (if fixesPred m then a.p else none) t = true := by
  by_cases hm : fixesPred m = true
  · obtain ⟨q, hq, hpm⟩ := matchesArgs_pred h hm
    simp only [hm, if_true, hq, filterQueryOk, PQ.matchesKey]
    simp only [predMatches, Bool.and_eq_true, beq_iff_eq] at hpm
    simp [hpm.1, hpm.2]
  · simp [hm, filterQueryOk]

theorem isImm_pointwise (f : FilterField) (t : TView) :
    (match filterPred f t with | some (_, none) => true | _ => false) = (kindOfField f t == some none) := by
  unfold kindOfField
  cases filterPred f t with
  | none => rfl
  | some pr => obtain ⟨x, y⟩ := pr; cases y <;> simp

theorem isTmp_pointwise (f : FilterField) (t : TView) :
    (match filterPred f t with | some (_, some _) => true | _ => false) =
    (match kindOfField f t with | some (some _) => true | _ => false) := by
  unfold kindOfField
  cases filterPred f t with
  | none => rfl
  | some pr => obtain ⟨x, y⟩ := pr; cases y <;> simp

theorem executeFilter_eq (q : Option PQ) (fo : FilterOpts) (c : List TView)
    (hq : ∀ t ∈ c, filterQueryOk q t = true) :
    executeFilter q fo c =
      if fo.op == .unknown then .error .badOp
      else if fo.field != .predicate && fo.field != .object then .error .badField
      else .ok (filt fo c) := by
  have hc : c.filter (filterQueryOk q) = c := List.filter_eq_self.mpr hq
  unfold executeFilter filt
  cases hop : fo.op <;> simp only [hc] <;>
    (by_cases hf : (fo.field != .predicate && fo.field != .object) = true <;> simp [hf])
  · apply List.filter_congr; intro t _; exact isImm_pointwise fo.field t
  · apply List.filter_congr; intro t _; exact isTmp_pointwise fo.field t

/-- Main lemma: on every graph satisfying the index invariant, each look-up computes exactly what a
    scan of the stored set would compute, for all options (paging under the stated side condition). -/
theorem lookup_eq_scan {F : Facts} (hF : Facts.WF F = true) {g : Graph} (hg : Inv F g)
    (m : Method) (a : LArgs) (lo : LookupOpts) (ha : argsOK m a = true)
    (hp : 0 < lo.maxElements ∨ lo.maxElements * lo.offset ≤ 0) :
    g.lookup F m a lo = scanLookup g.master m a lo := by
  unfold Graph.lookup
  rw [bucket_eq hF hg, wf_usesPred hF m, wf_filterPred hF m]
  unfold pipeline scanLookup
  have hsel : (g.master.filter (fun t => keyOf (fixedParts m) t == (fixedParts m).map a.part)).filter
        (checkBounds (if fixesPred m then a.p else none) lo)
      = (g.master.filter (matchesArgs m a)).filter (inWindow lo) := by
    rw [List.filter_filter, List.filter_filter]
    apply List.filter_congr
    intro t _
    rw [Bool.and_comm, bucket_bounds_pointwise m a lo t ha, Bool.and_comm]
  have hqok : ∀ t ∈ (g.master.filter (matchesArgs m a)).filter (inWindow lo),
      filterQueryOk (if fixesPred m then a.p else none) t = true := by
    intro t ht
    have := (List.mem_filter.mp (List.mem_filter.mp ht).1).2
    exact filterQueryOk_of_matches this
  simp only [hsel]
  generalize (g.master.filter (matchesArgs m a)).filter (inWindow lo) = c at hqok ⊢
  cases hla : lo.latestAnchor <;> cases hfo : lo.filter <;>
    simp only [bind, Except.bind, pure, Except.pure, Option.isSome_none, Option.isSome_some, Bool.false_eq_true,
      if_false, if_true, Bool.false_and, Bool.true_and, Bool.and_false, Bool.and_true] <;>
    (try rw [executeFilter_eq _ _ c hqok]) <;>
    (try rw [checker_is_page lo _ hp])
  · -- no latestAnchor, filter fo
    rename_i fo
    by_cases h1 : (fo.op == FilterOp.unknown) = true
    · simp [h1]
    · by_cases h2 : (fo.field != .predicate && fo.field != .object) = true
      · simp [h1, h2]
      · simp [h1, h2, checker_is_page lo _ hp]
  · simp [checker_is_page lo _ hp]

end BW.Proofs.Lookup
