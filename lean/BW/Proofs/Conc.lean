/-
No goroutine is left behind, for every number of items, channel capacity, point at which the consumer
loses interest and point at which the producer gives up — provided the consumer drains and the
producer closes on every path.  Without either, a leak is reachable (the defects D11 and D28).
-/
import BW.Model.Conc

namespace BW.Proofs.Conc
open BW.Model.Conc

theorem mem_ite_singleton {α : Type} (c : Bool) (x t : α) : t ∈ (if c = true then [x] else []) ↔ c = true ∧ t = x := by
  cases c <;> simp

theorem mem_commSteps (p : Policy) (s t : PC) : t ∈ commSteps p s ↔
    ((!s.prodEnded && decide (s.toSend > 0) && decide (s.buf < s.cap)) = true ∧ t = { s with toSend := s.toSend - 1, buf := s.buf + 1 }) ∨
    ((!s.prodEnded && decide (s.toSend > 0) && decide (s.cap = 0) && s.receiving p) = true ∧ t = { s.takes with toSend := s.toSend - 1 }) ∨
    ((!s.prodEnded && decide (s.toSend = 0)) = true ∧ t = { s with closed := true }) ∨
    ((s.receiving p && decide (s.buf > 0)) = true ∧ t = { s.takes with buf := s.buf - 1 }) ∨
    ((!s.done && ((decide (s.want = 0) && !p.drains) || (s.closed && decide (s.buf = 0)))) = true ∧ t = { s with done := true }) := by
  unfold commSteps
  simp only [List.mem_append, mem_ite_singleton, or_assoc]

theorem mem_abortSteps (p : Policy) (s t : PC) : t ∈ abortSteps p s ↔
    ((!s.prodEnded && decide (s.toSend > 0)) = true ∧
        t = if p.closesOnAbort = true then { s with toSend := 0, closed := true } else { s with toSend := 0, gone := true }) := by
  unfold abortSteps
  exact mem_ite_singleton _ _ _

/-- Every step uses up work: no execution is infinite (no livelock; at most `work s` steps). -/
theorem step_decreases (p : Policy) (s t : PC) (h : t ∈ steps p s) : work t < work s := by
  obtain ⟨toSend, buf, cap, closed, gone, want, done⟩ := s
  obtain ⟨drains, coa⟩ := p
  rcases List.mem_append.mp h with h | h
  · rcases (mem_commSteps _ _ t).mp h with ⟨hc, rfl⟩ | ⟨hc, rfl⟩ | ⟨hc, rfl⟩ | ⟨hc, rfl⟩ | ⟨hc, rfl⟩ <;>
      cases closed <;> cases gone <;> cases done <;> cases drains <;>
      simp [work, PC.prodEnded, PC.takes, PC.receiving] at hc ⊢ <;> omega
  · obtain ⟨hc, rfl⟩ := (mem_abortSteps _ _ t).mp h
    cases closed <;> cases gone <;> cases done <;> cases coa <;>
      simp [work, PC.prodEnded] at hc ⊢ <;> omega

/-- What holds in every reachable configuration. -/
def Inv (p : Policy) (s : PC) : Prop :=
  (p.drains = true → s.done = true → s.closed = true) ∧ (p.closesOnAbort = true → s.gone = false)

theorem inv_init (p : Policy) (n cap want : Nat) : Inv p (init n cap want) := by
  simp [Inv, init]

theorem inv_step (p : Policy) (s t : PC) (hi : Inv p s) (h : t ∈ steps p s) : Inv p t := by
  obtain ⟨toSend, buf, cap, closed, gone, want, done⟩ := s
  obtain ⟨drains, coa⟩ := p
  rcases List.mem_append.mp h with h | h
  · rcases (mem_commSteps _ _ t).mp h with ⟨hc, rfl⟩ | ⟨hc, rfl⟩ | ⟨hc, rfl⟩ | ⟨hc, rfl⟩ | ⟨hc, rfl⟩ <;>
      cases closed <;> cases gone <;> cases done <;> cases drains <;> cases coa <;>
      simp_all [Inv, PC.prodEnded, PC.takes, PC.receiving]
  · obtain ⟨hc, rfl⟩ := (mem_abortSteps _ _ t).mp h
    cases closed <;> cases gone <;> cases done <;> cases drains <;> cases coa <;>
      simp_all [Inv, PC.prodEnded]

theorem inv_reach (p : Policy) (s t : PC) (hi : Inv p s) (h : Reach p s t) : Inv p t := by
  induction h with
  | refl => exact hi
  | step t u _ hu ih => exact inv_step p t u ih hu

/-- Progress: with a draining consumer and a producer that closes on every path, a configuration in
    which some goroutine has not ended always has a communication step. -/
theorem progress (p : Policy) (hd : p.drains = true) (hc : p.closesOnAbort = true) (s : PC) (hi : Inv p s)
    (hnf : s.final = false) : stuck p s = false := by
  obtain ⟨toSend, buf, cap, closed, gone, want, done⟩ := s
  obtain ⟨drains, coa⟩ := p
  simp only at hd hc
  subst hd; subst hc
  simp only [Inv] at hi
  have hg : gone = false := hi.2 trivial
  subst hg
  simp only [stuck, List.isEmpty_eq_false_iff_exists_mem]
  by_cases hcl : closed = true
  · subst hcl
    have hdone : done = false := by simpa [PC.final, PC.prodEnded] using hnf
    subst hdone
    by_cases hb : buf = 0
    · exact ⟨_, (mem_commSteps _ _ _).mpr (Or.inr (Or.inr (Or.inr (Or.inr ⟨by simp [hb], rfl⟩))))⟩
    · exact ⟨_, (mem_commSteps _ _ _).mpr (Or.inr (Or.inr (Or.inr (Or.inl ⟨by simp [PC.receiving]; omega, rfl⟩))))⟩
  · have hcl' : closed = false := by simpa using hcl
    subst hcl'
    have hdone : done = false := by
      cases done with
      | false => rfl
      | true => exact absurd (hi.1 trivial rfl) (by simp)
    subst hdone
    by_cases hts : toSend = 0
    · exact ⟨_, (mem_commSteps _ _ _).mpr (Or.inr (Or.inr (Or.inl ⟨by simp [PC.prodEnded, hts], rfl⟩)))⟩
    · by_cases hroom : buf < cap
      · exact ⟨_, (mem_commSteps _ _ _).mpr (Or.inl ⟨by simp [PC.prodEnded, hroom]; omega, rfl⟩)⟩
      · by_cases hcap : cap = 0
        · exact ⟨_, (mem_commSteps _ _ _).mpr (Or.inr (Or.inl ⟨by simp [PC.prodEnded, PC.receiving, hcap]; omega, rfl⟩))⟩
        · exact ⟨_, (mem_commSteps _ _ _).mpr (Or.inr (Or.inr (Or.inr (Or.inl ⟨by simp [PC.receiving]; omega, rfl⟩))))⟩

/-- No leak, for every number of items, capacity, point of lost interest and point of giving up. -/
theorem no_leak (p : Policy) (hd : p.drains = true) (hc : p.closesOnAbort = true) (n cap want : Nat) (s : PC)
    (h : Reach p (init n cap want) s) : leaked p s = false := by
  have hi := inv_reach p _ s (inv_init p n cap want) h
  unfold leaked
  cases hf : s.final with
  | true => simp
  | false => simp [progress p hd hc s hi hf]

/-- Every execution ends, after at most `work` steps, and where it ends both goroutines have ended. -/
theorem reach_work (p : Policy) (s t : PC) (h : Reach p s t) : work t ≤ work s := by
  induction h with
  | refl => exact Nat.le_refl _
  | step t u _ hu ih => exact Nat.le_of_lt (Nat.lt_of_lt_of_le (step_decreases p t u hu) ih)

theorem ends_final (p : Policy) (hd : p.drains = true) (hc : p.closesOnAbort = true) (n cap want : Nat) (s : PC)
    (h : Reach p (init n cap want) s) (hstuck : stuck p s = true) : s.final = true := by
  have := no_leak p hd hc n cap want s h
  simp only [leaked, hstuck, Bool.true_and, Bool.not_eq_false'] at this
  exact this

/-! ### Without the policies a goroutine is left behind -/

/-- A consumer that walks away (no drain) leaves the producer blocked on its send: the lexer goroutine
    behind a rejected parse (D11). Any number of unsent items, unbuffered channel. -/
theorem leak_without_drain (n : Nat) (hn : 0 < n) :
    ∃ s, Reach ⟨false, true⟩ (init n 0 0) s ∧ leaked ⟨false, true⟩ s = true := by
  refine ⟨{ init n 0 0 with done := true }, ?_, ?_⟩
  · refine Reach.step _ _ _ (Reach.refl _) ?_
    apply List.mem_append_left
    exact (mem_commSteps _ _ _).mpr (Or.inr (Or.inr (Or.inr (Or.inr ⟨by simp [init], rfl⟩))))
  · have : ¬ n = 0 := by omega
    simp [leaked, stuck, commSteps, init, PC.prodEnded, PC.receiving, PC.final, this]

/-- A producer that gives up without closing leaves a draining consumer blocked on its receive: the
    bulk writer of CONSTRUCT after a template error (D28). -/
theorem leak_without_close (n cap want : Nat) (hn : 0 < n) :
    ∃ s, Reach ⟨true, false⟩ (init n cap want) s ∧ leaked ⟨true, false⟩ s = true := by
  refine ⟨{ init n cap want with toSend := 0, gone := true }, ?_, ?_⟩
  · refine Reach.step _ _ _ (Reach.refl _) ?_
    apply List.mem_append_right
    exact (mem_abortSteps _ _ _).mpr ⟨by simp [init, PC.prodEnded]; omega, by simp⟩
  · simp [leaked, stuck, commSteps, init, PC.prodEnded, PC.receiving, PC.final]

end BW.Proofs.Conc
