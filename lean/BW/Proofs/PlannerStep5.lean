/-
Towards C03: one row of the planner's per-row strategy, fetch-and-join branch (`joinRow_spec`): the rows
`joinRow` makes of a table row and the fetch of the specialised clause are, as a set and up to anchor
representation, the reference's join of that row with the clause; they repeat no key and stay inside the
universe.
-/
import BW.Proofs.PlannerStep4
set_option linter.unusedSimpArgs false
open BW.Model BW.Spec BW.Proofs.ClauseOrder BW.Proofs.Store BW.Proofs.Lookup

namespace BW.Proofs.Planner

variable {gs : List QGraph}

/-- What the parser guarantees of a clause, as far as the planner's correctness depends on it. -/
structure ClauseWF (c : Clause) : Prop where
  idAlias : IdAliasPlain c
  alias : AliasWF c

theorem idAliasPlain_strip {c c' : Clause} (hs : strip c' = strip c) (h : IdAliasPlain c) : IdAliasPlain c' := by
  have e1 : c'.oIDAlias = c.oIDAlias := show (strip c').oIDAlias = (strip c).oIDAlias from congrArg Clause.oIDAlias hs
  have e2 : c'.oBinding = c.oBinding := show (strip c').oBinding = (strip c).oBinding from congrArg Clause.oBinding hs
  have e3 : c'.oAlias = c.oAlias := show (strip c').oAlias = (strip c).oAlias from congrArg Clause.oAlias hs
  unfold IdAliasPlain at *
  rw [e1, e2, e3]; exact h

def nullRow (bs : List Bytes) (r : Row) : Row := (bs.filter (fun k => !r.has k)).map fun k => (k, Cell.null)

theorem nullRow_get (bs : List Bytes) (r : Row) (k : Bytes) (v : Cell) (h : (nullRow bs r).get k = some v) : v = .null := by
  have := mem_of_get _ k v h
  unfold nullRow at this
  obtain ⟨k', _, hk⟩ := List.mem_map.mp this
  injection hk with _ hv
  exact hv.symm

theorem nullRow_nodup (bs : List Bytes) (hb : bs.Nodup) (r : Row) : KeysNodup (nullRow bs r) := by
  unfold KeysNodup nullRow
  rw [List.map_map]
  have : ((fun x : Bytes × Cell => x.1) ∘ fun k => (k, Cell.null)) = id := rfl
  rw [this, List.map_id]
  exact hb.filter _

theorem dedup_nodup (l : List Bytes) : (dedup l).Nodup := by
  unfold dedup
  suffices h : ∀ (acc : List Bytes), acc.Nodup → (l.foldl (fun acc b => if acc.contains b then acc else acc ++ [b]) acc).Nodup from
    h [] List.nodup_nil
  induction l with
  | nil => intro acc h; exact h
  | cons b l ih =>
    intro acc h
    simp only [List.foldl_cons]
    apply ih
    by_cases hc : acc.contains b = true
    · simp only [hc, if_true]; exact h
    · simp only [hc, Bool.false_eq_true, if_false]
      rw [List.nodup_append]
      refine ⟨h, by simp, ?_⟩
      intro x hx y hy
      simp only [List.mem_singleton] at hy
      subst hy
      intro e; subst e
      exact hc (List.contains_iff_mem.mpr hx)

theorem bindings_nodup (c : Clause) : c.bindings.Nodup := dedup_nodup _

/-- Everything `specialise` guarantees, gathered. -/
theorem specialise_facts (U : Universe gs) {r : Row} (hru : RowIn U r) {c c' : Clause} {lo lo' : QOpts}
    (hwf : ClauseWF c) (hcin : ClauseIn U c) (hfil : lo.filter = none) (h : specialise r c lo = .ok (c', lo')) :
    strip c' = strip c ∧ Implied r c c' ∧ Weaker c c' ∧
    fetchWindow lo' c' = clauseWindow (nl lo.lower) (nl lo.upper) c r ∧ lo'.filter = none ∧
    IdAliasPlain c' ∧ Apart gs c' ∧ AnchorsApart gs c' ∧ ClauseIn U c' := by
  have hs := specialise_strip h
  have ⟨hi, hw⟩ := specialise_implied h
  have ⟨w1, w2, hf⟩ := specialise_window h hwf.alias
  have hin := specialise_in U hru hcin h
  have ⟨ha, haa⟩ := clauseIn_apart U c' hin
  exact ⟨hs, hi, hw, window_ext w1 w2, by rw [hf, hfil], idAliasPlain_strip hs hwf.idAlias, ha, haa, hin⟩

/-- Matches of the specialised clause that agree with the row = matches of the clause that agree with it. -/
theorem filter_specialised {r : Row} {c c' : Clause} (hs : strip c' = strip c) (hi : Implied r c c') (hw : Weaker c c')
    {w : Window} (ht : Tight c w) (scan : List Triple) :
    SetEq ((scan.filterMap (matchClause c' w)).filter (compatible r)) ((scan.filterMap (matchClause c w)).filter (compatible r)) := by
  have key : ∀ m, m ∈ (scan.filterMap (matchClause c' w)).filter (compatible r) ↔
      m ∈ (scan.filterMap (matchClause c w)).filter (compatible r) := by
    intro m
    simp only [List.mem_filter, List.mem_filterMap]
    constructor
    · rintro ⟨⟨t, ht', hm⟩, hc⟩
      exact ⟨⟨t, ht', ((match_specialised hs hi hw ht t m).mp ⟨hm, hc⟩).1⟩, hc⟩
    · rintro ⟨⟨t, ht', hm⟩, hc⟩
      exact ⟨⟨t, ht', ((match_specialised hs hi hw ht t m).mpr ⟨hm, hc⟩).1⟩, hc⟩
  exact ⟨fun m hm => ⟨m, (key m).mp hm, RowEq.refl m⟩, fun m hm => ⟨m, (key m).mpr hm, RowEq.refl m⟩⟩

theorem matchClause_specBind {c : Clause} {w : Window} {t : Triple} {m : Row} (h : matchClause c w t = some m) :
    specBind c t = some m := by
  unfold matchClause at h
  have h := ite_none_eq_some _ _ _ h
  have h := ite_none_eq_some _ _ _ h
  have h := ite_none_eq_some _ _ _ h
  have h := ite_none_eq_some _ _ _ h
  have h := ite_none_eq_some _ _ _ h
  exact h

theorem specRows_all {c : Clause} (h : c.extractsNothing = false) (w : Window) (scan : List Triple) :
    specRows c w scan = scan.filterMap (matchClause c w) := by
  unfold specRows
  apply List.filter_eq_self.mpr
  intro m hm
  obtain ⟨t, _, hmc⟩ := List.mem_filterMap.mp hm
  have hsb : specBind c t = some m := matchClause_specBind hmc
  simp [specBind_something h t m hsb]

/-- Rows good for the induction: no key twice, values inside the universe. -/
def RowOK (U : Universe gs) (r : Row) : Prop := KeysNodup r ∧ RowIn U r

theorem nullRow_ok (U : Universe gs) (c : Clause) (r : Row) : RowOK U (nullRow c.bindings r) :=
  ⟨nullRow_nodup _ (bindings_nodup c) r, fun k v hv => by rw [nullRow_get _ _ k v hv]; exact trivial⟩

theorem merge_ok (U : Universe gs) {a b : Row} (ha : RowOK U a) (hb : RowOK U b) : RowOK U (a.merge b) :=
  ⟨merge_nodup a b ha.1 hb.1, rowIn_merge U ha.2 hb.2⟩

theorem match_in (U : Universe gs) {c : Clause} {w : Window} {t : Triple} {m : Row}
    (ht : t ∈ gs.flatMap scanOf) (h : matchClause c w t = some m) : RowIn U m := by
  obtain ⟨q, hq, htq⟩ := List.mem_flatMap.mp ht
  exact specBind_in U c t (U.stored q hq t htq) m (matchClause_specBind h)

/-- **One row, fetch and join.** The rows `joinRow` makes of the row and the fetch of the specialised
    clause are the reference's join of the row with the clause. -/
theorem joinRow_spec {F : Facts} (hF : Facts.WF F = true) (hg : GraphsOK F gs) (U : Universe gs)
    {c c' : Clause} {lo lo' : QOpts} {r : Row} (hr : RowOK U r) (hwf : ClauseWF c) (hcin : ClauseIn U c)
    (hfil : lo.filter = none) (hsp : specialise r c lo = .ok (c', lo')) (hex : c'.extractsNothing = false)
    (fetched : List Row) (hfe : simpleFetch F gs c' lo' 0 = .ok fetched) :
    SetEq (joinRow r c.optional c'.bindings fetched)
      (specJoin (gs.flatMap scanOf) (nl lo.lower) (nl lo.upper) c r) ∧
    ∀ r' ∈ joinRow r c.optional c'.bindings fetched, RowOK U r' := by
  obtain ⟨hs, hi, hw, hwin, hfil', hid', hap, hapA, _⟩ := specialise_facts U hr.2 hwf hcin hfil hsp
  obtain ⟨rows, hrows, hset⟩ := simpleFetch_spec hF gs hg c' hid' lo' hfil' hap hapA
  rw [hfe] at hrows; injection hrows with hrows; subst hrows
  have hnod := simpleFetch_nodup hF gs (fun q hq => (hg q hq).1) c' hid' lo' hfil' fetched hfe
  rw [hwin, specRows_all hex] at hset
  have htight : Tight c (clauseWindow (nl lo.lower) (nl lo.upper) c r) := tight_clauseWindow _ _ c r
  -- the compatible fetched rows are the compatible matches of the clause
  have hA : SetEq (fetched.filter (compatibleRows r))
      (((gs.flatMap scanOf).filterMap (matchClause c (clauseWindow (nl lo.lower) (nl lo.upper) c r))).filter (compatible r)) :=
    (setEq_filter_compat r hr.1 hset hnod (fun m hm => by
      obtain ⟨t, _, hmc⟩ := List.mem_filterMap.mp hm
      exact matchClause_nodup _ _ _ _ hmc)).trans (filter_specialised hs hi hw htight _)
  have hbind : c'.bindings = c.bindings := by rw [bindings_strip, hs, ← bindings_strip]
  have hfin : ∀ m ∈ fetched, RowOK U m := by
    intro m hm
    obtain ⟨m', hm', e⟩ := hset.1 m hm
    obtain ⟨t, ht, hmc⟩ := List.mem_filterMap.mp hm'
    exact ⟨hnod m hm, rowIn_rowEq U e.symm (match_in U ht hmc)⟩
  constructor
  · unfold joinRow specJoin
    simp only [hbind]
    rw [setEq_isEmpty hA]
    by_cases hopt : c.optional = true
    · by_cases he : (List.filter (compatible r) (List.filterMap (matchClause c (clauseWindow (nl lo.lower) (nl lo.upper) c r))
          (List.flatMap scanOf gs))).isEmpty = true
      · simp only [hopt, he, Bool.and_self, if_true]; exact SetEq.refl _
      · simp only [hopt, he, Bool.false_and, Bool.false_eq_true, if_false, if_true]
        exact setEq_map_merge r hA
    · simp only [hopt, Bool.and_false, Bool.false_eq_true, if_false]
      exact setEq_map_merge r hA
  · intro r' hr'
    unfold joinRow at hr'
    simp only at hr'
    split at hr'
    · simp only [List.mem_singleton] at hr'
      subst hr'
      exact merge_ok U hr (by rw [hbind]; exact nullRow_ok U c r)
    · obtain ⟨m, hm, rfl⟩ := List.mem_map.mp hr'
      exact merge_ok U hr (hfin m (List.mem_filter.mp hm).1)

end BW.Proofs.Planner
