/-
The statements that change a store mean what their tokens say: the data accumulator over the tokens of an
INSERT / DELETE body collects exactly the triples written (`data_denote`); the graph accumulators the graphs
listed (`names_denote`); the template hooks, driven by the clause hooks the grammar attaches, the template
written (`template_denote`).
-/
import BW.Model.Hooks
set_option linter.unusedSimpArgs false
open BW.Model BW.Model.Hooks BW.Model.Stm

namespace BW.Proofs.HooksStmt

def tk (k : HK) (text : Bytes := []) : HTk := { k := k, text := text }

/-! ### INSERT / DELETE data -/

def dataRun : List Triple → DAcc → List HTk → Option (List Triple × DAcc)
  | d, a, [] => some (d, a)
  | d, a, t :: rest => match dataStep d a t with
    | none => none
    | some (d', a') => dataRun d' a' rest

theorem dataRun_append (d : List Triple) (a : DAcc) (l1 l2 : List HTk) :
    dataRun d a (l1 ++ l2) = (dataRun d a l1).bind fun r => dataRun r.1 r.2 l2 := by
  induction l1 generalizing d a with
  | nil => rfl
  | cons x l1 ih =>
    simp only [List.cons_append, dataRun]
    cases dataStep d a x with
    | none => rfl
    | some r => exact ih r.1 r.2

/-- The token of an object, with what `triple.ParseObject` makes of its text. -/
def objTk : Obj → HTk
  | .node n => { k := .node, node := some n, obj := some (.node n) }
  | .pred p => { k := .predicate, pred := some p, obj := some (.pred p) }
  | .lit l => { k := .literal, obj := some (.lit l) }

/-- The tokens of one triple of the body, after a separator (`{` or `.`). -/
def tripleToks (t : Triple) : List HTk :=
  [tk .other, { k := .node, node := some t.s, obj := some (.node t.s) }, { k := .predicate, pred := some t.p, obj := some (.pred t.p) }, objTk t.o]

theorem one_triple (d : List Triple) (c : Nat) (t : Triple) :
    dataRun d { cur := c } (tripleToks t) = some (d ++ [t], { cur := c }) := by
  obtain ⟨s, p, o⟩ := t
  cases o <;> simp [tripleToks, dataRun, dataStep, tk, objTk]

/-- **The body of INSERT / DELETE means what it says.** The data accumulator over `INSERT DATA INTO … {`, the
    tokens of the triples written (separated by `.`), `} ;` collects exactly those triples, in order, and
    ends with no triple under construction. -/
theorem data_denote (ts : List Triple) : ∀ (d : List Triple) (c : Nat),
    dataRun d { cur := c } (ts.flatMap tripleToks ++ [tk .other, tk .other]) = some (d ++ ts, { cur := c }) := by
  induction ts with
  | nil => intro d c; simp [dataRun, dataStep, tk]
  | cons t ts ih =>
    intro d c
    rw [List.flatMap_cons, List.append_assoc, dataRun_append, one_triple]
    simp only [Option.bind_some]
    rw [ih]
    simp

/-! ### Graph lists -/

def namesRun : List Bytes → List HTk → Option (List Bytes)
  | l, [] => some l
  | l, t :: rest => match namesStep l t with
    | none => none
    | some l' => namesRun l' rest

def commaToks : List Bytes → List HTk
  | [] => []
  | [g] => [tk .binding g]
  | g :: g' :: rest => tk .binding g :: tk .comma :: commaToks (g' :: rest)

/-- **CREATE / DROP GRAPH and INTO / IN mean what they say**: the graphs are the bindings listed, in order. -/
theorem names_denote (gs : List Bytes) : ∀ (l : List Bytes), namesRun l (commaToks gs) = some (l ++ gs) := by
  induction gs with
  | nil => intro l; simp [commaToks, namesRun]
  | cons g gs ih =>
    intro l
    cases gs with
    | nil => simp [commaToks, namesRun, namesStep, tk]
    | cons g' rest =>
      have := ih (l ++ [g])
      simp only [commaToks, namesRun, namesStep, tk] at this ⊢
      rw [this]; simp

/-! ### CONSTRUCT / DECONSTRUCT templates -/

inductive SA | node (n : Node) | bind (b : Bytes)
inductive PA | pred (p : Pred) | bind (b : Bytes)
inductive OA | obj (o : Obj) | bind (b : Bytes)
structure PairA where
  p : PA
  o : OA
structure ClauseA where
  s : SA
  pairs : List PairA

def sTk : SA → HTk
  | .node n => { k := .node, node := some n, obj := some (.node n) }
  | .bind b => tk .binding b
def pTk : PA → HTk
  | .pred p => { k := .predicate, pred := some p, obj := some (.pred p) }
  | .bind b => tk .binding b
def oTk : OA → HTk
  | .obj o => objTk o
  | .bind b => tk .binding b

def PairA.denote (a : PairA) : POPair :=
  let base : POPair := match a.p with
    | .pred p => { p := some p, pTemporal := isTemporal p }
    | .bind b => { pBinding := b }
  match a.o with
  | .obj (.pred q) => { base with o := some (.pred q), oTemporal := isTemporal q }
  | .obj o => { base with o := some o }
  | .bind b => { base with oBinding := b }

def ClauseA.denote (c : ClauseA) : CClause :=
  match c.s with
  | .node n => { s := some n, pairs := c.pairs.map PairA.denote }
  | .bind b => { sBinding := b, pairs := c.pairs.map PairA.denote }

/-- Bindings are never empty (the lexer's BINDING token starts with `?`). -/
def PairA.ok (a : PairA) : Prop := (match a.p with | .bind b => b ≠ [] | _ => True) ∧ (match a.o with | .bind b => b ≠ [] | _ => True)
def ClauseA.ok (c : ClauseA) : Prop := (match c.s with | .bind b => b ≠ [] | _ => True) ∧ ∀ a ∈ c.pairs, a.ok

/-- What the hooks are handed for one predicate-object pair: CONSTRUCT_PREDICATE opens it, CONSTRUCT_OBJECT closes it. -/
def pairEvs (a : PairA) : List HEv := [.cPair, .tok .cPred (pTk a.p), .tok .cObj (oTk a.o), .cPair]

/-- … for the pairs of a clause, separated by `;` (a token no hook sees). -/
def pairsEvs : List PairA → List HEv
  | [] => []
  | [a] => pairEvs a
  | a :: b :: rest => pairEvs a ++ .tok .none (tk .other) :: pairsEvs (b :: rest)

/-- … for the clauses of a template, separated by `.`: (DE)CONSTRUCT_TRIPLES and MORE_(DE)CONSTRUCT_TRIPLES both
    call the next-clause hook when they start and when they end. -/
def triplesEvs : List ClauseA → List HEv
  | [] => []
  | [c] => .cNext :: .tok .cSubj (sTk c.s) :: pairsEvs c.pairs ++ [.cNext]
  | c :: d :: rest => .cNext :: .tok .cSubj (sTk c.s) :: pairsEvs c.pairs ++ [.cNext, .tok .none (tk .other)] ++
      triplesEvs (d :: rest) ++ [.cNext, .cNext]

theorem wrun_append (w : WState) (l1 l2 : List HEv) :
    wrun w (l1 ++ l2) = (wrun w l1).bind fun w' => wrun w' l2 := by
  induction l1 generalizing w with
  | nil => rfl
  | cons x l1 ih =>
    simp only [List.cons_append, wrun]
    cases wstep w x with
    | none => rfl
    | some w' => exact ih w'

def FreshPair (c : WCC) : Prop := c.wpair = none ∨ c.wpair = some {}

theorem closePair_fresh (c : WCC) (h : FreshPair c) : c.closePair = { c with wpair := some {} } := by
  unfold WCC.closePair
  rcases h with h | h <;> rw [h] <;> simp [popIsEmpty]

theorem one_pair (w : WState) (c : WCC) (hw : w.wcc = some c) (hf : FreshPair c) (a : PairA) (ha : a.ok) :
    wrun w (pairEvs a) = some { w with wcc := some { c with pairs := c.pairs ++ [a.denote], wpair := some {} } } := by
  obtain ⟨hp, ho⟩ := ha
  obtain ⟨p, o⟩ := a
  simp only at hp ho
  simp only [pairEvs, wrun, wstep, hw, Option.map_some, closePair_fresh c hf, Option.bind_some]
  cases p <;> cases o <;> (try rename_i ob; cases ob) <;>
    simp [cPredStep, cObjStep, pTk, oTk, objTk, tk, processPredicate, WCC.closePair, popIsEmpty, PairA.denote, hp, ho]

theorem pairs_run (a : PairA) (rest : List PairA) : ∀ (w : WState) (c : WCC), w.wcc = some c → FreshPair c →
    (∀ x ∈ a :: rest, x.ok) →
    wrun w (pairsEvs (a :: rest)) =
      some { w with wcc := some { c with pairs := c.pairs ++ (a :: rest).map PairA.denote, wpair := some {} } } := by
  induction rest generalizing a with
  | nil =>
    intro w c hw hf hok
    simp only [pairsEvs]
    rw [one_pair w c hw hf a (hok a List.mem_cons_self)]
    simp
  | cons b rest ih =>
    intro w c hw hf hok
    simp only [pairsEvs]
    rw [wrun_append, one_pair w c hw hf a (hok a List.mem_cons_self)]
    simp only [Option.bind_some, wrun, wstep]
    rw [ih b _ { c with pairs := c.pairs ++ [a.denote], wpair := some {} } rfl (Or.inr rfl)
      (fun x hx => hok x (List.mem_cons_of_mem _ hx))]
    simp

/-- A template clause under construction: subject set, no pair yet. -/
theorem one_clause (w : WState) (hw : w.wcc = some {}) (c : ClauseA) (hc : c.ok) (hne : c.pairs ≠ []) :
    wrun w (.cNext :: .tok .cSubj (sTk c.s) :: pairsEvs c.pairs ++ [.cNext]) =
      some { w with head := { w.head with ccs := w.head.ccs ++ [c.denote] }, wcc := some {} } := by
  obtain ⟨s, pairs⟩ := c
  obtain ⟨hs, hp⟩ := hc
  simp only at hs hp hne
  cases pairs with
  | nil => exact absurd rfl hne
  | cons a rest =>
    simp only [List.cons_append, wrun, wstep, hw, closeClause, wccIsEmpty, Option.bind_some]
    cases s with
    | node n =>
      simp only [sTk, cSubjStep, Option.map_some]
      simp only [Option.isSome_none, Bool.false_or, ne_eq, not_true_eq_false, decide_false, Bool.false_eq_true, if_false,
        Option.isNone_none, List.isEmpty_nil, Bool.and_self, if_true, Option.map_some]
      rw [wrun_append, pairs_run a rest _ { s := some n } rfl (Or.inl rfl) hp]
      simp [wrun, wstep, closeClause, wccIsEmpty, WCC.toClause, ClauseA.denote]
    | bind b =>
      simp only [sTk, tk, cSubjStep, Option.map_some]
      simp only [Option.isSome_none, Bool.false_or, ne_eq, not_true_eq_false, decide_false, Bool.false_eq_true, if_false,
        Option.isNone_none, List.isEmpty_nil, Bool.and_self, if_true, Option.map_some]
      rw [wrun_append, pairs_run a rest _ { sBinding := b } rfl (Or.inl rfl) hp]
      simp [wrun, wstep, closeClause, wccIsEmpty, WCC.toClause, ClauseA.denote, hs]

/-- The next-clause hook on an empty working clause changes nothing. -/
theorem cNext_empty (w : WState) (hw : w.wcc = some {}) : wstep w .cNext = some w := by
  obtain ⟨stmt, working, pattern, hs, hp, ho, hv, hb, da, wcc, head⟩ := w
  simp only at hw
  subst hw
  simp [wstep, closeClause, wccIsEmpty]

/-- **The template of CONSTRUCT / DECONSTRUCT means what it says.** Driven by the clause hooks the grammar
    attaches (`C18.routing_wf`), the template hooks over the tokens of `s p o ; p' o' . s' …` build exactly the
    clauses written — subject (node, blank node or binding), and per pair predicate (full or binding) and
    object (node, literal, full predicate or binding), in order — and leave no clause under construction. -/
theorem template_denote (cs : List ClauseA) (hok : ∀ c ∈ cs, c.ok ∧ c.pairs ≠ []) : ∀ (w : WState), w.wcc = some {} →
    wrun w (triplesEvs cs) = some { w with head := { w.head with ccs := w.head.ccs ++ cs.map ClauseA.denote } } := by
  induction cs with
  | nil =>
    intro w hw
    simp [triplesEvs, wrun]
  | cons c rest ih =>
    intro w hw
    have hc := hok c List.mem_cons_self
    cases rest with
    | nil =>
      simp only [triplesEvs]
      rw [one_clause w hw c hc.1 hc.2]
      obtain ⟨stmt, working, pattern, hs, hp, ho, hv, hb, da, wcc, head⟩ := w
      simp only at hw
      subst hw
      simp
    | cons d rest =>
      simp only [triplesEvs]
      have e : (HEv.cNext :: HEv.tok Part.cSubj (sTk c.s) :: pairsEvs c.pairs ++ [HEv.cNext, HEv.tok Part.none (tk HK.other)] ++
          triplesEvs (d :: rest) ++ [HEv.cNext, HEv.cNext]) =
          (HEv.cNext :: HEv.tok Part.cSubj (sTk c.s) :: pairsEvs c.pairs ++ [HEv.cNext]) ++
            (HEv.tok Part.none (tk HK.other) :: (triplesEvs (d :: rest) ++ [HEv.cNext, HEv.cNext])) := by
        simp
      rw [e, wrun_append, one_clause w hw c hc.1 hc.2]
      simp only [Option.bind_some, wrun, wstep]
      rw [wrun_append, ih (fun x hx => hok x (List.mem_cons_of_mem _ hx)) _ rfl]
      simp only [Option.bind_some, wrun]
      rw [cNext_empty _ rfl]
      simp only []
      rw [cNext_empty _ rfl]
      obtain ⟨stmt, working, pattern, hs, hp, ho, hv, hb, da, wcc, head⟩ := w
      simp only at hw
      subst hw
      simp

end BW.Proofs.HooksStmt
