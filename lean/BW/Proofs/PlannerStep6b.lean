/-
Towards C03: clauses whose object predicate is bounded by bindings (`?s ?p "id"@[?lo,?hi]`). On a row for which it
succeeds, `addSpecifiedData` does with such a clause exactly what it does with the clause that row sees — the object's
interval read from the row, the bound aliases gone (`rowClause`) — and the reference's `joinClauseO` does the same; so
the per-row theorem of the alias-free case carries over (`addSpecifiedData_specO`, `specifyAll_spec`).
-/
import BW.Proofs.PlannerStep6
set_option linter.unusedSimpArgs false
open BW.Model BW.Spec BW.Proofs.ClauseOrder BW.Proofs.Store BW.Proofs.Lookup

namespace BW.Proofs.Planner

variable {gs : List QGraph}

def setO (lo hi : Option Time) (la ua : Bytes) (c : Clause) : Clause :=
  { c with oLower := lo, oUpper := hi, oLowerAlias := la, oUpperAlias := ua }

theorem spS_setO (r : Row) (c : Clause) (lo hi la ua) : spS r (setO lo hi la ua c) = setO lo hi la ua (spS r c) := by
  unfold spS
  have e1 : (setO lo hi la ua c).s = c.s := rfl
  have e2 : (setO lo hi la ua c).sBinding = c.sBinding := rfl
  have e3 : (setO lo hi la ua c).sAlias = c.sAlias := rfl
  rw [e1, e2, e3]
  cases c.s.isNone
  · rfl
  · simp only [if_true]
    cases boundValue r [c.sBinding, c.sAlias] with
    | none => rfl
    | some v => cases v <;> rfl

theorem spPA_setO (r : Row) (c : Clause) (lo hi la ua) : spPA r (setO lo hi la ua c) = setO lo hi la ua (spPA r c) := by
  unfold spPA
  have e1 : (setO lo hi la ua c).p = c.p := rfl
  have e2 : (setO lo hi la ua c).pID = c.pID := rfl
  have e3 : (setO lo hi la ua c).pAnchorBinding = c.pAnchorBinding := rfl
  rw [e1, e2, e3]
  split
  · cases r.get c.pAnchorBinding with
    | none => rfl
    | some v => cases v <;> rfl
  · rfl

theorem spP_setO (r : Row) (c : Clause) (lo hi la ua) : spP r (setO lo hi la ua c) = setO lo hi la ua (spP r c) := by
  unfold spP
  have e2 : (setO lo hi la ua c).pBinding = c.pBinding := rfl
  have e3 : (setO lo hi la ua c).pAlias = c.pAlias := rfl
  rw [e2, e3]
  cases boundValue r [c.pBinding, c.pAlias] with
  | none => rfl
  | some v => cases v <;> rfl

theorem spOA_setO (r : Row) (c : Clause) (lo hi la ua) : spOA r (setO lo hi la ua c) = setO lo hi la ua (spOA r c) := by
  unfold spOA
  have e1 : (setO lo hi la ua c).o = c.o := rfl
  have e2 : (setO lo hi la ua c).oID = c.oID := rfl
  have e3 : (setO lo hi la ua c).oAnchorBinding = c.oAnchorBinding := rfl
  rw [e1, e2, e3]
  split
  · cases r.get c.oAnchorBinding with
    | none => rfl
    | some v => cases v <;> rfl
  · rfl

theorem spO_setO (r : Row) (c : Clause) (lo hi la ua) : spO r (setO lo hi la ua c) = setO lo hi la ua (spO r c) := by
  unfold spO
  have e2 : (setO lo hi la ua c).oBinding = c.oBinding := rfl
  have e3 : (setO lo hi la ua c).oAlias = c.oAlias := rfl
  rw [e2, e3]
  cases (boundValue r [c.oBinding, c.oAlias]).bind cellToObj with
  | none => rfl
  | some v => rfl

theorem boundsForRow_setO (q : QOpts) (r : Row) (c : Clause) (lo hi la ua) :
    boundsForRow q (setO lo hi la ua c) r = boundsForRow q c r := rfl

theorem specialise_setO (r : Row) (c : Clause) (q : QOpts) (lo hi la ua) :
    specialise r (setO lo hi la ua c) q =
      match specialise r c q with
      | .error e => .error e
      | .ok (c', q') => .ok (setO lo hi la ua c', q') := by
  unfold specialise
  simp only [spS_setO, spPA_setO, spP_setO, boundsForRow_setO]
  have e1 : ∀ x : Clause, (setO lo hi la ua x).p = x.p := fun _ => rfl
  have e2 : ∀ x : Clause, (setO lo hi la ua x).o = x.o := fun _ => rfl
  simp only [e1]
  -- second half, for any intermediate clause
  have second : ∀ (c3 : Clause) (q3 : QOpts),
      (if (spOA r (setO lo hi la ua c3)).o.isNone then
        match boundsForRow q3 (spO r (spOA r (setO lo hi la ua c3))) r with
        | .ok lo' => Except.ok (spO r (spOA r (setO lo hi la ua c3)), lo')
        | .error e => .error e
      else .ok (spOA r (setO lo hi la ua c3), q3)) =
      (match (if (spOA r c3).o.isNone then
          match boundsForRow q3 (spO r (spOA r c3)) r with
          | .ok lo' => Except.ok (spO r (spOA r c3), lo')
          | .error e => .error e
        else .ok (spOA r c3, q3)) with
       | .error e => Except.error e
       | .ok (c', q') => .ok (setO lo hi la ua c', q')) := by
    intro c3 q3
    simp only [spOA_setO, spO_setO, e2, boundsForRow_setO]
    by_cases ho : (spOA r c3).o.isNone = true
    · simp only [ho, if_true]
      cases boundsForRow q3 (spO r (spOA r c3)) r <;> rfl
    · simp only [ho, Bool.false_eq_true, if_false]
  by_cases hp : (spPA r (spS r c)).p.isNone = true
  · simp only [hp, if_true]
    cases hb : boundsForRow q (spP r (spPA r (spS r c))) r with
    | error e => rfl
    | ok q1 => exact second _ _
  · simp only [hp, Bool.false_eq_true, if_false]
    exact second _ _

/-! ### The clause a row sees -/

/-- The bound of the object's interval as a row gives it. -/
def rowBound (r : Row) (alias : Bytes) (own : Option Time) : Option Time :=
  if alias = [] then own else rowTimeT r alias

/-- The clause with its object interval read from the row and the bound aliases gone. -/
def rowClause (c : Clause) (r : Row) : Clause :=
  setO (rowBound r c.oLowerAlias c.oLower) (rowBound r c.oUpperAlias c.oUpper) [] [] c

theorem objBound_ok {r : Row} {alias : Bytes} {own v : Option Time} (h : objBound r alias own = .ok v) :
    v = rowBound r alias own ∧ (alias ≠ [] → r.has alias = true) := by
  unfold objBound at h
  unfold rowBound rowTimeT
  by_cases ha : alias = []
  · simp only [ha, if_true, Except.ok.injEq] at h
    simp [ha, h]
  · simp only [ha, if_false] at h
    cases hg : r.get alias with
    | none => simp [hg] at h
    | some cell =>
      cases cell <;> simp [hg] at h
      subst h
      refine ⟨by simp [ha], fun _ => ?_⟩
      have hm := BW.Proofs.ClauseOrder.mem_of_get _ _ _ hg
      unfold Row.has
      exact List.any_eq_true.mpr ⟨_, hm, by simp⟩

theorem withRowObjBounds_eq (c : Clause) (r : Row) :
    withRowObjBounds c r = setO (rowBound r c.oLowerAlias c.oLower) (rowBound r c.oUpperAlias c.oUpper) c.oLowerAlias c.oUpperAlias c := by
  cases c
  unfold withRowObjBounds rowBound setO
  rename_i la ua _
  by_cases h1 : la = [] <;> by_cases h2 : ua = [] <;> simp [h1, h2]

/-! ### `dedup` and names the row already has -/

theorem dedup_step_append (xs acc : List Bytes) :
    ∃ ys, xs.foldl (fun acc b => if acc.contains b then acc else acc ++ [b]) acc = acc ++ ys ∧ ∀ y ∈ ys, y ∈ xs := by
  induction xs generalizing acc with
  | nil => exact ⟨[], by simp, fun _ h => by cases h⟩
  | cons x xs ih =>
    simp only [List.foldl_cons]
    by_cases hc : acc.contains x = true
    · simp only [hc, if_true]
      obtain ⟨ys, h1, h2⟩ := ih acc
      exact ⟨ys, h1, fun y hy => List.mem_cons_of_mem _ (h2 y hy)⟩
    · simp only [hc, Bool.false_eq_true, if_false]
      obtain ⟨ys, h1, h2⟩ := ih (acc ++ [x])
      refine ⟨x :: ys, by rw [h1]; simp, ?_⟩
      intro y hy
      rcases List.mem_cons.mp hy with e | e
      · rw [e]; exact List.mem_cons_self
      · exact List.mem_cons_of_mem _ (h2 y e)

theorem dedup_append (a b : List Bytes) : ∃ ys, dedup (a ++ b) = dedup a ++ ys ∧ ∀ y ∈ ys, y ∈ b := by
  unfold dedup
  rw [List.foldl_append]
  exact dedup_step_append b _

/-- The names a row lacks among a clause's bindings do not change when the bound aliases, which the row has, are
    taken out of the clause. -/
theorem bindings_lacking (c : Clause) (r : Row) (lo hi : Option Time)
    (h1 : c.oLowerAlias ≠ [] → r.has c.oLowerAlias = true) (h2 : c.oUpperAlias ≠ [] → r.has c.oUpperAlias = true) :
    c.bindings.filter (fun k => !r.has k) = (setO lo hi [] [] c).bindings.filter (fun k => !r.has k) := by
  have hb : c.bindings = dedup (([c.sBinding, c.sAlias, c.sTypeAlias, c.sIDAlias, c.pAlias, c.pAnchorBinding, c.pBinding, c.pLowerAlias,
      c.pUpperAlias, c.pIDAlias, c.pAnchorAlias, c.oBinding, c.oAlias, c.oTypeAlias, c.oIDAlias, c.oAnchorAlias,
      c.oAnchorBinding].filter (· ≠ [])) ++ ([c.oLowerAlias, c.oUpperAlias].filter (· ≠ []))) := by
    unfold Clause.bindings
    rw [← List.filter_append]; rfl
  have hb2 : (setO lo hi [] [] c).bindings = dedup ([c.sBinding, c.sAlias, c.sTypeAlias, c.sIDAlias, c.pAlias, c.pAnchorBinding, c.pBinding, c.pLowerAlias,
      c.pUpperAlias, c.pIDAlias, c.pAnchorAlias, c.oBinding, c.oAlias, c.oTypeAlias, c.oIDAlias, c.oAnchorAlias,
      c.oAnchorBinding].filter (· ≠ [])) := by
    unfold Clause.bindings setO
    simp only
    rw [show ([c.sBinding, c.sAlias, c.sTypeAlias, c.sIDAlias, c.pAlias, c.pAnchorBinding, c.pBinding, c.pLowerAlias,
      c.pUpperAlias, c.pIDAlias, c.pAnchorAlias, c.oBinding, c.oAlias, c.oTypeAlias, c.oIDAlias, c.oAnchorAlias,
      c.oAnchorBinding, ([] : Bytes), ([] : Bytes)] : List Bytes) = [c.sBinding, c.sAlias, c.sTypeAlias, c.sIDAlias, c.pAlias, c.pAnchorBinding, c.pBinding, c.pLowerAlias,
      c.pUpperAlias, c.pIDAlias, c.pAnchorAlias, c.oBinding, c.oAlias, c.oTypeAlias, c.oIDAlias, c.oAnchorAlias,
      c.oAnchorBinding] ++ [[], []] from rfl, List.filter_append]
    simp
  rw [hb, hb2]
  obtain ⟨ys, e, hy⟩ := dedup_append ([c.sBinding, c.sAlias, c.sTypeAlias, c.sIDAlias, c.pAlias, c.pAnchorBinding, c.pBinding, c.pLowerAlias,
      c.pUpperAlias, c.pIDAlias, c.pAnchorAlias, c.oBinding, c.oAlias, c.oTypeAlias, c.oIDAlias, c.oAnchorAlias,
      c.oAnchorBinding].filter (· ≠ [])) ([c.oLowerAlias, c.oUpperAlias].filter (· ≠ []))
  rw [e, List.filter_append]
  have : ys.filter (fun k => !r.has k) = [] := by
    apply List.filter_eq_nil_iff.mpr
    intro y hyy
    have := hy y hyy
    simp only [List.mem_filter, List.mem_cons, List.not_mem_nil, or_false, ne_eq, decide_eq_true_eq] at this
    obtain ⟨hm, hne⟩ := this
    rcases hm with rfl | rfl
    · simp [h1 hne]
    · simp [h2 hne]
  rw [this, List.append_nil]

/-- `addSpecifiedData` after the specialisation. -/
def tailOf (F : Facts) (gs : List QGraph) (r : Row) (opt : Bool) (c' : Clause) (q' : QOpts) : Except QErr (List Row) :=
  if c'.extractsNothing then do
    let rows ← simpleFetch F gs { c' with sAlias := [63, 95, 95, 101, 120, 105, 115, 116, 115] } q' 0
    pure (if !rows.isEmpty || opt then [r] else [])
  else do
    let rows ← simpleFetch F gs c' q' 0
    pure (joinRow r opt c'.bindings rows)

theorem addSpecifiedData_tail (F : Facts) (gs : List QGraph) (r : Row) (c : Clause) (q : QOpts) :
    addSpecifiedData F gs r c q 0 =
      match specialiseO r c q with
      | .error e => .error e
      | .ok (c', q') => tailOf F gs r c.optional c' q' := by
  unfold addSpecifiedData tailOf
  cases specialiseO r c q with
  | error e => rfl
  | ok p => rfl

theorem joinRow_lacking (r : Row) (opt : Bool) (b1 b2 : List Bytes) (rows : List Row)
    (h : b1.filter (fun k => !r.has k) = b2.filter (fun k => !r.has k)) : joinRow r opt b1 rows = joinRow r opt b2 rows := by
  unfold joinRow
  simp only [h]

/-- The tail does not look at the bound aliases, except to leave them unset in the row of an OPTIONAL clause without
    match — where the row has them already. -/
theorem tailOf_aliases (F : Facts) (gs : List QGraph) (r : Row) (opt : Bool) (c' : Clause) (q' : QOpts) (lo hi : Option Time)
    (h1 : c'.oLowerAlias ≠ [] → r.has c'.oLowerAlias = true) (h2 : c'.oUpperAlias ≠ [] → r.has c'.oUpperAlias = true) :
    tailOf F gs r opt { c' with oLower := lo, oUpper := hi } q' = tailOf F gs r opt (setO lo hi [] [] c') q' := by
  unfold tailOf
  have hex : ({ c' with oLower := lo, oUpper := hi } : Clause).extractsNothing = (setO lo hi [] [] c').extractsNothing := rfl
  rw [hex]
  have hb := bindings_lacking { c' with oLower := lo, oUpper := hi } r lo hi h1 h2
  have hb' : (setO lo hi [] [] { c' with oLower := lo, oUpper := hi }) = setO lo hi [] [] c' := rfl
  rw [hb'] at hb
  have hf1 : simpleFetch F gs { ({ c' with oLower := lo, oUpper := hi } : Clause) with sAlias := [63, 95, 95, 101, 120, 105, 115, 116, 115] } q' 0 =
      simpleFetch F gs { (setO lo hi [] [] c') with sAlias := [63, 95, 95, 101, 120, 105, 115, 116, 115] } q' 0 := rfl
  have hf2 : simpleFetch F gs ({ c' with oLower := lo, oUpper := hi } : Clause) q' 0 = simpleFetch F gs (setO lo hi [] [] c') q' 0 := rfl
  rw [hf1, hf2]
  split
  · rfl
  · cases simpleFetch F gs (setO lo hi [] [] c') q' 0 with
    | error e => rfl
    | ok rows =>
      simp only [bind, Except.bind, pure, Except.pure]
      rw [joinRow_lacking r opt _ _ rows hb]

/-- **The reduction.** On a row for which it succeeds, `addSpecifiedData` does with a clause bounded by bindings
    exactly what it does with the clause that row sees (`rowClause`); and the row has the bound aliases. -/
theorem addSpecifiedData_rowClause (F : Facts) (gs : List QGraph) (r : Row) (c : Clause) (q : QOpts) (out : List Row)
    (h : addSpecifiedData F gs r c q 0 = .ok out) :
    addSpecifiedData F gs r (rowClause c r) q 0 = .ok out ∧
    (c.oLowerAlias ≠ [] → r.has c.oLowerAlias = true) ∧ (c.oUpperAlias ≠ [] → r.has c.oUpperAlias = true) := by
  rw [addSpecifiedData_tail] at h
  unfold specialiseO at h
  cases hs : specialise r c q with
  | error e => simp [hs] at h
  | ok p =>
    obtain ⟨c', q'⟩ := p
    simp only [hs] at h
    have hst := specialise_strip hs
    have e1 : c'.oLowerAlias = c.oLowerAlias := show (strip c').oLowerAlias = (strip c).oLowerAlias from congrArg Clause.oLowerAlias hst
    have e2 : c'.oUpperAlias = c.oUpperAlias := show (strip c').oUpperAlias = (strip c).oUpperAlias from congrArg Clause.oUpperAlias hst
    have e3 : c'.oLower = c.oLower := show (strip c').oLower = (strip c).oLower from congrArg Clause.oLower hst
    have e4 : c'.oUpper = c.oUpper := show (strip c').oUpper = (strip c).oUpper from congrArg Clause.oUpper hst
    unfold objBoundsForRow at h
    rw [e1, e2, e3, e4] at h
    cases hl : objBound r c.oLowerAlias c.oLower with
    | error e => simp [hl] at h
    | ok lo =>
      cases hu : objBound r c.oUpperAlias c.oUpper with
      | error e => simp [hl, hu] at h
      | ok hi =>
        simp only [hl, hu] at h
        obtain ⟨el, hasl⟩ := objBound_ok hl
        obtain ⟨eu, hasu⟩ := objBound_ok hu
        refine ⟨?_, hasl, hasu⟩
        have hs2 : specialise r (rowClause c r) q = .ok (setO lo hi [] [] c', q') := by
          unfold rowClause
          rw [specialise_setO, hs, ← el, ← eu]
        have hob : objBoundsForRow r (setO lo hi [] [] c') = .ok (setO lo hi [] [] c') := by
          unfold objBoundsForRow objBound setO
          simp
        rw [addSpecifiedData_tail]
        unfold specialiseO
        simp only [hs2, hob]
        rw [← tailOf_aliases F gs r _ c' q' lo hi (by rw [e1]; exact hasl) (by rw [e2]; exact hasu)]
        rw [← e1, ← e2] at h
        exact h

/-! ### The reference side -/

/-- One row of `joinClauseO`. -/
def specJoinO (scan : List Triple) (glo ghi : Option Int) (c : Clause) (r : Row) : List Row :=
  let ms := (scan.filterMap (matchClause (withRowObjBounds c r) (clauseWindow glo ghi c r))).filter (compatible r)
  if c.optional then
    if ms.isEmpty then [r.merge ((c.bindings.filter (fun k => !r.has k)).map fun k => (k, Cell.null))]
    else ms.map r.merge
  else ms.map r.merge

theorem joinClauseO_flat (scan : List Triple) (glo ghi : Option Int) (rows : List Row) (c : Clause) :
    joinClauseO scan glo ghi rows c = rows.flatMap (specJoinO scan glo ghi c) := rfl

theorem specJoinO_rowClause (scan : List Triple) (glo ghi : Option Int) (c : Clause) (r : Row)
    (h1 : c.oLowerAlias ≠ [] → r.has c.oLowerAlias = true) (h2 : c.oUpperAlias ≠ [] → r.has c.oUpperAlias = true) :
    specJoinO scan glo ghi c r = specJoin scan glo ghi (rowClause c r) r := by
  unfold specJoinO specJoin
  rw [withRowObjBounds_eq]
  have hm : matchClause (setO (rowBound r c.oLowerAlias c.oLower) (rowBound r c.oUpperAlias c.oUpper) c.oLowerAlias c.oUpperAlias c)
      (clauseWindow glo ghi c r) = matchClause (rowClause c r) (clauseWindow glo ghi (rowClause c r) r) := rfl
  rw [hm]
  have hopt : (rowClause c r).optional = c.optional := rfl
  rw [hopt]
  have hb := bindings_lacking c r (rowBound r c.oLowerAlias c.oLower) (rowBound r c.oUpperAlias c.oUpper) h1 h2
  have hb' : (setO (rowBound r c.oLowerAlias c.oLower) (rowBound r c.oUpperAlias c.oUpper) [] [] c) = rowClause c r := rfl
  rw [hb'] at hb
  simp only [hb]

theorem clauseWF_rowClause {c : Clause} (h : ClauseWF c) (r : Row) : ClauseWF (rowClause c r) :=
  ⟨h.idAlias, h.alias⟩

/-- **One row of `specifyClauseWithTable`, object intervals by bindings included.** -/
theorem addSpecifiedData_specO {F : Facts} (hF : Facts.WF F = true) (hg : GraphsOK F gs) (U : Universe gs)
    {c : Clause} {lo : QOpts} {r : Row} (hr : RowOK U r) (hwf : ClauseWF c) (hcin : ClauseIn U c)
    (hfil : lo.filter = none) (out : List Row) (h : addSpecifiedData F gs r c lo 0 = .ok out) :
    SetEq out (specJoinO (gs.flatMap scanOf) (nl lo.lower) (nl lo.upper) c r) ∧ ∀ r' ∈ out, RowOK U r' := by
  obtain ⟨h', a1, a2⟩ := addSpecifiedData_rowClause F gs r c lo out h
  rw [specJoinO_rowClause _ _ _ c r a1 a2]
  exact addSpecifiedData_spec hF hg U hr (clauseWF_rowClause hwf r) ⟨rfl, rfl⟩ hcin hfil out h'

/-- All rows: `specifyAll` is the reference's join step (object intervals by bindings included). -/
theorem specifyAll_spec {F : Facts} (hF : Facts.WF F = true) (hg : GraphsOK F gs) (U : Universe gs)
    {c : Clause} {lo : QOpts} (hwf : ClauseWF c) (hcin : ClauseIn U c) (hfil : lo.filter = none) :
    ∀ (rows out : List Row), (∀ r ∈ rows, RowOK U r) → specifyAll F gs c lo 0 rows = .ok out →
      SetEq out (joinClauseO (gs.flatMap scanOf) (nl lo.lower) (nl lo.upper) rows c) ∧ ∀ r' ∈ out, RowOK U r' := by
  intro rows
  induction rows with
  | nil =>
    intro out _ h
    simp only [specifyAll, Except.ok.injEq] at h
    subst h
    exact ⟨SetEq.refl _, fun _ h => by cases h⟩
  | cons r rows ih =>
    intro out hrs h
    simp only [specifyAll] at h
    cases ha : addSpecifiedData F gs r c lo 0 with
    | error e => simp [ha] at h
    | ok a =>
      simp only [ha] at h
      cases hb : specifyAll F gs c lo 0 rows with
      | error e => simp [hb] at h
      | ok b =>
        simp only [hb, Except.ok.injEq] at h
        subst h
        obtain ⟨sa, oa⟩ := addSpecifiedData_specO hF hg U (hrs r List.mem_cons_self) hwf hcin hfil a ha
        obtain ⟨sb, ob⟩ := ih b (fun x hx => hrs x (List.mem_cons_of_mem _ hx)) hb
        rw [joinClauseO_flat, List.flatMap_cons]
        refine ⟨SetEq.append sa (by rw [← joinClauseO_flat]; exact sb), ?_⟩
        intro r' hr'
        rcases List.mem_append.mp hr' with h1 | h1
        · exact oa r' h1
        · exact ob r' h1

end BW.Proofs.Planner
