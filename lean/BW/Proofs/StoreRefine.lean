/-
The memory store refines the specification "names ↦ sets of triples" (helper lemmas for C01).
-/
import BW.Proofs.Lookup

local macro "rt" : term => `(by first | rfl | trivial)

namespace BW.Proofs.StoreRefine
open BW.Model BW.Spec BW.Proofs.Store BW.Proofs.Lookup

/-- Abstraction: forget the secondary indexes. -/
def abs (s : Store) : SStore := s.map fun p => (p.1, p.2.master)

/-- Every graph of the store satisfies the index invariant. -/
def StoreInv (F : Facts) (s : Store) : Prop := ∀ p ∈ s, Inv F p.2

/-- Side condition of a look-up operation: a predicate is supplied where one is fixed, and the paging
    request is meaningful (see `checker_is_page`). -/
def Op.ok : Op → Prop
  | .lookup _ m a lo => argsOK m a = true ∧ (0 < lo.maxElements ∨ lo.maxElements * lo.offset ≤ 0)
  | _ => True

theorem abs_get (s : Store) (n : Bytes) : (abs s).get n = (s.get n).map (·.master) := by
  unfold abs SStore.get Store.get
  induction s with
  | nil => rfl
  | cons p s ih =>
    simp only [List.map_cons, List.find?_cons]
    by_cases h : (p.1 == n) = true
    · simp [h]
    · simp only [h]; exact ih

theorem abs_get_isSome (s : Store) (n : Bytes) : ((abs s).get n).isSome = (s.get n).isSome := by
  rw [abs_get]; cases s.get n <;> rfl

theorem abs_names (s : Store) : (abs s).names = s.names := by
  simp [abs, SStore.names, Store.names, List.map_map, Function.comp_def]

theorem abs_update (F : Facts) (s : Store) (n : Bytes) (f : Graph → Graph) (f' : SGraph → SGraph)
    (h : ∀ g, (f g).master = f' g.master) :
    abs (s.update n f) = (abs s).update n f' := by
  unfold abs Store.update SStore.update
  simp only [List.map_map]
  apply List.map_congr_left
  intro p _
  simp only [Function.comp]
  by_cases hk : (p.1 == n) = true <;> simp [hk, h]

theorem abs_filter (s : Store) (n : Bytes) : abs (s.filter (·.1 != n)) = (abs s).filter (·.1 != n) := by
  unfold abs
  induction s with
  | nil => rfl
  | cons p s ih =>
    simp only [List.filter_cons, List.map_cons]
    by_cases h : (p.1 != n) = true <;> simp [h, ih]

theorem get_mem {s : Store} {n : Bytes} {g : Graph} (h : s.get n = some g) : ∃ p ∈ s, p.2 = g := by
  unfold Store.get at h
  cases hf : s.find? (·.1 == n) with
  | none => simp [hf] at h
  | some p =>
    simp [hf] at h
    exact ⟨p, List.mem_of_find?_eq_some hf, h⟩

theorem storeInv_update {F : Facts} {s : Store} (hs : StoreInv F s) (n : Bytes) (f : Graph → Graph)
    (hf : ∀ g, Inv F g → Inv F (f g)) : StoreInv F (s.update n f) := by
  intro p hp
  unfold Store.update at hp
  obtain ⟨q, hq, rfl⟩ := List.mem_map.mp hp
  by_cases hk : (q.1 == n) = true
  · simp only [hk, if_true]; exact hf q.2 (hs _ hq)
  · simp only [hk]; exact hs _ hq

/-- One step: same output, abstraction commutes, invariant preserved. -/
theorem step_refines {F : Facts} (hF : Facts.WF F = true) {s : Store} (hs : StoreInv F s) (op : Op)
    (hop : Op.ok op) :
    (s.step F op).2 = ((abs s).step op).2 ∧ abs (s.step F op).1 = ((abs s).step op).1 ∧
    StoreInv F (s.step F op).1 := by
  cases op with
  | newGraph n =>
    simp only [Store.step, SStore.step, Store.newGraph, SStore.newGraph, abs_get_isSome]
    by_cases h : (s.get n).isSome = true
    · simp [h, hs]
    · simp only [h]
      refine ⟨rt, by simp [abs, Graph.empty], ?_⟩
      intro p hp
      rcases List.mem_cons.mp hp with rfl | hp
      · exact inv_empty F
      · exact hs p hp
  | getGraph n =>
    simp only [Store.step, SStore.step, abs_get_isSome]
    exact ⟨rt, rt, hs⟩
  | deleteGraph n =>
    simp only [Store.step, SStore.step, Store.deleteGraph, SStore.deleteGraph, abs_get_isSome]
    by_cases h : (s.get n).isSome = true
    · simp only [h, if_true]
      refine ⟨rt, abs_filter s n, ?_⟩
      intro p hp
      exact hs p (List.mem_filter.mp hp).1
    · simp [h, hs]
  | names =>
    simp only [Store.step, SStore.step, abs_names]
    exact ⟨rt, rt, hs⟩
  | add n ts =>
    simp only [Store.step, SStore.step, abs_get_isSome]
    by_cases h : (s.get n).isSome = true
    · simp only [h, if_true]
      refine ⟨rt, abs_update F s n _ _ (fun g => master_addAll hF g ts), ?_⟩
      exact storeInv_update hs n _ (fun g hg => inv_addAll hF hg ts)
    · simp [h, hs]
  | rem n ts =>
    simp only [Store.step, SStore.step, abs_get_isSome]
    by_cases h : (s.get n).isSome = true
    · simp only [h, if_true]
      refine ⟨rt, abs_update F s n _ _ (fun g => master_remAll hF g ts), ?_⟩
      exact storeInv_update hs n _ (fun g hg => inv_remAll hF hg ts)
    · simp [h, hs]
  | exist n t =>
    simp only [Store.step, SStore.step, abs_get]
    cases h : s.get n with
    | none => exact ⟨rt, rt, hs⟩
    | some g => exact ⟨rt, rt, hs⟩
  | lookup n m a lo =>
    simp only [Store.step, SStore.step, abs_get]
    cases h : s.get n with
    | none => exact ⟨rt, rt, hs⟩
    | some g =>
      obtain ⟨p, hp, rfl⟩ := get_mem h
      simp only [Option.map_some]
      refine ⟨?_, rt, hs⟩
      rw [lookup_eq_scan hF (hs p hp) m a lo hop.1 hop.2]

/-- Whole histories: after any sequence of operations the memory store and the specification have
    produced the same outputs at every step and are in corresponding states. -/
theorem run_refines {F : Facts} (hF : Facts.WF F = true) {s : Store} (hs : StoreInv F s) (ops : List Op)
    (hops : ∀ op ∈ ops, Op.ok op) :
    (Store.run F s ops).2 = (SStore.run (abs s) ops).2 ∧
    abs (Store.run F s ops).1 = (SStore.run (abs s) ops).1 ∧
    StoreInv F (Store.run F s ops).1 := by
  induction ops generalizing s with
  | nil => exact ⟨rfl, rfl, hs⟩
  | cons op ops ih =>
    obtain ⟨h1, h2, h3⟩ := step_refines hF hs op (hops op (List.mem_cons_self))
    obtain ⟨i1, i2, i3⟩ := ih h3 (fun o ho => hops o (List.mem_cons_of_mem _ ho))
    simp only [Store.run, SStore.run]
    rw [← h2] 
    refine ⟨?_, i2, i3⟩
    rw [h1, i1]

end BW.Proofs.StoreRefine
