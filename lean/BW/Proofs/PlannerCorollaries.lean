/-
Corollaries of `processPattern_spec` for C14: what holds for the reference's solutions — invariance under the
order of the clauses, under the partition of the triples over the FROM graphs, monotonicity — holds for the
planner's table (as a set of rows).
-/
import BW.Proofs.PlannerStep11
import BW.Proofs.Projection
open BW.Model BW.Spec BW.Proofs.ClauseOrder BW.Proofs.Planner BW.Proofs.Store

namespace BW.Proofs.Planner

theorem relL_setEq {l l' : List Row} (h : RelL l l') : SetEq l l' := by
  induction h with
  | nil => exact SetEq.refl []
  | cons hab _ ih =>
    constructor
    · intro r hr
      rcases List.mem_cons.mp hr with e | hm
      · subst e; exact ⟨_, List.mem_cons_self, hab⟩
      · obtain ⟨r', hr', e⟩ := ih.1 r hm; exact ⟨r', List.mem_cons_of_mem _ hr', e⟩
    · intro r hr
      rcases List.mem_cons.mp hr with e | hm
      · subst e; exact ⟨_, List.mem_cons_self, hab⟩
      · obtain ⟨r', hr', e⟩ := ih.2 r hm; exact ⟨r', List.mem_cons_of_mem _ hr', e⟩

theorem permEq_setEq {l l' : List Row} (h : PermEq l l') : SetEq l l' := by
  obtain ⟨m, hp, hr⟩ := h
  exact (SetEq.of_perm hp).trans (relL_setEq hr)

/-- **Clause order, for the planner.** Two ways of writing the same conjunctive pattern (no OPTIONAL, no
    predicate bounded by another clause's bindings) — the clauses in another order — make the planner leave
    the same set of rows, whatever strategies the two orders make it pick. -/
theorem planner_clause_order {gs : List QGraph} {F : Facts} (hF : Facts.WF F = true) (hg : GraphsOK F gs) (U : Universe gs) (lo : QOpts)
    (c0 : Clause) (cs : List Clause) (c0' : Clause) (cs' : List Clause) (hp : (c0 :: cs).Perm (c0' :: cs'))
    (hpc : ∀ c ∈ c0 :: cs, PatClause U c ∧ Plain c)
    (hno : ∀ c ∈ c0 :: cs, c.oLowerAlias = [] ∧ c.oUpperAlias = [])
    (h0 : c0.extractsNothing = false) (h0' : c0'.extractsNothing = false)
    (out out' : Tbl) (h : processPattern F gs (c0 :: cs) lo 0 (fun _ => none) = .ok out)
    (h' : processPattern F gs (c0' :: cs') lo 0 (fun _ => none) = .ok out') :
    SetEq out.rows out'.rows := by
  have hpc' : ∀ c ∈ c0' :: cs', PatClause U c ∧ Plain c := fun c hc => hpc c (hp.mem_iff.mpr hc)
  have s1 := processPattern_spec_plain hF hg U lo c0 cs (hpc c0 List.mem_cons_self).1
    (fun c hc => (hpc c (List.mem_cons_of_mem _ hc)).1) hno (hpc c0 List.mem_cons_self).2.1 h0 out h
  have s2 := processPattern_spec_plain hF hg U lo c0' cs' (hpc' c0' List.mem_cons_self).1
    (fun c hc => (hpc' c (List.mem_cons_of_mem _ hc)).1) (fun c hc => hno c (hp.mem_iff.mpr hc)) (hpc' c0' List.mem_cons_self).2.1 h0' out' h'
  have hn1 : AllNodup ([[]] : List Row) := by
    intro r hr; simp only [List.mem_singleton] at hr; subst hr; exact List.nodup_nil
  have mid : PermEq (solutions (gs.flatMap scanOf) (nl lo.lower) (nl lo.upper) (c0 :: cs))
      (solutions (gs.flatMap scanOf) (nl lo.lower) (nl lo.upper) (c0' :: cs')) :=
    foldl_clause_perm _ _ _ (c0 :: cs) (c0' :: cs') hp (fun c hc => (hpc c hc).2) [[]] hn1
  exact (s1.trans (permEq_setEq mid)).trans s2.symm

end BW.Proofs.Planner

namespace BW.Proofs.Planner

/-! ### The same two facts for `solutionsO` (object intervals read from the row) -/

theorem joinClauseO_perm_scan (scan scan' : List Triple) (glo ghi : Option Int) (rows : List Row) (c : Clause)
    (hs : scan.Perm scan') : (joinClauseO scan glo ghi rows c).Perm (joinClauseO scan' glo ghi rows c) := by
  rw [joinClauseO_flat, joinClauseO_flat]
  apply BW.Proofs.Query.flatMap_perm_left
  intro r _
  rw [specJoinO_eq, specJoinO_eq, ← joinClause_single, ← joinClause_single]
  exact BW.Proofs.Query.joinClause_perm_scan scan scan' glo ghi [r] _ hs

theorem joinClauseO_perm_rows (scan : List Triple) (glo ghi : Option Int) (rows rows' : List Row) (c : Clause)
    (hr : rows.Perm rows') : (joinClauseO scan glo ghi rows c).Perm (joinClauseO scan glo ghi rows' c) := by
  rw [joinClauseO_flat, joinClauseO_flat]
  exact hr.flatMap_right _

/-- The multiset of solutions is the same for every order of the scanned triples. -/
theorem solutionsO_perm_scan (scan scan' : List Triple) (glo ghi : Option Int) (cs : List Clause) (hs : scan.Perm scan') :
    (solutionsO scan glo ghi cs).Perm (solutionsO scan' glo ghi cs) := by
  unfold solutionsO
  suffices H : ∀ rows rows' : List Row, rows.Perm rows' →
      (cs.foldl (joinClauseO scan glo ghi) rows).Perm (cs.foldl (joinClauseO scan' glo ghi) rows') from H _ _ (List.Perm.refl _)
  induction cs with
  | nil => intro rows rows' h; exact h
  | cons c cs ih =>
    intro rows rows' h
    simp only [List.foldl_cons]
    exact ih _ _ ((joinClauseO_perm_rows scan glo ghi rows rows' c h).trans (joinClauseO_perm_scan scan scan' glo ghi rows' c hs))

theorem joinClauseO_mono (scan scan' : List Triple) (glo ghi : Option Int) (rows rows' : List Row) (c : Clause)
    (hc : c.optional = false) (hs : ∀ t ∈ scan, t ∈ scan') (hr : ∀ r ∈ rows, r ∈ rows') :
    ∀ r ∈ joinClauseO scan glo ghi rows c, r ∈ joinClauseO scan' glo ghi rows' c := by
  intro x hx
  rw [joinClauseO_flat] at hx ⊢
  obtain ⟨r, hrm, hxr⟩ := List.mem_flatMap.mp hx
  refine List.mem_flatMap.mpr ⟨r, hr r hrm, ?_⟩
  rw [specJoinO_eq, ← joinClause_single] at hxr ⊢
  have hc' : (withRowObjBounds c r).optional = false := by rw [withRowObjBounds_eq]; exact hc
  exact BW.Proofs.Query.joinClause_mono scan scan' glo ghi [r] [r] _ hc' hs (fun _ h => h) x hxr

/-- Adding triples never removes solutions of a pattern without OPTIONAL. -/
theorem solutionsO_mono (scan scan' : List Triple) (glo ghi : Option Int) (cs : List Clause)
    (hc : ∀ c ∈ cs, c.optional = false) (hs : ∀ t ∈ scan, t ∈ scan') :
    ∀ r ∈ solutionsO scan glo ghi cs, r ∈ solutionsO scan' glo ghi cs := by
  unfold solutionsO
  suffices H : ∀ (rows rows' : List Row), (∀ r ∈ rows, r ∈ rows') →
      ∀ r ∈ cs.foldl (joinClauseO scan glo ghi) rows, r ∈ cs.foldl (joinClauseO scan' glo ghi) rows' from
    H [[]] [[]] (fun r h => h)
  induction cs with
  | nil => intro rows rows' h r hr; exact h r hr
  | cons c cs ih =>
    intro rows rows' h
    simp only [List.foldl_cons]
    apply ih (fun c hc' => hc c (List.mem_cons_of_mem _ hc'))
    exact joinClauseO_mono scan scan' glo ghi rows rows' c (hc c (by simp)) hs h

/-- **Partition, for the planner.** The same triples spread differently over the FROM graphs: the planner
    leaves the same set of rows. -/
theorem planner_partition {gs gs' : List QGraph} {F : Facts} (hF : Facts.WF F = true) (hg : GraphsOK F gs) (hg' : GraphsOK F gs')
    (U : Universe gs) (U' : Universe gs') (lo : QOpts) (c0 : Clause) (cs : List Clause)
    (hscan : (gs.flatMap scanOf).Perm (gs'.flatMap scanOf))
    (hpc : ∀ c ∈ c0 :: cs, PatClause U c) (hpc' : ∀ c ∈ c0 :: cs, PatClause U' c)
    (hopt : c0.optional = false) (h0 : c0.extractsNothing = false)
    (out out' : Tbl) (h : processPattern F gs (c0 :: cs) lo 0 (fun _ => none) = .ok out)
    (h' : processPattern F gs' (c0 :: cs) lo 0 (fun _ => none) = .ok out') :
    SetEq out.rows out'.rows := by
  have s1 := processPattern_spec hF hg U lo c0 cs (hpc c0 List.mem_cons_self)
    (fun c hc => hpc c (List.mem_cons_of_mem _ hc)) hopt h0 out h
  have s2 := processPattern_spec hF hg' U' lo c0 cs (hpc' c0 List.mem_cons_self)
    (fun c hc => hpc' c (List.mem_cons_of_mem _ hc)) hopt h0 out' h'
  exact (s1.trans (SetEq.of_perm (solutionsO_perm_scan _ _ _ _ (c0 :: cs) hscan))).trans s2.symm

/-- **More data, no fewer rows, for the planner** (patterns without OPTIONAL). -/
theorem planner_monotone {gs gs' : List QGraph} {F : Facts} (hF : Facts.WF F = true) (hg : GraphsOK F gs) (hg' : GraphsOK F gs')
    (U : Universe gs) (U' : Universe gs') (lo : QOpts) (c0 : Clause) (cs : List Clause)
    (hsub : ∀ t ∈ gs.flatMap scanOf, t ∈ gs'.flatMap scanOf)
    (hpc : ∀ c ∈ c0 :: cs, PatClause U c ∧ c.optional = false) (hpc' : ∀ c ∈ c0 :: cs, PatClause U' c)
    (h0 : c0.extractsNothing = false)
    (out out' : Tbl) (h : processPattern F gs (c0 :: cs) lo 0 (fun _ => none) = .ok out)
    (h' : processPattern F gs' (c0 :: cs) lo 0 (fun _ => none) = .ok out') :
    ∀ r ∈ out.rows, ∃ r' ∈ out'.rows, RowEq r r' := by
  have s1 := processPattern_spec hF hg U lo c0 cs (hpc c0 List.mem_cons_self).1
    (fun c hc => (hpc c (List.mem_cons_of_mem _ hc)).1) (hpc c0 List.mem_cons_self).2 h0 out h
  have s2 := processPattern_spec hF hg' U' lo c0 cs (hpc' c0 List.mem_cons_self)
    (fun c hc => hpc' c (List.mem_cons_of_mem _ hc)) (hpc c0 List.mem_cons_self).2 h0 out' h'
  intro r hr
  obtain ⟨x, hx, e1⟩ := s1.1 r hr
  have hx' := solutionsO_mono _ _ _ _ (c0 :: cs) (fun c hc => (hpc c hc).2) hsub x hx
  obtain ⟨r', hr', e2⟩ := s2.2 x hx'
  exact ⟨r', hr', e1.trans e2.symm⟩

end BW.Proofs.Planner

namespace BW.Proofs.Planner
open BW.Proofs.Projection

/-- The reference's projection shows, column by column, the same cell (up to anchor zone) on rows that are equal up to
    anchor zone. -/
theorem project_get_norm (ps : List Proj) (hb : ∀ p ∈ ps, p.binding ≠ []) (hn : (ps.map Proj.out).Nodup)
    {r x : Row} (e : RowEq r x) (p : Proj) (hp : p ∈ ps) :
    ((project ps r).get p.out).map normCell = ((project ps x).get p.out).map normCell := by
  have hone : p.out ≠ [] := by
    by_cases ha : p.alias = []
    · rw [out_of_noalias p ha]; exact hb p hp
    · rw [out_of_alias p ha]; exact ha
  rw [project_eq, project_eq, spec_get ps r hn [] p hp hone, spec_get ps x hn [] p hp hone]
  have := e p.binding
  cases h1 : r.get p.binding <;> cases h2 : x.get p.binding <;> simp [h1, h2] at this ⊢
  exact this

/-- **SELECT without GROUP BY, end to end.** The rows the planner projects (`projectRow` of the rows of its table) and
    the reference's projections of the solutions show the same cells in the same output columns: every projected row
    is the projection of a solution and every solution's projection is shown by some row (sets of rows, anchors up to
    zone). -/
theorem select_plain_spec {gs : List QGraph} {F : Facts} (hF : Facts.WF F = true) (hg : GraphsOK F gs) (U : Universe gs) (lo : QOpts)
    (c0 : Clause) (cs : List Clause) (h0 : PatClause U c0) (hrest : ∀ c ∈ cs, PatClause U c)
    (hopt : c0.optional = false) (hex : c0.extractsNothing = false) (out : Tbl)
    (h : processPattern F gs (c0 :: cs) lo 0 (fun _ => none) = .ok out)
    (ps : List Proj) (hb : ∀ p ∈ ps, p.binding ≠ []) (hn : (ps.map Proj.out).Nodup)
    (hr : ∀ r ∈ out.rows, ∀ p ∈ ps, r.has p.binding = true) :
    (∀ r ∈ out.rows, ∃ x ∈ solutionsO (gs.flatMap scanOf) (nl lo.lower) (nl lo.upper) (c0 :: cs),
      ∀ p ∈ ps, ((projectRow ps r).get p.out).map normCell = ((project ps x).get p.out).map normCell) ∧
    (∀ x ∈ solutionsO (gs.flatMap scanOf) (nl lo.lower) (nl lo.upper) (c0 :: cs), ∃ r ∈ out.rows,
      ∀ p ∈ ps, ((projectRow ps r).get p.out).map normCell = ((project ps x).get p.out).map normCell) := by
  have hs := processPattern_spec hF hg U lo c0 cs h0 hrest hopt hex out h
  constructor
  · intro r hrm
    obtain ⟨x, hx, e⟩ := hs.1 r hrm
    refine ⟨x, hx, fun p hp => ?_⟩
    rw [projection_spec ps r hb hn (hr r hrm) p hp]
    exact project_get_norm ps hb hn e p hp
  · intro x hx
    obtain ⟨r, hrm, e⟩ := hs.2 x hx
    refine ⟨r, hrm, fun p hp => ?_⟩
    rw [projection_spec ps r hb hn (hr r hrm) p hp]
    exact project_get_norm ps hb hn e p hp

end BW.Proofs.Planner
