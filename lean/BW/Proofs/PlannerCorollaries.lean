/-
Corollaries of `processPattern_spec` for C14: what holds for the reference's solutions — invariance under the
order of the clauses, under the partition of the triples over the FROM graphs, monotonicity — holds for the
planner's table (as a set of rows).
-/
import BW.Proofs.PlannerStep11
open BW.Model BW.Spec BW.Proofs.ClauseOrder BW.Proofs.Planner BW.Proofs.Store

namespace BW.Proofs.Planner

theorem relL_setEq {l l' : List Row} (h : RelL l l') : SetEq l l' := by
  induction h with
  | nil => exact SetEq.refl []
  | cons hab _ ih =>
    constructor
    · intro r hr
      rcases List.mem_cons.mp hr with e | hm
      · subst e; exact ⟨_, List.mem_cons_self, hab⟩
      · obtain ⟨r', hr', e⟩ := ih.1 r hm; exact ⟨r', List.mem_cons_of_mem _ hr', e⟩
    · intro r hr
      rcases List.mem_cons.mp hr with e | hm
      · subst e; exact ⟨_, List.mem_cons_self, hab⟩
      · obtain ⟨r', hr', e⟩ := ih.2 r hm; exact ⟨r', List.mem_cons_of_mem _ hr', e⟩

theorem permEq_setEq {l l' : List Row} (h : PermEq l l') : SetEq l l' := by
  obtain ⟨m, hp, hr⟩ := h
  exact (SetEq.of_perm hp).trans (relL_setEq hr)

/-- **Clause order, for the planner.** Two ways of writing the same conjunctive pattern (no OPTIONAL, no
    predicate bounded by another clause's bindings) — the clauses in another order — make the planner leave
    the same set of rows, whatever strategies the two orders make it pick. -/
theorem planner_clause_order {gs : List QGraph} {F : Facts} (hF : Facts.WF F = true) (hg : GraphsOK F gs) (U : Universe gs) (lo : QOpts)
    (c0 : Clause) (cs : List Clause) (c0' : Clause) (cs' : List Clause) (hp : (c0 :: cs).Perm (c0' :: cs'))
    (hpc : ∀ c ∈ c0 :: cs, PatClause U c ∧ Plain c)
    (hno : ∀ c ∈ c0 :: cs, c.oLowerAlias = [] ∧ c.oUpperAlias = [])
    (h0 : c0.extractsNothing = false) (h0' : c0'.extractsNothing = false)
    (out out' : Tbl) (h : processPattern F gs (c0 :: cs) lo 0 (fun _ => none) = .ok out)
    (h' : processPattern F gs (c0' :: cs') lo 0 (fun _ => none) = .ok out') :
    SetEq out.rows out'.rows := by
  have hpc' : ∀ c ∈ c0' :: cs', PatClause U c ∧ Plain c := fun c hc => hpc c (hp.mem_iff.mpr hc)
  have s1 := processPattern_spec_plain hF hg U lo c0 cs (hpc c0 List.mem_cons_self).1
    (fun c hc => (hpc c (List.mem_cons_of_mem _ hc)).1) hno (hpc c0 List.mem_cons_self).2.1 h0 out h
  have s2 := processPattern_spec_plain hF hg U lo c0' cs' (hpc' c0' List.mem_cons_self).1
    (fun c hc => (hpc' c (List.mem_cons_of_mem _ hc)).1) (fun c hc => hno c (hp.mem_iff.mpr hc)) (hpc' c0' List.mem_cons_self).2.1 h0' out' h'
  have hn1 : AllNodup ([[]] : List Row) := by
    intro r hr; simp only [List.mem_singleton] at hr; subst hr; exact List.nodup_nil
  have mid : PermEq (solutions (gs.flatMap scanOf) (nl lo.lower) (nl lo.upper) (c0 :: cs))
      (solutions (gs.flatMap scanOf) (nl lo.lower) (nl lo.upper) (c0' :: cs')) :=
    foldl_clause_perm _ _ _ (c0 :: cs) (c0' :: cs') hp (fun c hc => (hpc c hc).2) [[]] hn1
  exact (s1.trans (permEq_setEq mid)).trans s2.symm

end BW.Proofs.Planner

namespace BW.Proofs.Planner

/-- **Partition, for the planner.** The same triples spread differently over the FROM graphs: the planner
    leaves the same set of rows. -/
theorem planner_partition {gs gs' : List QGraph} {F : Facts} (hF : Facts.WF F = true) (hg : GraphsOK F gs) (hg' : GraphsOK F gs')
    (U : Universe gs) (U' : Universe gs') (lo : QOpts) (c0 : Clause) (cs : List Clause)
    (hscan : (gs.flatMap scanOf).Perm (gs'.flatMap scanOf))
    (hpc : ∀ c ∈ c0 :: cs, PatClause U c) (hpc' : ∀ c ∈ c0 :: cs, PatClause U' c)
    (hno : ∀ c ∈ c0 :: cs, c.oLowerAlias = [] ∧ c.oUpperAlias = [])
    (hopt : c0.optional = false) (h0 : c0.extractsNothing = false)
    (out out' : Tbl) (h : processPattern F gs (c0 :: cs) lo 0 (fun _ => none) = .ok out)
    (h' : processPattern F gs' (c0 :: cs) lo 0 (fun _ => none) = .ok out') :
    SetEq out.rows out'.rows := by
  have s1 := processPattern_spec_plain hF hg U lo c0 cs (hpc c0 List.mem_cons_self)
    (fun c hc => hpc c (List.mem_cons_of_mem _ hc)) hno hopt h0 out h
  have s2 := processPattern_spec_plain hF hg' U' lo c0 cs (hpc' c0 List.mem_cons_self)
    (fun c hc => hpc' c (List.mem_cons_of_mem _ hc)) hno hopt h0 out' h'
  exact (s1.trans (SetEq.of_perm (BW.Proofs.Query.solutions_perm_scan _ _ _ _ (c0 :: cs) hscan))).trans s2.symm

/-- **More data, no fewer rows, for the planner** (patterns without OPTIONAL). -/
theorem planner_monotone {gs gs' : List QGraph} {F : Facts} (hF : Facts.WF F = true) (hg : GraphsOK F gs) (hg' : GraphsOK F gs')
    (U : Universe gs) (U' : Universe gs') (lo : QOpts) (c0 : Clause) (cs : List Clause)
    (hsub : ∀ t ∈ gs.flatMap scanOf, t ∈ gs'.flatMap scanOf)
    (hpc : ∀ c ∈ c0 :: cs, PatClause U c ∧ c.optional = false) (hpc' : ∀ c ∈ c0 :: cs, PatClause U' c)
    (hno : ∀ c ∈ c0 :: cs, c.oLowerAlias = [] ∧ c.oUpperAlias = [])
    (h0 : c0.extractsNothing = false)
    (out out' : Tbl) (h : processPattern F gs (c0 :: cs) lo 0 (fun _ => none) = .ok out)
    (h' : processPattern F gs' (c0 :: cs) lo 0 (fun _ => none) = .ok out') :
    ∀ r ∈ out.rows, ∃ r' ∈ out'.rows, RowEq r r' := by
  have s1 := processPattern_spec_plain hF hg U lo c0 cs (hpc c0 List.mem_cons_self).1
    (fun c hc => (hpc c (List.mem_cons_of_mem _ hc)).1) hno (hpc c0 List.mem_cons_self).2 h0 out h
  have s2 := processPattern_spec_plain hF hg' U' lo c0 cs (hpc' c0 List.mem_cons_self)
    (fun c hc => hpc' c (List.mem_cons_of_mem _ hc)) hno (hpc c0 List.mem_cons_self).2 h0 out' h'
  intro r hr
  obtain ⟨x, hx, e1⟩ := s1.1 r hr
  have hx' := BW.Proofs.Query.solutions_mono _ _ _ _ (c0 :: cs) (fun c hc => (hpc c hc).2) hsub x hx
  obtain ⟨r', hr', e2⟩ := s2.2 x hx'
  exact ⟨r', hr', e1.trans e2.symm⟩

end BW.Proofs.Planner
